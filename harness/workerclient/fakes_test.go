// Package workerclient decides C08: builder.BuildClient (Run and
// LaunchWorkerThread) against a scripted scheduler, an instrumented
// BuildExecutor and a harness-owned clock, inside testing/synctest.
//
// Everything the oracle needs is observed at three places only: the
// SynchronizeRequests the scripted scheduler receives, the Execute /
// ctx.Done() events the instrumented executor sees, and the values Run
// returns. No field of BuildClient is read.
package workerclient

import (
	"context"
	"crypto/sha256"
	"encoding/hex"
	"fmt"
	"io"
	"log"
	"os"
	"runtime"
	"sort"
	"sync"
	"testing"
	"time"

	remoteexecution "github.com/bazelbuild/remote-apis/build/bazel/remote/execution/v2"
	"github.com/buildbarn/bb-remote-execution/pkg/filesystem/access"
	"github.com/buildbarn/bb-remote-execution/pkg/filesystem/pool"
	"github.com/buildbarn/bb-remote-execution/pkg/proto/remoteworker"
	"github.com/buildbarn/bb-storage/pkg/clock"
	"github.com/buildbarn/bb-storage/pkg/digest"
	"github.com/buildbarn/bb-storage/pkg/program"

	"google.golang.org/grpc"
	"google.golang.org/grpc/codes"
	"google.golang.org/grpc/status"
	"google.golang.org/protobuf/proto"
	"google.golang.org/protobuf/types/known/emptypb"
	"google.golang.org/protobuf/types/known/timestamppb"
)

func TestMain(m *testing.M) {
	// One P: a goroutine made runnable by a channel operation does not run
	// before the goroutine that woke it blocks or yields. Together with
	// synctest.Wait() this makes the interleaving of Run with the executor
	// goroutine a function of the generated script (see fakeTimer.Stop for
	// the one generated yield point).
	runtime.GOMAXPROCS(1)
	log.SetOutput(io.Discard) // LaunchWorkerThread logs every error
	os.Exit(m.Run())
}

// harnessFailure is the panic value used to carry an oracle failure out of
// a synctest bubble.
type harnessFailure string

func failf(format string, args ...any) {
	panic(harnessFailure(fmt.Sprintf(format, args...)))
}

// ---------------------------------------------------------------------
// Plans: everything random is drawn into these before it is used.

// actionPlan describes one action the scripted scheduler hands out and how
// the instrumented executor behaves while running it.
type actionPlan struct {
	Digest     int    `json:"digest"`                // index into a pool of 3 action digests (repeats on purpose)
	Code       int    `json:"code"`                  // gRPC status code in the ExecuteResponse, 0 = OK
	Exit       int    `json:"exit,omitempty"`        // exit code in the ActionResult
	OnCancel   string `json:"on_cancel"`             // "prompt": return once ctx.Done() is seen; "park": wait for a release step
	CancelEmit int    `json:"cancel_emit,omitempty"` // progress updates still emitted after ctx.Done() was seen
	Trace      string `json:"trace,omitempty"`       // w3c trace context: "", "valid", "junk"
	Suffix     string `json:"suffix,omitempty"`      // instance name suffix
	// DF: digest_function of the execute request. "" = SHA256; "UNKNOWN",
	// "VSO", "MURMUR3", "1000", "-1" are values BuildClient.startExecution
	// cannot resolve (InstanceName.GetDigestFunction with hash length 0).
	DF string `json:"df,omitempty"`
	// BadDigest: a malformed action_digest ("short_hash", "nonhex",
	// "neg_size", "empty_hash"). BuildClient does not look at it: the request
	// is a valid one, Execute is started and the reports echo the digest.
	BadDigest string `json:"bad_digest,omitempty"`
	// Reject: the generator's classification. Non-empty ("df", "suffix",
	// "df+suffix") = the request fails the worker's validation in
	// startExecution (digest function it cannot resolve, instance name
	// suffix with a reserved keyword component or redundant slashes).
	Reject string `json:"reject,omitempty"`
	// Loop test only (the executor is autonomous there, on bubble time).
	RunMs         int `json:"run_ms,omitempty"`
	Updates       int `json:"updates,omitempty"`
	GapMs         int `json:"gap_ms,omitempty"`
	CancelDelayMs int `json:"cancel_delay_ms,omitempty"`
}

// replyPlan describes what the scripted scheduler does with one
// Synchronize call.
type replyPlan struct {
	Kind string `json:"kind"` // "exec", "idle", "nil" (no desired state), "rpcerr"
	// TS: "valid" (now+OffNs), or an invalid next_synchronization_at:
	// "absent", "secs_hi", "secs_lo", "nanos_neg", "nanos_hi".
	TS    string      `json:"ts,omitempty"`
	OffNs int64       `json:"off_ns,omitempty"`
	Act   *actionPlan `json:"act,omitempty"`
	// Park (Run test): the call blocks until a release step or until the
	// context it was given is cancelled (then it fails like gRPC would).
	Park bool `json:"park,omitempty"`
	// LatencyMs (loop test): the call takes this long (or fails early when
	// its context is cancelled).
	LatencyMs int `json:"latency_ms,omitempty"`
	// NilToCompleted (Kind "nil" only): if the request turns out to report
	// Completed, desired_state is really left unset (a reply no scheduler in
	// the tree sends; see Synchronize) instead of being replaced by "idle".
	NilToCompleted bool `json:"nil_to_completed,omitempty"`
}

// ---------------------------------------------------------------------
// Action records: the instrumentation's ground truth about one action.

type actionRec struct {
	idx      int
	plan     actionPlan
	desired  *remoteworker.DesiredState_Executing
	digest   *remoteexecution.Digest
	response *remoteexecution.ExecuteResponse // the one object Execute returns
	valid    bool                             // delivered in a reply the worker must act upon
	whyNot   string                           // !valid: why the worker must not start it

	started  bool
	returned bool
	ctx      context.Context
	updates  chan<- *remoteworker.CurrentState_Executing
	emitted  []*remoteworker.CurrentState_Executing
	// where the Execute goroutine is blocked: "cmd" (waiting for the
	// harness), "send" (blocked or busy sending progress updates),
	// "cancelpark" (saw ctx.Done, waits for a release step), "returned".
	where   string
	cmds    chan execCmd
	release chan struct{}

	lastReported      int // index into emitted of the newest update reported; -1 = Started
	completedReported bool

	// Freshness / completion oracle (see availSnap).
	sent        int       // progress updates whose channel send has completed
	returnedAt  time.Time // clock reading when Execute returned
	minRequired int       // every later report about this action must be at least this new (idxStarted .. idxCompleted)
	minWhy      string
}

// Position of a reported execution state in the sequence the worker's update
// channel carries for one action: Started (set by the worker itself), then
// emitted[0], emitted[1], ..., then Completed.
const (
	idxStarted   = -1
	idxCompleted = 1 << 30
)

// availSnap is a lower bound on what BuildClient.Run must have consumed from
// the update channel of action a before it sends its next request: taken at
// an instant at which Run is about to reach its select with the
// synchronisation timer not yet expired and idx already sitting in the
// channel buffer (a receive from a non-empty channel wins against a timer
// that has not fired, and consumeExecutionUpdatesNonBlocking then reads until
// the buffer is empty: "Send a new update with the latest state").
type availSnap struct {
	a   *actionRec
	idx int
	at  time.Time
	why string
}

// stayIdleObligation: see world.stayIdle.
type stayIdleObligation struct {
	why       string    // the failed outcome ("rpcerr", "invalid_ts(absent)", "exec_rejected(df)", ...)
	req       int       // number of the request the failed Synchronize call carried (first of a streak)
	at        time.Time // clock reading when that call returned
	failures  int       // failed outcomes since the last successful CheckReadiness
	calls     int       // CheckReadiness calls made so far, when the obligation was raised
	successes int       // CheckReadiness calls that had returned nil so far, when it was raised
}

type execCmd struct {
	emit   int
	finish bool
}

var digestPool = func() []*remoteexecution.Digest {
	var out []*remoteexecution.Digest
	for i := 0; i < 3; i++ {
		h := sha256.Sum256([]byte{byte(i)})
		out = append(out, &remoteexecution.Digest{Hash: hex.EncodeToString(h[:]), SizeBytes: int64(100 + i)})
	}
	return out
}()

func describeDigest(d *remoteexecution.Digest) string {
	if d == nil {
		return "<nil>"
	}
	h := d.Hash
	if len(h) > 8 {
		h = h[:8]
	}
	return fmt.Sprintf("%s/%d", h, d.SizeBytes)
}

// ---------------------------------------------------------------------
// world: scripted scheduler + instrumented executor + the history model.

type world struct {
	mu    sync.Mutex
	clock clock.Clock
	loop  bool // autonomous mode (TestC08WorkerThreadLoop)

	violations []string
	labels     map[string]int

	// Executor side.
	actions     []*actionRec
	active      int
	lastStarted *actionRec

	// CheckReadiness plan. Run test: one entry per Run; loop test: a queue.
	readiness     []string // "ok", "err", "park_ok", "park_err"
	readinessPark chan struct{}
	readinessOK   bool // a CheckReadiness succeeded since the last failure / start
	readinessThis bool // ... during the current Run (diagnostic only)
	diagNoSameRun int
	// Counted by the fake executor itself: CheckReadiness calls that were made
	// and calls that returned nil.
	readinessCalls     int
	readinessSuccesses int
	// stayIdle: the obligation "after a failure ... asks to stay idle until
	// readiness has been re-checked" raised by a non-OK outcome of a
	// Synchronize call (RPC error, invalid/absent next_synchronization_at,
	// execute request that fails the worker's validation). It is discharged by
	// one thing only: a CheckReadiness call that was really made after the
	// failure and returned nil (readinessSuccesses > stayIdle.successes). No
	// amount of time passing ends it; in particular not the expiry of the
	// one-minute bound after which the scheduler is assumed to have forgotten
	// the worker (that bound is about when the worker may terminate).
	stayIdle *stayIdleObligation

	// Scheduler side.
	replies  []*replyPlan // Run test: at most one pending; loop test: a queue
	syncPark chan struct{}
	inSync   bool
	nSync    int
	arrived  chan struct{} // loop test: one token per received request
	cleanup  bool          // harness epilogue: always reply "idle", shutdown oracle off

	// History model, from the scheduler's point of view.
	cur            *actionRec // action the worker was last validly told to run; nil after a valid "idle"
	mayBelieveExec bool       // the scheduler may believe the worker is executing
	refSync        time.Time  // last next_synchronization_at the worker validly received
	// Earliest next_synchronization_at carried by an execute request that
	// failed the worker's validation, since the last reply the worker acted
	// upon (nil = none). Such a reply is well-formed, so its timestamp is "a
	// synchronization time provided by the scheduler" as much as refSync is;
	// BuildClient adopts it for its timer but keeps the one-minute bound it
	// derived from the previous one. The may-terminate oracle accepts either
	// reading: the bound is the earlier of the two (see mayTerminateAllowed).
	refSyncRejected *time.Time
	shutdown        bool // the outer context has been cancelled

	// Freshness / completion oracle: what the next request must at least
	// report (nil = nothing demanded). Consumed by checkRequest.
	avail *availSnap
	// A valid "no desired state" reply to a Completed report was delivered
	// (NilToCompleted) and no valid execute/idle reply since: the one-minute
	// branch of the may-terminate oracle is not judged (observation O1).
	nilToCompletedTaint bool
	// Loop test: Synchronize calls received at one bubble instant.
	spinAt    time.Time
	spinCount int
	halt      chan struct{} // loop test: closed never; Synchronize parks here once a violation is recorded
	violated  chan struct{} // loop test: closed at the first violation

	// Facts about the current Run (Run test) for the return-time oracle.
	lastReplyKind  string // kind of the last reply handed out ("" = none in this Run)
	lastReplyValid bool
	excluded       map[string]int
}

func newWorld(c clock.Clock, loop bool) *world {
	return &world{
		clock:    c,
		loop:     loop,
		labels:   map[string]int{},
		excluded: map[string]int{},
		refSync:  c.Now(), // NewBuildClient: nextSynchronizationAt = clock.Now()
		arrived:  make(chan struct{}, 1<<16),
		halt:     make(chan struct{}),
		violated: make(chan struct{}),
	}
}

func (w *world) violate(format string, args ...any) {
	if len(w.violations) == 0 && w.violated != nil {
		select {
		case <-w.violated:
		default:
			close(w.violated)
		}
	}
	w.violations = append(w.violations, fmt.Sprintf(format, args...))
}

func (w *world) label(l string) { w.labels[l]++ }

func (w *world) takeViolations() []string {
	w.mu.Lock()
	defer w.mu.Unlock()
	v := w.violations
	w.violations = nil
	return v
}

func (w *world) sortedLabels() []string {
	w.mu.Lock()
	defer w.mu.Unlock()
	var out []string
	for l := range w.labels {
		out = append(out, l)
	}
	sort.Strings(out)
	return out
}

// activeAction returns the action whose Execute has started and not yet
// returned (there is at most one unless a violation was recorded).
func (w *world) activeAction() *actionRec {
	w.mu.Lock()
	defer w.mu.Unlock()
	for i := len(w.actions) - 1; i >= 0; i-- {
		if a := w.actions[i]; a.started && !a.returned {
			return a
		}
	}
	return nil
}

func (w *world) whereOf(a *actionRec) string {
	w.mu.Lock()
	defer w.mu.Unlock()
	return a.where
}

// ----- BuildExecutor

func (w *world) CheckReadiness(ctx context.Context) error {
	w.mu.Lock()
	w.readinessCalls++
	plan := "ok"
	if len(w.readiness) > 0 {
		plan = w.readiness[0]
		w.readiness = w.readiness[1:]
	}
	var park chan struct{}
	if plan == "park_ok" || plan == "park_err" {
		park = make(chan struct{})
		w.readinessPark = park
		w.label("readiness_parked")
	}
	w.mu.Unlock()
	if park != nil {
		<-park
	}
	w.mu.Lock()
	defer w.mu.Unlock()
	w.readinessPark = nil
	if plan == "err" || plan == "park_err" {
		w.readinessOK = false
		w.label("readiness_fail")
		return status.Error(codes.Internal, "scripted readiness failure")
	}
	w.readinessOK = true
	w.readinessThis = true
	w.readinessSuccesses++
	return nil
}

// raiseStayIdle records a non-OK outcome of a Synchronize call (w.mu held).
// The first failure since the last successful CheckReadiness is kept for the
// message; later ones are counted.
func (w *world) raiseStayIdle(why string) {
	if o := w.stayIdle; o != nil && o.successes == w.readinessSuccesses {
		o.failures++
		return
	}
	w.stayIdle = &stayIdleObligation{why: why, req: w.nSync, at: w.clock.Now(), failures: 1, calls: w.readinessCalls, successes: w.readinessSuccesses}
}

// stayIdlePending returns the obligation if no CheckReadiness call has been
// made and succeeded since it was raised (w.mu held).
func (w *world) stayIdlePending() *stayIdleObligation {
	if o := w.stayIdle; o != nil && o.successes == w.readinessSuccesses {
		return o
	}
	return nil
}

func (w *world) newUpdate(a *actionRec) *remoteworker.CurrentState_Executing {
	u := &remoteworker.CurrentState_Executing{ActionDigest: a.digest}
	switch len(a.emitted) % 3 {
	case 0:
		u.ExecutionState = &remoteworker.CurrentState_Executing_FetchingInputs{FetchingInputs: &emptypb.Empty{}}
	case 1:
		u.ExecutionState = &remoteworker.CurrentState_Executing_Running{Running: &emptypb.Empty{}}
	default:
		u.ExecutionState = &remoteworker.CurrentState_Executing_UploadingOutputs{UploadingOutputs: &emptypb.Empty{}}
	}
	a.emitted = append(a.emitted, u)
	return u
}

// emit sends n progress updates with plain blocking sends, like every real
// BuildExecutor in pkg/builder does (none of them selects on ctx.Done()
// while sending).
func (w *world) emit(a *actionRec, n int) {
	for i := 0; i < n; i++ {
		w.mu.Lock()
		u := w.newUpdate(a)
		a.where = "send"
		if len(a.updates) == cap(a.updates) {
			w.label("update_channel_full")
		}
		w.mu.Unlock()
		a.updates <- u
		w.mu.Lock()
		a.sent++
		w.mu.Unlock()
	}
}

func (w *world) Execute(ctx context.Context, filePool pool.FilePool, monitor access.UnreadDirectoryMonitor, digestFunction digest.Function, request *remoteworker.DesiredState_Executing, updates chan<- *remoteworker.CurrentState_Executing) *remoteexecution.ExecuteResponse {
	w.mu.Lock()
	var a *actionRec
	for _, c := range w.actions {
		if c.desired == request {
			a = c
		}
	}
	if a == nil {
		w.violate("Execute called with a request object the scheduler never sent")
		w.mu.Unlock()
		return &remoteexecution.ExecuteResponse{}
	}
	if a.started {
		w.violate("Execute called twice for the same scheduler reply (action#%d)", a.idx)
	}
	// The goroutine that calls Execute is spawned by Run and may be
	// scheduled late, even after a newer instruction arrived (its context is
	// cancelled by then). What must hold: only validly delivered actions are
	// started, in the order in which they were handed out.
	if !a.valid {
		w.violate("Execute started for action#%d, which was delivered in a reply the worker had to discard (%s); last valid instruction: %s", a.idx, a.whyNot, describeCur(w.cur))
	}
	if p := w.lastStarted; p != nil && p.idx >= a.idx {
		w.violate("Execute started for action#%d after the later action#%d had already been started", a.idx, p.idx)
	}
	if a != w.cur {
		w.label("execute_entered_after_being_superseded")
	}
	if w.active != 0 {
		w.violate("two Execute calls active at once: action#%d started while %d other(s) had not returned", a.idx, w.active)
	}
	if p := w.lastStarted; p != nil {
		if !p.returned {
			w.violate("action#%d started before the previous action#%d had returned", a.idx, p.idx)
		}
		if p.ctx.Err() == nil {
			w.violate("action#%d started although the context of the previous action#%d was never cancelled", a.idx, p.idx)
		}
		if !p.returned && p.ctx.Err() != nil {
			w.label("violation_prev_cancelled_not_waited")
		}
	}
	a.started = true
	a.ctx = ctx
	a.updates = updates
	a.where = "cmd"
	w.active++
	w.lastStarted = a
	w.mu.Unlock()

	defer func() {
		w.mu.Lock()
		a.returned = true
		a.returnedAt = w.clock.Now()
		a.where = "returned"
		w.active--
		w.mu.Unlock()
	}()

	if w.loop {
		return w.executeAutonomous(ctx, a)
	}
	for {
		select {
		case cmd := <-a.cmds:
			if cmd.finish {
				return a.response
			}
			w.emit(a, cmd.emit)
			w.mu.Lock()
			a.where = "cmd"
			w.mu.Unlock()
		case <-ctx.Done():
			w.emit(a, a.plan.CancelEmit)
			if a.plan.OnCancel == "park" {
				w.mu.Lock()
				a.where = "cancelpark"
				w.mu.Unlock()
				<-a.release
			}
			return a.response
		}
	}
}

func (w *world) executeAutonomous(ctx context.Context, a *actionRec) *remoteexecution.ExecuteResponse {
	cancelled := func() *remoteexecution.ExecuteResponse {
		w.emit(a, a.plan.CancelEmit)
		time.Sleep(time.Duration(a.plan.CancelDelayMs) * time.Millisecond)
		return a.response
	}
	wait := func(d time.Duration) bool {
		t := time.NewTimer(d)
		defer t.Stop()
		select {
		case <-t.C:
			return true
		case <-ctx.Done():
			return false
		}
	}
	for i := 0; i < a.plan.Updates; i++ {
		if !wait(time.Duration(a.plan.GapMs) * time.Millisecond) {
			return cancelled()
		}
		w.emit(a, 1)
	}
	if !wait(time.Duration(a.plan.RunMs) * time.Millisecond) {
		return cancelled()
	}
	return a.response
}

func describeCur(a *actionRec) string {
	if a == nil {
		return "nothing: idle"
	}
	return fmt.Sprintf("action#%d", a.idx)
}

// ----- OperationQueueClient

const (
	repIdle = iota
	repExecuting
	repCompleted
	repBroken
)

// checkRequest is the request oracle. Called with w.mu held, at the
// instant the scheduler receives the request.
func (w *world) checkRequest(req *remoteworker.SynchronizeRequest) int {
	pbi := req.PreferBeingIdle
	snap := w.avail
	w.avail = nil
	if snap != nil && w.loop && !snap.at.Equal(w.clock.Now()) {
		// Loop test: the demand was derived for a Run that starts at the
		// instant the previous Synchronize returned; later the timer may be due.
		snap = nil
	}
	if w.shutdown && !w.cleanup && !pbi {
		w.violate("request #%d sent after shutdown began has prefer_being_idle=false (%s)", w.nSync, describeState(req))
	}
	cs := req.CurrentState
	if cs == nil {
		w.violate("request #%d has no current state", w.nSync)
		return repBroken
	}
	switch s := cs.WorkerState.(type) {
	case *remoteworker.CurrentState_Idle:
		if w.cur != nil {
			w.violate("request #%d reports Idle, but the scheduler's last valid instruction was to run action#%d and it never told the worker to go idle", w.nSync, w.cur.idx)
		}
		if !pbi {
			if !w.readinessOK {
				w.violate("request #%d is Idle with prefer_being_idle=false, but no CheckReadiness has succeeded since the last failure / start", w.nSync)
			}
			if !w.readinessThis {
				w.diagNoSameRun++
			}
			w.label("idle_soliciting")
		}
		// "After a failure ... it asks to stay idle until readiness has been
		// re-checked": a Synchronize call that ended in an RPC error, in a
		// reply with an invalid timestamp or in an execute request the worker
		// had to refuse may have cost an execute request, so the worker cannot
		// know what the scheduler believes and skips its readiness check
		// (build_client.go Run: "Even though we are idle, the scheduler may
		// think we are executing. This means we were not able to perform
		// readiness checks. Forcefully switch to idle, so that we can still do
		// this before picking up more work"). The obligation ends when the fake
		// executor has seen a CheckReadiness call made after the failure return
		// nil, never because time has passed.
		if o := w.stayIdlePending(); o != nil {
			// until = the bound BuildClient recorded at the first failure of the
			// streak: the next-sync time it had then, plus one minute. Failed
			// outcomes do not move refSync, so this is refSync + 1 min.
			expired := w.clock.Now().After(w.refSync.Add(time.Minute))
			if !pbi {
				w.violate("request #%d is Idle with prefer_being_idle=false after a failed synchronisation (%s at request #%d, %s ago, %d failed outcome(s) since), but readiness has not been re-checked since: CheckReadiness calls then/now %d/%d, successful ones %d/%d (last provided next-sync + 1 min expired: %v; shutdown: %v)",
					w.nSync, o.why, o.req, w.clock.Now().Sub(o.at), o.failures, o.calls, w.readinessCalls, o.successes, w.readinessSuccesses, expired, w.shutdown)
			}
			if !w.shutdown && !w.cleanup {
				// Outside shutdown nothing else forces prefer_being_idle.
				if expired {
					w.label("idle_request_after_failure_and_expired_bound")
				} else {
					w.label("idle_request_after_failure_within_bound")
				}
			}
		}
		return repIdle
	case *remoteworker.CurrentState_Executing_:
		e := s.Executing
		a := w.cur
		if a == nil {
			w.violate("request #%d reports %s, but the worker has not been told to run anything (last valid instruction: idle / none)", w.nSync, describeState(req))
			return repBroken
		}
		if e == nil || !proto.Equal(e.ActionDigest, a.digest) {
			w.violate("request #%d reports %s, but the action the worker was told to run is action#%d with digest %s", w.nSync, describeState(req), a.idx, describeDigest(a.digest))
			return repBroken
		}
		// Freshness / completion: what had reached the update channel before
		// this Run got to look at it must be reflected in this report and in
		// every later report about the same action.
		if snap != nil && snap.a == a {
			if snap.idx == idxCompleted && !a.completedReported {
				w.label("demand_completed")
			} else if snap.idx != idxCompleted && snap.idx > a.lastReported {
				w.label("demand_newer_update")
			}
			if snap.idx > a.minRequired {
				a.minRequired, a.minWhy = snap.idx, fmt.Sprintf("request #%d: %s", w.nSync, snap.why)
			}
		}
		if c, ok := e.ExecutionState.(*remoteworker.CurrentState_Executing_Completed); ok {
			if !a.started || !a.returned {
				w.violate("request #%d reports action#%d Completed, but its Execute has not returned", w.nSync, a.idx)
			}
			if c.Completed != a.response {
				w.violate("request #%d reports action#%d Completed with a response object that is not the one its Execute returned (got message %q, want %q)", w.nSync, a.idx, c.Completed.GetMessage(), a.response.GetMessage())
			}
			if a.plan.Code != 0 {
				if !pbi {
					w.violate("request #%d reports action#%d Completed with non-OK status code %d but prefer_being_idle=false", w.nSync, a.idx, a.plan.Code)
				}
				w.readinessOK = false
				w.label("completed_nonok_reported")
			} else {
				w.label("completed_ok_reported")
			}
			a.completedReported = true
			return repCompleted
		}
		if a.completedReported {
			w.violate("request #%d reports action#%d as still executing after it was reported Completed", w.nSync, a.idx)
		}
		idx := -2
		if _, ok := e.ExecutionState.(*remoteworker.CurrentState_Executing_Started); ok {
			idx = -1
		}
		for i, u := range a.emitted {
			if u == e {
				idx = i
			}
		}
		if idx == -2 {
			w.violate("request #%d reports an execution state for action#%d that its Execute never emitted: %s", w.nSync, a.idx, describeState(req))
			return repExecuting
		}
		if idx < a.lastReported {
			w.violate("request #%d reports update %d of action#%d after update %d had already been reported (stale state)", w.nSync, idx, a.idx, a.lastReported)
		}
		if idx < a.minRequired {
			if a.minRequired == idxCompleted {
				w.violate("request #%d reports action#%d as still executing (%s, update %d of %d emitted), but its Execute had returned and its Completed update had reached the update channel before the worker looked at the channel: completion not reported (demanded since %s)", w.nSync, a.idx, describeState(req), idx, len(a.emitted), a.minWhy)
			} else {
				w.violate("request #%d reports update %d of action#%d (%s), but the newer update %d was already buffered in the update channel when the worker looked at it: stale state instead of the latest one (demanded since %s)", w.nSync, idx, a.idx, describeState(req), a.minRequired, a.minWhy)
			}
		}
		a.lastReported = idx
		return repExecuting
	default:
		w.violate("request #%d has an unknown worker state", w.nSync)
		return repBroken
	}
}

// snapshotAvail computes, with w.mu held, the lower bound described at
// availSnap for the action the worker was last validly told to run.
// quiescent: every goroutine is durably blocked (Run test, between steps),
// so an Execute that has returned has also got as far as it can with sending
// Completed. Otherwise (loop test) that is only known if bubble time has
// advanced since Execute returned, because bubble time advances only when
// every goroutine is durably blocked.
func (w *world) snapshotAvail(quiescent bool) *availSnap {
	a := w.cur
	if a == nil || !a.started || a.updates == nil {
		return nil
	}
	now := w.clock.Now()
	n := len(a.updates)
	if a.returned && (quiescent || a.returnedAt.Before(now)) && n < cap(a.updates) {
		// The goroutine BuildClient spawned sends Completed right after
		// Execute returns and then closes the channel. It is not blocked on
		// a channel with free room, hence Completed has been delivered; it is
		// in the buffer now or was consumed by the worker earlier.
		return &availSnap{a: a, idx: idxCompleted, at: now, why: fmt.Sprintf("Execute had returned and %d of %d buffer slots were in use", n, cap(a.updates))}
	}
	if n > 0 && a.sent > 0 {
		// The buffer is not empty, so it holds the item delivered last: at
		// least emitted[sent-1] (or Completed, which is newer still).
		return &availSnap{a: a, idx: a.sent - 1, at: now, why: fmt.Sprintf("%d updates buffered, %d progress sends completed", n, a.sent)}
	}
	return nil
}

func describeState(req *remoteworker.SynchronizeRequest) string {
	cs := req.GetCurrentState()
	switch s := cs.GetWorkerState().(type) {
	case *remoteworker.CurrentState_Idle:
		return fmt.Sprintf("Idle pbi=%v", req.PreferBeingIdle)
	case *remoteworker.CurrentState_Executing_:
		e := s.Executing
		st := "?"
		switch x := e.GetExecutionState().(type) {
		case *remoteworker.CurrentState_Executing_Started:
			st = "Started"
		case *remoteworker.CurrentState_Executing_FetchingInputs:
			st = "FetchingInputs"
		case *remoteworker.CurrentState_Executing_Running:
			st = "Running"
		case *remoteworker.CurrentState_Executing_UploadingOutputs:
			st = "UploadingOutputs"
		case *remoteworker.CurrentState_Executing_Completed:
			st = fmt.Sprintf("Completed(%q)", x.Completed.GetMessage())
		}
		return fmt.Sprintf("Executing(%s, %s) pbi=%v", describeDigest(e.GetActionDigest()), st, req.PreferBeingIdle)
	}
	return "<no state>"
}

// defaultReply is what the scripted scheduler of the loop test does once
// its script is exhausted: it behaves like a scheduler without work.
func (w *world) defaultReply(reported int, pbi bool) *replyPlan {
	if w.cleanup {
		return &replyPlan{Kind: "idle", TS: "valid"}
	}
	switch {
	case reported == repExecuting:
		return &replyPlan{Kind: "nil", TS: "valid", OffNs: int64(10 * time.Second)}
	case pbi:
		return &replyPlan{Kind: "idle", TS: "valid"}
	default:
		// Blocks like the real scheduler does for a worker that asks for work.
		return &replyPlan{Kind: "idle", TS: "valid", LatencyMs: 10000}
	}
}

// digestFunctionOf maps actionPlan.DF to the enum value put on the wire.
func digestFunctionOf(df string) remoteexecution.DigestFunction_Value {
	switch df {
	case "":
		return remoteexecution.DigestFunction_SHA256
	case "UNKNOWN":
		return remoteexecution.DigestFunction_UNKNOWN
	case "VSO":
		return remoteexecution.DigestFunction_VSO
	case "MURMUR3":
		return remoteexecution.DigestFunction_MURMUR3
	case "1000":
		return remoteexecution.DigestFunction_Value(1000)
	case "-1":
		return remoteexecution.DigestFunction_Value(-1)
	}
	panic("unknown digest function plan " + df)
}

// malformedDigest returns a fresh action digest no digest function accepts.
func malformedDigest(kind string, good *remoteexecution.Digest) *remoteexecution.Digest {
	switch kind {
	case "short_hash":
		return &remoteexecution.Digest{Hash: good.Hash[:10], SizeBytes: good.SizeBytes}
	case "nonhex":
		return &remoteexecution.Digest{Hash: "zz" + good.Hash[2:], SizeBytes: good.SizeBytes}
	case "neg_size":
		return &remoteexecution.Digest{Hash: good.Hash, SizeBytes: -1}
	case "empty_hash":
		return &remoteexecution.Digest{SizeBytes: good.SizeBytes}
	}
	panic("unknown malformed digest plan " + kind)
}

func (w *world) newAction(p *actionPlan, now time.Time) *actionRec {
	actionDigest := digestPool[p.Digest]
	if p.BadDigest != "" {
		actionDigest = malformedDigest(p.BadDigest, actionDigest)
	}
	a := &actionRec{
		idx:          len(w.actions),
		plan:         *p,
		digest:       actionDigest,
		cmds:         make(chan execCmd),
		release:      make(chan struct{}),
		lastReported: -1,
		minRequired:  idxStarted,
	}
	a.response = &remoteexecution.ExecuteResponse{
		Result:  &remoteexecution.ActionResult{ExitCode: int32(p.Exit)},
		Message: fmt.Sprintf("response of action#%d", a.idx),
	}
	if p.Code != 0 {
		a.response.Status = status.New(codes.Code(p.Code), "scripted failure").Proto()
	}
	a.desired = &remoteworker.DesiredState_Executing{
		ActionDigest:       a.digest,
		Action:             &remoteexecution.Action{CommandDigest: digestPool[(p.Digest+1)%3]},
		QueuedTimestamp:    timestamppb.New(now.Add(-3 * time.Second)),
		InstanceNameSuffix: p.Suffix,
		DigestFunction:     digestFunctionOf(p.DF),
	}
	switch p.Trace {
	case "valid":
		a.desired.W3CTraceContext = map[string]string{"traceparent": "00-0af7651916cd43dd8448eb211c80319c-b7ad6b7169203331-01"}
	case "junk":
		a.desired.W3CTraceContext = map[string]string{"traceparent": "junk", "tracestate": "=="}
	}
	w.actions = append(w.actions, a)
	return a
}

func (w *world) Synchronize(ctx context.Context, req *remoteworker.SynchronizeRequest, _ ...grpc.CallOption) (*remoteworker.SynchronizeResponse, error) {
	w.mu.Lock()
	w.nSync++
	if w.inSync {
		w.violate("two Synchronize calls overlap")
	}
	w.inSync = true
	if w.loop && !w.cleanup {
		// Liveness backstop: a worker that synchronises over and over without
		// bubble time ever advancing would never reach the 24h limit of the
		// loop test (see spinLimit).
		if now := w.clock.Now(); now.Equal(w.spinAt) {
			w.spinCount++
		} else {
			w.spinAt, w.spinCount = now, 1
		}
		if w.spinCount == spinLimit {
			w.violate("the worker issued %d Synchronize calls at one instant of bubble time (request #%d: %s): it spins without waiting for an execution update or the synchronisation time, and would never terminate", spinLimit, w.nSync, describeState(req))
		}
	}
	reported := w.checkRequest(req)
	if w.loop && !w.cleanup && len(w.violations) > 0 {
		// Stop the worker where the violation was observed, so that the test
		// routine (which selects on w.violated) reports it.
		w.mu.Unlock()
		<-w.halt
		w.mu.Lock()
	}
	pbi := req.PreferBeingIdle
	var plan *replyPlan
	switch {
	case w.cleanup:
		plan = w.defaultReply(reported, pbi)
	case len(w.replies) > 0:
		plan = w.replies[0]
		w.replies = w.replies[1:]
	case w.loop:
		plan = w.defaultReply(reported, pbi)
	default:
		w.violate("Run performed a second Synchronize call in one iteration")
		plan = &replyPlan{Kind: "idle", TS: "valid"}
	}
	// Soundness restriction (counted): no scheduler leaves desired_state
	// unset in reply to a Completed report (InMemoryBuildQueue.completeTask
	// always answers with the next task or with Idle; the protocol says
	// "unset = remain in the current state", which is meaningless for a
	// finished action). Answer like a scheduler without work instead, unless
	// the plan carries the drawn permission NilToCompleted: then the reply
	// goes out as drawn. BuildClient takes it as "continue as is": it clears
	// its may-think-executing bound, reports may-terminate, keeps the
	// Completed state and reports it again (same response object) on every
	// later Run until a valid execute/idle reply arrives. All request and
	// executor oracles apply to that continuation; only the one-minute branch
	// of the may-terminate oracle is switched off until the next valid
	// execute/idle reply (nilToCompletedTaint, observation O1 below).
	if plan.Kind == "nil" && reported == repCompleted && !allowNilReplyToCompleted && !plan.NilToCompleted {
		w.excluded["desired_state unset in reply to a Completed report (no scheduler does this); replied idle instead"]++
		q := *plan
		q.Kind = "idle"
		plan = &q
	}
	var park chan struct{}
	if plan.Park {
		park = make(chan struct{})
		w.syncPark = park
	}
	select {
	case w.arrived <- struct{}{}:
	default:
	}
	w.mu.Unlock()

	if park != nil {
		select {
		case <-park:
		case <-ctx.Done():
		}
	} else if plan.LatencyMs > 0 {
		t := time.NewTimer(time.Duration(plan.LatencyMs) * time.Millisecond)
		select {
		case <-t.C:
		case <-ctx.Done():
			t.Stop()
		}
	}

	w.mu.Lock()
	defer w.mu.Unlock()
	w.syncPark = nil
	w.inSync = false
	kind := plan.Kind
	if ctx.Err() != nil {
		// What a gRPC client does with a cancelled context.
		kind = "rpcerr"
		w.label("sync_failed_by_cancelled_context")
	}
	w.lastReplyKind = kind
	w.lastReplyValid = false
	if w.loop {
		w.avail = nil
	}
	if kind == "rpcerr" {
		// The request may have been processed and an execute reply lost.
		w.mayBelieveExec = true
		w.label("reply_rpc_error")
		w.raiseStayIdle("rpcerr")
		if ctx.Err() != nil {
			return nil, status.FromContextError(ctx.Err()).Err()
		}
		return nil, status.Error(codes.Unavailable, "scripted RPC failure")
	}

	now := w.clock.Now()
	resp := &remoteworker.SynchronizeResponse{}
	valid := false
	switch plan.TS {
	case "", "valid":
		valid = true
		resp.NextSynchronizationAt = timestamppb.New(now.Add(time.Duration(plan.OffNs)))
		switch {
		case plan.OffNs < 0:
			w.label("next_sync_in_past")
		case plan.OffNs == 0:
			w.label("next_sync_now")
		default:
			w.label("next_sync_in_future")
		}
	case "absent":
	case "secs_hi":
		resp.NextSynchronizationAt = &timestamppb.Timestamp{Seconds: 253402300800}
	case "secs_lo":
		resp.NextSynchronizationAt = &timestamppb.Timestamp{Seconds: -62135596801}
	case "nanos_neg":
		resp.NextSynchronizationAt = &timestamppb.Timestamp{Seconds: now.Unix(), Nanos: -1}
	case "nanos_hi":
		resp.NextSynchronizationAt = &timestamppb.Timestamp{Seconds: now.Unix(), Nanos: 1000000000}
	default:
		panic("unknown timestamp plan " + plan.TS)
	}
	if !valid {
		w.label("reply_invalid_timestamp")
		w.raiseStayIdle("invalid_ts(" + plan.TS + ")")
	}
	w.lastReplyValid = valid

	switch kind {
	case "exec":
		a := w.newAction(plan.Act, now)
		rejected := plan.Act.Reject != ""
		a.valid = valid && !rejected
		switch {
		case !valid:
			a.whyNot = "invalid timestamp"
		case rejected:
			a.whyNot = fmt.Sprintf("execute request that fails the worker's validation: digest_function=%d instance_name_suffix=%q", int32(a.desired.DigestFunction), a.desired.InstanceNameSuffix)
		}
		resp.DesiredState = &remoteworker.DesiredState{WorkerState: &remoteworker.DesiredState_Executing_{Executing: a.desired}}
		// Whether or not the worker can use this reply, the scheduler now
		// believes the worker runs the action.
		w.mayBelieveExec = true
		if plan.Act.BadDigest != "" {
			w.label("exec_malformed_action_digest")
		}
		if valid && rejected {
			// The reply is well-formed, but startExecution must refuse the
			// request before touching anything: the instruction the worker was
			// last validly given (w.cur: an action that keeps running and being
			// reported, or idle) stays in force, and so does refSync. From the
			// scheduler's point of view the action has been handed out.
			w.lastReplyKind = "exec_rejected"
			ts := resp.NextSynchronizationAt.AsTime()
			if w.refSyncRejected == nil || ts.Before(*w.refSyncRejected) {
				w.refSyncRejected = &ts
			}
			w.label("reply_exec_rejected")
			w.label("reply_exec_rejected_" + plan.Act.Reject)
			w.raiseStayIdle("exec_rejected(" + plan.Act.Reject + ")")
			if w.active > 0 {
				w.label("exec_rejected_while_executing")
			}
			if w.shutdown {
				w.label("exec_rejected_after_shutdown")
				if w.active > 0 {
					w.label("exec_rejected_after_shutdown_while_executing")
				}
			}
		} else if valid {
			if w.active > 0 {
				w.label("preempt")
			}
			w.cur = a
			w.refSync = resp.NextSynchronizationAt.AsTime()
			w.refSyncRejected = nil
			w.nilToCompletedTaint = false
			w.label("reply_exec")
		}
	case "idle":
		resp.DesiredState = &remoteworker.DesiredState{WorkerState: &remoteworker.DesiredState_Idle{Idle: &emptypb.Empty{}}}
		w.mayBelieveExec = false
		if valid {
			if w.active > 0 {
				w.label("idle_while_executing")
			}
			w.cur = nil
			w.refSync = resp.NextSynchronizationAt.AsTime()
			w.refSyncRejected = nil
			w.nilToCompletedTaint = false
			w.label("reply_idle")
		}
	case "nil":
		// "Continue as is": the scheduler believes what was reported.
		w.mayBelieveExec = reported == repExecuting
		if valid {
			w.refSync = resp.NextSynchronizationAt.AsTime()
			w.refSyncRejected = nil
			w.label("reply_no_desired_state")
			if reported == repCompleted {
				w.label("reply_no_desired_state_to_completed")
				if !allowNilReplyToCompleted {
					w.nilToCompletedTaint = true
				}
			}
			if w.loop && reported == repExecuting && plan.OffNs > 0 {
				// Loop test: LaunchWorkerThread calls Run again at this very
				// instant, with a synchronisation timer that is not yet due.
				w.avail = w.snapshotAvail(false)
			}
		}
	default:
		panic("unknown reply kind " + kind)
	}
	return resp, nil
}

// allowNilReplyToCompleted switches the soundness restriction above off
// (development aid). Observation O1: with it, run_model finds (after ~160k
// cases) that Run may report may-terminate up to next_sync-now too early:
// exec; emit 10; finish (Completed blocks on the full channel); Run with a
// "no desired state" reply (Completed is read before close(updates) is seen,
// so executionCancellation stays set while the may-think-executing bound is
// cleared); Run with an RPC error (the update path lowers
// nextSynchronizationAt to now, and touchSchedulerMayThinkExecuting derives
// the one-minute grace period from the lowered value); shutdown; advance
// 64s; Run -> may_terminate=true although now < provided next-sync + 1 min.
// Unreachable with replies a scheduler actually sends.
var allowNilReplyToCompleted = os.Getenv("VERIF_C08_NIL_TO_COMPLETED") == "1"

// spinLimit: Synchronize calls at one instant of bubble time (loop test)
// beyond which the worker is declared livelocked. The unchanged loop issues
// at most one call per scripted zero-latency reply (<= 12) plus one per batch
// of execution updates (<= 14 + 23 + 1 per action) at one instant.
const spinLimit = 3000

// mayTerminateAllowed is the shutdown oracle: under a cancelled context the
// worker may be let go only if the scheduler cannot believe it is executing
// (the last reply it delivered left the worker idle), or - as documented at
// BuildClient.touchSchedulerMayThinkExecuting - the synchronization time
// provided by the scheduler has been missed by more than a minute.
func (w *world) mayTerminateAllowed(now time.Time) (bool, string) {
	if !w.mayBelieveExec {
		return true, "scheduler_believes_idle"
	}
	if w.nilToCompletedTaint {
		// Observation O1 (see allowNilReplyToCompleted): after the reply that
		// no scheduler sends, the worker derives its one-minute bound from a
		// synchronisation time it lowered itself. Not judged.
		return true, "unjudged_after_no_desired_state_to_completed"
	}
	ref := w.refSync
	if r := w.refSyncRejected; r != nil && r.Before(ref) {
		// Execute requests that failed the worker's validation were delivered
		// since: the earlier of the synchronization times counts (the worker
		// may treat such a reply as discarded, or as providing a new time).
		ref = *r
		if now.After(ref.Add(time.Minute)) {
			return true, "next_sync_of_rejected_execute_missed_by_more_than_a_minute"
		}
	}
	if now.After(ref.Add(time.Minute)) {
		return true, "next_sync_missed_by_more_than_a_minute"
	}
	return false, fmt.Sprintf("the scheduler may believe the worker is executing (last reply kind %q valid=%v) and now=%s is not more than a minute past the last provided synchronization time %s",
		w.lastReplyKind, w.lastReplyValid, now.UTC().Format(time.RFC3339Nano), ref.UTC().Format(time.RFC3339Nano))
}

// ---------------------------------------------------------------------
// Fake clock for the Run test: time moves and timers fire only when the
// generated script says so.

type fakeClock struct {
	mu     sync.Mutex
	now    time.Time
	timers []*fakeTimer
	// yieldOnStop: Timer.Stop() yields the processor, so that an executor
	// goroutine made runnable by Run's first receive gets to run (refill the
	// channel, or send Completed and close) before Run's non-blocking drain.
	// Without the yield it runs only after Run blocks. Both are legal
	// schedules; which one happens is drawn per Run.
	yieldOnStop bool
}

type fakeTimer struct {
	c        *fakeClock
	deadline time.Time
	ch       chan time.Time
	done     bool
}

func (c *fakeClock) Now() time.Time {
	c.mu.Lock()
	defer c.mu.Unlock()
	return c.now
}

func (c *fakeClock) NewContextWithTimeout(parent context.Context, timeout time.Duration) (context.Context, context.CancelFunc) {
	panic("BuildClient is not expected to create timeout contexts")
}

func (c *fakeClock) NewTicker(d time.Duration) (clock.Ticker, <-chan time.Time) {
	panic("BuildClient is not expected to create tickers")
}

func (c *fakeClock) NewTimer(d time.Duration) (clock.Timer, <-chan time.Time) {
	c.mu.Lock()
	defer c.mu.Unlock()
	t := &fakeTimer{c: c, deadline: c.now.Add(d), ch: make(chan time.Time, 1)}
	c.timers = append(c.timers, t)
	return t, t.ch
}

func (t *fakeTimer) Stop() bool {
	t.c.mu.Lock()
	was := !t.done
	t.done = true
	yield := t.c.yieldOnStop
	t.c.mu.Unlock()
	if yield {
		for i := 0; i < 4; i++ {
			runtime.Gosched()
		}
	}
	return was
}

// pending returns the live timer with the earliest deadline.
func (c *fakeClock) pending() *fakeTimer {
	c.mu.Lock()
	defer c.mu.Unlock()
	var best *fakeTimer
	for _, t := range c.timers {
		if !t.done && (best == nil || t.deadline.Before(best.deadline)) {
			best = t
		}
	}
	return best
}

func (c *fakeClock) fire(t *fakeTimer) {
	c.mu.Lock()
	defer c.mu.Unlock()
	if !t.done {
		t.done = true
		t.ch <- c.now
	}
}

func (c *fakeClock) set(now time.Time) {
	c.mu.Lock()
	defer c.mu.Unlock()
	if now.After(c.now) {
		c.now = now
	}
}

// ---------------------------------------------------------------------
// program.Group for LaunchWorkerThread.

type fakeGroup struct {
	ctx     context.Context
	done    chan struct{}
	onEnd   func()
	started int
}

func (g *fakeGroup) Go(routine program.Routine) {
	g.started++
	go func() {
		_ = routine(g.ctx, g, g)
		g.onEnd()
		close(g.done)
	}()
}

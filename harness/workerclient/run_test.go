package workerclient

import (
	"context"
	"encoding/json"
	"fmt"
	"testing"
	"testing/synctest"
	"time"

	remoteexecution "github.com/bazelbuild/remote-apis/build/bazel/remote/execution/v2"
	"github.com/buildbarn/bb-remote-execution/pkg/builder"
	"github.com/buildbarn/bb-storage/pkg/digest"
	"github.com/buildbarn/bb-storage/pkg/util"
	"pgregory.net/rapid"

	"verif/harness/internal/simkit"
)

// step is one executed harness action (JSON script element).
type step struct {
	Op       string     `json:"op"`
	Ready    string     `json:"ready,omitempty"`
	Reply    *replyPlan `json:"reply,omitempty"`
	Yield    bool       `json:"yield,omitempty"`
	AutoFire bool       `json:"autofire,omitempty"`
	N        int        `json:"n,omitempty"`
	D        string     `json:"d,omitempty"`
	// Backoff (run steps): clock advance drawn right after a Run of an idle
	// worker, outside shutdown, that returned with a failed Synchronize outcome
	// (what LaunchWorkerThread's back-off sleep, a suspended host or an outage
	// put between that Run and the next one).
	Backoff string `json:"backoff,omitempty"`
	Res     string `json:"res,omitempty"`
}

type runResult struct {
	mayTerminate bool
	err          error
	cancelled    bool // ctx.Err() != nil when Run returned
}

type harness struct {
	w      *world
	clk    *fakeClock
	bc     *builder.BuildClient
	ctx    context.Context
	cancel context.CancelFunc

	runDone    chan runResult // non-nil while a Run call is in flight
	runCtx     context.Context
	runStep    int // index into script of the in-flight run step
	terminated bool
	script     []step

	sawPreempt, sawShutdownExec bool
}

func (h *harness) fail(format string, args ...any) {
	failf("%s; script=%s", fmt.Sprintf(format, args...), scriptString(h.script))
}

func scriptString(script any) string {
	b, err := json.Marshal(script)
	if err != nil {
		return fmt.Sprintf("%+v", script)
	}
	return string(b)
}

// settle waits for quiescence, then surfaces violations recorded by the
// fakes and collects a finished Run.
func (h *harness) settle() {
	synctest.Wait()
	h.check()
	if h.runDone != nil {
		select {
		case r := <-h.runDone:
			h.runDone = nil
			h.onRunReturn(r)
			// The executor goroutine of a freshly assigned action starts
			// after Run returns; let it reach its first parking point.
			synctest.Wait()
			h.check()
			h.afterRunSettled()
		default:
		}
	}
}

func (h *harness) check() {
	if v := h.w.takeViolations(); len(v) > 0 {
		h.fail("%s", v[0])
	}
}

// onRunReturn is the return-time oracle.
func (h *harness) onRunReturn(r runResult) {
	w := h.w
	w.mu.Lock()
	defer w.mu.Unlock()
	res := fmt.Sprintf("may_terminate=%v", r.mayTerminate)
	if r.err != nil {
		res += " err"
	}
	if w.lastReplyKind != "" {
		res += " reply=" + w.lastReplyKind
		if !w.lastReplyValid && w.lastReplyKind != "rpcerr" {
			res += "(invalid ts)"
		}
	} else {
		res += " no_sync"
	}
	h.script[h.runStep].Res = res

	if w.lastReplyKind == "idle" && w.lastReplyValid && w.active != 0 {
		w.violate("Run returned after a valid \"idle\" reply while an Execute call is still active")
	}
	if w.lastReplyKind == "exec_rejected" {
		// The worker could not validate the request the scheduler handed it.
		// The caller must learn about it (LaunchWorkerThread logs the error and
		// backs off before the next round); the worker has not gone idle from
		// the scheduler's point of view, so the may-terminate oracle below
		// applies as after any other execute reply.
		if r.err == nil {
			w.violate("Run returned no error although the scheduler's execute request failed the worker's validation (%s)", w.actions[len(w.actions)-1].whyNot)
		}
		if r.cancelled {
			w.label("run_returned_after_shutdown_with_rejected_execute")
		}
	}
	if r.mayTerminate && r.cancelled {
		ok, why := w.mayTerminateAllowed(h.clk.Now())
		if !ok {
			w.violate("Run reported may-terminate under a cancelled context although %s", why)
		} else {
			w.label("terminate_" + why)
		}
		h.terminated = true
	}
	if r.mayTerminate && r.err != nil {
		w.label("run_readiness_error")
	}
	if w.diagNoSameRun > 0 {
		// Diagnostic only: stronger than the property text.
		w.label("diag_idle_soliciting_without_same_run_readiness")
		w.diagNoSameRun = 0
	}
}

// afterRunSettled: a validly assigned action must have been started.
func (h *harness) afterRunSettled() {
	w := h.w
	w.mu.Lock()
	if w.lastReplyKind == "exec" && w.lastReplyValid && w.cur != nil && !w.cur.started {
		w.violate("the scheduler validly told the worker to run action#%d, Run returned, but Execute was never called for it", w.cur.idx)
	}
	w.mu.Unlock()
	h.check()
}

func (h *harness) startRun(ctx context.Context, ready string, reply *replyPlan, yield, autoFire bool) {
	w := h.w
	w.mu.Lock()
	w.readiness = []string{ready}
	w.replies = []*replyPlan{reply}
	w.lastReplyKind = ""
	w.lastReplyValid = false
	w.readinessThis = false
	// Every goroutine is durably blocked here (each step ends with settle).
	w.avail = w.snapshotAvail(true)
	w.mu.Unlock()
	h.clk.mu.Lock()
	h.clk.yieldOnStop = yield
	h.clk.mu.Unlock()
	done := make(chan runResult, 1)
	h.runDone = done
	h.runCtx = ctx
	go func() {
		mt, err := h.bc.Run(ctx)
		done <- runResult{mayTerminate: mt, err: err, cancelled: ctx.Err() != nil}
	}()
	h.settle()
	if autoFire && h.runDone != nil {
		if t := h.clk.pending(); t != nil && !t.deadline.After(h.clk.Now()) {
			h.clk.fire(t)
			h.settle()
		}
	}
}

// parked names the park a release step would open, if any.
func (h *harness) parked() string {
	w := h.w
	w.mu.Lock()
	defer w.mu.Unlock()
	if w.readinessPark != nil {
		return "readiness"
	}
	if w.syncPark != nil {
		return "sync"
	}
	for _, a := range w.actions {
		if a.where == "cancelpark" {
			return "executor"
		}
	}
	return ""
}

func (h *harness) release() string {
	w := h.w
	w.mu.Lock()
	var ch chan struct{}
	what := ""
	switch {
	case w.readinessPark != nil:
		ch, what = w.readinessPark, "readiness"
		w.readinessPark = nil
	case w.syncPark != nil:
		ch, what = w.syncPark, "sync"
		w.syncPark = nil
	default:
		for _, a := range w.actions {
			if a.where == "cancelpark" {
				ch, what = a.release, "executor"
				a.where = "releasing"
				break
			}
		}
	}
	w.mu.Unlock()
	if ch != nil {
		close(ch)
	}
	h.settle()
	return what
}

// advance moves the clock, firing due timers one at a time in deadline
// order with a quiescence wait after each.
func (h *harness) advance(d time.Duration) {
	target := h.clk.Now().Add(d)
	for {
		t := h.clk.pending()
		if t == nil || t.deadline.After(target) {
			break
		}
		h.clk.set(t.deadline)
		h.clk.fire(t)
		h.settle()
	}
	h.clk.set(target)
}

// driveRun completes an in-flight Run call using only legal moves.
func (h *harness) driveRun() {
	for i := 0; h.runDone != nil; i++ {
		if i > 200 {
			h.fail("Run does not return although every park was released and every timer fired")
		}
		if h.parked() != "" {
			h.release()
			continue
		}
		if t := h.clk.pending(); t != nil {
			h.clk.set(t.deadline)
			h.clk.fire(t)
			h.settle()
			continue
		}
		h.settle()
		if h.runDone != nil && h.parked() == "" && h.clk.pending() == nil {
			h.fail("Run is blocked on something the harness does not control (executor stuck?)")
		}
	}
}

var (
	genOffsets = rapid.SampledFrom([]time.Duration{
		-time.Hour, -61 * time.Second, -time.Minute, -time.Second, -1, 0, 0, 1, time.Second,
		10 * time.Second, 10 * time.Second, 59 * time.Second, time.Minute, 61 * time.Second, 5 * time.Minute, time.Hour,
	})
	genAdvance = rapid.SampledFrom([]time.Duration{
		0, 1, time.Second, 5 * time.Second, 10 * time.Second, 59 * time.Second, time.Minute - 1, time.Minute, time.Minute + 1,
		61 * time.Second, 2 * time.Minute, 5 * time.Minute, time.Hour,
	})
	// Time between a failed Run of an idle worker and the next Run: nothing,
	// LaunchWorkerThread's own back-off (< 5 s), and outages on either side of
	// "previous next-sync + 1 min" (next-sync offsets are drawn from genOffsets,
	// so the bound itself lies anywhere from an hour ago to an hour ahead).
	genBackoff = rapid.SampledFrom([]time.Duration{
		0, 0, time.Millisecond, time.Second, 4 * time.Second, 30 * time.Second, 59 * time.Second, time.Minute, time.Minute + 1,
		61 * time.Second, 90 * time.Second, 3 * time.Minute, 10 * time.Minute,
	})
	genInvalidTS  = rapid.SampledFrom([]string{"absent", "absent", "secs_hi", "secs_lo", "nanos_neg", "nanos_hi"})
	genEmit       = rapid.SampledFrom([]int{1, 1, 2, 3, 9, 10, 11, 12, 25})
	genCancelEmit = rapid.SampledFrom([]int{0, 0, 0, 1, 2, 10, 11, 23})
	genCode       = rapid.SampledFrom([]int{0, 0, 0, 1, 2, 13, 14, 4})
)

var (
	// Instance name suffixes digest.NewInstanceName refuses: a component that
	// is one of the REv2 reserved keywords, or redundant slashes.
	genBadSuffix = rapid.SampledFrom([]string{
		"blobs", "uploads", "actions", "actionResults", "operations", "capabilities", "compressed-blobs",
		"a/blobs", "uploads/b", "foo/blobs/bar", "a/b/operations",
		"/", "/a", "a/", "a//b", "//",
	})
	// Digest function values InstanceName.GetDigestFunction(value, 0) refuses.
	genBadDF = rapid.SampledFrom([]string{"UNKNOWN", "UNKNOWN", "VSO", "MURMUR3", "1000", "-1"})
	// Malformed action digests (not looked at by BuildClient).
	genBadDigest = rapid.SampledFrom([]string{"short_hash", "nonhex", "neg_size", "empty_hash"})
)

func drawAction(rt *rapid.T) *actionPlan {
	a := &actionPlan{
		Digest:     rapid.IntRange(0, 2).Draw(rt, "digest"),
		Code:       genCode.Draw(rt, "code"),
		Exit:       rapid.SampledFrom([]int{0, 0, 1}).Draw(rt, "exit"),
		OnCancel:   rapid.SampledFrom([]string{"prompt", "prompt", "park"}).Draw(rt, "on_cancel"),
		CancelEmit: genCancelEmit.Draw(rt, "cancel_emit"),
		Trace:      rapid.SampledFrom([]string{"", "valid", "junk"}).Draw(rt, "trace"),
		Suffix:     rapid.SampledFrom([]string{"", "suffix", "a/b"}).Draw(rt, "suffix"),
	}
	// Execute requests that fail the worker's validation (startExecution):
	// about one execute reply in six.
	switch rapid.SampledFrom([]string{"", "", "", "", "", "", "", "", "", "", "", "", "", "", "", "df", "df", "suffix", "suffix", "df+suffix"}).Draw(rt, "reject") {
	case "df":
		a.Reject = "df"
		a.DF = genBadDF.Draw(rt, "bad_df")
	case "suffix":
		a.Reject = "suffix"
		a.Suffix = genBadSuffix.Draw(rt, "bad_suffix")
	case "df+suffix":
		a.Reject = "df+suffix"
		a.DF = genBadDF.Draw(rt, "bad_df")
		a.Suffix = genBadSuffix.Draw(rt, "bad_suffix")
	}
	if rapid.IntRange(0, 9).Draw(rt, "malformed_action_digest") == 0 {
		a.BadDigest = genBadDigest.Draw(rt, "bad_digest")
	}
	return a
}

func drawReply(rt *rapid.T) *replyPlan {
	r := &replyPlan{}
	r.Kind = rapid.SampledFrom([]string{"exec", "exec", "exec", "exec", "idle", "idle", "nil", "nil", "nil", "rpcerr"}).Draw(rt, "reply")
	if r.Kind == "rpcerr" {
		return r
	}
	if rapid.IntRange(0, 9).Draw(rt, "invalid_ts") == 0 {
		r.TS = genInvalidTS.Draw(rt, "ts")
	} else {
		r.TS = "valid"
		r.OffNs = int64(genOffsets.Draw(rt, "next_sync"))
	}
	if r.Kind == "exec" {
		r.Act = drawAction(rt)
	}
	if r.Kind == "nil" {
		r.NilToCompleted = rapid.IntRange(0, 2).Draw(rt, "nil_to_completed") == 0
	}
	return r
}

func TestC08RunModel(t *testing.T) {
	rec := simkit.NewRecorder(t, "C08", "run_model",
		"rapid-drawn scripts over a real BuildClient in a synctest bubble: steps run (one BuildClient.Run = one synchronisation round, with the drawn CheckReadiness outcome and the drawn scheduler reply: execute(action)/execute request that fails the worker's validation (unresolvable digest_function, instance_name_suffix with a reserved keyword or redundant slashes; ~1 in 6 execute replies)/execute with a malformed action_digest (not validated by BuildClient: a valid instruction)/idle/no desired state (with a drawn permission to really send it in reply to a Completed report, otherwise replaced by idle)/RPC error, valid next-sync in the past/now/future or an invalid/absent timestamp, optionally parked), emit n progress updates (incl. > channel capacity 10), finish (Execute returns its drawn response), advance clock, release (parked CheckReadiness / Synchronize / cancelled executor), shutdown (cancel the outer context); right after a Run of an idle worker outside shutdown that ended in a failed Synchronize outcome a back-off of 0 .. 10 min is drawn (both sides of 'previous next-sync + 1 min'). Oracle: instrumented executor (<=1 Execute active; predecessor cancelled and returned), request oracle at the scripted scheduler (state names the action last validly assigned, update objects and the Completed response are pointer-identical to what that action's Execute produced, non-OK => prefer_being_idle, Idle soliciting only after a successful CheckReadiness, after a non-OK Synchronize outcome (RPC error / invalid timestamp / execute request refused by the worker) every Idle request has prefer_being_idle until the fake executor has counted a CheckReadiness call made after the failure that returned nil - an obligation no passage of time ends (class label idle_request_after_failure_and_expired_bound: such a request outside shutdown with now > last provided next-sync + 1 min), prefer_being_idle on every request after shutdown; freshness/completion: a snapshot of the current action's update channel taken at Run entry, all goroutines parked, gives a lower bound for this and every later report about the action - Completed if its Execute had returned and the buffer was not full, else the newest progress update whose send had completed if the buffer was not empty), return oracle (no Execute active after a valid idle reply; may-terminate under a cancelled context only if the last delivered reply left the scheduler believing idle or now > last provided next-sync + 1 min; a rejected execute request counts as an execute reply for that rule, never starts Execute, leaves the previously assigned action in force and makes Run return an error). NON-TRIVIAL: a valid execute reply delivered while another Execute was still running (pre-emption) OR the outer context cancelled while an Execute was running; distinct by script hash")
	rapid.Check(t, func(rt *rapid.T) {
		var failure string
		var foreign any
		var script []step
		var labels []string
		var excluded map[string]int
		nontrivial := false
		func() {
			defer func() {
				if r := recover(); r != nil && failure == "" && foreign == nil {
					failure = fmt.Sprintf("bubble ended abnormally: %v; script=%s", r, scriptString(script))
				}
			}()
			synctest.Test(t, func(st *testing.T) {
				h := &harness{}
				defer func() {
					script = h.script
					if r := recover(); r != nil {
						if f, ok := r.(harnessFailure); ok {
							failure = string(f)
						} else {
							foreign = r
						}
					}
				}()
				runCase(rt, h)
				labels = h.w.sortedLabels()
				excluded = h.w.excluded
				nontrivial = h.sawPreempt || h.sawShutdownExec
				if h.sawPreempt {
					labels = append(labels, "nt_preempt")
				}
				if h.sawShutdownExec {
					labels = append(labels, "nt_shutdown_while_executing")
				}
			})
		}()
		if foreign != nil {
			panic(foreign)
		}
		if failure != "" {
			rt.Fatalf("%s", failure)
		}
		for k, n := range excluded {
			for i := 0; i < n; i++ {
				rec.Exclude(k)
			}
		}
		rec.Case(script, nontrivial, labels...)
	})
}

func runCase(rt *rapid.T, h *harness) {
	h.clk = &fakeClock{now: time.Unix(1000000, 0).UTC()}
	h.w = newWorld(h.clk, false)
	h.ctx, h.cancel = context.WithCancel(context.Background())
	defer h.cancel()
	h.bc = builder.NewBuildClient(h.w, h.w, nil, h.clk,
		map[string]string{"hostname": "verif"},
		util.Must(digest.NewInstanceName("prefix")),
		&remoteexecution.Platform{Properties: []*remoteexecution.Platform_Property{{Name: "os", Value: "linux"}}},
		4)

	nSteps := rapid.IntRange(1, 45).Draw(rt, "steps")
	shutdownAt := rapid.IntRange(0, nSteps+nSteps/2).Draw(rt, "shutdown_at")

	for i := 0; i < nSteps && !h.terminated; i++ {
		if i == shutdownAt {
			h.doShutdown()
			continue
		}
		ops := []string{"advance"}
		if h.runDone == nil {
			ops = append(ops, "run", "run", "run", "run", "run")
		}
		if a := h.w.activeAction(); a != nil && h.w.whereOf(a) == "cmd" {
			ops = append(ops, "emit", "emit", "finish")
		}
		if h.parked() != "" {
			ops = append(ops, "release", "release", "release")
		}
		switch rapid.SampledFrom(ops).Draw(rt, "op") {
		case "run":
			s := step{Op: "run"}
			s.Ready = rapid.SampledFrom([]string{"ok", "ok", "ok", "ok", "ok", "err", "park_ok", "park_err"}).Draw(rt, "ready")
			s.Reply = drawReply(rt)
			s.Reply.Park = rapid.IntRange(0, 7).Draw(rt, "sync_park") == 0
			s.Yield = rapid.Bool().Draw(rt, "yield")
			s.AutoFire = rapid.IntRange(0, 3).Draw(rt, "autofire") != 0
			h.script = append(h.script, s)
			h.runStep = len(h.script) - 1
			h.startRun(h.ctx, s.Ready, s.Reply, s.Yield, s.AutoFire)
			if h.runDone == nil && !h.terminated && h.failedWhileIdleOutsideShutdown() {
				d := genBackoff.Draw(rt, "backoff_after_failure")
				h.script[h.runStep].Backoff = d.String()
				h.advance(d)
			}
		case "emit":
			a := h.w.activeAction()
			n := genEmit.Draw(rt, "n")
			h.script = append(h.script, step{Op: "emit", N: n})
			a.cmds <- execCmd{emit: n}
			h.settle()
		case "finish":
			a := h.w.activeAction()
			h.script = append(h.script, step{Op: "finish"})
			a.cmds <- execCmd{finish: true}
			h.settle()
		case "advance":
			var d time.Duration
			if t := h.clk.pending(); t != nil && rapid.Bool().Draw(rt, "to_timer") {
				d = t.deadline.Sub(h.clk.Now()) + rapid.SampledFrom([]time.Duration{-1, 0, 0, 1}).Draw(rt, "delta")
				if d < 0 {
					d = 0
				}
			} else {
				d = genAdvance.Draw(rt, "d")
			}
			h.script = append(h.script, step{Op: "advance", D: d.String()})
			h.advance(d)
		case "release":
			h.script = append(h.script, step{Op: "release"})
			h.script[len(h.script)-1].Res = h.release()
		}
		h.noteNonTrivial()
	}

	// Epilogue (deterministic, not drawn): finish an in-flight Run, then tell
	// the worker to go idle under a live context so that every executor
	// goroutine is stopped through the public API, and check the oracles on
	// the way.
	h.script = append(h.script, step{Op: "epilogue"})
	h.driveRun()
	h.w.mu.Lock()
	h.w.cleanup = true
	h.w.mu.Unlock()
	for i := 0; i < 3; i++ {
		h.script = append(h.script, step{Op: "run", Ready: "ok", Reply: &replyPlan{Kind: "idle", TS: "valid"}})
		h.runStep = len(h.script) - 1
		h.startRun(context.Background(), "ok", &replyPlan{Kind: "idle", TS: "valid"}, false, true)
		h.driveRun()
		if h.w.activeAction() == nil {
			break
		}
	}
	h.settle()
	if a := h.w.activeAction(); a != nil {
		h.fail("action#%d is still running after the scheduler told the worker to go idle", a.idx)
	}
	h.check()
}

// failedWhileIdleOutsideShutdown: the Run that just returned performed a
// Synchronize call with a non-OK outcome (RPC error, invalid timestamp,
// execute request refused by the worker) while the worker's last valid
// instruction was "idle" and the outer context is live. Judged from the
// model's side only.
func (h *harness) failedWhileIdleOutsideShutdown() bool {
	w := h.w
	w.mu.Lock()
	defer w.mu.Unlock()
	if w.shutdown || w.cur != nil || w.lastReplyKind == "" {
		return false
	}
	return w.lastReplyKind == "rpcerr" || w.lastReplyKind == "exec_rejected" || !w.lastReplyValid
}

func (h *harness) doShutdown() {
	w := h.w
	w.mu.Lock()
	w.shutdown = true
	if w.active > 0 {
		h.sawShutdownExec = true
	}
	w.mu.Unlock()
	h.script = append(h.script, step{Op: "shutdown"})
	h.cancel()
	h.settle()
}

func (h *harness) noteNonTrivial() {
	w := h.w
	w.mu.Lock()
	if w.labels["preempt"] > 0 {
		h.sawPreempt = true
	}
	w.mu.Unlock()
}

package workerclient

import (
	"context"
	"fmt"
	"testing"
	"testing/synctest"
	"time"

	remoteexecution "github.com/bazelbuild/remote-apis/build/bazel/remote/execution/v2"
	"github.com/buildbarn/bb-remote-execution/pkg/builder"
	"github.com/buildbarn/bb-storage/pkg/clock"
	"github.com/buildbarn/bb-storage/pkg/digest"
	"github.com/buildbarn/bb-storage/pkg/util"
	"pgregory.net/rapid"

	"verif/harness/internal/simkit"
)

// loopPlan is the whole (pre-drawn) script of one loop case.
type loopPlan struct {
	Replies       []*replyPlan `json:"replies"`
	Readiness     []string     `json:"readiness"`
	ShutdownAfter int          `json:"shutdown_after_syncs"`
	ShutdownDelay string       `json:"shutdown_delay"`
	Res           string       `json:"res,omitempty"`
}

func drawLoopAction(rt *rapid.T) *actionPlan {
	a := drawAction(rt)
	a.OnCancel = "prompt"
	a.RunMs = rapid.SampledFrom([]int{0, 1, 500, 3000, 15000, 70000, 200000}).Draw(rt, "run_ms")
	a.Updates = rapid.SampledFrom([]int{0, 1, 3, 11, 14}).Draw(rt, "updates")
	a.GapMs = rapid.SampledFrom([]int{0, 1, 200, 4000}).Draw(rt, "gap_ms")
	a.CancelDelayMs = rapid.SampledFrom([]int{0, 0, 100, 5000}).Draw(rt, "cancel_delay_ms")
	return a
}

func drawLoopReply(rt *rapid.T) *replyPlan {
	r := &replyPlan{}
	r.Kind = rapid.SampledFrom([]string{"exec", "exec", "exec", "exec", "idle", "nil", "nil", "nil", "rpcerr"}).Draw(rt, "reply")
	// 90 s / 4 min: a call that hangs (scheduler or network outage) before it
	// is answered or fails; BuildClient sets no deadline on Synchronize. With
	// LaunchWorkerThread's back-off (< 5 s) this is what lets 0 .. several
	// minutes pass between a failed synchronisation and the next Run.
	r.LatencyMs = rapid.SampledFrom([]int{0, 0, 0, 0, 0, 0, 0, 0, 0, 1, 1, 1, 300, 300, 300, 10000, 10000, 10000, 90000, 240000}).Draw(rt, "latency_ms")
	if r.Kind == "rpcerr" {
		return r
	}
	if rapid.IntRange(0, 11).Draw(rt, "invalid_ts") == 0 {
		r.TS = genInvalidTS.Draw(rt, "ts")
	} else {
		r.TS = "valid"
		r.OffNs = int64(rapid.SampledFrom([]time.Duration{
			-time.Minute, -time.Second, 0, 1, 100 * time.Millisecond, time.Second, 10 * time.Second, 10 * time.Second, time.Minute, 5 * time.Minute,
			-time.Minute, -time.Second, 0, 1, 100 * time.Millisecond, time.Second, 10 * time.Second, 10 * time.Second, time.Minute, 5 * time.Minute,
			-5 * time.Minute, -61 * time.Second,
		}).Draw(rt, "next_sync"))
	}
	if r.Kind == "exec" {
		r.Act = drawLoopAction(rt)
	}
	if r.Kind == "nil" {
		r.NilToCompleted = rapid.IntRange(0, 2).Draw(rt, "nil_to_completed") == 0
	}
	return r
}

func TestC08WorkerThreadLoop(t *testing.T) {
	rec := simkit.NewRecorder(t, "C08", "worker_thread_loop",
		"the real builder.LaunchWorkerThread loop on synctest bubble time (clock.SystemClock) against the scripted scheduler (a pre-drawn list of replies with latencies 0 .. 4 min - a hanging call is how minutes pass between a failed synchronisation and the next Run, LaunchWorkerThread's back-off being < 5 s - : execute/execute request that fails the worker's validation/idle/no desired state/RPC error/invalid timestamp, then a scheduler without work) and an autonomous instrumented executor (drawn run time, progress updates incl. > 10, delay after cancellation); the outer context is cancelled a drawn delay after the n-th Synchronize arrived. Oracle: the request and executor oracles of run_model (incl. stay idle after a failed Synchronize outcome until a CheckReadiness call counted by the fake executor has succeeded, label idle_request_after_failure_and_expired_bound), plus: the routine returns only after shutdown, eventually, and at that instant the scheduler believes the worker idle (last delivered reply left it idle) or the last provided next-sync time was missed by > 1 min; no request received after the cancellation has prefer_being_idle=false; freshness/completion: after a valid no-desired-state reply with next-sync in the future to an Executing report, the request that follows at the same bubble instant must report at least what sat in the update channel when the reply was handed out (Completed only if bubble time has advanced since Execute returned); livelock backstop: 3000 Synchronize calls at one bubble instant. NON-TRIVIAL: the context was cancelled while an Execute was running, or a pre-emption happened; distinct by plan hash")
	rapid.Check(t, func(rt *rapid.T) {
		plan := &loopPlan{}
		plan.Replies = rapid.SliceOfN(rapid.Custom(drawLoopReply), 0, 12).Draw(rt, "replies")
		plan.Readiness = rapid.SliceOfN(rapid.SampledFrom([]string{"ok", "ok", "ok", "err"}), 0, 6).Draw(rt, "readiness")
		plan.ShutdownAfter = rapid.IntRange(0, len(plan.Replies)+2).Draw(rt, "shutdown_after")
		delay := rapid.SampledFrom([]time.Duration{0, time.Millisecond, 250 * time.Millisecond, 2 * time.Second, 12 * time.Second, 65 * time.Second, 4 * time.Minute}).Draw(rt, "shutdown_delay")
		plan.ShutdownDelay = delay.String()

		var failure string
		var foreign any
		var labels []string
		nontrivial := false
		func() {
			defer func() {
				if r := recover(); r != nil && failure == "" && foreign == nil {
					failure = fmt.Sprintf("bubble ended abnormally: %v; script=%s", r, scriptString(plan))
				}
			}()
			synctest.Test(t, func(st *testing.T) {
				defer func() {
					if r := recover(); r != nil {
						if f, ok := r.(harnessFailure); ok {
							failure = string(f)
						} else {
							foreign = r
						}
					}
				}()
				labels, nontrivial = runLoopCase(plan, delay)
			})
		}()
		if foreign != nil {
			panic(foreign)
		}
		if failure != "" {
			rt.Fatalf("%s", failure)
		}
		// The outcome text depends on LaunchWorkerThread's own (unseeded)
		// random back-off, so it is kept out of the distinctness hash.
		hashed := *plan
		hashed.Res = ""
		rec.Case(&hashed, nontrivial, labels...)
	})
}

func runLoopCase(plan *loopPlan, delay time.Duration) ([]string, bool) {
	w := newWorld(clock.SystemClock, true)
	// Copies: the queues are consumed.
	w.replies = append([]*replyPlan(nil), plan.Replies...)
	w.readiness = append([]string(nil), plan.Readiness...)
	fail := func(format string, args ...any) {
		failf("%s; script=%s", fmt.Sprintf(format, args...), scriptString(plan))
	}
	check := func() {
		if v := w.takeViolations(); len(v) > 0 {
			fail("%s", v[0])
		}
	}

	ctx, cancel := context.WithCancel(context.Background())
	defer cancel()
	bc := builder.NewBuildClient(w, w, nil, clock.SystemClock,
		map[string]string{"hostname": "verif"},
		util.Must(digest.NewInstanceName("prefix")),
		&remoteexecution.Platform{Properties: []*remoteexecution.Platform_Property{{Name: "os", Value: "linux"}}},
		4)

	type endState struct {
		at             time.Time
		shutdown       bool
		allowed        bool
		why            string
		activeExecutes int
	}
	var end endState
	g := &fakeGroup{ctx: ctx, done: make(chan struct{})}
	g.onEnd = func() {
		w.mu.Lock()
		defer w.mu.Unlock()
		end.at = time.Now()
		end.shutdown = w.shutdown
		end.allowed, end.why = w.mayTerminateAllowed(end.at)
		end.activeExecutes = w.active
	}
	builder.LaunchWorkerThread(g, bc, "verif")
	if g.started != 1 {
		fail("LaunchWorkerThread started %d routines", g.started)
	}

	// Phase 1: wait for the n-th request (bounded), then the drawn delay.
	bound := time.NewTimer(6 * time.Hour)
	terminatedEarly := false
	for n := 0; n < plan.ShutdownAfter && !terminatedEarly; {
		select {
		case <-w.arrived:
			n++
		case <-g.done:
			terminatedEarly = true
		case <-bound.C:
			n = plan.ShutdownAfter
		case <-w.violated:
			// The fakes recorded a violation (and parked the worker if it was
			// observed inside Synchronize): report it now.
			check()
		}
	}
	bound.Stop()
	if !terminatedEarly {
		t := time.NewTimer(delay)
		select {
		case <-t.C:
		case <-g.done:
			terminatedEarly = true
			t.Stop()
		case <-w.violated:
			check()
		}
	}
	synctest.Wait()
	check()
	if terminatedEarly {
		fail("the worker routine returned before shutdown was requested")
	}
	select {
	case <-g.done:
		fail("the worker routine returned before shutdown was requested")
	default:
	}

	// Shutdown at quiescence: every other goroutine is parked, so "requests
	// received from now on" is well defined.
	w.mu.Lock()
	w.shutdown = true
	shutdownWhileExecuting := w.active > 0
	if shutdownWhileExecuting {
		w.label("nt_shutdown_while_executing")
	}
	if w.inSync {
		w.label("shutdown_during_synchronize")
	}
	w.mu.Unlock()
	shutdownAt := time.Now()
	cancel()

	// Phase 2: the routine must return; judge the instant at which it does.
	limit := time.NewTimer(24 * time.Hour)
	select {
	case <-g.done:
		limit.Stop()
	case <-w.violated:
		check()
	case <-limit.C:
		check()
		fail("the worker routine did not return within 24h (bubble time) of shutdown although the scheduler script is finite and the scheduler then answers every request")
	}
	synctest.Wait()
	check()
	if !end.shutdown {
		fail("the worker routine returned before shutdown was requested")
	}
	if !end.allowed {
		fail("the worker routine terminated %s after shutdown although %s", end.at.Sub(shutdownAt), end.why)
	}
	w.mu.Lock()
	w.label("terminate_" + end.why)
	if end.activeExecutes > 0 {
		w.label("terminated_with_execute_still_running")
	}
	preempted := w.labels["preempt"] > 0
	if preempted {
		w.label("nt_preempt")
	}
	w.cleanup = true
	w.mu.Unlock()
	plan.Res = fmt.Sprintf("terminated %s after shutdown: %s", end.at.Sub(shutdownAt), end.why)

	// Epilogue: stop a still-running executor through the public API (the
	// routine has returned, so nobody else uses the client).
	// One round always: a finished Execute whose Completed message does not
	// fit into the full update channel still has a goroutine to be drained.
	for i := 0; i < 3; i++ {
		_, _ = bc.Run(context.Background())
		synctest.Wait()
		check()
		w.mu.Lock()
		active := w.active
		w.mu.Unlock()
		if active == 0 {
			break
		}
	}
	synctest.Wait()
	check()
	w.mu.Lock()
	active := w.active
	w.mu.Unlock()
	if active != 0 {
		fail("an Execute call is still active after the scheduler told the worker to go idle")
	}
	return w.sortedLabels(), shutdownWhileExecuting || preempted
}

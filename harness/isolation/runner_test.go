package isolation

import (
	"context"
	"fmt"
	"testing"
	"testing/synctest"

	"github.com/buildbarn/bb-remote-execution/pkg/cleaner"
	runner_pb "github.com/buildbarn/bb-remote-execution/pkg/proto/runner"
	"github.com/buildbarn/bb-remote-execution/pkg/runner"
	"google.golang.org/protobuf/types/known/emptypb"
	"pgregory.net/rapid"

	"verif/harness/internal/simkit"
)

// Sub-check 3: runner.NewCleanRunner over a parked fake runner server.

type rnStep struct {
	Op   string `json:"op"` // run | check | base | fin | cancelw
	Pick int    `json:"pick"`
	Err  bool   `json:"err,omitempty"`
}

type rnExec struct {
	Op  string `json:"op"`
	T   int    `json:"t"`
	Res string `json:"res,omitempty"`
}

var genRnStep = rapid.Custom(func(rt *rapid.T) rnStep {
	op := rapid.SampledFrom([]string{"run", "run", "run", "run", "check", "base", "base", "base", "base", "fin", "fin", "fin", "fin", "cancelw"}).Draw(rt, "op")
	return rnStep{
		Op:   op,
		Pick: rapid.IntRange(0, 11).Draw(rt, "pick"),
		Err:  rapid.IntRange(0, 3).Draw(rt, "err") == 0,
	}
})

// fakeRunner parks every call; requests are attributed by pointer.
type fakeRunner struct {
	w        *world
	runReq   map[*runner_pb.RunRequest]int
	checkReq map[*runner_pb.CheckReadinessRequest]int
	runResp  map[int]*runner_pb.RunResponse
	chkResp  map[int]*emptypb.Empty
	baseRuns int
}

func (f *fakeRunner) Run(ctx context.Context, req *runner_pb.RunRequest) (*runner_pb.RunResponse, error) {
	f.w.mu.Lock()
	t, ok := f.runReq[req]
	if !ok {
		f.w.violate("base runner received a RunRequest that no caller sent")
		f.w.mu.Unlock()
		return nil, fmt.Errorf("unknown request")
	}
	f.baseRuns++
	f.w.mu.Unlock()
	if err := f.w.park(t, "base.Run", ""); err != nil {
		return nil, err
	}
	resp := &runner_pb.RunResponse{ExitCode: int64(100 + t)}
	f.w.mu.Lock()
	f.runResp[t] = resp
	f.w.mu.Unlock()
	return resp, nil
}

func (f *fakeRunner) CheckReadiness(ctx context.Context, req *runner_pb.CheckReadinessRequest) (*emptypb.Empty, error) {
	f.w.mu.Lock()
	t, ok := f.checkReq[req]
	if !ok {
		f.w.violate("base runner received a CheckReadinessRequest that no caller sent")
		f.w.mu.Unlock()
		return nil, fmt.Errorf("unknown request")
	}
	f.w.mu.Unlock()
	if err := f.w.park(t, "base.CheckReadiness", ""); err != nil {
		return nil, err
	}
	resp := &emptypb.Empty{}
	f.w.mu.Lock()
	f.chkResp[t] = resp
	f.w.mu.Unlock()
	return resp, nil
}

const (
	rnIdle = iota
	rnCalling
)

type rnThread struct {
	state           int
	kind            string
	cancel          context.CancelFunc
	cancelledWaiter bool
	baseFailed      bool
	baseCalled      bool
	postFailed      bool
}

type rnOutcome struct {
	failure      string
	inconclusive string
	script       []rnExec
	labels       map[string]bool
	overlap      bool
	cleanFailed  bool
	cancelled    bool
}

type rnRun struct {
	w   *world
	inv *cleaner.IdleInvoker
	sp  *spec
	n   int
	th  []*rnThread
	fr  *fakeRunner
	out *rnOutcome
}

func (r *rnRun) exec(op string, t int, res string) {
	r.out.script = append(r.out.script, rnExec{Op: op, T: t, Res: res})
}

func (r *rnRun) onCallEnd(t int) string {
	th := r.th[t]
	res := r.w.takeResult(t)
	if res == nil {
		return fmt.Sprintf("harness: thread %d has no result", t)
	}
	if res.panicked != "" {
		return fmt.Sprintf("thread %d: %s panicked: %s", t, res.kind, res.panicked)
	}
	th.state = rnIdle
	resText := "ok"
	if res.err != nil {
		resText = "err"
	}
	r.exec(res.kind+"_returned", t, resText)
	preFailed := r.sp.preFailed[t]
	wantErr := th.cancelledWaiter || preFailed || th.baseFailed || th.postFailed
	if wantErr && res.err == nil {
		return fmt.Sprintf("thread %d: %s returned success although cancelled-while-waiting=%v pre-cleaning-failed=%v base-failed=%v post-cleaning-failed=%v", t, res.kind, th.cancelledWaiter, preFailed, th.baseFailed, th.postFailed)
	}
	if !wantErr && res.err != nil {
		return fmt.Sprintf("thread %d: %s failed (%v) although nothing failed underneath", t, res.kind, res.err)
	}
	if (preFailed || th.cancelledWaiter) && th.baseCalled {
		return fmt.Sprintf("thread %d: %s was forwarded to the base runner although the cleaning before it failed or the wait was cancelled", t, res.kind)
	}
	if preFailed {
		r.out.labels["not_forwarded_after_failed_cleaning"] = true
	}
	if !wantErr {
		if !th.baseCalled {
			return fmt.Sprintf("thread %d: %s returned success without calling the base runner", t, res.kind)
		}
		r.w.mu.Lock()
		var same bool
		if res.kind == "run" {
			same = res.val.(*runner_pb.RunResponse) == r.fr.runResp[t]
		} else {
			same = res.val.(*emptypb.Empty) == r.fr.chkResp[t]
		}
		r.w.mu.Unlock()
		if !same {
			return fmt.Sprintf("thread %d: %s did not return the base runner's response", t, res.kind)
		}
	}
	return ""
}

func (r *rnRun) settle() string {
	synctest.Wait()
	if v := r.w.takeViolations(); len(v) > 0 {
		return v[0]
	}
	for _, ev := range r.w.newEvents() {
		if ev.kind == evCleanStart && ev.t < 0 {
			r.out.inconclusive = "cleaner called with a context that does not carry the caller's values; cannot attribute the call"
			return r.out.inconclusive
		}
		wasPostBy := -1
		if ev.kind == evCleanEnd && r.sp.cleaning && r.sp.post {
			wasPostBy = r.sp.by
		}
		if msg := r.sp.feed(ev); msg != "" {
			return "idle/busy discipline: " + msg
		}
		switch ev.kind {
		case evCleanStart:
			kind := "pre"
			if r.sp.post {
				kind = "post"
			}
			r.exec("cleaning_started_"+kind, ev.t, "")
		case evCleanEnd:
			if ev.err != nil {
				r.out.cleanFailed = true
				if wasPostBy >= 0 {
					r.th[wasPostBy].postFailed = true
					r.out.labels["post_cleaning_failed"] = true
				} else {
					r.out.labels["pre_cleaning_failed"] = true
				}
			}
		case evOpPark:
			r.th[ev.t].baseCalled = true
			r.exec("forwarded_"+ev.op, ev.t, "")
		case evCallEnd:
			if msg := r.onCallEnd(ev.t); msg != "" {
				return msg
			}
		}
	}
	if msg := r.sp.quiescent(); msg != "" {
		return "idle/busy discipline: " + msg
	}
	act := r.w.activeCleaning()
	busy := 0
	for t, th := range r.th {
		if th.state != rnIdle {
			busy++
		}
		if r.w.isInflight(t) && !r.w.isParked(t) && act == nil {
			return fmt.Sprintf("thread %d is blocked although no cleaning is in progress", t)
		}
		if act != nil && r.w.isParked(t) {
			return fmt.Sprintf("the cleaner runs while thread %d's call is inside the base runner", t)
		}
	}
	if busy >= 2 {
		r.out.overlap = true
	}
	if len(r.w.parkedThreads()) >= 2 {
		r.out.labels["two_base_calls_in_flight"] = true
	}
	useCount, cleaning, lockFree := r.inv.VerifState()
	if !lockFree {
		lockLeaked(r.out.script)
		return "IdleInvoker lock is held at quiescence"
	}
	if int(useCount) != r.sp.users || cleaning != (act != nil) {
		return fmt.Sprintf("VerifState() = (useCount %d, cleaning %v), observed (users %d, cleaning %v)", useCount, cleaning, r.sp.users, act != nil)
	}
	return ""
}

func runRunner(t *testing.T, n int, steps []rnStep) *rnOutcome {
	out := &rnOutcome{labels: map[string]bool{}}
	fail := runBubble(t, func() (fail string) {
		w := newWorld()
		r := &rnRun{w: w, n: n, sp: newSpec(n), out: out}
		r.inv = cleaner.NewIdleInvoker(w.cleaner)
		r.fr = &fakeRunner{w: w, runReq: map[*runner_pb.RunRequest]int{}, checkReq: map[*runner_pb.CheckReadinessRequest]int{}, runResp: map[int]*runner_pb.RunResponse{}, chkResp: map[int]*emptypb.Empty{}}
		server := runner.NewCleanRunner(r.fr, r.inv)
		for i := 0; i < n; i++ {
			r.th = append(r.th, &rnThread{})
		}
		defer func() {
			if p := recover(); p != nil {
				fail = appendFailure(fail, fmt.Sprintf("panic: %v", p))
			}
			if fail != "" {
				var cs []context.CancelFunc
				for _, th := range r.th {
					cs = append(cs, th.cancel)
				}
				w.abandon(cs)
			}
		}()
		pick := func(p int, want func(t int) bool) int {
			var el []int
			for t := 0; t < n; t++ {
				if want(t) {
					el = append(el, t)
				}
			}
			if len(el) == 0 {
				return -1
			}
			return el[p%len(el)]
		}
		start := func(t int, kind string) string {
			th := r.th[t]
			ctx, cancel := newThreadContext(t)
			*th = rnThread{state: rnCalling, kind: kind, cancel: cancel}
			delete(r.sp.preFailed, t)
			r.exec(kind, t, "")
			w.mu.Lock()
			delete(r.fr.runResp, t)
			delete(r.fr.chkResp, t)
			w.mu.Unlock()
			if kind == "run" {
				req := &runner_pb.RunRequest{Arguments: []string{fmt.Sprintf("thread%d", t)}}
				w.mu.Lock()
				r.fr.runReq[req] = t
				w.mu.Unlock()
				w.spawn(t, "run", false, func() (any, error) { return server.Run(ctx, req) })
			} else {
				req := &runner_pb.CheckReadinessRequest{Path: fmt.Sprintf("thread%d", t)}
				w.mu.Lock()
				r.fr.checkReq[req] = t
				w.mu.Unlock()
				w.spawn(t, "check", false, func() (any, error) { return server.CheckReadiness(ctx, req) })
				out.labels["check_readiness"] = true
			}
			return r.settle()
		}
		finishBase := func(t int, failIt bool) string {
			var err error
			res := "ok"
			if failIt {
				err = fmt.Errorf("injected base runner failure")
				r.th[t].baseFailed = true
				res = "err"
				out.labels["base_failed"] = true
			}
			r.exec("finish_base", t, res)
			w.releaseParked(t, err)
			return r.settle()
		}
		finishCleaning := func(failIt bool) string {
			var err error
			res := "ok"
			if failIt {
				err = fmt.Errorf("injected cleaner failure")
				res = "err"
			}
			r.exec("finish_cleaning", w.activeCleaning().tag, res)
			w.finishCleaning(err)
			return r.settle()
		}
		// A step whose operation is not applicable falls back to the next
		// applicable one (finish cleaning, finish base call, start Run).
		try := func(op string, s rnStep) (bool, string) {
			switch op {
			case "run", "check":
				if t := pick(s.Pick, func(t int) bool { return r.th[t].state == rnIdle }); t >= 0 {
					return true, start(t, op)
				}
			case "base":
				if t := pick(s.Pick, func(t int) bool { return w.isParked(t) }); t >= 0 {
					return true, finishBase(t, s.Err)
				}
			case "fin":
				if w.activeCleaning() != nil {
					return true, finishCleaning(s.Err)
				}
			case "cancelw":
				act := w.activeCleaning()
				if act != nil {
					if t := pick(s.Pick, func(t int) bool {
						return r.th[t].state == rnCalling && act.tag != t && !w.isParked(t) && !r.sp.inUse[t]
					}); t >= 0 {
						r.th[t].cancelledWaiter = true
						r.th[t].cancel()
						out.cancelled = true
						out.labels["waiter_cancelled"] = true
						r.exec("cancel_waiter", t, "")
						msg := r.settle()
						if msg == "" && r.th[t].state != rnIdle {
							msg = fmt.Sprintf("thread %d: call did not return after its context was cancelled while waiting for a cleaning", t)
						}
						return true, msg
					}
				}
			}
			return false, ""
		}
		for _, s := range steps {
			for _, op := range []string{s.Op, "fin", "base", "run"} {
				done, msg := try(op, s)
				if msg != "" {
					return msg
				}
				if done {
					break
				}
			}
		}
		for i := 0; ; i++ {
			if i > 16*n+16 {
				return "drain: the runner did not come to rest"
			}
			msg := ""
			if w.activeCleaning() != nil {
				msg = finishCleaning(false)
			} else if ts := w.parkedThreads(); len(ts) > 0 {
				msg = finishBase(ts[0], false)
			} else {
				break
			}
			if msg != "" {
				return "drain: " + msg
			}
		}
		for t, th := range r.th {
			if th.state != rnIdle {
				return fmt.Sprintf("drain: thread %d's call never returned", t)
			}
			if th.cancel != nil {
				th.cancel()
			}
		}
		if r.sp.users != 0 {
			return "drain: observed user count is not 0 at the end"
		}
		if out.overlap {
			out.labels["overlap_2plus_threads"] = true
		}
		if r.sp.maxUsers >= 2 {
			out.labels["two_calls_in_use"] = true
		}
		return ""
	})
	if out.inconclusive == "" {
		out.failure = fail
	}
	return out
}

func TestC12CleanRunner(t *testing.T) {
	rec := simkit.NewRecorder(t, "C12", "clean_runner",
		"runner.NewCleanRunner over a parked, fallible fake RunnerServer and a real IdleInvoker with a parked, fallible cleaner, 2-4 concurrent callers in a synctest bubble; generated schedule of start Run / start CheckReadiness / finish base call (ok|err) / finish cleaning (ok|err) / cancel a caller waiting for a cleaning. Oracle: idle/busy automaton over the event log (a base call is only reached after a successful idle->busy cleaning, the cleaner never runs while a base call is in flight, last caller out triggers a cleaning before it returns, cleanings never overlap), a call is not forwarded when the cleaning before it failed or its wait was cancelled, a call fails iff something underneath failed and otherwise returns the base runner's response, VerifState agrees. Non-trivial: >=2 callers overlapped AND (a cleaning failed OR a waiter was cancelled); distinct by executed-script hash")
	rapid.Check(t, func(rt *rapid.T) {
		n := rapid.IntRange(2, 4).Draw(rt, "threads")
		steps := rapid.SliceOfN(genRnStep, 4, 60).Draw(rt, "steps")
		out := runRunner(t, n, steps)
		if out.inconclusive != "" {
			fmt.Println("VERIF-INCONCLUSIVE: " + out.inconclusive)
			rt.Fatalf("inconclusive: %s", out.inconclusive)
		}
		if out.failure != "" {
			rt.Fatalf("%s; threads=%d script=%+v", out.failure, n, out.script)
		}
		rec.Case(struct {
			N int      `json:"threads"`
			S []rnExec `json:"script"`
		}{n, out.script}, out.nontrivial(), sortedKeys(out.labels)...)
	})
}

func (o *rnOutcome) nontrivial() bool {
	return o.overlap && (o.cleanFailed || o.cancelled)
}

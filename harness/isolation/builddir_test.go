package isolation

import (
	"context"
	"fmt"
	"sort"
	"strings"
	"sync/atomic"
	"testing"
	"testing/synctest"

	remoteexecution "github.com/bazelbuild/remote-apis/build/bazel/remote/execution/v2"
	"github.com/buildbarn/bb-remote-execution/pkg/builder"
	"github.com/buildbarn/bb-remote-execution/pkg/cleaner"
	"github.com/buildbarn/bb-storage/pkg/digest"
	"github.com/buildbarn/bb-storage/pkg/filesystem"
	"github.com/buildbarn/bb-storage/pkg/filesystem/path"
	"pgregory.net/rapid"

	"verif/harness/internal/simkit"
)

// Sub-check 2: Shared(Clean(Root(dir), idleInvoker)) per worker thread, as in
// cmd/bb_worker/main.go: one root directory, one IdleInvoker and one
// parallel-action counter shared by all threads.

type bdStep struct {
	Op   string `json:"op"` // get | fin | write | close | cancelw | cancell
	Pick int    `json:"pick"`
	Dig  int    `json:"dig"` // get: -1 = may run in parallel (nil digest), 0..2 = cacheable action digest
	Rev  bool   `json:"rev,omitempty"`
}

type bdExec struct {
	Op   string `json:"op"`
	T    int    `json:"t"`
	Name string `json:"name,omitempty"`
	Res  string `json:"res,omitempty"`
}

// faultKey names one fallible call: T >= 0: the K-th fallible directory
// operation issued by thread T's creator stack; T == -1: cleaner call K.
type faultKey struct {
	T int `json:"t"`
	K int `json:"k"`
}

var genBDStep = rapid.Custom(func(rt *rapid.T) bdStep {
	op := rapid.SampledFrom([]string{"get", "get", "get", "get", "get", "fin", "fin", "fin", "fin", "write", "write", "close", "close", "close", "cancelw", "cancelw", "cancell"}).Draw(rt, "op")
	return bdStep{
		Op:   op,
		Pick: rapid.IntRange(0, 11).Draw(rt, "pick"),
		Dig:  rapid.IntRange(-1, 2).Draw(rt, "dig"),
		Rev:  rapid.Bool().Draw(rt, "rev"),
	}
})

var bdDigests = []digest.Digest{
	digest.MustNewDigest("inst", remoteexecution.DigestFunction_SHA256, "1111111111111111aaaaaaaaaaaaaaaaaaaaaaaaaaaaaaaaaaaaaaaaaaaaaaaa", 11),
	digest.MustNewDigest("inst", remoteexecution.DigestFunction_SHA256, "2222222222222222aaaaaaaaaaaaaaaaaaaaaaaaaaaaaaaaaaaaaaaaaaaaaaaa", 22),
	digest.MustNewDigest("inst", remoteexecution.DigestFunction_SHA256, "3333333333333333aaaaaaaaaaaaaaaaaaaaaaaaaaaaaaaaaaaaaaaaaaaaaaaa", 33),
}

const (
	bdIdle = iota
	bdGetting
	bdLive
	bdClosing
)

type getResult struct {
	bd    builder.BuildDirectory
	trace *path.Trace
}

type bdThread struct {
	state           int
	ctx             context.Context
	cancel          context.CancelFunc
	creator         builder.BuildDirectoryCreator
	bd              builder.BuildDirectory
	handle          *fakeDir
	name            string
	dig             int
	cancelledWaiter bool
	cancelledLive   bool
	ordinal         int
	nwrites         int
	removeFaulted   bool
	postFailed      bool
}

type bdOutcome struct {
	failure      string
	inconclusive string
	script       []bdExec
	labels       map[string]bool
	notes        []string
	opCounts     []int
	cleanCalls   int
	overlap      bool
	faultHit     bool
	cleanFailed  bool
	cancelled    bool
	excluded     int
}

type bdRun struct {
	w         *bdWorld
	inv       *cleaner.IdleInvoker
	sp        *spec
	n         int
	th        []*bdThread
	faults    map[faultKey]bool
	leftovers map[string]bool
	out       *bdOutcome
}

func (r *bdRun) exec(op string, t int, name, res string) {
	r.out.script = append(r.out.script, bdExec{Op: op, T: t, Name: name, Res: res})
}

func (r *bdRun) onCallEnd(t int) string {
	th := r.th[t]
	res := r.w.takeResult(t)
	if res == nil {
		return fmt.Sprintf("harness: thread %d has no result", t)
	}
	if res.panicked != "" {
		return fmt.Sprintf("thread %d: %s panicked: %s", t, res.kind, res.panicked)
	}
	r.w.mu.Lock()
	hits := append([]string(nil), r.w.hits[t]...)
	entered := r.w.entered[t]
	created := r.w.created[t]
	_, rootHasCreated := r.w.root.dirs[created]
	r.w.mu.Unlock()
	switch res.kind {
	case "get":
		if res.err != nil {
			th.state = bdIdle
			r.exec("get_returned", t, created, "err")
			if !th.cancelledWaiter && !r.sp.preFailed[t] && !th.postFailed && len(hits) == 0 {
				return fmt.Sprintf("thread %d: GetBuildDirectory failed (%v) although nothing failed underneath", t, res.err)
			}
			if created != "" && rootHasCreated && !r.leftovers[created] {
				return fmt.Sprintf("thread %d: GetBuildDirectory failed but left directory %q behind in the root", t, created)
			}
			if r.sp.preFailed[t] {
				r.out.labels["get_refused_after_failed_cleaning"] = true
			}
			for _, h := range hits {
				// A name collision in the root is only an acceptable
				// reason if the colliding directory was left behind
				// by an injected removal failure (then refusing to
				// start is right: the directory is not empty/ours).
				if strings.HasPrefix(h, "natural:Mkdir:") {
					name := strings.TrimPrefix(h, "natural:Mkdir:")
					if !r.leftovers[name] {
						return fmt.Sprintf("thread %d: GetBuildDirectory failed because directory %q already exists in the root although no removal failure left it behind (it belongs to another running action)", t, name)
					}
					r.out.labels["stale_directory_blocks_restart"] = true
				} else if strings.HasPrefix(h, "natural:") {
					return fmt.Sprintf("thread %d: GetBuildDirectory failed with an unexpected directory error: %s", t, h)
				}
			}
			return ""
		}
		g := res.val.(getResult)
		th.state, th.bd = bdLive, g.bd
		if entered == nil {
			return fmt.Sprintf("thread %d: GetBuildDirectory succeeded without entering a directory below the root", t)
		}
		th.handle, th.name = entered, entered.name
		r.exec("get_returned", t, th.name, "ok")
		r.w.mu.Lock()
		attached := r.w.root.dirs[entered.name] == entered.node
		contents := entered.node.names()
		r.w.mu.Unlock()
		if !attached {
			return fmt.Sprintf("thread %d: the directory handed out (%q) is not present in the root build directory", t, entered.name)
		}
		if len(contents) != 0 {
			return fmt.Sprintf("thread %d: the directory handed out (%q) is not empty: %v", t, entered.name, contents)
		}
		if l, err := g.bd.ReadDir(); err != nil || len(l) != 0 {
			return fmt.Sprintf("thread %d: ReadDir() of the directory handed out returned %d entries, err=%v", t, len(l), err)
		}
		if g.trace == nil || g.trace.GetUNIXString() != entered.name {
			return fmt.Sprintf("thread %d: reported build directory path %q does not name the directory handed out (%q)", t, g.trace.GetUNIXString(), entered.name)
		}
		for u, o := range r.th {
			if u != t && (o.state == bdLive || o.state == bdClosing) && (o.handle.node == entered.node || o.name == entered.name) {
				return fmt.Sprintf("threads %d and %d share build directory %q", u, t, entered.name)
			}
		}
		if th.dig < 0 {
			r.out.labels["parallel_action"] = true
		}
	case "close":
		th.state = bdIdle
		wantErr := len(hits) > 0 || th.postFailed
		resText := "ok"
		if res.err != nil {
			resText = "err"
		}
		r.exec("close_returned", t, th.name, resText)
		if wantErr && res.err == nil {
			return fmt.Sprintf("thread %d: Close() returned nil although %v failed (post-cleaning failed=%v)", t, hits, th.postFailed)
		}
		if !wantErr && res.err != nil {
			return fmt.Sprintf("thread %d: Close() failed (%v) although nothing failed underneath", t, res.err)
		}
		r.w.mu.Lock()
		_, present := r.w.root.dirs[th.name]
		handleClosed := th.handle.closed
		r.w.mu.Unlock()
		if present && !th.removeFaulted {
			return fmt.Sprintf("thread %d: after Close() the action's directory %q is still present in the root", t, th.name)
		}
		if !handleClosed {
			r.out.notes = append(r.out.notes, "directory handle of an action left open after Close()")
		}
		if th.cancelledLive {
			r.out.labels["closed_after_cancellation"] = true
		}
	}
	return ""
}

// settle: wait for quiescence, digest the observations, then release parked
// directory operations one at a time (lowest or highest thread first) until
// none is left.
func (r *bdRun) settle(rev bool) string {
	for iter := 0; ; iter++ {
		if iter > 64 {
			return "harness: settle does not terminate"
		}
		synctest.Wait()
		if v := r.w.takeViolations(); len(v) > 0 {
			return v[0]
		}
		for _, ev := range r.w.newEvents() {
			if ev.kind == evCleanStart && ev.t < 0 {
				r.out.inconclusive = "cleaner called with a context that does not carry the caller's values; cannot attribute the call"
				return r.out.inconclusive
			}
			wasPostBy := -1
			if ev.kind == evCleanEnd && r.sp.cleaning && r.sp.post {
				wasPostBy = r.sp.by
			}
			if msg := r.sp.feed(ev); msg != "" {
				return "idle/busy discipline: " + msg
			}
			switch ev.kind {
			case evCleanStart:
				kind := "pre"
				if r.sp.post {
					kind = "post"
				}
				r.exec("cleaning_started_"+kind, ev.t, "", "")
			case evCleanEnd:
				if ev.err == nil {
					r.leftovers = map[string]bool{}
				} else {
					r.out.cleanFailed = true
					if wasPostBy >= 0 {
						r.th[wasPostBy].postFailed = true
						r.out.labels["post_cleaning_failed"] = true
					} else {
						r.out.labels["pre_cleaning_failed"] = true
					}
				}
			case evCallEnd:
				if msg := r.onCallEnd(ev.t); msg != "" {
					return msg
				}
			}
		}
		if msg := r.sp.quiescent(); msg != "" {
			return "idle/busy discipline: " + msg
		}
		if msg := r.checkTree(); msg != "" {
			return msg
		}
		act := r.w.activeCleaning()
		busy := 0
		for t, th := range r.th {
			if th.state != bdIdle {
				busy++
			}
			if r.w.isInflight(t) && !r.w.isParked(t) && act == nil {
				return fmt.Sprintf("thread %d is blocked although no cleaning is in progress", t)
			}
		}
		if busy >= 2 {
			r.out.overlap = true
		}
		useCount, cleaning, lockFree := r.inv.VerifState()
		if !lockFree {
			lockLeaked(r.out.script)
			lockLeaked(r.out.script)
			return "IdleInvoker lock is held at quiescence"
		}
		if int(useCount) != r.sp.users || cleaning != (act != nil) {
			return fmt.Sprintf("VerifState() = (useCount %d, cleaning %v), observed (users %d, cleaning %v)", useCount, cleaning, r.sp.users, act != nil)
		}
		parked := r.w.parkedThreads()
		if len(parked) == 0 {
			return ""
		}
		if len(parked) >= 2 {
			r.out.labels["parked_ops_2plus"] = true
		}
		t := parked[0]
		if rev {
			t = parked[len(parked)-1]
		}
		th := r.th[t]
		key := faultKey{T: t, K: th.ordinal}
		th.ordinal++
		var err error
		if r.faults[key] {
			err = fmt.Errorf("injected directory failure")
		}
		p := r.w.releaseParked(t, err)
		if err != nil {
			r.out.faultHit = true
			r.out.labels["fault_"+p.op] = true
			if p.op == "RemoveAll" || p.op == "Remove" {
				r.leftovers[p.name] = true
				th.removeFaulted = true
			}
			r.exec("op", t, p.name, p.op+":FAULT")
		} else {
			r.exec("op", t, p.name, p.op)
		}
	}
}

// checkTree: nothing in the root that belongs to no running action, and no
// running action whose directory vanished.
func (r *bdRun) checkTree() string {
	r.w.mu.Lock()
	defer r.w.mu.Unlock()
	owned := map[string]bool{}
	for t, th := range r.th {
		if th.state != bdIdle && r.w.created[t] != "" {
			owned[r.w.created[t]] = true
		}
		if th.state == bdLive && r.w.root.dirs[th.name] != th.handle.node {
			return fmt.Sprintf("the directory %q of the running action of thread %d vanished from the root build directory", th.name, t)
		}
	}
	for _, name := range r.w.root.names() {
		if !owned[name] && !r.leftovers[name] {
			return fmt.Sprintf("root build directory contains %q, which belongs to no running action and to no injected removal failure (left behind)", name)
		}
	}
	return ""
}

func (r *bdRun) pick(pick int, want func(t int) bool) int {
	var el []int
	for t := 0; t < r.n; t++ {
		if want(t) {
			el = append(el, t)
		}
	}
	if len(el) == 0 {
		return -1
	}
	return el[pick%len(el)]
}

func (r *bdRun) resetCall(t int) {
	th := r.th[t]
	r.w.mu.Lock()
	r.w.hits[t] = nil
	r.w.mu.Unlock()
	delete(r.sp.preFailed, t)
	th.postFailed = false
}

func (r *bdRun) doGet(t, dig int, rev bool) string {
	th := r.th[t]
	// Precondition kept by the scheduler: a cacheable action digest is
	// never executed twice concurrently.
	inUse := func(d int) bool {
		for u, o := range r.th {
			if u != t && o.state != bdIdle && o.dig == d {
				return true
			}
		}
		return false
	}
	if dig >= 0 && inUse(dig) {
		r.out.excluded++
		alt := -1
		for d := range bdDigests {
			if !inUse(d) {
				alt = d
				break
			}
		}
		dig = alt
	}
	th.ctx, th.cancel = newThreadContext(t)
	th.state, th.dig = bdGetting, dig
	th.cancelledWaiter, th.cancelledLive, th.removeFaulted = false, false, false
	th.handle, th.name, th.bd, th.nwrites = nil, "", nil, 0
	r.resetCall(t)
	r.w.mu.Lock()
	r.w.entered[t] = nil
	r.w.created[t] = ""
	r.w.mu.Unlock()
	var dptr *digest.Digest
	if dig >= 0 {
		d := bdDigests[dig]
		dptr = &d
	}
	ctx, creator := th.ctx, th.creator
	r.exec("get", t, "", fmt.Sprintf("digest=%d", dig))
	r.w.spawn(t, "get", true, func() (any, error) {
		bd, tr, err := creator.GetBuildDirectory(ctx, dptr)
		return getResult{bd, tr}, err
	})
	return r.settle(rev)
}

func (r *bdRun) doWrite(t, variant int) string {
	th := r.th[t]
	k := th.nwrites
	th.nwrites++
	var err error
	switch variant % 3 {
	case 0:
		err = th.bd.Mkdir(path.MustNewComponent(fmt.Sprintf("dir%d", k)), 0o777)
	case 1:
		err = th.bd.Mknod(path.MustNewComponent(fmt.Sprintf("file%d", k)), 0o666, filesystem.DeviceNumber{})
	default:
		name := path.MustNewComponent(fmt.Sprintf("root%d", k))
		if err = th.bd.Mkdir(name, 0o777); err == nil {
			var sub builder.BuildDirectory
			if sub, err = th.bd.EnterBuildDirectory(name); err == nil {
				err = sub.Mknod(path.MustNewComponent("output"), 0o666, filesystem.DeviceNumber{})
				sub.Close()
			}
		}
	}
	if err != nil {
		return fmt.Sprintf("thread %d: the action could not write into its own build directory: %v", t, err)
	}
	r.exec("write", t, th.name, "")
	r.out.labels["action_wrote_files"] = true
	return ""
}

func (r *bdRun) doClose(t int, rev bool) string {
	th := r.th[t]
	th.state = bdClosing
	r.resetCall(t)
	bd := th.bd
	r.exec("close", t, th.name, "")
	r.w.spawn(t, "close", false, func() (any, error) { return nil, bd.Close() })
	return r.settle(rev)
}

func (r *bdRun) doFinish(rev bool) string {
	c := r.w.activeCleaning()
	var err error
	res := "ok"
	if r.faults[faultKey{T: -1, K: c.id}] {
		err = fmt.Errorf("injected cleaner failure")
		res = "FAULT"
		r.out.faultHit = true
	}
	r.exec("finish_cleaning", c.tag, "", res)
	r.w.finishCleaning(err)
	return r.settle(rev)
}

func runBD(t *testing.T, n int, steps []bdStep, faults map[faultKey]bool) *bdOutcome {
	out := &bdOutcome{labels: map[string]bool{}, opCounts: make([]int, n)}
	fail := runBubble(t, func() (fail string) {
		w := &bdWorld{world: newWorld(), root: newNode(), entered: map[int]*fakeDir{}, created: map[int]string{}, hits: map[int][]string{}}
		w.onCleanOK = func() {
			// What cleaner.NewDirectoryCleaner does: empty the root.
			w.root.dirs = map[string]*fsNode{}
			w.root.files = map[string]bool{}
		}
		r := &bdRun{w: w, n: n, sp: newSpec(n), faults: faults, leftovers: map[string]bool{}, out: out}
		r.inv = cleaner.NewIdleInvoker(w.cleaner)
		var nextParallelActionID atomic.Uint64
		cancels := func() []context.CancelFunc {
			var cs []context.CancelFunc
			for _, th := range r.th {
				cs = append(cs, th.cancel)
			}
			return cs
		}
		for i := 0; i < n; i++ {
			view := &fakeDir{w: w, node: w.root, level: 0, t: i}
			r.th = append(r.th, &bdThread{
				dig: -1,
				creator: builder.NewSharedBuildDirectoryCreator(
					builder.NewCleanBuildDirectoryCreator(
						builder.NewRootBuildDirectoryCreator(view),
						r.inv),
					&nextParallelActionID),
			})
		}
		defer func() {
			if p := recover(); p != nil {
				fail = appendFailure(fail, fmt.Sprintf("panic: %v", p))
			}
			for i, th := range r.th {
				out.opCounts[i] = th.ordinal
			}
			out.cleanCalls = w.cleanCalls
			if fail != "" {
				w.abandon(cancels())
			}
		}()
		isWaiter := func(t int) bool {
			act := w.activeCleaning()
			return r.th[t].state == bdGetting && act != nil && act.tag != t && !w.isParked(t) && !r.sp.inUse[t]
		}
		// A step whose operation is not applicable falls back to the next
		// applicable one (finish cleaning, GetBuildDirectory, Close).
		try := func(op string, s bdStep) (bool, string) {
			switch op {
			case "get":
				if t := r.pick(s.Pick, func(t int) bool { return r.th[t].state == bdIdle }); t >= 0 {
					return true, r.doGet(t, s.Dig, s.Rev)
				}
			case "fin":
				if w.activeCleaning() != nil {
					return true, r.doFinish(s.Rev)
				}
			case "write":
				if t := r.pick(s.Pick, func(t int) bool { return r.th[t].state == bdLive }); t >= 0 {
					return true, r.doWrite(t, s.Dig+1)
				}
			case "close":
				if t := r.pick(s.Pick, func(t int) bool { return r.th[t].state == bdLive }); t >= 0 {
					return true, r.doClose(t, s.Rev)
				}
			case "cancelw":
				if t := r.pick(s.Pick, isWaiter); t >= 0 {
					r.th[t].cancelledWaiter = true
					r.th[t].cancel()
					out.cancelled = true
					out.labels["waiter_cancelled"] = true
					r.exec("cancel_waiter", t, "", "")
					msg := r.settle(s.Rev)
					if msg == "" && r.th[t].state != bdIdle {
						msg = fmt.Sprintf("thread %d: GetBuildDirectory did not return after its context was cancelled while waiting for a cleaning", t)
					}
					return true, msg
				}
			case "cancell":
				if t := r.pick(s.Pick, func(t int) bool { return r.th[t].state == bdLive && !r.th[t].cancelledLive }); t >= 0 {
					r.th[t].cancelledLive = true
					r.th[t].cancel()
					r.exec("cancel_action", t, r.th[t].name, "")
					return true, r.settle(s.Rev)
				}
			}
			return false, ""
		}
		for _, s := range steps {
			for _, op := range []string{s.Op, "fin", "get", "close"} {
				done, msg := try(op, s)
				if msg != "" {
					return msg
				}
				if done {
					break
				}
			}
		}
		// Drain.
		for i := 0; ; i++ {
			if i > 16*n+16 {
				return "drain: the worker did not come to rest"
			}
			msg := ""
			if w.activeCleaning() != nil {
				msg = r.doFinish(false)
			} else if t := r.pick(0, func(t int) bool { return r.th[t].state == bdLive }); t >= 0 {
				msg = r.doClose(t, false)
			} else {
				break
			}
			if msg != "" {
				return "drain: " + msg
			}
		}
		for t, th := range r.th {
			if th.state != bdIdle {
				return fmt.Sprintf("drain: thread %d is not idle at the end", t)
			}
			if th.cancel != nil {
				th.cancel()
			}
		}
		if r.sp.users != 0 {
			return "drain: observed user count is not 0 at the end"
		}
		w.mu.Lock()
		open := w.openHandles
		w.mu.Unlock()
		if open != 0 {
			out.notes = append(out.notes, fmt.Sprintf("%d directory handles left open at the end of the run", open))
		}
		if r.sp.maxUsers >= 2 {
			out.labels["two_actions_in_use"] = true
		}
		if out.overlap {
			out.labels["overlap_2plus_threads"] = true
		}
		return ""
	})
	if out.inconclusive == "" {
		out.failure = fail
	}
	return out
}

func faultList(m map[faultKey]bool) []faultKey {
	var l []faultKey
	for k := range m {
		l = append(l, k)
	}
	sort.Slice(l, func(i, j int) bool {
		if l[i].T != l[j].T {
			return l[i].T < l[j].T
		}
		return l[i].K < l[j].K
	})
	return l
}

type bdCase struct {
	N      int        `json:"threads"`
	Faults []faultKey `json:"faults"`
	S      []bdExec   `json:"script"`
}

func TestC12BuildDirectoryCreators(t *testing.T) {
	rec := simkit.NewRecorder(t, "C12", "build_directory_creators",
		"per thread Shared(Clean(Root(dir), invoker)) over one in-memory root directory, one real IdleInvoker with a parked cleaner and one parallel-action counter (as bb_worker wires them), 2-4 threads in a synctest bubble; generated scenario of GetBuildDirectory(digest|nil) / finish-cleaning / action-writes / Close / cancel-waiter / cancel-action, every fallible directory call (root Mkdir, EnterBuildDirectory, Remove, RemoveAll, Close of the action directory) parks and is released one at a time. Fault enumeration: the scenario runs once (optionally with one generated background fault) counting fallible calls per thread and cleaner calls, then once more per call with that call failing. Oracle: directory handed out is present, empty and distinct from every other running action's; gone after Close unless its removal was the injected fault (then Close fails and the next successful cleaning removes it); nothing unowned in the root at any quiescent point; Get/Close fail iff something underneath failed; idle/busy automaton over the event log (no overlapping cleanings, none while an action is in use, one successful cleaning before idle->busy, one at busy->idle, none in between); IdleInvoker.VerifState agrees. Non-trivial (per run): >=2 threads overlapped AND (a cleaning failed OR a waiter was cancelled OR an injected directory fault was hit); distinct by executed-script+fault hash")
	rapid.Check(t, func(rt *rapid.T) {
		n := rapid.IntRange(2, 4).Draw(rt, "threads")
		steps := rapid.SliceOfN(genBDStep, 4, 48).Draw(rt, "steps")
		base := map[faultKey]bool{}
		if rapid.IntRange(0, 3).Draw(rt, "background") == 0 {
			base[faultKey{T: rapid.IntRange(-1, n-1).Draw(rt, "bgT"), K: rapid.IntRange(0, 5).Draw(rt, "bgK")}] = true
		}
		report := func(out *bdOutcome, faults map[faultKey]bool) {
			if out.inconclusive != "" {
				fmt.Println("VERIF-INCONCLUSIVE: " + out.inconclusive)
				rt.Fatalf("inconclusive: %s", out.inconclusive)
			}
			if out.failure != "" {
				rt.Fatalf("%s; threads=%d faults=%+v script=%+v", out.failure, n, faultList(faults), out.script)
			}
			for _, nt := range out.notes {
				rec.Note(nt)
			}
			for i := 0; i < out.excluded; i++ {
				rec.Exclude("cacheable action digest already running on this worker (the scheduler never does that); another digest used instead")
			}
			nontrivial := out.overlap && (out.cleanFailed || out.cancelled || out.faultHit)
			rec.Case(bdCase{n, faultList(faults), out.script}, nontrivial, sortedKeys(out.labels)...)
		}
		first := runBD(t, n, steps, base)
		report(first, base)
		rec.Label("scenarios")
		if len(base) > 0 {
			rec.Label("scenarios_with_background_fault")
		}
		var keys []faultKey
		for c := 0; c < first.cleanCalls; c++ {
			keys = append(keys, faultKey{T: -1, K: c})
		}
		for th := 0; th < n; th++ {
			for k := 0; k < first.opCounts[th]; k++ {
				keys = append(keys, faultKey{T: th, K: k})
			}
		}
		for _, k := range keys {
			if base[k] {
				continue
			}
			faults := map[faultKey]bool{k: true}
			for b := range base {
				faults[b] = true
			}
			out := runBD(t, n, steps, faults)
			report(out, faults)
			rec.Label("fault_runs")
			if !out.faultHit {
				rec.Label("fault_runs_fault_not_reached")
			}
		}
	})
}

package isolation

import (
	"context"
	"fmt"
	"testing"
	"testing/synctest"

	"github.com/buildbarn/bb-remote-execution/pkg/cleaner"
	"pgregory.net/rapid"

	"verif/harness/internal/simkit"
)

// Sub-check 1: the real cleaner.IdleInvoker against a predictive model.

type idleStep struct {
	Op   string `json:"op"` // acq | rel | fin | cancel
	Pick int    `json:"pick"`
	Err  bool   `json:"err,omitempty"`
}

type idleExec struct {
	Op  string `json:"op"`
	T   int    `json:"t"`
	Res string `json:"res,omitempty"`
}

var genIdleStep = rapid.Custom(func(rt *rapid.T) idleStep {
	op := rapid.SampledFrom([]string{"acq", "acq", "acq", "acq", "rel", "rel", "rel", "rel", "fin", "fin", "fin", "cancel", "cancel"}).Draw(rt, "op")
	return idleStep{
		Op:   op,
		Pick: rapid.IntRange(0, 11).Draw(rt, "pick"),
		Err:  rapid.IntRange(0, 3).Draw(rt, "err") == 0,
	}
})

const (
	thIdle = iota
	thAcquiring
	thHolding
	thReleasing
)

type idleOutcome struct {
	failure      string
	inconclusive string
	script       []idleExec
	labels       map[string]bool
	nontrivial   bool
}

type idleRun struct {
	w       *world
	inv     *cleaner.IdleInvoker
	sp      *spec
	n       int
	state   []int
	ctx     []context.Context
	cancel  []context.CancelFunc
	users   int  // model: use count
	cleanOn bool // model: a cleaner call is in flight
	post    bool // model: that call belongs to a Release
	by      int  // model: thread whose call runs the cleaner
	calls   int  // model: cleaner calls so far
	script  []idleExec
	labels  map[string]bool
	overlap bool
	out     *idleOutcome
}

// expectation for one thread after a step: returned (with or without
// error) or still blocked.
type idleExpect struct {
	returned bool
	wantErr  bool
}

func (r *idleRun) acquiring() []int {
	var ts []int
	for t, s := range r.state {
		if s == thAcquiring {
			ts = append(ts, t)
		}
	}
	return ts
}

// settle waits for quiescence and compares everything observable with the
// model. expect lists the threads whose call must have returned; every other
// in-flight call must still be blocked. afterFail says that a cleaning just
// ended and left users == 0 with acquirers pending: exactly one of them must
// have started the next cleaning.
func (r *idleRun) settle(expect map[int]idleExpect, newCleaning bool) string {
	synctest.Wait()
	if v := r.w.takeViolations(); len(v) > 0 {
		return v[0]
	}
	for _, ev := range r.w.newEvents() {
		if ev.kind == evCleanStart && ev.t < 0 {
			r.out.inconclusive = "cleaner called with a context that does not carry the caller's values; cannot attribute the call"
			return r.out.inconclusive
		}
		if msg := r.sp.feed(ev); msg != "" {
			return "idle/busy discipline: " + msg
		}
	}
	if msg := r.sp.quiescent(); msg != "" {
		return "idle/busy discipline: " + msg
	}
	for t := 0; t < r.n; t++ {
		res := r.w.takeResult(t)
		e, want := expect[t]
		if res != nil && res.panicked != "" {
			return fmt.Sprintf("thread %d: %s panicked: %s", t, res.kind, res.panicked)
		}
		if res != nil && !want {
			return fmt.Sprintf("thread %d: %s returned (err=%v) although the model says it must still be blocked (users=%d cleaning=%v)", t, res.kind, res.err, r.users, r.cleanOn)
		}
		if want && e.returned {
			if res == nil {
				return fmt.Sprintf("thread %d: call did not return although the model says it must (users=%d cleaning=%v)", t, r.users, r.cleanOn)
			}
			if e.wantErr && res.err == nil {
				return fmt.Sprintf("thread %d: %s returned nil, expected an error", t, res.kind)
			}
			if !e.wantErr && res.err != nil {
				return fmt.Sprintf("thread %d: %s returned error %v, expected success", t, res.kind, res.err)
			}
		}
		if (r.state[t] == thAcquiring || r.state[t] == thReleasing) && !r.w.isInflight(t) {
			return fmt.Sprintf("thread %d: model says its call is blocked but it is not in flight", t)
		}
	}
	act := r.w.activeCleaning()
	if newCleaning {
		if act == nil {
			return fmt.Sprintf("no cleaner call is running although the use count is 0 and %d Acquire calls are pending", len(r.acquiring()))
		}
		if act.tag < 0 {
			r.out.inconclusive = "cleaner called with a context that does not carry the caller's values"
			return r.out.inconclusive
		}
		if act.tag >= r.n || r.state[act.tag] != thAcquiring {
			return fmt.Sprintf("cleaner call #%d runs on behalf of thread %d, which has no Acquire pending", act.id, act.tag)
		}
		r.cleanOn, r.post, r.by = true, false, act.tag
		r.calls++
		r.labels["reclean_by_waiter"] = true
	}
	if r.w.cleanCalls != r.calls {
		return fmt.Sprintf("cleaner was called %d times so far, model expects %d (users=%d cleaning=%v)", r.w.cleanCalls, r.calls, r.users, r.cleanOn)
	}
	if (act != nil) != r.cleanOn {
		return fmt.Sprintf("cleaner running=%v, model expects %v", act != nil, r.cleanOn)
	}
	useCount, cleaning, lockFree := r.inv.VerifState()
	if !lockFree {
		lockLeaked(r.script)
		return "IdleInvoker lock is held at quiescence"
	}
	if int(useCount) != r.users || cleaning != r.cleanOn {
		return fmt.Sprintf("VerifState() = (useCount %d, cleaning %v), model (users %d, cleaning %v)", useCount, cleaning, r.users, r.cleanOn)
	}
	busy := 0
	for _, s := range r.state {
		if s != thIdle {
			busy++
		}
	}
	if busy >= 2 {
		r.overlap = true
	}
	return ""
}

func (r *idleRun) doAcquire(t int) string {
	r.ctx[t], r.cancel[t] = newThreadContext(t)
	ctx := r.ctx[t]
	r.state[t] = thAcquiring
	r.w.spawn(t, "acquire", true, func() (any, error) { return nil, r.inv.Acquire(ctx) })
	expect := map[int]idleExpect{}
	res := ""
	switch {
	case r.cleanOn:
		res = "waits"
		if r.post {
			r.labels["waiter_on_post_cleaning"] = true
		} else {
			r.labels["waiter_on_pre_cleaning"] = true
		}
	case r.users == 0:
		r.cleanOn, r.post, r.by = true, false, t
		r.calls++
		res = "cleans"
	default:
		r.users++
		r.state[t] = thHolding
		expect[t] = idleExpect{returned: true}
		res = "ok"
		r.labels["acquire_while_busy"] = true
	}
	r.script = append(r.script, idleExec{Op: "acquire", T: t, Res: res})
	return r.settle(expect, false)
}

func (r *idleRun) doRelease(t int) string {
	ctx := r.ctx[t]
	r.state[t] = thReleasing
	r.w.spawn(t, "release", false, func() (any, error) { return nil, r.inv.Release(ctx) })
	r.users--
	expect := map[int]idleExpect{}
	res := "ok"
	if r.users == 0 {
		r.cleanOn, r.post, r.by = true, true, t
		r.calls++
		res = "cleans"
	} else {
		r.state[t] = thIdle
		expect[t] = idleExpect{returned: true}
	}
	r.script = append(r.script, idleExec{Op: "release", T: t, Res: res})
	return r.settle(expect, false)
}

func (r *idleRun) doFinish(fail bool) string {
	var err error
	if fail {
		err = fmt.Errorf("injected cleaner failure")
	}
	expect := map[int]idleExpect{}
	by, post := r.by, r.post
	r.cleanOn, r.by = false, -1
	kind := "pre"
	if post {
		kind = "post"
		// Release always decrements, and reports the cleaning's result.
		r.state[by] = thIdle
		expect[by] = idleExpect{returned: true, wantErr: fail}
		if fail {
			r.labels["post_cleaning_failed"] = true
		}
	} else if fail {
		// Failed pre-cleaning: that Acquire fails, use count unchanged.
		r.state[by] = thIdle
		expect[by] = idleExpect{returned: true, wantErr: true}
		r.labels["pre_cleaning_failed"] = true
	} else {
		// All pending Acquire calls proceed.
		waiters := 0
		for _, t := range r.acquiring() {
			r.state[t] = thHolding
			r.users++
			expect[t] = idleExpect{returned: true}
			if t != by {
				waiters++
			}
		}
		if waiters >= 1 {
			r.labels["waiters_proceed"] = true
		}
		if waiters >= 2 {
			r.labels["waiters_proceed_2plus"] = true
		}
	}
	newCleaning := r.users == 0 && len(r.acquiring()) > 0
	res := "ok"
	if fail {
		res = "err"
	}
	r.script = append(r.script, idleExec{Op: "finish_" + kind, T: by, Res: res})
	if !r.w.finishCleaning(err) {
		return "harness: no cleaner call to finish"
	}
	return r.settle(expect, newCleaning)
}

func (r *idleRun) doCancel(t int) string {
	r.cancel[t]()
	r.state[t] = thIdle
	r.labels["waiter_cancelled"] = true
	r.script = append(r.script, idleExec{Op: "cancel_waiter", T: t})
	return r.settle(map[int]idleExpect{t: {returned: true, wantErr: true}}, false)
}

func runIdle(t *testing.T, n int, steps []idleStep) *idleOutcome {
	out := &idleOutcome{labels: map[string]bool{}}
	fail := runBubble(t, func() (fail string) {
		w := newWorld()
		r := &idleRun{w: w, n: n, sp: newSpec(n), state: make([]int, n), ctx: make([]context.Context, n), cancel: make([]context.CancelFunc, n), by: -1, labels: out.labels, out: out}
		r.inv = cleaner.NewIdleInvoker(w.cleaner)
		defer func() {
			if p := recover(); p != nil {
				fail = appendFailure(fail, fmt.Sprintf("panic: %v", p))
			}
			out.script = r.script
			if fail != "" {
				w.abandon(r.cancel)
			}
		}()
		pickFrom := func(pick int, want func(t int) bool) int {
			var el []int
			for t := 0; t < n; t++ {
				if want(t) {
					el = append(el, t)
				}
			}
			if len(el) == 0 {
				return -1
			}
			return el[pick%len(el)]
		}
		// A step whose operation is not applicable in the current state
		// falls back to the next applicable one (finish, acquire,
		// release), so that few steps are wasted.
		try := func(op string, s idleStep) (bool, string) {
			switch op {
			case "acq":
				if t := pickFrom(s.Pick, func(t int) bool { return r.state[t] == thIdle }); t >= 0 {
					return true, r.doAcquire(t)
				}
			case "rel":
				// Release only by a thread that holds: Release on a
				// zero use count is documented misuse.
				if t := pickFrom(s.Pick, func(t int) bool { return r.state[t] == thHolding }); t >= 0 {
					return true, r.doRelease(t)
				}
			case "fin":
				if r.cleanOn {
					return true, r.doFinish(s.Err)
				}
			case "cancel":
				if r.cleanOn {
					if t := pickFrom(s.Pick, func(t int) bool { return r.state[t] == thAcquiring && t != r.by }); t >= 0 {
						return true, r.doCancel(t)
					}
				}
			}
			return false, ""
		}
		for _, s := range steps {
			for _, op := range []string{s.Op, "fin", "acq", "rel"} {
				done, msg := try(op, s)
				if msg != "" {
					return msg
				}
				if done {
					break
				}
			}
		}
		// Drain: everything must come to rest with use count 0.
		for i := 0; ; i++ {
			if i > 8*n+8 {
				return "the invoker did not come to rest"
			}
			msg := ""
			if r.cleanOn {
				msg = r.doFinish(false)
			} else if t := pickFrom(0, func(t int) bool { return r.state[t] == thHolding }); t >= 0 {
				msg = r.doRelease(t)
			} else {
				break
			}
			if msg != "" {
				return "drain: " + msg
			}
		}
		for t := 0; t < n; t++ {
			if r.state[t] != thIdle {
				return fmt.Sprintf("drain: thread %d is not idle at the end", t)
			}
			if r.cancel[t] != nil {
				r.cancel[t]()
			}
		}
		if r.users != 0 {
			return "drain: model use count is not 0"
		}
		out.nontrivial = r.overlap && (out.labels["pre_cleaning_failed"] || out.labels["post_cleaning_failed"] || out.labels["waiter_cancelled"])
		if r.overlap {
			out.labels["overlap_2plus_threads"] = true
		}
		return ""
	})
	if out.inconclusive == "" {
		out.failure = fail
	}
	return out
}

func TestC12IdleInvokerSchedules(t *testing.T) {
	rec := simkit.NewRecorder(t, "C12", "idle_invoker",
		"real cleaner.IdleInvoker in a synctest bubble with a parked, fallible cleaner and 2-4 threads; generated schedule of start-Acquire / start-Release (holders only) / finish-cleaning(ok|err) / cancel-a-waiter, synctest.Wait after each; oracle: predictive model of use count and in-flight cleaning (which calls return, with or without error; number of cleaner calls; VerifState at every quiescent point) plus the idle/busy automaton of the property text. Non-trivial: >=2 threads overlapped (holding or in flight at the same time) AND (a cleaning failed OR a waiter was cancelled); distinct by executed-script hash")
	rapid.Check(t, func(rt *rapid.T) {
		n := rapid.IntRange(2, 4).Draw(rt, "threads")
		steps := rapid.SliceOfN(genIdleStep, 4, 60).Draw(rt, "steps")
		out := runIdle(t, n, steps)
		if out.inconclusive != "" {
			fmt.Println("VERIF-INCONCLUSIVE: " + out.inconclusive)
			rt.Fatalf("inconclusive: %s", out.inconclusive)
		}
		if out.failure != "" {
			rt.Fatalf("%s; threads=%d script=%+v", out.failure, n, out.script)
		}
		rec.Case(struct {
			N int        `json:"threads"`
			S []idleExec `json:"script"`
		}{n, out.script}, out.nontrivial, sortedKeys(out.labels)...)
	})
}

// Package isolation decides property C12 ("each action runs isolated and
// leaves nothing behind"): cleaner.IdleInvoker, the build directory creator
// stack Shared(Clean(Root)) and runner.NewCleanRunner, each run inside a
// testing/synctest bubble with a parked, fallible cleaner so that the harness
// owns the schedule.
package isolation

import (
	"context"
	"fmt"
	"io"
	"log"
	"os"
	"sort"
	"sync"
	"testing"
	"testing/synctest"
)

func init() {
	// shared_build_directory_creator.go logs when removal upon a failed
	// EnterBuildDirectory fails; that is an injected fault here.
	log.SetOutput(io.Discard)
}

// tagKey marks every thread's context with the thread index, so that a
// cleaner call can be attributed to the Acquire/Release that triggered it.
type tagKey struct{}

func tagOf(ctx context.Context) int {
	if v, ok := ctx.Value(tagKey{}).(int); ok {
		return v
	}
	return -1
}

func newThreadContext(t int) (context.Context, context.CancelFunc) {
	return context.WithCancel(context.WithValue(context.Background(), tagKey{}, t))
}

type evKind int

const (
	evCleanStart evKind = iota
	evCleanEnd
	evOpPark
	evOpDone
	evCallEnd
)

// event is one observation; the log is totally ordered by world.mu.
type event struct {
	kind  evKind
	t     int    // thread (cleaner: context tag of the call, -1 if untagged)
	id    int    // cleaner call ordinal
	op    string // parked operation / call kind
	name  string
	err   error
	holds bool // evCallEnd: the thread is inside its use interval after this call
}

type cleanCall struct {
	id   int
	tag  int
	done chan error
}

type parkedOp struct {
	t       int
	op      string
	name    string
	release chan error
}

type callResult struct {
	kind     string
	val      any
	err      error
	panicked string
}

// world is the observation point shared by all fakes of one run.
type world struct {
	mu         sync.Mutex
	log        []event
	consumed   int
	cleanCalls int
	active     []*cleanCall
	parked     map[int]*parkedOp
	inflight   map[int]string
	results    map[int]*callResult
	viol       []string
	onCleanOK  func() // under mu: effect of a successful cleaning
}

func newWorld() *world {
	return &world{parked: map[int]*parkedOp{}, inflight: map[int]string{}, results: map[int]*callResult{}}
}

func (w *world) violate(format string, a ...any) {
	w.viol = append(w.viol, fmt.Sprintf(format, a...))
}

// cleaner is the parked, fallible cleaner.Cleaner.
func (w *world) cleaner(ctx context.Context) error {
	c := &cleanCall{tag: tagOf(ctx), done: make(chan error, 1)}
	w.mu.Lock()
	c.id = w.cleanCalls
	w.cleanCalls++
	if len(w.active) > 0 {
		w.violate("cleaner call #%d started while cleaner call #%d is still running (cleanings overlap)", c.id, w.active[0].id)
	}
	w.active = append(w.active, c)
	w.log = append(w.log, event{kind: evCleanStart, t: c.tag, id: c.id})
	w.mu.Unlock()

	err := <-c.done

	w.mu.Lock()
	for i, a := range w.active {
		if a == c {
			w.active = append(w.active[:i], w.active[i+1:]...)
			break
		}
	}
	if err == nil && w.onCleanOK != nil {
		w.onCleanOK()
	}
	w.log = append(w.log, event{kind: evCleanEnd, t: c.tag, id: c.id, err: err})
	w.mu.Unlock()
	return err
}

// park blocks the calling goroutine (thread t) before a fallible operation
// until the harness releases it with the operation's injected outcome.
func (w *world) park(t int, op, name string) error {
	p := &parkedOp{t: t, op: op, name: name, release: make(chan error, 1)}
	w.mu.Lock()
	if w.parked[t] != nil {
		w.violate("thread %d parked at %s while already parked at %s", t, op, w.parked[t].op)
	}
	w.parked[t] = p
	w.log = append(w.log, event{kind: evOpPark, t: t, op: op, name: name})
	w.mu.Unlock()
	return <-p.release
}

func (w *world) opDone(t int, op, name string, err error) {
	w.log = append(w.log, event{kind: evOpDone, t: t, op: op, name: name, err: err})
}

// spawn runs one top-level call of thread t in its own goroutine; panics of
// the code under test are carried into the result instead of killing the
// process (so that rapid can shrink).
func (w *world) spawn(t int, kind string, holdsIfOK bool, f func() (any, error)) {
	w.mu.Lock()
	if _, busy := w.inflight[t]; busy {
		w.violate("harness: thread %d already has a call in flight", t)
	}
	w.inflight[t] = kind
	w.mu.Unlock()
	go func() {
		r := &callResult{kind: kind}
		func() {
			defer func() {
				if p := recover(); p != nil {
					r.panicked = fmt.Sprint(p)
				}
			}()
			r.val, r.err = f()
		}()
		w.mu.Lock()
		delete(w.inflight, t)
		w.results[t] = r
		w.log = append(w.log, event{kind: evCallEnd, t: t, op: kind, err: r.err, holds: holdsIfOK && r.err == nil && r.panicked == ""})
		w.mu.Unlock()
	}()
}

func (w *world) takeResult(t int) *callResult {
	w.mu.Lock()
	defer w.mu.Unlock()
	r := w.results[t]
	delete(w.results, t)
	return r
}

func (w *world) newEvents() []event {
	w.mu.Lock()
	defer w.mu.Unlock()
	evs := append([]event(nil), w.log[w.consumed:]...)
	w.consumed = len(w.log)
	return evs
}

func (w *world) activeCleaning() *cleanCall {
	w.mu.Lock()
	defer w.mu.Unlock()
	if len(w.active) == 0 {
		return nil
	}
	return w.active[0]
}

func (w *world) parkedThreads() []int {
	w.mu.Lock()
	defer w.mu.Unlock()
	var ts []int
	for t := range w.parked {
		ts = append(ts, t)
	}
	sort.Ints(ts)
	return ts
}

func (w *world) releaseParked(t int, err error) *parkedOp {
	w.mu.Lock()
	p := w.parked[t]
	delete(w.parked, t)
	w.mu.Unlock()
	if p != nil {
		p.release <- err
	}
	return p
}

func (w *world) finishCleaning(err error) bool {
	c := w.activeCleaning()
	if c == nil {
		return false
	}
	c.done <- err
	return true
}

func (w *world) takeViolations() []string {
	w.mu.Lock()
	defer w.mu.Unlock()
	v := w.viol
	w.viol = nil
	return v
}

func (w *world) isInflight(t int) bool {
	w.mu.Lock()
	defer w.mu.Unlock()
	_, ok := w.inflight[t]
	return ok
}

func (w *world) isParked(t int) bool {
	w.mu.Lock()
	defer w.mu.Unlock()
	return w.parked[t] != nil
}

// abandon lets every goroutine of a failed run finish so that the bubble can
// be left: parked operations and cleanings are released with an error.
func (w *world) abandon(cancels []context.CancelFunc) {
	for _, c := range cancels {
		if c != nil {
			c()
		}
	}
	for i := 0; i < 200; i++ {
		synctest.Wait()
		progressed := false
		for _, t := range w.parkedThreads() {
			w.releaseParked(t, fmt.Errorf("harness: run abandoned"))
			progressed = true
		}
		w.mu.Lock()
		act := append([]*cleanCall(nil), w.active...)
		w.mu.Unlock()
		for _, c := range act {
			select {
			case c.done <- fmt.Errorf("harness: run abandoned"):
				progressed = true
			default:
			}
		}
		if !progressed {
			return
		}
	}
}

// spec is the observable specification of the idle/busy discipline, fed with
// the event log: a thread is "in use" from the first observation that it
// passed the acquisition until it releases. It is the property text turned
// into an automaton:
//   - cleanings never overlap;
//   - a cleaning never starts while any thread is in use (other than the
//     last user leaving: the busy->idle cleaning);
//   - the first thread to enter use (idle->busy) needs a successful cleaning
//     that ended after the system was last busy;
//   - the last thread to leave use (busy->idle) triggers a cleaning before
//     its call returns;
//   - no cleaning in between (a successful idle->busy cleaning is followed
//     by use, not by another cleaning).
type spec struct {
	inUse       []bool
	users       int
	cleaning    bool
	post        bool
	by          int
	cleaned     bool
	untagged    bool
	nClean      int
	nCleanFail  int
	nPre, nPost int
	preFailed   map[int]bool // thread -> its idle->busy cleaning failed during the current call
	maxUsers    int
}

func newSpec(n int) *spec {
	return &spec{inUse: make([]bool, n), by: -1, preFailed: map[int]bool{}}
}

func (s *spec) enter(t int, how string) string {
	if s.inUse[t] {
		return ""
	}
	if s.cleaning {
		return fmt.Sprintf("thread %d entered use (%s) while a cleaning is in progress", t, how)
	}
	if s.users == 0 && !s.cleaned {
		return fmt.Sprintf("thread %d entered use (%s) at the idle->busy transition without a successful cleaning before it", t, how)
	}
	s.inUse[t] = true
	s.users++
	if s.users > s.maxUsers {
		s.maxUsers = s.users
	}
	s.cleaned = false
	return ""
}

func (s *spec) feed(ev event) string {
	switch ev.kind {
	case evCleanStart:
		s.nClean++
		if s.cleaning {
			return fmt.Sprintf("cleaning #%d started while another cleaning is in progress", ev.id)
		}
		if ev.t < 0 || ev.t >= len(s.inUse) {
			s.untagged = true
			return ""
		}
		if s.inUse[ev.t] {
			// The caller is leaving: must be the last user.
			if s.users != 1 {
				return fmt.Sprintf("cleaning #%d started by leaving thread %d while %d other threads are still in use", ev.id, ev.t, s.users-1)
			}
			s.inUse[ev.t] = false
			s.users = 0
			s.post = true
			s.nPost++
		} else {
			if s.users > 0 {
				return fmt.Sprintf("cleaning #%d started by entering thread %d while %d threads are in use", ev.id, ev.t, s.users)
			}
			if s.cleaned {
				return fmt.Sprintf("cleaning #%d started although the previous idle->busy cleaning succeeded and nobody used the system since", ev.id)
			}
			s.post = false
			s.nPre++
		}
		s.cleaning = true
		s.by = ev.t
	case evCleanEnd:
		if !s.cleaning {
			return ""
		}
		s.cleaning = false
		if ev.err != nil {
			s.nCleanFail++
			if !s.post {
				s.preFailed[s.by] = true
			}
		} else if !s.post {
			s.cleaned = true
		}
	case evOpPark:
		return s.enter(ev.t, "reached "+ev.op)
	case evCallEnd:
		if ev.holds {
			return s.enter(ev.t, ev.op+" returned successfully")
		}
		if s.inUse[ev.t] {
			// Left without a cleaning: only fine if others remain.
			if s.users == 1 {
				return fmt.Sprintf("thread %d left use (%s returned) as the last user (busy->idle) without a cleaning", ev.t, ev.op)
			}
			s.inUse[ev.t] = false
			s.users--
		}
	}
	return ""
}

// quiescent is checked after every batch of events.
func (s *spec) quiescent() string {
	if s.cleaned && s.users == 0 && !s.cleaning {
		return "a successful idle->busy cleaning ended but no thread entered use"
	}
	return ""
}

// runBubble runs f inside a synctest bubble and returns the failure text, if
// any. Panics of the harness' root goroutine and a non-draining bubble are
// failures too.
func runBubble(t *testing.T, f func() string) (failure string) {
	defer func() {
		if r := recover(); r != nil {
			failure = appendFailure(failure, fmt.Sprintf("bubble did not drain: %v", r))
		}
	}()
	synctest.Test(t, func(st *testing.T) {
		defer func() {
			if r := recover(); r != nil {
				failure = appendFailure(failure, fmt.Sprintf("panic in harness root goroutine: %v", r))
			}
		}()
		failure = f()
	})
	return failure
}

// lockLeaked reports a leaked IdleInvoker lock and ends the process: the
// bubble can never drain (a goroutine blocked on the leaked mutex is not
// "durably blocked"), so the usual path through rt.Fatalf and shrinking
// would hang until the wall-clock guard and be reported as inconclusive.
func lockLeaked(script any) {
	fmt.Printf("VERIF-VIOLATION property=C14/C12: the IdleInvoker lock is still held at quiescence: a call returned without releasing it; executed script=%+v\n", script)
	os.Exit(1)
}

func appendFailure(a, b string) string {
	if a == "" {
		return b
	}
	return a + "; " + b
}

func sortedKeys(m map[string]bool) []string {
	var ks []string
	for k, v := range m {
		if v {
			ks = append(ks, k)
		}
	}
	sort.Strings(ks)
	return ks
}

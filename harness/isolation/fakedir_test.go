package isolation

import (
	"context"
	"os"
	"sort"
	"syscall"

	"github.com/buildbarn/bb-remote-execution/pkg/builder"
	"github.com/buildbarn/bb-remote-execution/pkg/filesystem/access"
	"github.com/buildbarn/bb-remote-execution/pkg/filesystem/pool"
	"github.com/buildbarn/bb-storage/pkg/digest"
	"github.com/buildbarn/bb-storage/pkg/filesystem"
	"github.com/buildbarn/bb-storage/pkg/filesystem/path"
	"github.com/buildbarn/bb-storage/pkg/util"
)

// In-memory builder.BuildDirectory. The tree is guarded by world.mu. Every
// thread gets its own view of the one root (so that operations can be
// attributed); the fallible operations of the creator stack (root Mkdir /
// EnterBuildDirectory / Remove / RemoveAll, Close of the action's directory)
// park before they take effect.

type fsNode struct {
	dirs  map[string]*fsNode
	files map[string]bool
}

func newNode() *fsNode { return &fsNode{dirs: map[string]*fsNode{}, files: map[string]bool{}} }

func (n *fsNode) empty() bool { return len(n.dirs) == 0 && len(n.files) == 0 }

func (n *fsNode) names() []string {
	var ns []string
	for k := range n.dirs {
		ns = append(ns, k)
	}
	for k := range n.files {
		ns = append(ns, k)
	}
	sort.Strings(ns)
	return ns
}

// bdWorld adds the directory tree and per-thread bookkeeping to world.
type bdWorld struct {
	*world
	root *fsNode
	// Per thread, reset by the harness at the start of each call.
	entered     map[int]*fakeDir // handle returned by root EnterBuildDirectory
	created     map[int]string   // name created by root Mkdir
	hits        map[int][]string // injected / natural failures seen by the thread's current call
	openHandles int
	rootClosed  bool
}

type fakeDir struct {
	w      *bdWorld
	node   *fsNode
	level  int // 0 root view, 1 action directory, >=2 below
	t      int // owning thread (root view: the thread of the creator stack)
	name   string
	closed bool
}

var _ builder.BuildDirectory = (*fakeDir)(nil)

func (d *fakeDir) parks() bool { return d.level == 0 }

func (d *fakeDir) Close() error {
	if d.level == 0 {
		d.w.mu.Lock()
		d.w.rootClosed = true
		d.w.violate("Close() called on the root build directory, which is reused for every action")
		d.w.mu.Unlock()
		return nil
	}
	var err error
	if d.level == 1 {
		err = d.w.park(d.t, "Close", d.name)
	}
	d.w.mu.Lock()
	if d.closed {
		d.w.violate("directory handle %q closed twice", d.name)
	} else {
		d.closed = true
		d.w.openHandles--
	}
	if d.level == 1 {
		if err != nil {
			d.w.hits[d.t] = append(d.w.hits[d.t], "Close")
		}
		d.w.opDone(d.t, "Close", d.name, err)
	}
	d.w.mu.Unlock()
	return err
}

func (d *fakeDir) mkdir(name string) error {
	if _, ok := d.node.dirs[name]; ok {
		return syscall.EEXIST
	}
	if d.node.files[name] {
		return syscall.EEXIST
	}
	d.node.dirs[name] = newNode()
	return nil
}

func (d *fakeDir) Mkdir(name path.Component, perm os.FileMode) error {
	n := name.String()
	if d.parks() {
		if err := d.w.park(d.t, "Mkdir", n); err != nil {
			d.w.mu.Lock()
			d.w.hits[d.t] = append(d.w.hits[d.t], "Mkdir")
			d.w.opDone(d.t, "Mkdir", n, err)
			d.w.mu.Unlock()
			return err
		}
	}
	d.w.mu.Lock()
	defer d.w.mu.Unlock()
	err := d.mkdir(n)
	if d.parks() {
		if err != nil {
			d.w.hits[d.t] = append(d.w.hits[d.t], "natural:Mkdir:"+n)
		} else {
			d.w.created[d.t] = n
		}
		d.w.opDone(d.t, "Mkdir", n, err)
	}
	return err
}

func (d *fakeDir) enter(name path.Component) (*fakeDir, error) {
	n := name.String()
	if d.parks() {
		if err := d.w.park(d.t, "EnterBuildDirectory", n); err != nil {
			d.w.mu.Lock()
			d.w.hits[d.t] = append(d.w.hits[d.t], "EnterBuildDirectory")
			d.w.opDone(d.t, "EnterBuildDirectory", n, err)
			d.w.mu.Unlock()
			return nil, err
		}
	}
	d.w.mu.Lock()
	defer d.w.mu.Unlock()
	child, ok := d.node.dirs[n]
	if !ok {
		err := error(syscall.ENOENT)
		if d.node.files[n] {
			err = syscall.ENOTDIR
		}
		if d.parks() {
			d.w.hits[d.t] = append(d.w.hits[d.t], "natural:EnterBuildDirectory:"+err.Error())
			d.w.opDone(d.t, "EnterBuildDirectory", n, err)
		}
		return nil, err
	}
	h := &fakeDir{w: d.w, node: child, level: d.level + 1, t: d.t, name: n}
	d.w.openHandles++
	if d.parks() {
		d.w.entered[d.t] = h
		d.w.opDone(d.t, "EnterBuildDirectory", n, nil)
	}
	return h, nil
}

func (d *fakeDir) EnterBuildDirectory(name path.Component) (builder.BuildDirectory, error) {
	h, err := d.enter(name)
	if err != nil {
		return nil, err
	}
	return h, nil
}

func (d *fakeDir) EnterParentPopulatableDirectory(name path.Component) (builder.ParentPopulatableDirectory, error) {
	h, err := d.enter(name)
	if err != nil {
		return nil, err
	}
	return h, nil
}

func (d *fakeDir) EnterUploadableDirectory(name path.Component) (builder.UploadableDirectory, error) {
	h, err := d.enter(name)
	if err != nil {
		return nil, err
	}
	return h, nil
}

func (d *fakeDir) Lstat(name path.Component) (filesystem.FileInfo, error) {
	d.w.mu.Lock()
	defer d.w.mu.Unlock()
	n := name.String()
	if _, ok := d.node.dirs[n]; ok {
		return filesystem.NewFileInfo(name, filesystem.FileTypeDirectory, false), nil
	}
	if d.node.files[n] {
		return filesystem.NewFileInfo(name, filesystem.FileTypeRegularFile, false), nil
	}
	return filesystem.FileInfo{}, syscall.ENOENT
}

func (d *fakeDir) ReadDir() ([]filesystem.FileInfo, error) {
	d.w.mu.Lock()
	defer d.w.mu.Unlock()
	var l []filesystem.FileInfo
	for _, n := range d.node.names() {
		ft := filesystem.FileTypeRegularFile
		if _, ok := d.node.dirs[n]; ok {
			ft = filesystem.FileTypeDirectory
		}
		l = append(l, filesystem.NewFileInfo(path.MustNewComponent(n), ft, false))
	}
	return l, nil
}

func (d *fakeDir) Readlink(name path.Component) (path.Parser, error) {
	return nil, syscall.EINVAL
}

func (d *fakeDir) UploadFile(ctx context.Context, name path.Component, digestFunction digest.Function, writableFileUploadDelay <-chan struct{}) (digest.Digest, error) {
	return digest.BadDigest, syscall.ENOSYS
}

func (d *fakeDir) Mknod(name path.Component, perm os.FileMode, deviceNumber filesystem.DeviceNumber) error {
	d.w.mu.Lock()
	defer d.w.mu.Unlock()
	n := name.String()
	if _, ok := d.node.dirs[n]; ok || d.node.files[n] {
		return syscall.EEXIST
	}
	d.node.files[n] = true
	return nil
}

func (d *fakeDir) Remove(name path.Component) error {
	n := name.String()
	if d.parks() {
		if err := d.w.park(d.t, "Remove", n); err != nil {
			d.w.mu.Lock()
			d.w.hits[d.t] = append(d.w.hits[d.t], "Remove")
			d.w.opDone(d.t, "Remove", n, err)
			d.w.mu.Unlock()
			return err
		}
	}
	d.w.mu.Lock()
	defer d.w.mu.Unlock()
	var err error
	if c, ok := d.node.dirs[n]; ok {
		if !c.empty() {
			err = syscall.ENOTEMPTY
		} else {
			delete(d.node.dirs, n)
		}
	} else if d.node.files[n] {
		delete(d.node.files, n)
	} else {
		err = syscall.ENOENT
	}
	if d.parks() {
		if err != nil {
			d.w.hits[d.t] = append(d.w.hits[d.t], "natural:Remove:"+err.Error())
		}
		d.w.opDone(d.t, "Remove", n, err)
	}
	return err
}

func (d *fakeDir) RemoveAll(name path.Component) error {
	n := name.String()
	if d.parks() {
		if err := d.w.park(d.t, "RemoveAll", n); err != nil {
			d.w.mu.Lock()
			d.w.hits[d.t] = append(d.w.hits[d.t], "RemoveAll")
			d.w.opDone(d.t, "RemoveAll", n, err)
			d.w.mu.Unlock()
			return err
		}
	}
	d.w.mu.Lock()
	defer d.w.mu.Unlock()
	delete(d.node.dirs, n)
	delete(d.node.files, n)
	if d.parks() {
		d.w.opDone(d.t, "RemoveAll", n, nil)
	}
	return nil
}

func (d *fakeDir) InstallHooks(filePool pool.FilePool, errorLogger util.ErrorLogger) {}

func (d *fakeDir) MergeDirectoryContents(ctx context.Context, errorLogger util.ErrorLogger, digest digest.Digest, monitor access.UnreadDirectoryMonitor) error {
	return nil
}

// Package susclock decides property C11: execution timeouts handed out by
// re_clock.SuspendableClock fire after the requested amount of *unsuspended*
// time, are compensated for suspensions, but never by more than the
// configured maximum; and the decorators that suspend the clock around
// storage calls keep the suspension count balanced.
package susclock

import (
	"context"
	"encoding/json"
	"fmt"
	"sort"
	"sync/atomic"
	"testing"
	"testing/synctest"
	"time"

	re_clock "github.com/buildbarn/bb-remote-execution/pkg/clock"
	bb_clock "github.com/buildbarn/bb-storage/pkg/clock"
	"pgregory.net/rapid"

	"verif/harness/internal/simkit"
)

// ---------------------------------------------------------------------
// Timeline (the script of one case). All instants are integer ticks
// relative to the start of the synctest bubble.
// ---------------------------------------------------------------------

type ival struct {
	S int `json:"s"` // Suspend() at tick S
	E int `json:"e"` // Resume() at tick E (E >= S)
}

type event struct {
	T      int    `json:"t"`
	Kind   string `json:"k"`           // create | suspend | resume | finish | outer_cancel (executor sub-checks only)
	Reader int    `json:"r,omitempty"` // for suspend/resume
	// Settle: call synctest.Wait() after reaching instant T and before
	// performing the event, so that every base timer that expires at T has
	// been processed by the clock first. Without it the order of this event
	// and a timer expiring at the same instant is left to the Go scheduler;
	// the oracle accepts both orders.
	Settle bool `json:"w,omitempty"`
}

type timeline struct {
	UnitNs  int64    `json:"unit_ns"`
	D       int      `json:"d"`       // timeout
	M       int      `json:"m"`       // maximumSuspension
	Th      int      `json:"th"`      // timeoutThreshold (>0)
	Objects string   `json:"objects"` // ctx | timer | both
	Via     string   `json:"via"`     // how the command "finishes": cancel | parent
	Create  int      `json:"create"`
	Finish  int      `json:"finish"` // -1: the command never finishes by itself
	Readers [][]ival `json:"readers"`
	Events  []event  `json:"events"` // merged, in execution order

	// Executor-level extensions (absent, and omitted from the script, in the
	// plain timeline sub-check; see executor_test.go and wired_test.go).
	// OuterCancel is the tick at which the context handed to Execute() is
	// cancelled (event kind "outer_cancel"). Stalls == "wired" means that
	// every interval is a real call through a suspending decorator against
	// a parked backend, Calls[r][i] being the call behind Readers[r][i].
	OuterCancel *int          `json:"outer_cancel,omitempty"`
	// ConsumerStall: Execute() is called ConsumerStall[0]+ConsumerStall[1]
	// ticks before Create (event kind "launch") and the consumer of its
	// execution state updates lets it wait that long before taking the
	// first ("fetching inputs") and the second ("running") update, so
	// that the command still starts at Create. Time spent waiting for
	// the worker to take a state update is not run time of the command.
	ConsumerStall []int `json:"consumer_stall,omitempty"`
	Stalls      string        `json:"stalls,omitempty"`
	Calls       [][]wiredPlan `json:"calls,omitempty"`

	// Reference model tables, filled by prep(): depthAt[k] is the number of
	// suspensions covering tick [k, k+1), uAt[t] the unsuspended time in
	// [create, t).
	depthAt []int
	uAt     []int
}

func (tl *timeline) String() string {
	b, _ := json.Marshal(tl)
	return string(b)
}

// prep fills the model tables naively, one tick at a time.
func (tl *timeline) prep() {
	n := tl.horizon() + 2
	tl.depthAt = make([]int, n)
	tl.uAt = make([]int, n+1)
	for k := 0; k < n; k++ {
		for _, iv := range tl.allIntervals() {
			if iv.S <= k && k < iv.E {
				tl.depthAt[k]++
			}
		}
	}
	for t := 0; t < n; t++ {
		tl.uAt[t+1] = tl.uAt[t]
		if t >= tl.Create && tl.depthAt[t] == 0 {
			tl.uAt[t+1]++
		}
	}
}

func (tl *timeline) allIntervals() []ival {
	var out []ival
	for _, r := range tl.Readers {
		out = append(out, r...)
	}
	return out
}

// depth is the number of suspensions covering the tick [k, k+1).
func (tl *timeline) depth(k int) int {
	if k < 0 || k >= len(tl.depthAt) {
		return 0 // no suspension extends beyond the horizon
	}
	return tl.depthAt[k]
}

// unsuspended is the reference model: the amount of time (in ticks) in
// [create, t) during which no suspension was in effect. Deliberately naive:
// one tick at a time.
func (tl *timeline) unsuspended(t int) int {
	if t <= tl.Create {
		return 0
	}
	if t < len(tl.uAt) {
		return tl.uAt[t]
	}
	// Beyond the tables nothing is suspended any more.
	last := len(tl.uAt) - 1
	return tl.uAt[last] + (t - last)
}

func (tl *timeline) horizon() int {
	h := tl.Create + tl.D + tl.M
	if tl.Finish > h {
		h = tl.Finish
	}
	for _, iv := range tl.allIntervals() {
		if iv.E > h {
			h = iv.E
		}
	}
	if tl.OuterCancel != nil && *tl.OuterCancel > h {
		h = *tl.OuterCancel
	}
	return h + 3
}

// budgetReached is the first instant at which the unsuspended time since
// creation reaches d, or -1 if that does not happen before the horizon.
func (tl *timeline) budgetReached() int {
	for t := tl.Create; t <= tl.horizon(); t++ {
		if tl.unsuspended(t) >= tl.D {
			return t
		}
	}
	return -1
}

// expiries lists the instants at which the documented re-arm scheme lets a
// base timer expire (first after d, then after whatever part of d was spent
// suspended, as long as that is at least th). Used only to classify cases
// (labels / non-triviality), never by the oracle.
func (tl *timeline) expiries(limit int) []int {
	var out []int
	t := tl.Create + tl.D
	for t <= limit && len(out) < 64 {
		out = append(out, t)
		rem := tl.D - tl.unsuspended(t)
		if rem < tl.Th || rem <= 0 {
			break
		}
		t += rem
	}
	return out
}

func genTimeline(rt *rapid.T) *timeline {
	tl := &timeline{}
	tl.UnitNs = rapid.SampledFrom([]int64{1, int64(time.Millisecond), int64(time.Millisecond), int64(time.Second)}).Draw(rt, "unit")
	if rapid.IntRange(0, 3).Draw(rt, "dKind") == 0 {
		tl.D = rapid.IntRange(0, 40).Draw(rt, "d")
	} else {
		tl.D = rapid.IntRange(6, 40).Draw(rt, "d")
	}
	if rapid.IntRange(0, 3).Draw(rt, "thKind") == 0 {
		tl.Th = rapid.IntRange(1, 12).Draw(rt, "th")
	} else {
		tl.Th = rapid.IntRange(1, 4).Draw(rt, "th")
	}
	switch rapid.IntRange(0, 3).Draw(rt, "mKind") {
	case 0:
		tl.M = rapid.IntRange(0, 6).Draw(rt, "m")
	default:
		tl.M = rapid.IntRange(0, 60).Draw(rt, "m")
	}
	tl.Objects = rapid.SampledFrom([]string{"ctx", "ctx", "timer", "both"}).Draw(rt, "objects")
	tl.Via = rapid.SampledFrom([]string{"cancel", "cancel", "parent"}).Draw(rt, "via")
	tl.Create = rapid.IntRange(0, 12).Draw(rt, "create")
	span := tl.D + tl.M + 6
	switch rapid.IntRange(0, 5).Draw(rt, "finishKind") {
	case 0, 1:
		tl.Finish = -1
	case 2:
		tl.Finish = tl.Create + rapid.IntRange(0, span).Draw(rt, "finishAfter")
	case 3:
		// Shortly before the budget would be used up without suspensions.
		tl.Finish = tl.Create + tl.D - rapid.IntRange(0, tl.D).Draw(rt, "finishBeforeD")
	default:
		// Somewhere in the compensation window.
		tl.Finish = tl.Create + tl.D + rapid.IntRange(0, tl.M+2).Draw(rt, "finishAfterD")
	}
	nReaders := rapid.IntRange(1, 3).Draw(rt, "readers")
	for r := 0; r < nReaders; r++ {
		var ivs []ival
		n := rapid.IntRange(0, 4).Draw(rt, "nIntervals")
		// Readers may already be at work before the context is created.
		at := tl.Create - 3 + rapid.IntRange(0, tl.D+5).Draw(rt, "firstAt")
		if at < 0 {
			at = 0
		}
		for i := 0; i < n; i++ {
			ln := 0
			switch rapid.IntRange(0, 5).Draw(rt, "lenKind") {
			case 0:
				ln = rapid.IntRange(0, 3).Draw(rt, "len")
			case 1, 2:
				ln = rapid.IntRange(0, 2*tl.Th+1).Draw(rt, "len")
			case 3, 4:
				ln = rapid.IntRange(0, tl.D/2+tl.Th).Draw(rt, "len")
			default:
				ln = rapid.IntRange(0, span).Draw(rt, "len")
			}
			ivs = append(ivs, ival{S: at, E: at + ln})
			at += ln + rapid.IntRange(0, tl.D/2+3).Draw(rt, "gap")
		}
		tl.Readers = append(tl.Readers, ivs)
	}

	// Merge the per-reader event sequences and the create/finish sequence
	// into one execution order. Only the head of each sequence is eligible,
	// so each Resume follows its own Suspend and finish follows create;
	// events at the same instant are ordered by a drawn choice.
	type queue struct{ evs []event }
	var queues []*queue
	life := &queue{evs: []event{{T: tl.Create, Kind: "create"}}}
	if tl.Finish >= 0 {
		life.evs = append(life.evs, event{T: tl.Finish, Kind: "finish"})
	}
	queues = append(queues, life)
	for r, ivs := range tl.Readers {
		q := &queue{}
		for _, iv := range ivs {
			q.evs = append(q.evs, event{T: iv.S, Kind: "suspend", Reader: r}, event{T: iv.E, Kind: "resume", Reader: r})
		}
		queues = append(queues, q)
	}
	for {
		best := -1
		var cands []int
		for i, q := range queues {
			if len(q.evs) == 0 {
				continue
			}
			if best < 0 || q.evs[0].T < best {
				best = q.evs[0].T
				cands = cands[:0]
			}
			if q.evs[0].T == best {
				cands = append(cands, i)
			}
		}
		if best < 0 {
			break
		}
		pick := cands[0]
		if len(cands) > 1 {
			pick = cands[rapid.IntRange(0, len(cands)-1).Draw(rt, "tieOrder")]
		}
		ev := queues[pick].evs[0]
		queues[pick].evs = queues[pick].evs[1:]
		ev.Settle = rapid.IntRange(0, 3).Draw(rt, "settle") != 0
		tl.Events = append(tl.Events, ev)
	}
	tl.prep()
	return tl
}

// ---------------------------------------------------------------------
// Execution inside a synctest bubble.
// ---------------------------------------------------------------------

// countingBaseClock forwards everything to bb-storage's SystemClock (which,
// inside a bubble, runs on fake time). Its only job is to turn a re-arm loop
// that spins without letting time advance (which would hang the bubble
// forever) into an observable fact: after baseTimerLimit timers it hands out
// timers that never fire. The documented scheme arms at most one base timer
// per th of suspended time (plus one per object), far below the limit.
type countingBaseClock struct {
	bb_clock.Clock
	timers   atomic.Int64
	overflow atomic.Bool
}

const baseTimerLimit = 5000

type deadTimer struct{}

func (deadTimer) Stop() bool { return true }

func (c *countingBaseClock) NewTimer(d time.Duration) (bb_clock.Timer, <-chan time.Time) {
	if c.timers.Add(1) > baseTimerLimit {
		c.overflow.Store(true)
		return deadTimer{}, make(chan time.Time)
	}
	return c.Clock.NewTimer(d)
}

func newBaseClock() *countingBaseClock {
	return &countingBaseClock{Clock: bb_clock.SystemClock}
}

type ctxObservation struct {
	done        bool
	at          time.Time
	err         error
	value       any
	deadline    time.Time
	hasDeadline bool
}

type timerObservation struct {
	fired      bool
	at         time.Time // instant at which the value was received
	value      time.Time // the value that was published
	stopCalled bool
	stopResult bool
}

type outcome struct {
	start   time.Time
	created time.Time
	ctx     ctxObservation
	timer   timerObservation
	nowOK   bool
	spun    bool // more than baseTimerLimit base timers were armed
	// Whether the objects had ended when the horizon was reached (before
	// the harness tore them down).
	ctxEndedByHorizon   bool
	timerEndedByHorizon bool
}

func runTimeline(t *testing.T, tl *timeline) (out outcome, failure string) {
	unit := time.Duration(tl.UnitNs)
	defer func() {
		if r := recover(); r != nil {
			failure = fmt.Sprintf("panic while running the timeline: %v", r)
		}
	}()
	synctest.Test(t, func(st *testing.T) {
		start := time.Now()
		out.start = start
		base := newBaseClock()
		defer func() { out.spun = base.overflow.Load() }()
		clk := re_clock.NewSuspendableClock(base, time.Duration(tl.M)*unit, time.Duration(tl.Th)*unit)

		var (
			ctx          context.Context
			cancel       context.CancelFunc
			parentCancel context.CancelFunc
			timer        bb_clock.Timer
			ctxSeen      = make(chan struct{})
			timerSeen    = make(chan struct{})
			quit         = make(chan struct{})
		)
		wantCtx := tl.Objects == "ctx" || tl.Objects == "both"
		wantTimer := tl.Objects == "timer" || tl.Objects == "both"

		for _, ev := range tl.Events {
			if delta := start.Add(time.Duration(ev.T) * unit).Sub(time.Now()); delta > 0 {
				time.Sleep(delta)
			}
			if ev.Settle {
				synctest.Wait()
			}
			switch ev.Kind {
			case "suspend":
				clk.Suspend()
			case "resume":
				clk.Resume()
			case "create":
				out.created = time.Now()
				out.nowOK = clk.Now().Equal(out.created)
				if wantCtx {
					var parent context.Context
					parent, parentCancel = context.WithCancel(context.Background())
					ctx, cancel = clk.NewContextWithTimeout(parent, time.Duration(tl.D)*unit)
					out.ctx.deadline, out.ctx.hasDeadline = ctx.Deadline()
					go func() {
						defer close(ctxSeen)
						<-ctx.Done()
						out.ctx.at = time.Now()
						out.ctx.err = ctx.Err()
						out.ctx.value = ctx.Value(re_clock.UnsuspendedDurationKey{})
						out.ctx.done = true
					}()
				}
				if wantTimer {
					var ch <-chan time.Time
					timer, ch = clk.NewTimer(time.Duration(tl.D) * unit)
					go func() {
						defer close(timerSeen)
						select {
						case v := <-ch:
							out.timer.at = time.Now()
							out.timer.value = v
							out.timer.fired = true
						case <-quit:
						}
					}()
				}
			case "finish":
				if wantCtx {
					if tl.Via == "parent" {
						parentCancel()
					} else {
						cancel()
					}
				}
				if wantTimer {
					out.timer.stopCalled = true
					out.timer.stopResult = timer.Stop()
				}
			}
		}

		// Run past the hard bound t0 + d + m and past every event.
		if delta := start.Add(time.Duration(tl.horizon()) * unit).Sub(time.Now()); delta > 0 {
			time.Sleep(delta)
		}
		synctest.Wait()
		select {
		case <-ctxSeen:
			out.ctxEndedByHorizon = true
		default:
		}
		select {
		case <-timerSeen:
			out.timerEndedByHorizon = true
		default:
		}

		// Tear down, whatever state the objects are in, so that the
		// bubble can drain. Observations made from here on do not count
		// (the watchers have either recorded an instant already or will
		// record one later than the horizon, which the oracle rejects).
		if wantCtx {
			cancel()
			parentCancel()
			<-ctxSeen
		}
		if wantTimer {
			timer.Stop()
			close(quit)
			<-timerSeen
		}
		synctest.Wait()
	})
	return out, ""
}

// ---------------------------------------------------------------------
// Oracle.
// ---------------------------------------------------------------------

// tickOf converts an observed instant to ticks; ok is false if the instant
// is not on the tick grid (every duration handed to the clock is a whole
// number of ticks, so every legitimate instant is).
func tickOf(tl *timeline, start, at time.Time) (int, bool) {
	d := at.Sub(start)
	unit := time.Duration(tl.UnitNs)
	if d < 0 || d%unit != 0 {
		return int(d / unit), false
	}
	return int(d / unit), true
}

// fireAllowed is the validity predicate for "the timeout fired at tick x":
// not later than the instant the unsuspended budget d is used up, not later
// than the hard bound t0+d+m, and not while more than th of the budget is
// left unless the hard bound is what fired.
func fireAllowed(tl *timeline, x int) (bool, string) {
	capAt := tl.Create + tl.D + tl.M
	u := tl.unsuspended(x)
	if x < tl.Create {
		return false, "fired before it was created"
	}
	if x > capAt {
		return false, fmt.Sprintf("fired at %d, after the hard bound create+d+m=%d", x, capAt)
	}
	if b := tl.budgetReached(); b >= 0 && x > b {
		return false, fmt.Sprintf("fired at %d, but the unsuspended budget d=%d was used up at %d already (U(%d)=%d)", x, tl.D, b, x, u)
	}
	if u > tl.D {
		return false, fmt.Sprintf("fired at %d with U=%d > d=%d", x, u, tl.D)
	}
	if x != capAt && u <= tl.D-tl.Th {
		return false, fmt.Sprintf("fired at %d (not the hard bound %d) although only U=%d <= d-th=%d of the budget was used", x, capAt, u, tl.D-tl.Th)
	}
	return true, ""
}

// latestAllowed is the instant by which the object must have fired or been
// finished: min(budget used up, hard bound, finish).
func latestAllowed(tl *timeline) int {
	l := tl.Create + tl.D + tl.M
	if b := tl.budgetReached(); b >= 0 && b < l {
		l = b
	}
	if tl.Finish >= 0 && tl.Finish < l {
		l = tl.Finish
	}
	return l
}

func checkCtx(tl *timeline, out outcome) (string, int) {
	o := out.ctx
	unit := time.Duration(tl.UnitNs)
	capAt := tl.Create + tl.D + tl.M
	if !o.hasDeadline {
		return "Context.Deadline() reports no deadline", -1
	}
	if want := out.created.Add(time.Duration(tl.D+tl.M) * unit); o.deadline.After(want) {
		return fmt.Sprintf("Context.Deadline()=%v is later than create+d+m=%v", o.deadline.Sub(out.start), want.Sub(out.start)), -1
	}
	if !o.done || !out.ctxEndedByHorizon {
		return fmt.Sprintf("context still not done at the horizon %d (hard bound create+d+m=%d)", tl.horizon(), capAt), -1
	}
	x, onGrid := tickOf(tl, out.start, o.at)
	if !onGrid {
		return fmt.Sprintf("context done at off-grid instant %v", o.at.Sub(out.start)), -1
	}
	if o.at.After(o.deadline) {
		return fmt.Sprintf("context done at %d, after its own Deadline() %v", x, o.deadline.Sub(out.start)), x
	}
	if l := latestAllowed(tl); x > l {
		return fmt.Sprintf("context done at %d, later than allowed %d = min(budget used up %d, hard bound %d, finish %d)", x, l, tl.budgetReached(), capAt, tl.Finish), x
	}
	u := tl.unsuspended(x)
	switch o.err {
	case context.DeadlineExceeded:
		if ok, why := fireAllowed(tl, x); !ok {
			return "DeadlineExceeded: " + why, x
		}
	case context.Canceled:
		if tl.Finish < 0 || x != tl.Finish {
			return fmt.Sprintf("Err()=Canceled at %d but the command finishes at %d", x, tl.Finish), x
		}
	default:
		return fmt.Sprintf("Err()=%v after Done()", o.err), x
	}
	dur, isDur := o.value.(time.Duration)
	if !isDur {
		return fmt.Sprintf("Value(UnsuspendedDurationKey{}) = %#v, not a time.Duration", o.value), x
	}
	if want := time.Duration(u) * unit; dur != want {
		return fmt.Sprintf("reported unsuspended duration %v, model U(%d)=%v (err=%v)", dur, x, want, o.err), x
	}
	return "", x
}

func checkTimer(tl *timeline, out outcome) (string, int) {
	o := out.timer
	capAt := tl.Create + tl.D + tl.M
	if !o.fired || !out.timerEndedByHorizon {
		if !o.stopCalled {
			return fmt.Sprintf("timer never fired (hard bound create+d+m=%d, horizon %d)", capAt, tl.horizon()), -1
		}
		if !o.stopResult {
			return "Stop() returned false but no value was ever published", -1
		}
		if l := latestAllowed(tl); tl.Finish > l {
			return fmt.Sprintf("timer was stopped successfully at %d but should have fired by %d", tl.Finish, l), -1
		}
		return "", -1
	}
	x, onGrid := tickOf(tl, out.start, o.at)
	if !onGrid {
		return fmt.Sprintf("timer fired at off-grid instant %v", o.at.Sub(out.start)), -1
	}
	if !o.value.Equal(o.at) {
		return fmt.Sprintf("timer published time %v at instant %v", o.value.Sub(out.start), o.at.Sub(out.start)), x
	}
	if ok, why := fireAllowed(tl, x); !ok {
		return "timer: " + why, x
	}
	if tl.Finish >= 0 {
		if x > tl.Finish {
			return fmt.Sprintf("timer fired at %d after Stop() at %d", x, tl.Finish), x
		}
		if x < tl.Finish && o.stopResult {
			return fmt.Sprintf("Stop() at %d returned true although the timer had fired at %d", tl.Finish, x), x
		}
		// x == Finish: same instant; either answer of Stop() is accepted.
	}
	return "", x
}

// classify measures what the case exercised, up to the instant `end` at
// which the object under test ended (fired / was finished).
func classify(tl *timeline, end int) (labels []string, nontrivial bool) {
	if end < 0 {
		end = latestAllowed(tl)
	}
	capAt := tl.Create + tl.D + tl.M
	maxDepth := 0
	suspendedTicks := 0
	for k := tl.Create; k < end; k++ {
		d := tl.depth(k)
		if d > maxDepth {
			maxDepth = d
		}
		if d > 0 {
			suspendedTicks++
		}
	}
	exp := tl.expiries(end)
	straddle := false
	for _, e := range exp {
		if (e > tl.Create && tl.depth(e-1) > 0) || tl.depth(e) > 0 {
			straddle = true
		}
	}
	capReached := end == capAt && tl.unsuspended(end) <= tl.D-tl.Th && (tl.Finish < 0 || tl.Finish >= capAt)
	if straddle {
		labels = append(labels, "suspension-straddles-expiry")
	}
	if maxDepth >= 2 {
		labels = append(labels, "nesting>=2")
	}
	if maxDepth >= 3 {
		labels = append(labels, "nesting>=3")
	}
	if capReached {
		labels = append(labels, "cap-reached")
	}
	if len(exp) >= 2 {
		labels = append(labels, "rearmed")
	}
	if len(exp) >= 3 {
		labels = append(labels, "rearmed>=2")
	}
	if suspendedTicks == 0 {
		labels = append(labels, "no-suspension-in-lifetime")
	} else if suspendedTicks < tl.Th {
		labels = append(labels, "suspended<th")
	}
	if tl.depth(tl.Create) > 0 {
		labels = append(labels, "created-while-suspended")
	}
	if tl.Finish >= 0 && end == tl.Finish {
		if tl.unsuspended(end) <= tl.D-tl.Th {
			labels = append(labels, "finished-within-budget")
		} else {
			labels = append(labels, "finished-in-threshold-window")
		}
		for _, e := range exp {
			if e == tl.Finish {
				labels = append(labels, "finish-ties-with-expiry")
			}
		}
		if tl.Finish == capAt {
			labels = append(labels, "finish-ties-with-cap")
		}
	} else {
		labels = append(labels, "timed-out")
	}
	// Events whose order relative to a same-instant timer expiry is left
	// to the scheduler.
	for _, ev := range tl.Events {
		if ev.Settle || ev.Kind == "create" || ev.T > end {
			continue
		}
		for _, e := range exp {
			if e == ev.T {
				labels = append(labels, "unsettled-tie:"+ev.Kind)
			}
		}
	}
	sort.Strings(labels)
	labels = dedup(labels)
	return labels, straddle || maxDepth >= 2 || capReached
}

func dedup(in []string) []string {
	var out []string
	for i, s := range in {
		if i == 0 || s != in[i-1] {
			out = append(out, s)
		}
	}
	return out
}

func TestC11SuspendableClockTimeline(t *testing.T) {
	rec := simkit.NewRecorder(t, "C11", "timeline",
		"one case = one generated timeline (timeout d, maximumSuspension m, threshold th, 1-3 readers with nested/overlapping "+
			"Suspend/Resume intervals, command finishing at f or never, same-instant orders drawn) run against the real SuspendableClock "+
			"over bb-storage SystemClock on synctest fake time, for NewContextWithTimeout and/or NewTimer; oracle = naive per-tick model "+
			"U(t) of unsuspended time: fire only if d-th < U <= d or at the hard bound create+d+m, done no later than min(U reaches d, "+
			"create+d+m, finish), Canceled only at finish, reported duration == U(done). NON-TRIVIAL = a suspension straddles a base-timer "+
			"expiry, or nesting depth >= 2 within the lifetime, or the hard bound is what fired; distinct by timeline hash")
	rapid.Check(t, func(rt *rapid.T) {
		tl := genTimeline(rt)
		out, failure := runTimeline(t, tl)
		if failure != "" {
			rt.Fatalf("%s; script=%s", failure, tl)
		}
		if out.spun {
			rt.Fatalf("more than %d base timers were armed for one timeout: the re-arm loop spins; script=%s", baseTimerLimit, tl)
		}
		if !out.nowOK {
			rt.Fatalf("SuspendableClock.Now() differs from the base clock; script=%s", tl)
		}
		end := -1
		if tl.Objects == "ctx" || tl.Objects == "both" {
			msg, x := checkCtx(tl, out)
			if msg != "" {
				rt.Fatalf("context: %s; observed=%s; script=%s", msg, describeCtx(tl, out), tl)
			}
			end = x
		}
		if tl.Objects == "timer" || tl.Objects == "both" {
			msg, x := checkTimer(tl, out)
			if msg != "" {
				rt.Fatalf("%s; observed=%s; script=%s", msg, describeTimer(tl, out), tl)
			}
			if end < 0 {
				end = x
			}
		}
		labels, nontrivial := classify(tl, end)
		labels = append(labels, "objects:"+tl.Objects)
		rec.Case(tl, nontrivial, labels...)
	})
}

func describeCtx(tl *timeline, out outcome) string {
	o := out.ctx
	if !o.done {
		return "not done"
	}
	x, _ := tickOf(tl, out.start, o.at)
	return fmt.Sprintf("{done at tick %d, err=%v, value=%v, modelU=%d ticks}", x, o.err, o.value, tl.unsuspended(x))
}

func describeTimer(tl *timeline, out outcome) string {
	o := out.timer
	if !o.fired {
		return fmt.Sprintf("{not fired, stopCalled=%v stopResult=%v}", o.stopCalled, o.stopResult)
	}
	x, _ := tickOf(tl, out.start, o.at)
	return fmt.Sprintf("{fired at tick %d, stopCalled=%v stopResult=%v, modelU=%d ticks}", x, o.stopCalled, o.stopResult, tl.unsuspended(x))
}

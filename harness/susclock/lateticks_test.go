package susclock

import (
	"context"
	"fmt"
	"strings"
	"sync"
	"testing"
	"testing/synctest"
	"time"

	re_clock "github.com/buildbarn/bb-remote-execution/pkg/clock"
	bb_clock "github.com/buildbarn/bb-storage/pkg/clock"
	"pgregory.net/rapid"

	"verif/harness/internal/simkit"
)

// ---------------------------------------------------------------------
// Manual base clock. Now() is whatever the harness says; timers and
// contexts only fire when the harness delivers them. A timer that has
// reached its deadline "fired" at that deadline (that is the stamp it
// carries), but the SuspendableClock's goroutine only gets to see the
// stamp when the harness delivers it - possibly after Now() has moved on
// and after further Suspend()/Resume() calls. This is the scheduling
// latency that fake time (synctest) cannot produce.
// ---------------------------------------------------------------------

type manualTimer struct {
	clock     *manualClock
	id        int
	duration  time.Duration
	deadline  time.Time
	ch        chan time.Time
	stopped   bool
	delivered bool
}

func (t *manualTimer) Stop() bool {
	t.clock.mu.Lock()
	defer t.clock.mu.Unlock()
	was := !t.stopped && !t.delivered
	t.stopped = true
	return was
}

type manualContext struct {
	parent   context.Context
	clock    *manualClock
	deadline time.Time
	done     chan struct{}
	err      error
}

func (c *manualContext) Deadline() (time.Time, bool) { return c.deadline, true }
func (c *manualContext) Done() <-chan struct{}       { return c.done }
func (c *manualContext) Value(key any) any           { return c.parent.Value(key) }
func (c *manualContext) Err() error {
	c.clock.mu.Lock()
	defer c.clock.mu.Unlock()
	return c.err
}

func (c *manualContext) end(err error) {
	c.clock.mu.Lock()
	defer c.clock.mu.Unlock()
	if c.err == nil {
		c.err = err
		close(c.done)
	}
}

type manualClock struct {
	mu       sync.Mutex
	now      time.Time
	timers   []*manualTimer
	contexts []*manualContext
}

func (c *manualClock) Now() time.Time {
	c.mu.Lock()
	defer c.mu.Unlock()
	return c.now
}

func (c *manualClock) NewContextWithTimeout(parent context.Context, d time.Duration) (context.Context, context.CancelFunc) {
	c.mu.Lock()
	defer c.mu.Unlock()
	ctx := &manualContext{parent: parent, clock: c, deadline: c.now.Add(d), done: make(chan struct{})}
	c.contexts = append(c.contexts, ctx)
	return ctx, func() { ctx.end(context.Canceled) }
}

func (c *manualClock) NewTimer(d time.Duration) (bb_clock.Timer, <-chan time.Time) {
	c.mu.Lock()
	defer c.mu.Unlock()
	t := &manualTimer{clock: c, id: len(c.timers), duration: d, deadline: c.now.Add(d), ch: make(chan time.Time, 1)}
	c.timers = append(c.timers, t)
	return t, t.ch
}

func (c *manualClock) NewTicker(d time.Duration) (bb_clock.Ticker, <-chan time.Time) {
	panic("NewTicker is not used by the objects under test")
}

func (c *manualClock) setNow(t time.Time) {
	c.mu.Lock()
	c.now = t
	c.mu.Unlock()
}

func (c *manualClock) timerCount() int {
	c.mu.Lock()
	defer c.mu.Unlock()
	return len(c.timers)
}

func (c *manualClock) timer(i int) (t *manualTimer, stopped, delivered bool) {
	c.mu.Lock()
	defer c.mu.Unlock()
	t = c.timers[i]
	return t, t.stopped, t.delivered
}

// ---------------------------------------------------------------------
// Script.
// ---------------------------------------------------------------------

type lateStep struct {
	Op string `json:"op"` // advance | suspend | resume | create | deliver | deliverCap | finish
	N  int    `json:"n,omitempty"`
	// Facts recorded while executing (make the script self-explanatory).
	At    int    `json:"at"`              // manual Now() in ticks when the step ran
	Stamp int    `json:"stamp,omitempty"` // deliver: the instant the base timer fired
	Note  string `json:"note,omitempty"`
}

type lateScript struct {
	UnitNs int64      `json:"unit_ns"`
	D      int        `json:"d"`
	M      int        `json:"m"`
	Th     int        `json:"th"`
	Object string     `json:"object"` // ctx | timer
	Steps  []lateStep `json:"steps"`
}

// lateRun is the harness state of one case.
type lateRun struct {
	sc    *lateScript
	unit  time.Duration
	epoch time.Time
	base  *manualClock
	clk   *re_clock.SuspendableClock

	now        int    // manual time in ticks
	depth      int    // suspensions in effect
	suspended  []bool // suspended[k]: a suspension covered tick [k, k+1)
	created    bool
	createAt   int
	ended      bool // the harness has seen the object end
	finished   bool // the harness cancelled / stopped the object itself
	loopTimer  int  // index of the live re-arm base timer, -1 if none
	capTimer   int  // index of the hard-bound base timer (timer objects), -1
	timersSeen int

	ctx       context.Context
	cancel    context.CancelFunc
	timer     bb_clock.Timer
	timerCh   <-chan time.Time
	failure   string
	labels    map[string]bool
	lateStall bool // a tick was handled late, after a stall that began and ended since it fired
}

func (r *lateRun) failf(format string, args ...any) {
	if r.failure == "" {
		r.failure = fmt.Sprintf(format, args...)
	}
}

func (r *lateRun) at(tick int) time.Time { return r.epoch.Add(time.Duration(tick) * r.unit) }

// u is the reference model: unsuspended ticks in [create, t).
func (r *lateRun) u(t int) int {
	n := 0
	for k := r.createAt; k < t && k < len(r.suspended); k++ {
		if !r.suspended[k] {
			n++
		}
	}
	return n
}

// objectDone reports whether the object under test has ended, without
// blocking; for a timer it consumes the published value.
func (r *lateRun) objectDone() (done bool, err error, reported time.Duration, published time.Time) {
	if r.sc.Object == "ctx" {
		select {
		case <-r.ctx.Done():
			d, _ := r.ctx.Value(re_clock.UnsuspendedDurationKey{}).(time.Duration)
			return true, r.ctx.Err(), d, time.Time{}
		default:
			return false, nil, 0, time.Time{}
		}
	}
	select {
	case v := <-r.timerCh:
		return true, nil, 0, v
	default:
		return false, nil, 0, time.Time{}
	}
}

// newTimers returns the base timers created since the last call.
func (r *lateRun) newTimers() []*manualTimer {
	var out []*manualTimer
	for n := r.base.timerCount(); r.timersSeen < n; r.timersSeen++ {
		t, _, _ := r.base.timer(r.timersSeen)
		out = append(out, t)
	}
	return out
}

func (r *lateRun) checkQuiet(where string) {
	if !r.created || r.ended {
		return
	}
	if done, err, _, _ := r.objectDone(); done {
		r.ended = true
		r.failf("%s: the object ended (err=%v) although no tick was delivered and it was not finished", where, err)
	}
	if ts := r.newTimers(); len(ts) > 0 {
		r.failf("%s: %d base timer(s) were armed although no tick was delivered", where, len(ts))
	}
}

func (r *lateRun) step(op string, n int) *lateStep {
	r.sc.Steps = append(r.sc.Steps, lateStep{Op: op, N: n, At: r.now})
	return &r.sc.Steps[len(r.sc.Steps)-1]
}

func (r *lateRun) advance(n int) {
	r.step("advance", n)
	for i := 0; i < n; i++ {
		r.suspended = append(r.suspended, r.depth > 0)
	}
	r.now += n
	r.base.setNow(r.at(r.now))
	synctest.Wait()
	r.checkQuiet("after advance")
}

func (r *lateRun) suspend() {
	r.step("suspend", 0)
	r.depth++
	r.clk.Suspend()
	synctest.Wait()
	r.checkQuiet("after Suspend")
}

func (r *lateRun) resume() {
	r.step("resume", 0)
	r.depth--
	r.clk.Resume()
	synctest.Wait()
	r.checkQuiet("after Resume")
}

func (r *lateRun) create() {
	r.step("create", 0)
	r.created = true
	r.createAt = r.now
	d := time.Duration(r.sc.D) * r.unit
	r.capTimer, r.loopTimer = -1, -1
	if r.sc.Object == "ctx" {
		r.ctx, r.cancel = r.clk.NewContextWithTimeout(context.Background(), d)
	} else {
		r.timer, r.timerCh = r.clk.NewTimer(d)
	}
	synctest.Wait()
	ts := r.newTimers()
	want := 1
	if r.sc.Object == "timer" {
		want = 2
	}
	if len(ts) != want {
		r.failf("harness: expected %d base timers after creation, saw %d", want, len(ts))
		return
	}
	if r.sc.Object == "timer" {
		// The hard bound of a timer is a base timer of d+m; the other one
		// is the first re-arm timer of d. (With m == 0 they are
		// indistinguishable and interchangeable.)
		capD := time.Duration(r.sc.D+r.sc.M) * r.unit
		if ts[0].duration == capD {
			r.capTimer, r.loopTimer = ts[0].id, ts[1].id
		} else {
			r.capTimer, r.loopTimer = ts[1].id, ts[0].id
		}
		if t, _, _ := r.base.timer(r.capTimer); t.duration != capD {
			r.failf("no base timer of d+m=%v was armed for the hard bound (durations %v, %v)", capD, ts[0].duration, ts[1].duration)
		}
	} else {
		r.loopTimer = ts[0].id
		if len(r.base.contexts) != 1 || !r.base.contexts[0].deadline.Equal(r.at(r.createAt+r.sc.D+r.sc.M)) {
			r.failf("the base context does not carry the hard bound create+d+m")
		}
	}
	if t, _, _ := r.base.timer(r.loopTimer); t.duration != d {
		r.failf("first base timer has duration %v, expected the timeout %v", t.duration, d)
	}
	if done, err, _, _ := r.objectDone(); done {
		r.ended = true
		r.failf("the object ended at creation (err=%v)", err)
	}
}

// loopDue reports whether the live re-arm timer has reached its deadline.
func (r *lateRun) loopDue() bool {
	if !r.created || r.ended || r.loopTimer < 0 {
		return false
	}
	t, stopped, delivered := r.base.timer(r.loopTimer)
	return !stopped && !delivered && !t.deadline.After(r.at(r.now))
}

func (r *lateRun) capDue() bool {
	if !r.created || r.ended {
		return false
	}
	return r.now >= r.createAt+r.sc.D+r.sc.M
}

// deliver lets the clock's goroutine see the expiry of the re-arm timer:
// stamped with the instant it fired (its deadline), handled now.
func (r *lateRun) deliver() {
	t, _, _ := r.base.timer(r.loopTimer)
	stamp := int(t.deadline.Sub(r.epoch) / r.unit)
	st := r.step("deliver", 0)
	st.Stamp = stamp
	h := r.now
	d, th := r.sc.D, r.sc.Th
	uStamp, uNow := r.u(stamp), r.u(h)

	// Classify: was there a stall that began and ended between the
	// timer firing and this delivery?
	if h > stamp {
		r.labels["late-delivery"] = true
		stallSince := false
		for k := stamp; k < h; k++ {
			if r.suspended[k] {
				stallSince = true
			}
		}
		switch {
		case stallSince && r.depth == 0:
			r.labels["late-after-completed-stall"] = true
			r.lateStall = true
		case r.depth > 0:
			r.labels["late-while-suspended"] = true
		default:
			r.labels["late-no-stall"] = true
		}
	} else {
		r.labels["on-time-delivery"] = true
	}

	r.base.mu.Lock()
	t.delivered = true
	r.base.mu.Unlock()
	t.ch <- t.deadline
	synctest.Wait()

	done, err, reported, published := r.objectDone()
	ts := r.newTimers()
	switch {
	case done:
		r.ended = true
		st.Note = "fired"
		r.labels["fired-by-tick"] = true
		if len(ts) != 0 {
			r.failf("the object fired and armed another base timer")
		}
		// Never fire while, measured with the real current time, no more
		// than d-th of the budget has been used.
		if uNow <= d-th {
			r.failf("fired when handling (at %d) the tick stamped %d although only U=%d <= d-th=%d of the budget was used", h, stamp, uNow, d-th)
		}
		if r.sc.Object == "ctx" {
			if err != context.DeadlineExceeded {
				r.failf("fired by a tick but Err()=%v", err)
			}
			lo, hi := time.Duration(uStamp)*r.unit, time.Duration(uNow)*r.unit
			if reported < lo || reported > hi {
				r.failf("reported unsuspended duration %v outside [U(stamp %d)=%v, U(now %d)=%v]", reported, stamp, lo, h, hi)
			}
		} else if published.Before(r.at(stamp)) || published.After(r.at(h)) {
			r.failf("timer published %v, neither the instant the tick fired (%d) nor anything up to now (%d)", published.Sub(r.epoch), stamp, h)
		}
	case len(ts) == 1:
		// Re-armed. The part of the budget the clock believes is used up
		// is d - (new duration); the truth lies between the unsuspended
		// time at the instant the timer fired and at this instant.
		rearm := int(ts[0].duration / r.unit)
		st.Note = fmt.Sprintf("re-armed for %d", rearm)
		r.labels["re-armed"] = true
		r.loopTimer = ts[0].id
		if ts[0].duration%r.unit != 0 {
			r.failf("re-armed for %v, not a whole number of ticks", ts[0].duration)
		}
		believed := d - rearm
		if believed < uStamp || believed > uNow {
			r.failf("tick stamped %d handled at %d: re-armed for %d ticks, i.e. the clock accounts %d ticks of the budget d=%d as used, "+
				"but the unsuspended time was %d when the timer fired and is %d now", stamp, h, rearm, believed, d, uStamp, uNow)
		}
		if uStamp > d-th {
			r.failf("tick stamped %d handled at %d: U was already %d > d-th=%d when the timer fired, yet the timeout did not fire but re-armed for %d",
				stamp, h, uStamp, d-th, rearm)
		}
	case len(ts) == 0:
		r.loopTimer = -1
		r.failf("tick stamped %d handled at %d: the object neither fired nor armed a new base timer", stamp, h)
	default:
		r.failf("tick handled: %d new base timers armed at once", len(ts))
	}
}

// deliverCap lets the hard bound create+d+m take effect (late or on time).
func (r *lateRun) deliverCap() {
	st := r.step("deliverCap", 0)
	capAt := r.createAt + r.sc.D + r.sc.M
	st.Stamp = capAt
	if r.sc.Object == "ctx" {
		r.base.contexts[0].end(context.DeadlineExceeded)
	} else {
		t, stopped, delivered := r.base.timer(r.capTimer)
		if stopped || delivered {
			r.failf("the hard-bound base timer was stopped although the timer has not fired")
			return
		}
		r.base.mu.Lock()
		t.delivered = true
		r.base.mu.Unlock()
		t.ch <- t.deadline
	}
	synctest.Wait()
	done, err, reported, published := r.objectDone()
	r.newTimers()
	if !done {
		r.failf("the hard bound create+d+m=%d was reached (handled at %d) but the object has not ended", capAt, r.now)
		return
	}
	r.ended = true
	r.labels["fired-by-cap"] = true
	if r.sc.Object == "ctx" {
		if err != context.DeadlineExceeded {
			r.failf("hard bound reached but Err()=%v", err)
		}
		if want := time.Duration(r.u(r.now)) * r.unit; reported != want {
			r.failf("hard bound handled at %d: reported unsuspended duration %v, model U=%v", r.now, reported, want)
		}
	} else if !published.Equal(r.at(capAt)) {
		r.failf("hard bound: timer published %v, expected the instant %d", published.Sub(r.epoch), capAt)
	}
}

func (r *lateRun) finish() {
	r.step("finish", 0)
	r.finished = true
	if r.sc.Object == "ctx" {
		r.cancel()
		synctest.Wait()
		done, err, reported, _ := r.objectDone()
		if !done {
			r.failf("cancel() did not end the context")
			return
		}
		r.ended = true
		if err != context.Canceled {
			r.failf("cancelled before any timeout fired, but Err()=%v", err)
		}
		if want := time.Duration(r.u(r.now)) * r.unit; reported != want {
			r.failf("cancelled at %d: reported unsuspended duration %v, model U=%v", r.now, reported, want)
		}
	} else {
		if !r.timer.Stop() {
			r.failf("Stop() returned false although the timer has not fired")
		}
		synctest.Wait()
		r.ended = true
		if done, _, _, v := r.objectDone(); done {
			r.failf("the timer published %v after a successful Stop()", v.Sub(r.epoch))
		}
	}
	r.labels["finished-by-harness"] = true
}

func TestC11SuspendableClockLateTicks(t *testing.T) {
	rec := simkit.NewRecorder(t, "C11", "lateticks",
		"one case = a generated action sequence (advance Now, Suspend, Resume, create, deliver the expiry of the current base timer - stamped with "+
			"the instant it fired but possibly handled later -, deliver the hard bound, cancel/Stop) against the real SuspendableClock over a "+
			"hand-written manual base clock, synctest.Wait() after every action; for NewContextWithTimeout or NewTimer; oracle (per-tick model U): "+
			"a handled tick either fires - only if U(now) > d-th, reported duration within [U(stamp), U(now)] - or re-arms for d-x with "+
			"U(stamp) <= x <= U(now), and must fire if U(stamp) > d-th; nothing happens without a delivery; the hard bound always ends the "+
			"object; Canceled/cap report U(now). NON-TRIVIAL = a tick handled late after a stall that began and ended since the timer fired, "+
			"or any late delivery; distinct by script hash")
	rapid.Check(t, func(rt *rapid.T) {
		sc := &lateScript{}
		sc.UnitNs = rapid.SampledFrom([]int64{1, int64(time.Millisecond), int64(time.Second)}).Draw(rt, "unit")
		sc.D = rapid.IntRange(0, 30).Draw(rt, "d")
		sc.Th = rapid.IntRange(1, 6).Draw(rt, "th")
		sc.M = rapid.IntRange(0, 40).Draw(rt, "m")
		sc.Object = rapid.SampledFrom([]string{"ctx", "timer"}).Draw(rt, "object")
		nSteps := rapid.IntRange(1, 30).Draw(rt, "steps")
		createAfter := rapid.IntRange(0, 4).Draw(rt, "createAfter")

		r := &lateRun{sc: sc, unit: time.Duration(sc.UnitNs), labels: map[string]bool{}}
		// rapid signals "this (shrunk) bit stream has run out" by panicking
		// inside Draw(); the bubble runs on its own goroutine, so such a
		// panic is caught there, the bubble is drained, and the panic is
		// raised again on rapid's goroutine.
		var carried any
		release := func() {
			for ; r.depth > 0; r.depth-- {
				r.clk.Resume()
			}
			if r.created {
				if r.sc.Object == "ctx" && r.cancel != nil {
					r.cancel()
				} else if r.timer != nil {
					r.timer.Stop()
				}
			}
			synctest.Wait()
		}
		func() {
			defer func() {
				if p := recover(); p != nil {
					r.failf("panic while running the script: %v", p)
				}
			}()
			synctest.Test(t, func(st *testing.T) {
				defer func() {
					if p := recover(); p != nil {
						carried = p
						release()
					}
				}()
				r.epoch = time.Unix(1_000_000, 0)
				r.base = &manualClock{now: r.epoch}
				r.clk = re_clock.NewSuspendableClock(r.base, time.Duration(sc.M)*r.unit, time.Duration(sc.Th)*r.unit)

				for i := 0; i < nSteps && r.failure == "" && !r.ended; i++ {
					if !r.created && i >= createAfter {
						r.create()
						continue
					}
					var ops []string
					ops = append(ops, "advance", "advance")
					if r.depth < 3 {
						ops = append(ops, "suspend")
					}
					if r.depth > 0 {
						ops = append(ops, "resume", "resume")
					}
					if r.loopDue() {
						ops = append(ops, "deliver", "deliver", "deliver")
					}
					if r.capDue() {
						ops = append(ops, "deliverCap")
					}
					if r.created {
						ops = append(ops, "finish")
						if rapid.IntRange(0, 5).Draw(rt, "finishRare") != 0 {
							ops = ops[:len(ops)-1]
						}
					}
					switch op := rapid.SampledFrom(ops).Draw(rt, "op"); op {
					case "advance":
						n := 1
						switch rapid.IntRange(0, 3).Draw(rt, "advanceKind") {
						case 0:
							n = rapid.IntRange(1, 4).Draw(rt, "n")
						case 1:
							n = rapid.IntRange(1, 12).Draw(rt, "n")
						default:
							// Exactly up to the next base-timer deadline, if any.
							n = rapid.IntRange(1, 4).Draw(rt, "n")
							if r.created && r.loopTimer >= 0 {
								if t, stopped, delivered := r.base.timer(r.loopTimer); !stopped && !delivered {
									if gap := int(t.deadline.Sub(r.at(r.now)) / r.unit); gap > 0 {
										n = gap
									}
								}
							}
						}
						r.advance(n)
					case "suspend":
						r.suspend()
					case "resume":
						r.resume()
					case "deliver":
						r.deliver()
					case "deliverCap":
						r.deliverCap()
					case "finish":
						r.finish()
					}
				}

				// Wind down: end all stalls, then drive the object to its
				// end through on-time deliveries and finally the hard bound.
				for r.depth > 0 && r.failure == "" {
					r.resume()
				}
				for guard := 0; r.created && !r.ended && r.failure == ""; guard++ {
					switch {
					case guard > 200:
						r.failf("the object did not end within 200 wind-down steps")
					case r.loopDue():
						r.deliver()
					case r.capDue():
						r.deliverCap()
					default:
						next := r.createAt + sc.D + sc.M - r.now
						if r.loopTimer >= 0 {
							if t, stopped, delivered := r.base.timer(r.loopTimer); !stopped && !delivered {
								if gap := int(t.deadline.Sub(r.at(r.now)) / r.unit); gap < next {
									next = gap
								}
							}
						}
						if next < 1 {
							next = 1
						}
						r.advance(next)
					}
				}
				// Release whatever the object still holds so that the
				// bubble drains even when the case failed.
				if r.created {
					if r.sc.Object == "ctx" {
						r.cancel()
					} else {
						r.timer.Stop()
					}
				}
				synctest.Wait()
			})
		}()
		if carried != nil {
			if strings.HasPrefix(fmt.Sprintf("%T", carried), "rapid.") {
				panic(carried)
			}
			r.failf("panic while running the script: %v", carried)
		}
		if r.failure != "" {
			rt.Fatalf("%s; script=%s", r.failure, scriptJSON(sc))
		}
		labels := []string{"object:" + sc.Object}
		for _, l := range sortedKeys(r.labels) {
			labels = append(labels, l)
		}
		rec.Case(sc, r.lateStall || r.labels["late-delivery"], labels...)
	})
}

package susclock

// C11, outcome of a run context under contention of the clock's lock (real
// goroutines, real time): storage reads of other threads call Suspend() /
// Resume() - which hold the clock's lock while they ask the base clock for
// the time - at the very instant at which a run context ends (the command
// finished and the executor cancelled the context, the worker cancelled
// the parent, the timeout expired, the hard bound was reached). Whoever
// wakes up on Done() reads Err() and Value(UnsuspendedDurationKey{}) at
// once: localBuildExecutor.Execute() takes the virtual execution duration
// from it, the runner client turns Err() into the status of the action.
// Those reads compete for the lock with the clock's own goroutine, so the
// order "record the outcome, then announce it" only shows when the lock is
// contended. The harness does not own that schedule; every oracle below
// holds in every schedule.

import (
	"context"
	"encoding/json"
	"fmt"
	"os"
	"runtime"
	"sync"
	"sync/atomic"
	"testing"
	"time"

	bb_clock "github.com/buildbarn/bb-storage/pkg/clock"
	"pgregory.net/rapid"

	re_clock "github.com/buildbarn/bb-remote-execution/pkg/clock"

	"verif/harness/internal/simkit"
)

// slowNowClock is the system clock whose Now() takes a little while (a
// base clock may be slow; vDSO-less platforms make a system call here).
// Suspend()/Resume() call it with the clock's lock held.
type slowNowClock struct {
	bb_clock.Clock
	spin int
}

var slowNowSink atomic.Uint64

func (c *slowNowClock) Now() time.Time {
	x := uint64(1)
	for i := 0; i < c.spin; i++ {
		x = x*6364136223846793005 + 1442695040888963407
	}
	slowNowSink.Add(x & 1)
	return c.Clock.Now()
}

type ctdContext struct {
	End     string // "cancel", "parent", "timeout", "hardbound"
	DelayUs int    // microseconds before the harness ends it (cancel, parent)
	Waiters int
}

type ctdScript struct {
	Hammerers int
	Spin      int
	Yield     bool // hammerers yield between Suspend() and Resume()
	Contexts  []ctdContext
}

func (s ctdScript) String() string {
	b, _ := json.Marshal(s)
	return string(b)
}

func drawCtdScript(rt *rapid.T) ctdScript {
	s := ctdScript{
		Hammerers: rapid.SampledFrom([]int{0, 1, 1, 2, 2, 3, 4}).Draw(rt, "hammerers"),
		Spin:      rapid.SampledFrom([]int{0, 50, 400, 400, 3000}).Draw(rt, "spin"),
		Yield:     rapid.Bool().Draw(rt, "yield"),
	}
	n := rapid.IntRange(1, 4).Draw(rt, "contexts")
	for i := 0; i < n; i++ {
		s.Contexts = append(s.Contexts, ctdContext{
			End:     rapid.SampledFrom([]string{"cancel", "cancel", "cancel", "parent", "timeout", "hardbound"}).Draw(rt, "end"),
			DelayUs: rapid.SampledFrom([]int{0, 0, 20, 100, 500}).Draw(rt, "delayUs"),
			Waiters: rapid.IntRange(1, 3).Draw(rt, "waiters"),
		})
	}
	return s
}

type ctdObservation struct {
	errAtDone error
	durAtDone time.Duration
	wokenAt   time.Time
}

const (
	ctdLongTimeout  = 30 * time.Second
	ctdShortTimeout = 2 * time.Millisecond
	ctdMaxSuspend   = 3 * time.Millisecond
	ctdThreshold    = 100 * time.Microsecond
)

// runCtdScript executes the script once and returns the first
// inconsistency ("" if none).
func runCtdScript(s ctdScript) string {
	base := &slowNowClock{Clock: bb_clock.SystemClock, spin: s.Spin}
	clk := re_clock.NewSuspendableClock(base, ctdMaxSuspend, ctdThreshold)

	var stop atomic.Bool
	var hwg sync.WaitGroup
	// A context that must reach its hard bound needs the clock suspended
	// throughout: one suspension is held from before its creation until
	// everything has ended. The hammerers' own suspensions nest inside it.
	held := false
	for _, c := range s.Contexts {
		if c.End == "hardbound" {
			held = true
		}
	}
	if held {
		clk.Suspend()
	}
	for h := 0; h < s.Hammerers; h++ {
		hwg.Add(1)
		go func() {
			defer hwg.Done()
			for !stop.Load() {
				clk.Suspend()
				if s.Yield {
					runtime.Gosched()
				}
				clk.Resume()
			}
		}()
	}

	type running struct {
		spec    ctdContext
		ctx     context.Context
		created time.Time
		obs     []ctdObservation
		wg      sync.WaitGroup
	}
	runs := make([]*running, len(s.Contexts))
	var ewg sync.WaitGroup
	for i, spec := range s.Contexts {
		r := &running{spec: spec, obs: make([]ctdObservation, spec.Waiters)}
		runs[i] = r
		parent, parentCancel := context.WithCancel(context.Background())
		d := ctdLongTimeout
		if spec.End == "timeout" || spec.End == "hardbound" {
			d = ctdShortTimeout
		}
		r.created = time.Now()
		ctx, cancel := clk.NewContextWithTimeout(parent, d)
		r.ctx = ctx
		for w := 0; w < spec.Waiters; w++ {
			r.wg.Add(1)
			go func() {
				defer r.wg.Done()
				<-ctx.Done()
				// What Execute() and the runner client do next.
				r.obs[w].errAtDone = ctx.Err()
				r.obs[w].durAtDone, _ = ctx.Value(re_clock.UnsuspendedDurationKey{}).(time.Duration)
				r.obs[w].wokenAt = time.Now()
			}()
		}
		ewg.Add(1)
		go func() {
			defer ewg.Done()
			defer parentCancel()
			defer cancel()
			switch spec.End {
			case "cancel":
				if spec.DelayUs > 0 {
					time.Sleep(time.Duration(spec.DelayUs) * time.Microsecond)
				}
				cancel()
			case "parent":
				if spec.DelayUs > 0 {
					time.Sleep(time.Duration(spec.DelayUs) * time.Microsecond)
				}
				parentCancel()
			}
			r.wg.Wait()
		}()
	}
	ewg.Wait()
	stop.Store(true)
	hwg.Wait()
	if held {
		clk.Resume()
	}

	for i, r := range runs {
		finalErr := r.ctx.Err()
		finalDur, _ := r.ctx.Value(re_clock.UnsuspendedDurationKey{}).(time.Duration)
		var wantErr error
		switch r.spec.End {
		case "cancel", "parent":
			wantErr = context.Canceled
		default:
			wantErr = context.DeadlineExceeded
		}
		if finalErr != wantErr {
			return fmt.Sprintf("context %d (%s): final Err() = %v, want %v", i, r.spec.End, finalErr, wantErr)
		}
		for w, o := range r.obs {
			if o.errAtDone == nil {
				return fmt.Sprintf("context %d (%s), waiter %d: Done() was closed but Err() returned nil (final Err() = %v): the outcome was announced before it was recorded", i, r.spec.End, w, finalErr)
			}
			if o.errAtDone != finalErr {
				return fmt.Sprintf("context %d (%s), waiter %d: Err() right after Done() = %v, later %v", i, r.spec.End, w, o.errAtDone, finalErr)
			}
			if o.durAtDone != finalDur {
				return fmt.Sprintf("context %d (%s), waiter %d: unsuspended duration read right after Done() = %v, but the final value is %v: the virtual execution duration taken at completion is not the time the command ran", i, r.spec.End, w, o.durAtDone, finalDur)
			}
			if wall := o.wokenAt.Sub(r.created); finalDur < 0 || finalDur > wall {
				return fmt.Sprintf("context %d (%s), waiter %d: unsuspended duration %v outside [0, %v] (wall time from creation to wake-up)", i, r.spec.End, w, finalDur, wall)
			}
		}
		switch r.spec.End {
		case "hardbound":
			// Suspended throughout.
			if finalDur != 0 {
				return fmt.Sprintf("context %d (hardbound): the clock was suspended throughout, yet the unsuspended duration is %v", i, finalDur)
			}
			if wall := r.obs[0].wokenAt.Sub(r.created); wall < ctdShortTimeout+ctdMaxSuspend {
				return fmt.Sprintf("context %d (hardbound): ended after %v of wall time although suspended throughout; timeout + maximum compensation = %v", i, wall, ctdShortTimeout+ctdMaxSuspend)
			}
		}
	}
	return ""
}

const contendedRule = "One case = a generated script: 0..4 'storage reader' goroutines that call Suspend()/Resume() of ONE real SuspendableClock in a tight loop (the base clock is bb-storage's SystemClock behind a wrapper whose Now() spins 0/50/400/3000 iterations, so the clock's lock - held across base.Now() in Suspend/Resume - is contended for a generated fraction of the time), and 1..4 run contexts from NewContextWithTimeout with 1..3 waiters each. A context ends by the CancelFunc (the command finished), by cancellation of its parent, by its 2 ms timeout, or - the clock being suspended from before its creation - by the hard bound timeout + maximum compensation (3 ms). Every waiter blocks on Done() and, like localBuildExecutor.Execute() and the runner client, reads Err() and Value(UnsuspendedDurationKey{}) immediately. Real goroutines and real time: the schedule is the Go runtime's, each script is executed several times (quick 6, thorough 12). ORACLE (validity in every schedule): once Done() is closed Err() is non-nil (context.Context contract) and both Err() and the unsuspended duration read at that instant equal the values read after everything was joined (the outcome is recorded before it is announced, so the reported virtual execution duration is the final one); Err() is Canceled for the two cancellations and DeadlineExceeded for the two expiries; 0 <= duration <= wall time between creation and wake-up; suspended throughout => duration 0 and not ended before timeout + maximum compensation of wall time. NON-TRIVIAL: at least one reader goroutine hammered the lock and at least one context ended by cancellation. Distinct by script hash."

func TestC11ContendedOutcome(t *testing.T) {
	rec := simkit.NewRecorder(t, "C11", "contended_outcome", contendedRule)
	reps := 6
	if thoroughTier() {
		reps = 12
	}
	rapid.Check(t, func(rt *rapid.T) {
		s := drawCtdScript(rt)
		for rep := 0; rep < reps; rep++ {
			if problem := runCtdScript(s); problem != "" {
				// The schedule is not ours: print the history here, rapid
				// may not be able to reproduce it.
				fmt.Printf("VERIF-VIOLATION property=C11 execution %d of script %s: %s\n", rep, s, problem)
				rt.Fatalf("C11: %s; script=%s", problem, s)
			}
		}
		nontrivial := false
		var labels []string
		for _, c := range s.Contexts {
			labels = append(labels, "end:"+c.End)
			if s.Hammerers > 0 && (c.End == "cancel" || c.End == "parent") {
				nontrivial = true
			}
		}
		if s.Hammerers > 0 {
			labels = append(labels, "lock_hammered")
		}
		if s.Spin >= 400 {
			labels = append(labels, "slow_base_now")
		}
		rec.Case(s, nontrivial, labels...)
	})
}

func thoroughTier() bool { return os.Getenv("VERIF_TIER") == "thorough" }

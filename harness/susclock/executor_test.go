package susclock

import (
	"context"
	"fmt"
	"os"
	"sort"
	"strings"
	"syscall"
	"testing"
	"testing/synctest"
	"time"

	remoteexecution "github.com/bazelbuild/remote-apis/build/bazel/remote/execution/v2"
	"github.com/buildbarn/bb-remote-execution/pkg/builder"
	re_clock "github.com/buildbarn/bb-remote-execution/pkg/clock"
	"github.com/buildbarn/bb-remote-execution/pkg/filesystem/access"
	"github.com/buildbarn/bb-remote-execution/pkg/filesystem/pool"
	"github.com/buildbarn/bb-remote-execution/pkg/proto/remoteworker"
	runner_pb "github.com/buildbarn/bb-remote-execution/pkg/proto/runner"
	"github.com/buildbarn/bb-storage/pkg/blobstore/buffer"
	"github.com/buildbarn/bb-storage/pkg/blobstore/slicing"
	"github.com/buildbarn/bb-storage/pkg/digest"
	"github.com/buildbarn/bb-storage/pkg/filesystem"
	"github.com/buildbarn/bb-storage/pkg/filesystem/path"
	"github.com/buildbarn/bb-storage/pkg/util"
	"google.golang.org/grpc"
	"google.golang.org/grpc/codes"
	"google.golang.org/grpc/status"
	"google.golang.org/protobuf/types/known/durationpb"
	"google.golang.org/protobuf/types/known/emptypb"
	"pgregory.net/rapid"

	"verif/harness/internal/simkit"
)

// ---------------------------------------------------------------------
// Fakes for LocalBuildExecutor: an empty build directory, a CAS that only
// knows the command, and a runner that "runs" until it is told to exit or
// its context ends (answering like a gRPC client would).
// ---------------------------------------------------------------------

type fakeBuildDirectory struct {
	errorLogger util.ErrorLogger
}

func (d *fakeBuildDirectory) Close() error { return nil }
func (d *fakeBuildDirectory) EnterParentPopulatableDirectory(name path.Component) (builder.ParentPopulatableDirectory, error) {
	return d, nil
}
func (d *fakeBuildDirectory) Mkdir(name path.Component, perm os.FileMode) error { return nil }
func (d *fakeBuildDirectory) EnterUploadableDirectory(name path.Component) (builder.UploadableDirectory, error) {
	return d, nil
}
func (d *fakeBuildDirectory) Lstat(name path.Component) (filesystem.FileInfo, error) {
	return filesystem.FileInfo{}, syscall.ENOENT
}
func (d *fakeBuildDirectory) ReadDir() ([]filesystem.FileInfo, error) { return nil, nil }
func (d *fakeBuildDirectory) Readlink(name path.Component) (path.Parser, error) {
	return nil, syscall.EINVAL
}

func (d *fakeBuildDirectory) UploadFile(ctx context.Context, name path.Component, digestFunction digest.Function, writableFileUploadDelay <-chan struct{}) (digest.Digest, error) {
	g := digestFunction.NewGenerator(0)
	return g.Sum(), nil
}

func (d *fakeBuildDirectory) Mknod(name path.Component, perm os.FileMode, deviceNumber filesystem.DeviceNumber) error {
	return nil
}
func (d *fakeBuildDirectory) Remove(name path.Component) error    { return nil }
func (d *fakeBuildDirectory) RemoveAll(name path.Component) error { return nil }
func (d *fakeBuildDirectory) EnterBuildDirectory(name path.Component) (builder.BuildDirectory, error) {
	return d, nil
}

func (d *fakeBuildDirectory) InstallHooks(filePool pool.FilePool, errorLogger util.ErrorLogger) {
	d.errorLogger = errorLogger
}

func (d *fakeBuildDirectory) MergeDirectoryContents(ctx context.Context, errorLogger util.ErrorLogger, digest digest.Digest, monitor access.UnreadDirectoryMonitor) error {
	return nil
}

type fakeBuildDirectoryCreator struct{ d *fakeBuildDirectory }

func (c fakeBuildDirectoryCreator) GetBuildDirectory(ctx context.Context, actionDigestIfNotRunInParallel *digest.Digest) (builder.BuildDirectory, *path.Trace, error) {
	return c.d, nil, nil
}

type commandCAS struct{}

func (commandCAS) Get(ctx context.Context, d digest.Digest) buffer.Buffer {
	return buffer.NewProtoBufferFromProto(&remoteexecution.Command{Arguments: []string{"true"}}, buffer.UserProvided)
}

func (commandCAS) GetFromComposite(ctx context.Context, parentDigest, childDigest digest.Digest, slicer slicing.BlobSlicer) buffer.Buffer {
	return buffer.NewBufferFromError(status.Error(codes.Unimplemented, "not used"))
}

func (commandCAS) Put(ctx context.Context, d digest.Digest, b buffer.Buffer) error {
	b.Discard()
	return nil
}

func (commandCAS) FindMissing(ctx context.Context, digests digest.Set) (digest.Set, error) {
	return digest.EmptySet, nil
}

func (commandCAS) GetCapabilities(ctx context.Context, instanceName digest.InstanceName) (*remoteexecution.ServerCapabilities, error) {
	return &remoteexecution.ServerCapabilities{}, nil
}

type fakeRunner struct {
	exit     chan struct{}
	exitCode int32

	started   bool
	startedAt time.Time
	ended     bool
	endedAt   time.Time
	endedBy   string // "exit" or "ctx"
	ctxErr    error
}

func (r *fakeRunner) CheckReadiness(ctx context.Context, in *runner_pb.CheckReadinessRequest, opts ...grpc.CallOption) (*emptypb.Empty, error) {
	return &emptypb.Empty{}, nil
}

func (r *fakeRunner) Run(ctx context.Context, in *runner_pb.RunRequest, opts ...grpc.CallOption) (*runner_pb.RunResponse, error) {
	r.started = true
	r.startedAt = time.Now()
	select {
	case <-r.exit:
		r.ended, r.endedAt, r.endedBy = true, time.Now(), "exit"
		return &runner_pb.RunResponse{ExitCode: int64(r.exitCode)}, nil
	case <-ctx.Done():
		// What a gRPC client stub returns when the call's context ends.
		r.ended, r.endedAt, r.endedBy = true, time.Now(), "ctx"
		r.ctxErr = ctx.Err()
		return nil, status.FromContextError(ctx.Err()).Err()
	}
}

type executorOutcome struct {
	start           time.Time
	runner          *fakeRunner
	response        *remoteexecution.ExecuteResponse
	endedByHorizon  bool
	returnedAtStart bool // Execute returned before ever calling the runner
	spun            bool // more than baseTimerLimit base timers were armed

	// wired mode: what went wrong with the decorated calls ("" = nothing).
	wiredFailure string
	// Probe context created on the clock after the horizon (every stall has
	// ended by then): the unsuspended duration it reported when it ended.
	probeValue any
	probeWant  time.Duration
}

func runExecutorTimeline(t *testing.T, tl *timeline, exitCode int32) (out executorOutcome, failure string) {
	unit := time.Duration(tl.UnitNs)
	defer func() {
		if r := recover(); r != nil {
			failure = fmt.Sprintf("panic while running the timeline: %v", r)
		}
	}()
	synctest.Test(t, func(st *testing.T) {
		start := time.Now()
		out.start = start
		base := newBaseClock()
		defer func() { out.spun = base.overflow.Load() }()
		clk := re_clock.NewSuspendableClock(base, time.Duration(tl.M)*unit, time.Duration(tl.Th)*unit)
		dir := &fakeBuildDirectory{}
		runner := &fakeRunner{exit: make(chan struct{}), exitCode: exitCode}
		out.runner = runner
		executor := builder.NewLocalBuildExecutor(commandCAS{}, fakeBuildDirectoryCreator{dir}, runner, clk, time.Hour, nil, 1<<20, nil, false)
		digestFunction := digest.MustNewFunction("inst", remoteexecution.DigestFunction_SHA256)
		someDigest, _ := blobFor(5, false)
		request := &remoteworker.DesiredState_Executing{
			ActionDigest: someDigest.GetProto(),
			Action: &remoteexecution.Action{
				CommandDigest:   someDigest.GetProto(),
				InputRootDigest: someDigest.GetProto(),
				Timeout:         durationpb.New(time.Duration(tl.D) * unit),
			},
		}
		outerCtx, outerCancel := context.WithCancel(context.Background())
		defer outerCancel()
		updates := make(chan *remoteworker.CurrentState_Executing)
		done := make(chan struct{})
		exited := false
		var wired *wiredRig
		if tl.Stalls == "wired" {
			wired = newWiredRig(tl, clk)
		}

		launched := false
		launch := func() {
			if launched {
				return
			}
			launched = true
			stalls := append([]int(nil), tl.ConsumerStall...)
			go func() {
				for {
					if len(stalls) > 0 {
						// The worker is busy (e.g. synchronizing with
						// the scheduler) before it takes the next
						// update: Execute() waits in its send.
						time.Sleep(time.Duration(stalls[0]) * unit)
						stalls = stalls[1:]
					}
					if _, ok := <-updates; !ok {
						return
					}
				}
			}()
			go func() {
				defer close(done)
				defer close(updates)
				out.response = executor.Execute(outerCtx, nil, nil, digestFunction, request, updates)
			}()
		}
		for _, ev := range tl.Events {
			if delta := start.Add(time.Duration(ev.T) * unit).Sub(time.Now()); delta > 0 {
				time.Sleep(delta)
			}
			if ev.Settle {
				synctest.Wait()
			}
			switch ev.Kind {
			case "suspend":
				if wired != nil {
					// A real call through a suspending decorator, which
					// stalls in the parked backend.
					wired.begin(ev.Reader)
					synctest.Wait()
				} else {
					clk.Suspend()
				}
			case "resume":
				if wired != nil {
					// The backend answers; the reader finishes the buffer.
					wired.end(ev.Reader)
					synctest.Wait()
				} else {
					clk.Resume()
				}
			case "outer_cancel":
				// The worker cancels the context it handed to Execute().
				outerCancel()
			case "launch":
				launch()
			case "create":
				launch()
				// Everything up to runner.Run() takes no (fake) time.
				synctest.Wait()
				if !runner.started {
					out.returnedAtStart = true
				}
			case "finish":
				if tl.Via == "ioerror" {
					if dir.errorLogger != nil {
						dir.errorLogger.Log(status.Error(codes.Internal, "generated I/O error"))
					}
				} else if !exited {
					exited = true
					close(runner.exit)
				}
			}
		}
		if delta := start.Add(time.Duration(tl.horizon()) * unit).Sub(time.Now()); delta > 0 {
			time.Sleep(delta)
		}
		synctest.Wait()
		select {
		case <-done:
			out.endedByHorizon = true
		default:
		}
		outerCancel()
		<-done
		if wired != nil {
			wired.teardown()
			synctest.Wait()
			out.wiredFailure = wired.check(start)
		}
		// Every stall has ended: the clock must be running again, so a
		// context created now is unsuspended for all of its life. (Its
		// timeout th+1 is more than the threshold, so that a clock that is
		// still suspended cannot pass for one that ran.)
		out.probeWant = time.Duration(tl.Th+1) * unit
		probeCtx, probeCancel := clk.NewContextWithTimeout(context.Background(), out.probeWant)
		<-probeCtx.Done()
		out.probeValue = probeCtx.Value(re_clock.UnsuspendedDurationKey{})
		probeCancel()
		synctest.Wait()
	})
	return out, ""
}

func checkExecutor(tl *timeline, out executorOutcome, exitCode int32) (string, int) {
	unit := time.Duration(tl.UnitNs)
	r := out.runner
	if out.returnedAtStart || !r.started {
		return fmt.Sprintf("Execute never reached the runner; response=%v", out.response), -1
	}
	if c, ok := tickOf(tl, out.start, r.startedAt); !ok || c != tl.Create {
		return fmt.Sprintf("harness: runner started at tick %d, expected %d", c, tl.Create), -1
	}
	if !out.endedByHorizon || !r.ended {
		return fmt.Sprintf("command still running at the horizon %d (hard bound create+d+m=%d)", tl.horizon(), tl.Create+tl.D+tl.M), -1
	}
	x, onGrid := tickOf(tl, out.start, r.endedAt)
	if !onGrid {
		return fmt.Sprintf("command ended at off-grid instant %v", r.endedAt.Sub(out.start)), -1
	}
	// The outer cancellation reaches the command at c (-1: there is none).
	c := tl.cancelAt()
	l := latestAllowed(tl)
	if c >= 0 && c < l {
		l = c
	}
	if x > l {
		return fmt.Sprintf("command ended at %d, later than allowed %d = min(budget used up %d, hard bound %d, finish %d, outer cancellation %d)", x, l, tl.budgetReached(), tl.Create+tl.D+tl.M, tl.Finish, c), x
	}
	resp := out.response
	if resp == nil || resp.Result == nil || resp.Result.ExecutionMetadata == nil {
		return fmt.Sprintf("malformed response %v", resp), x
	}
	st := status.FromProto(resp.Status)
	switch {
	case r.endedBy == "exit":
		if x != tl.Finish {
			return fmt.Sprintf("harness: runner exited at %d, finish is %d", x, tl.Finish), x
		}
		if st.Code() != codes.OK || resp.Result.ExitCode != exitCode {
			return fmt.Sprintf("command exited by itself at %d with code %d, but the response has status %v exit code %d", x, exitCode, st, resp.Result.ExitCode), x
		}
	case r.ctxErr == context.DeadlineExceeded:
		if ok, why := fireAllowed(tl, x); !ok {
			return "timeout: " + why, x
		}
		ioErrorTie := tl.Via == "ioerror" && x == tl.Finish && st.Code() == codes.Internal && strings.Contains(st.Message(), "I/O error while running command")
		// (an I/O error logged at the very instant of the timeout is
		// preferred over the cancellation it races with, as documented in
		// Execute())
		if st.Code() != codes.DeadlineExceeded && !ioErrorTie {
			return fmt.Sprintf("command was cancelled by the timeout at %d, but the response status is %v", x, st), x
		}
	case r.ctxErr == context.Canceled:
		byIOError := tl.Via == "ioerror" && x == tl.Finish
		byOuterCancel := c >= 0 && x == c
		if !byIOError && !byOuterCancel {
			return fmt.Sprintf("run context was cancelled at %d without a timeout, I/O error or outer cancellation (finish=%d via %s, outer cancellation %d)", x, tl.Finish, tl.Via, c), x
		}
		// An I/O error is reported as such; a cancellation by the worker
		// is what the runner's gRPC stub made of the cancelled context
		// ("Failed to run command: ... context canceled", code CANCELLED).
		// If both happen in the same instant either may win.
		okIOError := st.Code() == codes.Internal && strings.Contains(st.Message(), "I/O error while running command")
		okOuterCancel := st.Code() == codes.Canceled
		if !(byIOError && okIOError) && !(byOuterCancel && okOuterCancel) {
			return fmt.Sprintf("run context was cancelled at %d (I/O error=%v, outer cancellation=%v), but the response status is %v", x, byIOError, byOuterCancel, st), x
		}
	default:
		return fmt.Sprintf("run context ended with %v", r.ctxErr), x
	}
	v := resp.Result.ExecutionMetadata.VirtualExecutionDuration
	if v == nil {
		return "response carries no virtual_execution_duration", x
	}
	if want := time.Duration(tl.unsuspended(x)) * unit; v.AsDuration() != want {
		return fmt.Sprintf("virtual_execution_duration %v, model U(%d)=%v (status %v)", v.AsDuration(), x, want, st.Code()), x
	}
	if got, ok := out.probeValue.(time.Duration); !ok || got != out.probeWant {
		return fmt.Sprintf("after the last stall had ended, a context with timeout %v created on the clock reported an unsuspended lifetime of %v: the clock is still suspended", out.probeWant, out.probeValue), x
	}
	return "", x
}

func TestC11ExecutorTimeout(t *testing.T) {
	rec := simkit.NewRecorder(t, "C11", "executor",
		"one case = one generated timeline (as in sub-check timeline) driven through the real LocalBuildExecutor with the real SuspendableClock "+
			"on synctest fake time; fakes: empty build directory, CAS holding the command, runner that runs until told to exit (exit code "+
			"generated), until an I/O error is logged through the installed hook, or until its context ends (answers like a gRPC stub); "+
			"oracle: command ends no later than min(U reaches d, create+d+m, finish); timeout only if d-th < U <= d or at the hard bound and "+
			"then status DEADLINE_EXCEEDED; own exit => OK + exit code; I/O error => that error; virtual_execution_duration == model U(end). "+
			"In about 4 of 7 cases the context handed to Execute() is cancelled at a generated tick (before/at creation of the run context, around the "+
			"earliest instant the timeout may fire, around budget/hard bound/finish, anywhere): the command then ends no later than that tick, and if "+
			"the run context ends with Canceled at that tick the status is CANCELLED, so a cancellation strictly before the timeout may fire is never "+
			"reported as DEADLINE_EXCEEDED; in the same instant either is accepted. After the horizon a probe context on the clock must report a fully "+
			"unsuspended lifetime. "+
			"NON-TRIVIAL as in sub-check timeline")
	rapid.Check(t, func(rt *rapid.T) {
		tl := genTimeline(rt)
		tl.Objects = "executor"
		tl.Via = rapid.SampledFrom([]string{"exit", "exit", "ioerror"}).Draw(rt, "executorVia")
		exitCode := int32(rapid.IntRange(0, 3).Draw(rt, "exitCode"))
		genOuterCancel(rt, tl)
		genConsumerStall(rt, tl)
		out, failure := runExecutorTimeline(t, tl, exitCode)
		if failure != "" {
			rt.Fatalf("%s; script=%s", failure, tl)
		}
		if out.spun {
			rt.Fatalf("more than %d base timers were armed for one action: the re-arm loop spins; script=%s", baseTimerLimit, tl)
		}
		msg, x := checkExecutor(tl, out, exitCode)
		if msg != "" {
			rt.Fatalf("executor: %s; response=%v; script=%s", msg, out.response, tl)
		}
		labels, nontrivial := classify(tl, x)
		labels = relabelCancelled(labels, classifyCancel(tl, out, x))
		labels = append(labels, "via:"+tl.Via, "status:"+status.FromProto(out.response.Status).Code().String())
		if len(tl.ConsumerStall) == 2 {
			if tl.ConsumerStall[0] > 0 {
				labels = append(labels, "worker-slow-to-take-fetching-inputs-update")
			}
			if tl.ConsumerStall[1] > 0 {
				labels = append(labels, "worker-slow-to-take-running-update")
			}
		}
		rec.Case(tl, nontrivial, labels...)
	})
}

// genConsumerStall draws how long the consumer of the execution state
// updates lets Execute() wait before it takes the first two updates, and
// moves the call of Execute() that much ahead of Create (event "launch"),
// so that the command starts at Create as the reference model assumes.
// Not combined with an outer cancellation at or before Create (Execute()
// would return before it reaches the runner).
func genConsumerStall(rt *rapid.T, tl *timeline) {
	if tl.OuterCancel != nil && *tl.OuterCancel <= tl.Create {
		return
	}
	maxStall := tl.Create
	if maxStall > 4 {
		maxStall = 4
	}
	if maxStall == 0 || rapid.IntRange(0, 2).Draw(rt, "consumerStalls") == 0 {
		return
	}
	total := rapid.IntRange(1, maxStall).Draw(rt, "consumerStallTotal")
	first := rapid.IntRange(0, total).Draw(rt, "consumerStallFirst")
	tl.ConsumerStall = []int{first, total - first}
	at := tl.Create - total
	pos := sort.Search(len(tl.Events), func(i int) bool { return tl.Events[i].T >= at })
	tl.Events = append(tl.Events, event{})
	copy(tl.Events[pos+1:], tl.Events[pos:])
	tl.Events[pos] = event{T: at, Kind: "launch"}
}

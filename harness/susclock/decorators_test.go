package susclock

import (
	"bytes"
	"context"
	"crypto/sha256"
	"encoding/hex"
	"encoding/json"
	"errors"
	"fmt"
	"io"
	"testing"

	remoteexecution "github.com/bazelbuild/remote-apis/build/bazel/remote/execution/v2"
	re_blobstore "github.com/buildbarn/bb-remote-execution/pkg/blobstore"
	re_cas "github.com/buildbarn/bb-remote-execution/pkg/cas"
	"github.com/buildbarn/bb-storage/pkg/blobstore/buffer"
	"github.com/buildbarn/bb-storage/pkg/blobstore/slicing"
	"github.com/buildbarn/bb-storage/pkg/digest"
	"google.golang.org/grpc/codes"
	"google.golang.org/grpc/status"
	"pgregory.net/rapid"

	"verif/harness/internal/simkit"
)

// countingSuspendable is the clock.Suspendable handed to the decorators.
type countingSuspendable struct {
	count    int
	suspends int
	resumes  int
	negative bool // Resume() without a matching Suspend()
}

func (s *countingSuspendable) Suspend() { s.count++; s.suspends++ }
func (s *countingSuspendable) Resume() {
	s.resumes++
	if s.count == 0 {
		s.negative = true // the real SuspendableClock panics here
		return
	}
	s.count--
}

// decoStep is one executed step of the script.
type decoStep struct {
	Op      string `json:"op"`
	Kind    string `json:"kind,omitempty"`    // what the fake backend answers
	Buf     int    `json:"buf,omitempty"`     // which outstanding buffer (its number)
	Size    int    `json:"size,omitempty"`    // blob size
	FailAt  *int   `json:"failAt,omitempty"`  // stream fails after this many bytes (absent: never)
	Corrupt bool   `json:"corrupt,omitempty"` // stream contents do not match the digest
	Arg     int    `json:"arg,omitempty"`
	Arg2    int    `json:"arg2,omitempty"`
}

// outstanding describes a buffer returned by Get()/GetFromComposite() that
// the caller has not finished yet.
type outstanding struct {
	id     int
	stream bool // backed by a stream: the clock must stay suspended until the transfer has ended
	fs     *fakeStream
	b      buffer.Buffer
	r      io.ReadCloser      // after ToReader()
	cr     buffer.ChunkReader // after ToChunkReader()
	size   int
}

type decoHarness struct {
	sus    *countingSuspendable
	script []decoStep
	bufs   []*outstanding
	nextID int

	// How the fake backend must answer the next call, and the suspension
	// counts it is allowed to observe while it runs.
	plan        decoStep
	planCtxErr  bool
	callLo      int
	callHi      int
	inCall      bool
	violation   string
	backendSeen int
}

func (h *decoHarness) fail(format string, args ...any) {
	if h.violation == "" {
		h.violation = fmt.Sprintf(format, args...)
	}
}

// bounds returns the range the suspension count may be in between calls:
// every stream-backed buffer whose transfer is still going on (the backend's
// stream has not been closed) keeps the clock suspended; for a buffer whose
// contents were already in memory, that already failed, or whose stream was
// closed early by the buffer layer (e.g. a failing seek to the requested
// offset) the decorator may resume right away or when the caller finishes
// the buffer.
func (h *decoHarness) bounds() (lo, hi int) {
	for _, o := range h.bufs {
		hi++
		if o.stream && o.fs.closed == 0 {
			lo++
		}
	}
	return lo, hi
}

func (h *decoHarness) checkIdle(where string) {
	lo, hi := h.bounds()
	if h.sus.negative {
		h.fail("%s: Resume() was called while the suspension count was 0", where)
	}
	if h.sus.count < lo || h.sus.count > hi {
		h.fail("%s: suspension count %d, expected between %d (unfinished streamed buffers) and %d (all unfinished buffers); suspends=%d resumes=%d",
			where, h.sus.count, lo, hi, h.sus.suspends, h.sus.resumes)
	}
}

// inBackend is called by every fake backend method and by every Read() on a
// stream handed out by the backend.
func (h *decoHarness) inBackend(where string, lo, hi int) {
	h.backendSeen++
	if h.sus.negative {
		h.fail("%s: Resume() was called while the suspension count was 0", where)
	}
	if h.sus.count < lo || h.sus.count > hi {
		h.fail("%s: suspension count %d while the backend is at work, expected between %d and %d", where, h.sus.count, lo, hi)
	}
}

var errBackend = status.Error(codes.Unavailable, "generated backend failure")

func blobFor(size int, corrupt bool) (digest.Digest, []byte) {
	data := make([]byte, size)
	for i := range data {
		data[i] = byte(i*7 + size)
	}
	sum := sha256.Sum256(data)
	d := digest.MustNewDigest("inst", remoteexecution.DigestFunction_SHA256, hex.EncodeToString(sum[:]), int64(size))
	if corrupt && size > 0 {
		data = append([]byte(nil), data...)
		data[size/2] ^= 0x55
	}
	return d, data
}

// fakeStream is the io.ReadCloser / ChunkReader the fake backend returns.
type fakeStream struct {
	h      *decoHarness
	owner  *outstanding // set once Get() has returned
	data   []byte
	pos    int
	failAt int // -1: never
	closed int
}

func failAtOf(p decoStep) int {
	if p.FailAt == nil {
		return -1
	}
	return *p.FailAt
}

func (s *fakeStream) check() {
	if s.owner == nil {
		return
	}
	// The transfer is still going on: the clock must still be suspended
	// on behalf of this buffer.
	lo, hi := s.h.bounds()
	s.h.inBackend(fmt.Sprintf("stream read of buffer #%d", s.owner.id), lo, hi)
}

func (s *fakeStream) Read(p []byte) (int, error) {
	s.check()
	if s.failAt >= 0 && s.pos >= s.failAt {
		return 0, errBackend
	}
	end := len(s.data)
	if s.failAt >= 0 && s.failAt < end {
		end = s.failAt
	}
	if s.pos >= end {
		return 0, io.EOF
	}
	if len(p) > 3 {
		p = p[:3] // short reads
	}
	n := copy(p, s.data[s.pos:end])
	s.pos += n
	return n, nil
}

func (s *fakeStream) Close() error { s.closed++; return nil }

type fakeChunkStream struct{ s *fakeStream }

func (c fakeChunkStream) Read() ([]byte, error) {
	p := make([]byte, 3)
	n, err := c.s.Read(p)
	if err != nil {
		return nil, err
	}
	return p[:n], nil
}
func (c fakeChunkStream) Close() { c.s.closed++ }

// fakeBackend implements blobstore.BlobAccess and cas.DirectoryFetcher.
type fakeBackend struct {
	h          *decoHarness
	lastStream *fakeStream
}

func (f *fakeBackend) enter(op string) error {
	h := f.h
	if !h.inCall {
		h.fail("backend %s called outside a harness step", op)
	}
	h.inBackend("backend "+op, h.callLo, h.callHi)
	return nil
}

func (f *fakeBackend) answerError(ctx context.Context) error {
	if f.h.plan.Kind == "ctxerr" {
		if err := ctx.Err(); err != nil {
			return status.FromContextError(err).Err()
		}
		return status.Error(codes.Canceled, "context canceled")
	}
	return errBackend
}

func (f *fakeBackend) get(ctx context.Context) buffer.Buffer {
	p := f.h.plan
	d, data := blobFor(p.Size, p.Corrupt)
	switch p.Kind {
	case "bytes":
		return buffer.NewValidatedBufferFromByteSlice(data)
	case "casbytes":
		return buffer.NewCASBufferFromByteSlice(d, data, buffer.UserProvided)
	case "error", "ctxerr":
		return buffer.NewBufferFromError(f.answerError(ctx))
	case "reader":
		f.lastStream = &fakeStream{h: f.h, data: data, failAt: failAtOf(p)}
		return buffer.NewCASBufferFromReader(d, f.lastStream, buffer.UserProvided)
	case "chunkreader":
		f.lastStream = &fakeStream{h: f.h, data: data, failAt: failAtOf(p)}
		return buffer.NewCASBufferFromChunkReader(d, fakeChunkStream{f.lastStream}, buffer.UserProvided)
	}
	panic("unknown plan " + p.Kind)
}

func (f *fakeBackend) Get(ctx context.Context, d digest.Digest) buffer.Buffer {
	f.enter("Get")
	return f.get(ctx)
}

func (f *fakeBackend) GetFromComposite(ctx context.Context, parentDigest, childDigest digest.Digest, slicer slicing.BlobSlicer) buffer.Buffer {
	f.enter("GetFromComposite")
	return f.get(ctx)
}

func (f *fakeBackend) Put(ctx context.Context, d digest.Digest, b buffer.Buffer) error {
	f.enter("Put")
	switch f.h.plan.Kind {
	case "ok":
		_, err := b.ToByteSlice(1 << 20)
		return err
	default:
		b.Discard()
		return f.answerError(ctx)
	}
}

func (f *fakeBackend) FindMissing(ctx context.Context, digests digest.Set) (digest.Set, error) {
	f.enter("FindMissing")
	if f.h.plan.Kind == "ok" {
		return digests, nil
	}
	return digest.EmptySet, f.answerError(ctx)
}

func (f *fakeBackend) GetCapabilities(ctx context.Context, instanceName digest.InstanceName) (*remoteexecution.ServerCapabilities, error) {
	f.enter("GetCapabilities")
	if f.h.plan.Kind == "ok" {
		return &remoteexecution.ServerCapabilities{}, nil
	}
	return nil, f.answerError(ctx)
}

func (f *fakeBackend) directory(ctx context.Context, op string) (*remoteexecution.Directory, error) {
	f.enter(op)
	if f.h.plan.Kind == "ok" {
		return &remoteexecution.Directory{}, nil
	}
	return nil, f.answerError(ctx)
}

func (f *fakeBackend) GetDirectory(ctx context.Context, d digest.Digest) (*remoteexecution.Directory, error) {
	return f.directory(ctx, "GetDirectory")
}

func (f *fakeBackend) GetTreeRootDirectory(ctx context.Context, d digest.Digest) (*remoteexecution.Directory, error) {
	return f.directory(ctx, "GetTreeRootDirectory")
}

func (f *fakeBackend) GetTreeChildDirectory(ctx context.Context, d, c digest.Digest) (*remoteexecution.Directory, error) {
	return f.directory(ctx, "GetTreeChildDirectory")
}

type failingWriter struct{ left int }

func (w *failingWriter) Write(p []byte) (int, error) {
	if w.left >= 0 && len(p) > w.left {
		n := w.left
		w.left = 0
		return n, errors.New("generated writer failure")
	}
	if w.left >= 0 {
		w.left -= len(p)
	}
	return len(p), nil
}

func TestC11SuspendingDecorators(t *testing.T) {
	rec := simkit.NewRecorder(t, "C11", "decorators",
		"one case = a generated sequence of calls through the real SuspendingBlobAccess and SuspendingDirectoryFetcher over a fake backend "+
			"(answers: in-memory blob, error, cancelled context, stream that succeeds / fails after k bytes / is corrupt) with a counting "+
			"Suspendable; buffers returned by Get stay outstanding and are finished later in generated order by ToByteSlice, ReadAt, ToProto, "+
			"IntoWriter (possibly failing writer), Discard, or ToReader/ToChunkReader + partial reads + Close; oracle after every step and "+
			"inside every backend call and stream read: count never negative, count == +1 inside a backend call, every unfinished streamed "+
			"buffer keeps exactly one suspension (not resumed before it is finished, resumed when it is), 0 when nothing is outstanding. "+
			"NON-TRIVIAL = a streamed buffer that fails/is corrupt or is finished via a partially read reader, or >= 2 buffers outstanding at once")
	rapid.Check(t, func(rt *rapid.T) {
		h := &decoHarness{sus: &countingSuspendable{}}
		backend := &fakeBackend{h: h}
		ba := re_blobstore.NewSuspendingBlobAccess(backend, h.sus)
		df := re_cas.NewSuspendingDirectoryFetcher(backend, h.sus)
		someDigest, _ := blobFor(5, false)

		labels := map[string]bool{}
		maxOutstanding := 0
		streamTrouble := false

		ctxFor := func(kind string) context.Context {
			if kind == "ctxerr" {
				ctx, cancel := context.WithCancel(context.Background())
				cancel()
				return ctx
			}
			return context.Background()
		}
		begin := func(step decoStep) {
			h.script = append(h.script, step)
			h.plan = step
			lo, hi := h.bounds()
			h.callLo, h.callHi = lo+1, hi+1
			h.inCall = true
		}
		end := func() {
			h.inCall = false
			h.checkIdle(fmt.Sprintf("after step %d", len(h.script)))
			if h.violation != "" {
				rt.Fatalf("%s; script=%s", h.violation, scriptJSON(h.script))
			}
			if n := len(h.bufs); n > maxOutstanding {
				maxOutstanding = n
			}
		}
		finish := func(o *outstanding) {
			for i, x := range h.bufs {
				if x == o {
					h.bufs = append(h.bufs[:i], h.bufs[i+1:]...)
					return
				}
			}
		}

		nSteps := rapid.IntRange(1, 24).Draw(rt, "steps")
		for i := 0; i < nSteps; i++ {
			ops := []string{"get", "get", "getComposite", "put", "findMissing", "getCapabilities", "getDirectory", "getTreeRoot", "getTreeChild"}
			if len(h.bufs) > 0 {
				ops = append(ops, "consume", "consume", "consume", "consume")
			}
			if len(h.bufs) >= 4 {
				ops = []string{"consume"}
			}
			op := rapid.SampledFrom(ops).Draw(rt, "op")
			switch op {
			case "get", "getComposite":
				step := decoStep{Op: op}
				step.Kind = rapid.SampledFrom([]string{"bytes", "casbytes", "error", "ctxerr", "reader", "reader", "chunkreader"}).Draw(rt, "kind")
				step.Size = drawSize(rt)
				if step.Kind == "reader" || step.Kind == "chunkreader" || step.Kind == "casbytes" {
					switch rapid.IntRange(0, 3).Draw(rt, "trouble") {
					case 0:
						if step.Kind != "casbytes" {
							k := rapid.IntRange(0, step.Size).Draw(rt, "failAt")
							step.FailAt = &k
						}
					case 1:
						step.Corrupt = true
					}
				}
				begin(step)
				var b buffer.Buffer
				backend.lastStream = nil
				// The digest that is asked for has the size of the blob
				// (boundary sizes included: the empty blob, one byte,
				// the backend's short-read size, one 64 KiB chunk +/- 1).
				wanted, _ := blobFor(step.Size, false)
				if op == "get" {
					b = ba.Get(ctxFor(step.Kind), wanted)
				} else {
					b = ba.GetFromComposite(ctxFor(step.Kind), someDigest, wanted, nil)
				}
				if step.Size == 0 {
					labels[op+":empty-blob"] = true
				}
				h.nextID++
				o := &outstanding{id: h.nextID, b: b, size: step.Size, stream: backend.lastStream != nil}
				if backend.lastStream != nil {
					o.fs = backend.lastStream
					backend.lastStream.owner = o
					if step.FailAt != nil || step.Corrupt {
						streamTrouble = true
						labels["stream-failing-or-corrupt"] = true
					}
				}
				h.bufs = append(h.bufs, o)
				labels["get:"+step.Kind] = true
				end()
			case "put", "findMissing", "getCapabilities", "getDirectory", "getTreeRoot", "getTreeChild":
				step := decoStep{Op: op, Kind: rapid.SampledFrom([]string{"ok", "error", "ctxerr"}).Draw(rt, "kind")}
				step.Size = drawSize(rt)
				someDigest, _ := blobFor(step.Size, false)
				if step.Size == 0 {
					labels[op+":empty-blob"] = true
				}
				begin(step)
				ctx := ctxFor(step.Kind)
				seenBefore := h.backendSeen
				var err error
				switch op {
				case "put":
					err = ba.Put(ctx, someDigest, buffer.NewValidatedBufferFromByteSlice([]byte("hello")))
				case "findMissing":
					_, err = ba.FindMissing(ctx, someDigest.ToSingletonSet())
				case "getCapabilities":
					_, err = ba.GetCapabilities(ctx, someDigest.GetInstanceName())
				case "getDirectory":
					_, err = df.GetDirectory(ctx, someDigest)
				case "getTreeRoot":
					_, err = df.GetTreeRootDirectory(ctx, someDigest)
				case "getTreeChild":
					_, err = df.GetTreeChildDirectory(ctx, someDigest, someDigest)
				}
				if (err == nil) != (step.Kind == "ok") {
					h.fail("%s with backend answer %q returned err=%v", op, step.Kind, err)
				}
				if h.backendSeen == seenBefore {
					h.fail("%s did not reach the backend", op)
				}
				labels[op+":"+step.Kind] = true
				end()
			case "consume":
				idx := rapid.IntRange(0, len(h.bufs)-1).Draw(rt, "which")
				o := h.bufs[idx]
				step := decoStep{Op: "consume", Buf: o.id}
				switch {
				case o.r != nil:
					step.Kind = rapid.SampledFrom([]string{"read", "read", "closeReader"}).Draw(rt, "how")
				case o.cr != nil:
					step.Kind = rapid.SampledFrom([]string{"readChunk", "readChunk", "closeChunkReader"}).Draw(rt, "how")
				default:
					step.Kind = rapid.SampledFrom([]string{"toByteSlice", "readAt", "toProto", "intoWriter", "discard", "toReader", "toChunkReader"}).Draw(rt, "how")
				}
				switch step.Kind {
				case "toByteSlice":
					step.Arg = rapid.SampledFrom([]int{0, 1, 8, 16, 1 << 20}).Draw(rt, "max")
				case "readAt":
					step.Arg = rapid.IntRange(0, 14).Draw(rt, "len")
					step.Arg2 = rapid.IntRange(0, o.size).Draw(rt, "off")
				case "intoWriter":
					step.Arg = rapid.IntRange(-1, 12).Draw(rt, "writerFailsAfter")
				case "toChunkReader":
					step.Arg = rapid.IntRange(0, o.size).Draw(rt, "off")
					step.Arg2 = rapid.IntRange(1, 8).Draw(rt, "chunk")
				case "read":
					step.Arg = rapid.IntRange(1, 16).Draw(rt, "n")
				}
				// While a buffer is being consumed the backend is not
				// inside a decorated call.
				h.script = append(h.script, step)
				h.plan = step
				switch step.Kind {
				case "toByteSlice":
					o.b.ToByteSlice(step.Arg)
					finish(o)
				case "readAt":
					o.b.ReadAt(make([]byte, step.Arg), int64(step.Arg2))
					finish(o)
				case "toProto":
					o.b.ToProto(&remoteexecution.Directory{}, 1<<20)
					finish(o)
				case "intoWriter":
					if step.Arg < 0 {
						o.b.IntoWriter(&bytes.Buffer{})
					} else {
						o.b.IntoWriter(&failingWriter{left: step.Arg})
					}
					finish(o)
				case "discard":
					o.b.Discard()
					finish(o)
				case "toReader":
					o.r = o.b.ToReader()
				case "toChunkReader":
					o.cr = o.b.ToChunkReader(int64(step.Arg), step.Arg2)
				case "read":
					o.r.Read(make([]byte, step.Arg))
				case "readChunk":
					o.cr.Read()
				case "closeReader":
					if o.stream {
						streamTrouble = true // finished through a reader that may not have been read to the end
						labels["closed-reader-of-stream"] = true
					}
					o.r.Close()
					finish(o)
				case "closeChunkReader":
					if o.stream {
						streamTrouble = true
						labels["closed-reader-of-stream"] = true
					}
					o.cr.Close()
					finish(o)
				}
				labels["consume:"+step.Kind] = true
				end()
			}
		}

		// Finish whatever is still outstanding: the count must return to 0.
		for len(h.bufs) > 0 {
			o := h.bufs[0]
			step := decoStep{Op: "consume", Buf: o.id, Kind: "final"}
			h.script = append(h.script, step)
			switch {
			case o.r != nil:
				o.r.Close()
			case o.cr != nil:
				o.cr.Close()
			default:
				o.b.Discard()
			}
			finish(o)
			end()
		}
		if h.sus.count != 0 || h.sus.suspends != h.sus.resumes {
			rt.Fatalf("at the end: suspension count %d, suspends=%d resumes=%d; script=%s", h.sus.count, h.sus.suspends, h.sus.resumes, scriptJSON(h.script))
		}

		var ls []string
		for _, l := range sortedKeys(labels) {
			ls = append(ls, l)
		}
		if maxOutstanding >= 2 {
			ls = append(ls, "outstanding>=2")
		}
		rec.Case(h.script, streamTrouble || maxOutstanding >= 2, ls...)
	})
}

// drawSize draws a blob size with the boundary values over-represented.
func drawSize(rt *rapid.T) int {
	switch rapid.IntRange(0, 19).Draw(rt, "sizeKind") {
	case 0, 1, 2, 3:
		return 0
	case 4:
		return 1
	case 5:
		return rapid.SampledFrom([]int{2, 3, 4}).Draw(rt, "sizeNearShortRead")
	case 6:
		return rapid.SampledFrom([]int{64*1024 - 1, 64 * 1024, 64*1024 + 1}).Draw(rt, "sizeNearChunk")
	default:
		return rapid.IntRange(0, 12).Draw(rt, "size")
	}
}

func scriptJSON(v any) string {
	b, _ := json.Marshal(v)
	return string(b)
}

func sortedKeys(m map[string]bool) []string {
	var ks []string
	for k := range m {
		ks = append(ks, k)
	}
	for i := 1; i < len(ks); i++ {
		for j := i; j > 0 && ks[j] < ks[j-1]; j-- {
			ks[j], ks[j-1] = ks[j-1], ks[j]
		}
	}
	return ks
}

package susclock

import (
	"bytes"
	"context"
	"fmt"
	"io"
	"sort"
	"testing"
	"time"

	remoteexecution "github.com/bazelbuild/remote-apis/build/bazel/remote/execution/v2"
	re_blobstore "github.com/buildbarn/bb-remote-execution/pkg/blobstore"
	re_cas "github.com/buildbarn/bb-remote-execution/pkg/cas"
	re_clock "github.com/buildbarn/bb-remote-execution/pkg/clock"
	"github.com/buildbarn/bb-storage/pkg/blobstore"
	"github.com/buildbarn/bb-storage/pkg/blobstore/buffer"
	"github.com/buildbarn/bb-storage/pkg/blobstore/slicing"
	"github.com/buildbarn/bb-storage/pkg/digest"
	"google.golang.org/grpc/status"
	"pgregory.net/rapid"

	"verif/harness/internal/simkit"
)

// ---------------------------------------------------------------------
// Executor-level event: cancellation of the context handed to Execute()
// (what the worker does when the scheduler withdraws the action) at a
// generated tick, racing the execution timeout.
// ---------------------------------------------------------------------

// earliestFire is the first instant at which the validity predicate of the
// timeline sub-check lets the timeout fire.
func earliestFire(tl *timeline) int {
	capAt := tl.Create + tl.D + tl.M
	for x := tl.Create; x < capAt; x++ {
		if ok, _ := fireAllowed(tl, x); ok {
			return x
		}
	}
	return capAt
}

// cancelAt is the instant at which the outer cancellation reaches the
// command: the generated tick, or the creation of the run context if the
// context was cancelled before Execute() got that far. -1: no cancellation.
func (tl *timeline) cancelAt() int {
	if tl.OuterCancel == nil {
		return -1
	}
	if *tl.OuterCancel < tl.Create {
		return tl.Create
	}
	return *tl.OuterCancel
}

// genOuterCancel draws whether and when the context handed to Execute() is
// cancelled and inserts the event into the merged event order (position
// among events of the same instant drawn).
func genOuterCancel(rt *rapid.T, tl *timeline) {
	kind := rapid.IntRange(0, 13).Draw(rt, "outerCancelKind")
	if kind < 6 {
		return
	}
	capAt := tl.Create + tl.D + tl.M
	c := 0
	switch kind {
	case 6:
		// Before Execute() creates the run context, or in the same instant.
		c = tl.Create - rapid.IntRange(0, 2).Draw(rt, "outerCancelBeforeCreate")
	case 7, 8, 9:
		// Around the earliest instant at which the timeout may fire.
		c = earliestFire(tl) + rapid.IntRange(-2, 2).Draw(rt, "outerCancelAroundFire")
	case 10:
		// Around the instant the unsuspended budget is used up.
		b := tl.budgetReached()
		if b < 0 {
			b = capAt
		}
		c = b + rapid.IntRange(-1, 1).Draw(rt, "outerCancelAroundBudget")
	case 11:
		c = capAt + rapid.IntRange(-1, 1).Draw(rt, "outerCancelAroundCap")
	case 12:
		if tl.Finish >= 0 {
			c = tl.Finish + rapid.IntRange(-1, 1).Draw(rt, "outerCancelAroundFinish")
		} else {
			c = rapid.IntRange(tl.Create, capAt+2).Draw(rt, "outerCancelAnywhere")
		}
	default:
		c = rapid.IntRange(tl.Create, capAt+2).Draw(rt, "outerCancelAnywhere")
	}
	if c < 0 {
		c = 0
	}
	tl.OuterCancel = &c
	lo := sort.Search(len(tl.Events), func(i int) bool { return tl.Events[i].T >= c })
	hi := sort.Search(len(tl.Events), func(i int) bool { return tl.Events[i].T > c })
	pos := lo
	if hi > lo {
		pos = rapid.IntRange(lo, hi).Draw(rt, "outerCancelPos")
	}
	ev := event{T: c, Kind: "outer_cancel", Settle: rapid.IntRange(0, 3).Draw(rt, "outerCancelSettle") != 0}
	tl.Events = append(tl.Events, event{})
	copy(tl.Events[pos+1:], tl.Events[pos:])
	tl.Events[pos] = ev
	tl.prep() // the horizon may have moved
}

// classifyCancel labels where the outer cancellation fell relative to the
// window in which the timeout may fire, and what decided the end at x.
func classifyCancel(tl *timeline, out executorOutcome, x int) []string {
	if tl.OuterCancel == nil {
		return []string{"outer-cancel:none"}
	}
	var labels []string
	c := tl.cancelAt()
	f := earliestFire(tl)
	createIdx, cancelIdx := -1, -1
	for i, ev := range tl.Events {
		switch ev.Kind {
		case "create":
			createIdx = i
		case "outer_cancel":
			cancelIdx = i
		}
	}
	switch {
	case cancelIdx < createIdx:
		labels = append(labels, "outer-cancel:before-create")
	case tl.Finish >= 0 && c > tl.Finish && tl.Finish <= latestAllowed(tl):
		labels = append(labels, "outer-cancel:after-finish")
	case c < f:
		labels = append(labels, "outer-cancel:before-fire-window")
	case c <= latestAllowed(tl):
		labels = append(labels, "outer-cancel:in-fire-window")
	default:
		labels = append(labels, "outer-cancel:after-timeout")
	}
	if c < f && (tl.Finish < 0 || c < tl.Finish) {
		// The cases in which the response must be CANCELLED.
		labels = append(labels, "outer-cancel:strictly-first")
		for k := tl.Create; k < c; k++ {
			if tl.depth(k) > 0 {
				labels = append(labels, "outer-cancel:strictly-first-after-suspension")
				break
			}
		}
	}
	if x == c && out.runner.endedBy == "ctx" {
		if out.runner.ctxErr == context.Canceled {
			labels = append(labels, "ended-by:outer-cancel")
		} else {
			labels = append(labels, "outer-cancel:same-instant-as-timeout")
		}
	}
	return labels
}

// relabelCancelled merges the labels of classify() and classifyCancel(): a
// command that was ended by the outer cancellation did not time out.
func relabelCancelled(labels, cancelLabels []string) []string {
	cancelled := false
	for _, l := range cancelLabels {
		if l == "ended-by:outer-cancel" {
			cancelled = true
		}
	}
	var out []string
	for _, l := range labels {
		if cancelled && l == "timed-out" {
			continue
		}
		out = append(out, l)
	}
	return append(out, cancelLabels...)
}

// ---------------------------------------------------------------------
// 'Wired' stalls: every suspend/resume interval of the timeline is one real
// call through NewSuspendingBlobAccess / NewSuspendingDirectoryFetcher /
// NewJoinedSuspendable on the very SuspendableClock that the executor's
// execution timeout runs on (the way cmd/bb_worker wires them). The backend
// behind the decorators parks the call (or the stream of the buffer it
// returned) until the harness releases it at the interval's end tick; the
// reader then finishes the buffer in that same instant.
// ---------------------------------------------------------------------

type wiredPlan struct {
	// get | getComposite | put | findMissing | getCapabilities |
	// getDirectory | getTreeRoot | getTreeChild | joined
	Op string `json:"op"`
	// get/getComposite only. "call": the backend's Get() itself blocks until
	// released and then returns Reply. "stream": Get() returns a
	// stream-backed buffer at once, the stream blocks (after ParkAt bytes)
	// until released.
	Where string `json:"where,omitempty"`
	// get: bytes | casbytes | error | reader | chunkreader; others: ok | error
	Reply   string `json:"reply"`
	Size    int    `json:"size,omitempty"`
	ParkAt  int    `json:"parkAt,omitempty"`
	FailAt  *int   `json:"failAt,omitempty"` // stream fails after this many bytes (>= ParkAt)
	Corrupt bool   `json:"corrupt,omitempty"`
	// How the reader finishes the buffer: toByteSlice | toProto | intoWriter |
	// readAt | reader | chunkReader | readerPartial | discard (the last two
	// only where they cannot end the transfer before the stall).
	Consume string `json:"consume,omitempty"`
	Arg     int    `json:"arg,omitempty"`
}

func genWiredPlan(rt *rapid.T) wiredPlan {
	p := wiredPlan{}
	p.Op = rapid.SampledFrom([]string{
		"get", "get", "get", "get", "get", "getComposite", "put", "findMissing", "getCapabilities",
		"getDirectory", "getTreeRoot", "getTreeChild", "joined",
	}).Draw(rt, "wiredOp")
	switch p.Op {
	case "joined":
		p.Reply = "ok"
	case "get", "getComposite":
		p.Size = rapid.SampledFrom([]int{0, 1, 3, 4, 7, 12}).Draw(rt, "wiredSize")
		p.Where = rapid.SampledFrom([]string{"call", "call", "stream"}).Draw(rt, "wiredWhere")
		if p.Where == "call" {
			p.Reply = rapid.SampledFrom([]string{"bytes", "casbytes", "error", "error", "reader", "chunkreader"}).Draw(rt, "wiredReply")
			p.Consume = rapid.SampledFrom([]string{"toByteSlice", "toProto", "intoWriter", "readAt", "reader", "chunkReader", "readerPartial", "discard"}).Draw(rt, "wiredConsume")
		} else {
			p.Reply = rapid.SampledFrom([]string{"reader", "reader", "chunkreader"}).Draw(rt, "wiredReply")
			p.ParkAt = rapid.IntRange(0, p.Size).Draw(rt, "wiredParkAt")
			// Only ways of consuming that read up to the stall.
			p.Consume = rapid.SampledFrom([]string{"toByteSlice", "toProto", "intoWriter", "readAt", "reader", "chunkReader"}).Draw(rt, "wiredConsume")
		}
		if p.Reply == "reader" || p.Reply == "chunkreader" || p.Reply == "casbytes" {
			switch rapid.IntRange(0, 3).Draw(rt, "wiredTrouble") {
			case 0:
				if p.Reply != "casbytes" {
					k := rapid.IntRange(p.ParkAt, p.Size).Draw(rt, "wiredFailAt")
					p.FailAt = &k
				}
			case 1:
				p.Corrupt = true
			}
		}
		switch p.Consume {
		case "readAt":
			p.Arg = rapid.IntRange(0, p.Size).Draw(rt, "wiredOff")
		case "readerPartial":
			p.Arg = rapid.IntRange(0, 5).Draw(rt, "wiredReadBytes")
		case "chunkReader":
			p.Arg = rapid.IntRange(1, 8).Draw(rt, "wiredChunk")
		}
	default:
		p.Size = rapid.SampledFrom([]int{0, 1, 5}).Draw(rt, "wiredSize")
		p.Reply = rapid.SampledFrom([]string{"ok", "ok", "error"}).Draw(rt, "wiredReply")
	}
	return p
}

// wiredCall is one call in flight (or finished).
type wiredCall struct {
	plan     wiredPlan
	reader   int
	index    int
	release  chan struct{} // closed by the harness at the interval's end tick
	released bool
	done     chan struct{} // closed when the reader goroutine has returned

	entered    bool // the backend was reached
	enteredAt  time.Time
	parked     bool // the stall was reached (backend call or stream read)
	parkedAt   time.Time
	finished   bool // the reader has finished the buffer / got its answer
	finishedAt time.Time
	err        error
	panicMsg   string
}

// parkedBackend is the storage behind the decorators: BlobAccess and
// DirectoryFetcher whose answers the harness releases. Calls are handed over
// one at a time (the harness waits for the bubble to settle after starting
// each), so 'cur' identifies the call a backend method serves.
type parkedBackend struct {
	cur    *wiredCall
	misuse string
}

func (b *parkedBackend) enter(op string) *wiredCall {
	c := b.cur
	b.cur = nil
	if c == nil || c.plan.Op != op {
		if b.misuse == "" {
			b.misuse = fmt.Sprintf("backend %s called, but the call in progress is %+v", op, c)
		}
		// Serve something harmless.
		c = &wiredCall{plan: wiredPlan{Op: op, Where: "call", Reply: "error"}, release: make(chan struct{})}
		close(c.release)
	}
	c.entered = true
	c.enteredAt = time.Now()
	return c
}

func (c *wiredCall) park() {
	c.parked = true
	c.parkedAt = time.Now()
	<-c.release
}

// parkedStream is the stream behind a stream-backed buffer. If parkAt >= 0
// it blocks once, having delivered parkAt bytes, until the call is released.
type parkedStream struct {
	c      *wiredCall
	data   []byte
	pos    int
	parkAt int // -1: never
	failAt int // -1: never
	closed int
}

func (s *parkedStream) Read(p []byte) (int, error) {
	if s.parkAt >= 0 && s.pos == s.parkAt && !s.c.parked {
		s.c.park()
	}
	if s.failAt >= 0 && s.pos >= s.failAt {
		return 0, errBackend
	}
	end := len(s.data)
	if s.failAt >= 0 && s.failAt < end {
		end = s.failAt
	}
	if s.parkAt >= 0 && s.pos < s.parkAt && s.parkAt < end {
		end = s.parkAt
	}
	if s.pos >= end {
		return 0, io.EOF
	}
	if len(p) > 3 {
		p = p[:3] // short reads
	}
	n := copy(p, s.data[s.pos:end])
	s.pos += n
	return n, nil
}

func (s *parkedStream) Close() error { s.closed++; return nil }

type parkedChunkStream struct{ s *parkedStream }

func (c parkedChunkStream) Read() ([]byte, error) {
	p := make([]byte, 3)
	n, err := c.s.Read(p)
	if err != nil {
		return nil, err
	}
	return p[:n], nil
}
func (c parkedChunkStream) Close() { c.s.closed++ }

func (b *parkedBackend) answerGet(c *wiredCall) buffer.Buffer {
	p := c.plan
	d, data := blobFor(p.Size, p.Corrupt)
	failAt := -1
	if p.FailAt != nil {
		failAt = *p.FailAt
	}
	parkAt := -1
	if p.Where == "stream" {
		parkAt = p.ParkAt
	} else {
		c.park()
	}
	switch p.Reply {
	case "bytes":
		return buffer.NewValidatedBufferFromByteSlice(data)
	case "casbytes":
		return buffer.NewCASBufferFromByteSlice(d, data, buffer.UserProvided)
	case "reader":
		return buffer.NewCASBufferFromReader(d, &parkedStream{c: c, data: data, parkAt: parkAt, failAt: failAt}, buffer.UserProvided)
	case "chunkreader":
		return buffer.NewCASBufferFromChunkReader(d, parkedChunkStream{&parkedStream{c: c, data: data, parkAt: parkAt, failAt: failAt}}, buffer.UserProvided)
	default:
		return buffer.NewBufferFromError(errBackend)
	}
}

func (b *parkedBackend) Get(ctx context.Context, d digest.Digest) buffer.Buffer {
	return b.answerGet(b.enter("get"))
}

func (b *parkedBackend) GetFromComposite(ctx context.Context, parentDigest, childDigest digest.Digest, slicer slicing.BlobSlicer) buffer.Buffer {
	return b.answerGet(b.enter("getComposite"))
}

func (b *parkedBackend) answer(op string) error {
	c := b.enter(op)
	c.park()
	if c.plan.Reply == "ok" {
		return nil
	}
	return errBackend
}

func (b *parkedBackend) Put(ctx context.Context, d digest.Digest, buf buffer.Buffer) error {
	err := b.answer("put")
	if err != nil {
		buf.Discard()
		return err
	}
	_, err = buf.ToByteSlice(1 << 20)
	return err
}

func (b *parkedBackend) FindMissing(ctx context.Context, digests digest.Set) (digest.Set, error) {
	if err := b.answer("findMissing"); err != nil {
		return digest.EmptySet, err
	}
	return digests, nil
}

func (b *parkedBackend) GetCapabilities(ctx context.Context, instanceName digest.InstanceName) (*remoteexecution.ServerCapabilities, error) {
	if err := b.answer("getCapabilities"); err != nil {
		return nil, err
	}
	return &remoteexecution.ServerCapabilities{}, nil
}

func (b *parkedBackend) directory(op string) (*remoteexecution.Directory, error) {
	if err := b.answer(op); err != nil {
		return nil, err
	}
	return &remoteexecution.Directory{}, nil
}

func (b *parkedBackend) GetDirectory(ctx context.Context, d digest.Digest) (*remoteexecution.Directory, error) {
	return b.directory("getDirectory")
}

func (b *parkedBackend) GetTreeRootDirectory(ctx context.Context, d digest.Digest) (*remoteexecution.Directory, error) {
	return b.directory("getTreeRoot")
}

func (b *parkedBackend) GetTreeChildDirectory(ctx context.Context, d, c digest.Digest) (*remoteexecution.Directory, error) {
	return b.directory("getTreeChild")
}

// wiredRig holds the decorators of one case, all on the executor's clock.
type wiredRig struct {
	tl      *timeline
	backend *parkedBackend
	sba     blobstore.BlobAccess
	sdf     re_cas.DirectoryFetcher
	joined  re_clock.Suspendable
	extra   *countingSuspendable // second member of the joined suspendable
	next    []int                // per reader: index of its next interval
	open    []*wiredCall         // per reader: the call in flight
	all     []*wiredCall
}

func newWiredRig(tl *timeline, clk *re_clock.SuspendableClock) *wiredRig {
	w := &wiredRig{tl: tl, backend: &parkedBackend{}, extra: &countingSuspendable{}}
	w.sba = re_blobstore.NewSuspendingBlobAccess(w.backend, clk)
	w.sdf = re_cas.NewSuspendingDirectoryFetcher(w.backend, clk)
	w.joined = re_clock.NewJoinedSuspendable([]re_clock.Suspendable{clk, w.extra})
	w.next = make([]int, len(tl.Readers))
	w.open = make([]*wiredCall, len(tl.Readers))
	return w
}

// begin starts the next call of reader r in its own goroutine. The caller
// lets the bubble settle afterwards, so that the call has reached its stall
// (and thereby suspended the clock) before anything else happens.
func (w *wiredRig) begin(r int) {
	i := w.next[r]
	w.next[r]++
	c := &wiredCall{plan: w.tl.Calls[r][i], reader: r, index: i, release: make(chan struct{}), done: make(chan struct{})}
	w.open[r] = c
	w.all = append(w.all, c)
	if c.plan.Op != "joined" {
		w.backend.cur = c
	}
	go w.run(c)
}

// end releases the stalled call of reader r; the reader finishes the buffer
// in the same instant.
func (w *wiredRig) end(r int) {
	c := w.open[r]
	w.open[r] = nil
	c.released = true
	close(c.release)
}

func (w *wiredRig) run(c *wiredCall) {
	defer close(c.done)
	defer func() {
		if r := recover(); r != nil {
			c.panicMsg = fmt.Sprint(r)
		}
	}()
	ctx := context.Background()
	p := c.plan
	wanted, data := blobFor(p.Size, false)
	parent, _ := blobFor(13, false)
	switch p.Op {
	case "joined":
		// What LaunchHTTPSuspender does between its two polls.
		w.joined.Suspend()
		c.entered, c.enteredAt = true, time.Now()
		c.park()
		w.joined.Resume()
	case "get":
		c.err = consumeWired(w.sba.Get(ctx, wanted), p)
	case "getComposite":
		c.err = consumeWired(w.sba.GetFromComposite(ctx, parent, wanted, nil), p)
	case "put":
		c.err = w.sba.Put(ctx, wanted, buffer.NewValidatedBufferFromByteSlice(data))
	case "findMissing":
		_, c.err = w.sba.FindMissing(ctx, wanted.ToSingletonSet())
	case "getCapabilities":
		_, c.err = w.sba.GetCapabilities(ctx, wanted.GetInstanceName())
	case "getDirectory":
		_, c.err = w.sdf.GetDirectory(ctx, wanted)
	case "getTreeRoot":
		_, c.err = w.sdf.GetTreeRootDirectory(ctx, wanted)
	case "getTreeChild":
		_, c.err = w.sdf.GetTreeChildDirectory(ctx, parent, wanted)
	}
	c.finished, c.finishedAt = true, time.Now()
}

// consumeWired finishes a buffer exactly once, the way the plan says.
func consumeWired(b buffer.Buffer, p wiredPlan) error {
	switch p.Consume {
	case "toByteSlice":
		_, err := b.ToByteSlice(1 << 20)
		return err
	case "toProto":
		_, err := b.ToProto(&remoteexecution.Directory{}, 1<<20)
		return err
	case "intoWriter":
		return b.IntoWriter(&bytes.Buffer{})
	case "readAt":
		_, err := b.ReadAt(make([]byte, 5), int64(p.Arg))
		if err == io.EOF {
			err = nil
		}
		return err
	case "reader":
		r := b.ToReader()
		_, err := io.ReadAll(r)
		r.Close()
		return err
	case "readerPartial":
		r := b.ToReader()
		_, err := r.Read(make([]byte, p.Arg))
		r.Close()
		if err == io.EOF {
			err = nil
		}
		return err
	case "chunkReader":
		cr := b.ToChunkReader(0, p.Arg)
		var err error
		for err == nil {
			_, err = cr.Read()
		}
		cr.Close()
		if err == io.EOF {
			err = nil
		}
		return err
	default:
		b.Discard()
		return nil
	}
}

// teardown releases whatever is still parked (nothing is, on a complete
// timeline) and waits for the readers.
func (w *wiredRig) teardown() {
	for _, c := range w.all {
		if !c.released {
			c.released = true
			close(c.release)
		}
	}
	for _, c := range w.all {
		<-c.done
	}
}

// check verifies that the stalls took place exactly where the timeline says:
// each call reached the backend and its stall at the interval's start tick
// and was finished at its end tick, and answered what the backend answered.
func (w *wiredRig) check(start time.Time) string {
	tl := w.tl
	if w.backend.misuse != "" {
		return "harness: " + w.backend.misuse
	}
	started := 0
	for r := range tl.Readers {
		started += len(tl.Readers[r])
	}
	if len(w.all) != started {
		return fmt.Sprintf("harness: %d calls were started, the timeline has %d intervals", len(w.all), started)
	}
	for _, c := range w.all {
		iv := tl.Readers[c.reader][c.index]
		name := fmt.Sprintf("call %d of reader %d (%+v, interval %+v)", c.index, c.reader, c.plan, iv)
		if c.panicMsg != "" {
			return fmt.Sprintf("%s panicked: %s", name, c.panicMsg)
		}
		if !c.entered || !c.parked || !c.finished {
			return fmt.Sprintf("%s: reached the backend=%v, reached its stall=%v, finished=%v", name, c.entered, c.parked, c.finished)
		}
		if at, ok := tickOf(tl, start, c.enteredAt); !ok || at != iv.S {
			return fmt.Sprintf("%s reached the backend at tick %d, not at its start", name, at)
		}
		if at, ok := tickOf(tl, start, c.parkedAt); !ok || at != iv.S {
			return fmt.Sprintf("harness: %s reached its stall at tick %d, not at its start", name, at)
		}
		if at, ok := tickOf(tl, start, c.finishedAt); !ok || at != iv.E {
			return fmt.Sprintf("%s was finished at tick %d, not when its answer was released", name, at)
		}
		wantErr := false
		switch c.plan.Op {
		case "joined":
		case "get", "getComposite":
			// (a corrupt or failing blob may go unnoticed by a consumer that
			// does not read it all; an error reply never does, except when
			// the buffer is discarded)
			wantErr = c.plan.Reply == "error" && c.plan.Consume != "discard"
			if !wantErr {
				continue
			}
		default:
			wantErr = c.plan.Reply == "error"
			if !wantErr && c.err != nil {
				return fmt.Sprintf("%s: the backend answered ok, the caller got %v", name, c.err)
			}
		}
		if wantErr && status.Code(c.err) != status.Code(errBackend) {
			return fmt.Sprintf("%s: the backend answered %v, the caller got %v", name, errBackend, c.err)
		}
	}
	if w.extra.count != 0 || w.extra.negative || w.extra.suspends != w.extra.resumes {
		return fmt.Sprintf("joined suspendable: second member has count %d after %d suspends / %d resumes", w.extra.count, w.extra.suspends, w.extra.resumes)
	}
	return ""
}

// genWiredTimeline is genTimeline plus one decorated call per interval.
func genWiredTimeline(rt *rapid.T) *timeline {
	tl := genTimeline(rt)
	tl.Objects = "executor"
	tl.Stalls = "wired"
	for _, ivs := range tl.Readers {
		plans := make([]wiredPlan, 0, len(ivs))
		for range ivs {
			plans = append(plans, genWiredPlan(rt))
		}
		tl.Calls = append(tl.Calls, plans)
	}
	return tl
}

func wiredLabels(tl *timeline, end int) (labels []string, errorPathGetInLifetime bool) {
	seen := map[string]bool{}
	for r, plans := range tl.Calls {
		for i, p := range plans {
			iv := tl.Readers[r][i]
			inLifetime := iv.E > tl.Create && iv.S < end && iv.E > iv.S
			l := "call:" + p.Op
			if p.Op == "get" || p.Op == "getComposite" {
				l = "call:" + p.Op + ":" + p.Where + ":" + p.Reply
				if p.FailAt != nil || p.Corrupt {
					seen["call:stream-failing-or-corrupt"] = true
				}
				if inLifetime && (p.Reply == "error" || p.FailAt != nil || p.Corrupt) {
					seen["lifetime:get-error-path"] = true
					errorPathGetInLifetime = true
				}
				if inLifetime && p.Where == "stream" {
					seen["lifetime:stall-in-stream"] = true
				}
			} else if p.Op != "joined" {
				l += ":" + p.Reply
			}
			seen[l] = true
			if inLifetime {
				seen["lifetime:"+p.Op] = true
			}
		}
	}
	for l := range seen {
		labels = append(labels, l)
	}
	sort.Strings(labels)
	return labels, errorPathGetInLifetime
}

func TestC11WiredExecutor(t *testing.T) {
	rec := simkit.NewRecorder(t, "C11", "wired",
		"one case = one generated timeline (as in sub-check timeline) driven through the real LocalBuildExecutor whose execution timeout runs on a "+
			"real SuspendableClock (synctest fake time), where every suspend/resume interval is a real call (Get, GetFromComposite, Put, FindMissing, "+
			"GetCapabilities through NewSuspendingBlobAccess; GetDirectory, GetTreeRootDirectory, GetTreeChildDirectory through "+
			"NewSuspendingDirectoryFetcher; Suspend/Resume through NewJoinedSuspendable) on THAT clock against a parked backend: the call, or the "+
			"stream of the buffer it returned, stalls from the interval's start tick until the harness releases the answer (in-memory blob, error, "+
			"stream succeeding / failing after k bytes / corrupt) at its end tick, and the reader finishes the buffer in that instant (ToByteSlice, "+
			"ToProto, IntoWriter, ReadAt, ToReader, ToChunkReader, partial read + Close, Discard); the context handed to Execute() is cancelled at a "+
			"generated tick in half of the cases. Oracle as in sub-check executor (command ends no later than min(U reaches d, create+d+m, finish, "+
			"outer cancel); timeout only if d-th < U <= d or at the hard bound => DEADLINE_EXCEEDED; own exit within budget => OK; outer cancel "+
			"before the timeout may fire => CANCELLED; virtual_execution_duration == model U(end)); plus: every call reaches the backend at its "+
			"start tick and returns at its end tick, and a probe context created after the last call reports a fully unsuspended lifetime (the clock "+
			"is running again). NON-TRIVIAL as in sub-check timeline")
	rapid.Check(t, func(rt *rapid.T) {
		tl := genWiredTimeline(rt)
		tl.Via = rapid.SampledFrom([]string{"exit", "exit", "ioerror"}).Draw(rt, "executorVia")
		genOuterCancel(rt, tl)
		exitCode := int32(rapid.IntRange(0, 3).Draw(rt, "exitCode"))
		out, failure := runExecutorTimeline(t, tl, exitCode)
		if failure != "" {
			rt.Fatalf("%s; script=%s", failure, tl)
		}
		if out.spun {
			rt.Fatalf("more than %d base timers were armed for one action: the re-arm loop spins; script=%s", baseTimerLimit, tl)
		}
		if out.wiredFailure != "" {
			rt.Fatalf("wired: %s; script=%s", out.wiredFailure, tl)
		}
		msg, x := checkExecutor(tl, out, exitCode)
		if msg != "" {
			rt.Fatalf("executor (wired): %s; response=%v; script=%s", msg, out.response, tl)
		}
		labels, nontrivial := classify(tl, x)
		wl, _ := wiredLabels(tl, x)
		labels = relabelCancelled(labels, classifyCancel(tl, out, x))
		labels = append(labels, wl...)
		labels = append(labels, "via:"+tl.Via, "status:"+status.FromProto(out.response.Status).Code().String())
		rec.Case(tl, nontrivial, labels...)
	})
}

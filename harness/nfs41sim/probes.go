package nfs41sim

import (
	"sort"

	"github.com/buildbarn/go-xdr/pkg/protocols/nfsv4"
)

// The observer: a client of its own whose lock-owner never holds a lock.
// After releases (CLOSE, LOCKU, FREE_STATEID, lease expiry,
// DESTROY_CLIENTID, re-registration) it sends LOCKT for every unit and
// both lock types of the files concerned, so that "releases precisely the
// owner's bytes in the given range and nothing else" is decided on the
// server's lock table itself.

// observerSession returns a usable session and idle slot of the observer,
// registering it (again) if needed.
func (w *world) observerSession() (*sessM, uint32) {
	if w.observer == nil {
		w.observer = &clientSim{idx: 90, ownerID: []byte("observer")}
	}
	cl := w.observer
	var inc *incM
	for _, i := range cl.incs {
		if !i.gone {
			inc = i
		}
	}
	if inc != nil {
		for _, s := range inc.sessions {
			if !s.live() || s.clientKnowsDead {
				continue
			}
			for i, sl := range s.slots {
				if sl.busy == nil {
					return s, uint32(i)
				}
			}
		}
	}
	var sess *sessM
	if inc == nil {
		sess = w.bootstrap(cl)
	} else {
		sess = w.doCreateSession(inc, "next")
	}
	if sess == nil || !sess.live() {
		return nil, 0
	}
	return sess, 0
}

func (w *world) markProbe(leaf *countLeaf, why string) {
	if leaf == nil {
		return
	}
	if w.probeDirty == nil {
		w.probeDirty = map[*countLeaf]string{}
	}
	if _, ok := w.probeDirty[leaf]; !ok {
		w.probeDirty[leaf] = why
	}
}

// maybeProbeLocks runs after every generated step.
func (w *world) maybeProbeLocks() {
	if len(w.probeDirty) == 0 {
		return
	}
	dirty := w.probeDirty
	w.probeDirty = nil
	p := w.p.probePct
	if p <= 0 || (p < 100 && !w.pct("probeLocks", p)) {
		return
	}
	leaves := make([]*countLeaf, 0, len(dirty))
	for l := range dirty {
		leaves = append(leaves, l)
	}
	sort.Slice(leaves, func(i, j int) bool { return leaves[i].id < leaves[j].id })
	for _, l := range leaves {
		w.probeLeaf(l, dirty[l])
	}
}

func (w *world) probeAllLocks(why string) {
	w.probeDirty = nil
	for _, k := range w.leafFHs() {
		w.probeLeaf(k.leaf, why)
	}
}

// probeLeaf tests every unit of one file for both lock types. The
// probes that the model expects to be granted are packed six to a
// COMPOUND; one that the model expects to be denied ends its COMPOUND.
func (w *world) probeLeaf(leaf *countLeaf, why string) {
	fh := leaf.handleCopy()
	// (Registering the observer is a call into the server, which may
	// expire leases: look at the file only afterwards.)
	sess, _ := w.observerSession()
	if sess == nil {
		w.label("lock_probe_skipped_no_session")
		return
	}
	if st, _ := w.predictPutFH(fh); st != nfsv4.NFS4_OK {
		// Neither linked nor open: no lock table to look at.
		return
	}
	key := lockOwnerKey(sess.inc.clientID, observerLockOwner)
	var free, held []lockProbe
	for u := 0; u < lockUnits; u++ {
		for _, typ := range []int{ltRead, ltWrite} {
			if acceptable, _, _, _ := w.predictLock(leaf, key, unitRange(u), typ); acceptable[0] == nfsv4.NFS4_OK {
				free = append(free, lockProbe{u, typ})
			} else {
				held = append(held, lockProbe{u, typ})
			}
		}
	}
	if len(held) > 0 {
		w.label("lock_probe_of_file_with_locks")
	} else {
		w.label("lock_probe_of_file_without_locks")
	}
	w.label("lock_probe_after:" + why)
	// LOCKT changes nothing: the quiescence invariants are evaluated once
	// at the end of the sweep.
	w.deferQuiescent = true
	defer func() {
		w.deferQuiescent = false
		w.checkQuiescent()
	}()
	for len(free)+len(held) > 0 {
		n := maxOperations - 2
		if len(held) > 0 {
			n--
		}
		if n > len(free) {
			n = len(free)
		}
		batch := append([]lockProbe(nil), free[:n]...)
		free = free[n:]
		if len(held) > 0 {
			batch = append(batch, held[0])
			held = held[1:]
		}
		sess, slot := w.observerSession()
		if sess == nil || lockOwnerKey(sess.inc.clientID, observerLockOwner) != key {
			w.label("lock_probe_interrupted")
			return
		}
		if st, _ := w.predictPutFH(fh); st != nfsv4.NFS4_OK {
			// A lease ran out when the previous COMPOUND entered the server.
			return
		}
		w.sendSeq(sess, slot, sess.slots[slot].lastSeq+1, "new", w.tLockProbe(sess.inc, fh, leaf, batch, why), false, map[string]bool{}, nil)
		w.labels["lock_probe_compounds"]++
	}
}

package nfs41sim

import (
	"bytes"
	"encoding/binary"
	"fmt"
	"math"
	"sort"
	"time"

	"github.com/buildbarn/go-xdr/pkg/protocols/nfsv4"
)

// The reference model. It is updated from what was requested, from the
// replies and from the clock only; it never looks inside the program.

const (
	accR uint32 = 1
	accW uint32 = 2
)

func accString(a uint32) string {
	switch a {
	case 0:
		return "-"
	case accR:
		return "R"
	case accW:
		return "W"
	default:
		return "RW"
	}
}

// clientSim is one protocol-following NFSv4.1 client. Everything it
// puts into requests (client IDs, sequence IDs, session IDs, state IDs,
// file handles) was learned from replies.
type clientSim struct {
	idx       int
	ownerID   []byte
	verifierN int
	incs      []*incM // every incarnation ever registered, in order
	confirmed *incM   // model: the server's confirmed incarnation of this client
}

// incM is a client incarnation (EXCHANGE_ID record).
type incM struct {
	client   *clientSim
	ord      int
	verifier nfsv4.Verifier4

	// Learned from replies.
	clientID  uint64
	nextCSSeq uint32 // sequence ID for the next CREATE_SESSION
	sessions  []*sessM
	lastCS    *call // last CREATE_SESSION that the server executed for this incarnation

	// Model of the server's bookkeeping.
	gone      bool
	goneWhy   string
	lastRenew time.Time
	holds     int
	opens     map[string]*openM // live opens by owner + "|" + fh
	byOther   map[uint64]any    // live *openM / *lockM by state ID "other"
	everState bool
}

func (i *incM) String() string { return fmt.Sprintf("c%d.i%d", i.client.idx, i.ord) }

type sessM struct {
	inc       *incM
	ord       int
	id        [nfsv4.NFS4_SESSIONID_SIZE]byte
	slots     []*slotM
	destroyed bool

	// maxOps: ca_maxoperations of the fore channel as granted by the
	// CREATE_SESSION reply (RFC 8881 section 18.36.3: "if a requester sends
	// a COMPOUND with more operations than ca_maxoperations, the replier
	// MUST return NFS4ERR_TOO_MANY_OPS"); SEQUENCE counts.
	maxOps int

	// The client was told (BADSESSION, DESTROY_SESSION) that the session
	// is gone.
	clientKnowsDead bool
}

func (s *sessM) String() string { return fmt.Sprintf("%s.s%d", s.inc, s.ord) }

func (s *sessM) live() bool { return !s.destroyed && !s.inc.gone }

type slotM struct {
	lastSeq uint32
	last    *call // the request the server executed last on this slot
	busy    *call // the request currently being executed

	// refused: the last request with the slot's next sequence ID that was
	// refused by SEQUENCE with NFS4ERR_TOO_MANY_OPS since the slot last
	// executed a request. Such a request does not consume the sequence ID:
	// the next request with that sequence ID is a new one.
	refused *call
	// dropped: the reply the slot retained when such a request arrived. A
	// request with the next sequence ID tells the server that the client
	// has seen the reply to the previous one, so the server may discard it
	// (the code does, before it looks at the number of operations) or keep
	// it (the refused request did not take the slot).
	dropped *call

	// preset: the slot's sequence ID was placed just below 2^32 (or at 0)
	// through VerifSetSlotSequenceID, as 2^32 well-formed requests on the
	// slot would have done.
	preset bool
}

const maxU32 = ^uint32(0)

// hot: the next few sequence IDs of the slot straddle the wrap-around
// from 2^32-1 to 0 (RFC 8881 section 2.10.6.1: "the sequence ID wraps").
func (sl *slotM) hot() bool {
	return sl.preset && (sl.lastSeq >= maxU32-3 || sl.lastSeq <= 1)
}

// straddles: a and b compare differently as plain integers and as serial
// numbers, i.e. the wrap-around lies between them.
func straddles(a, b uint32) bool {
	return a != b && (a < b) != (int32(a-b) < 0)
}

// openM is open state: one (incarnation, open-owner, file).
type openM struct {
	inc    *incM
	owner  string
	leaf   *countLeaf
	fh     []byte
	other  uint64
	seq    uint32
	access uint32
	locks  map[string]*lockM // by lock-owner bytes
	closed bool
	preset bool   // the seqid was placed just below 2^32 through VerifSetStateIDSeqID
	ioHold [2]int // in-flight I/O that used this open state (or one of its lock states)
	ord    int
}

func (o *openM) String() string {
	return fmt.Sprintf("%s.open(%q,%s)", o.inc, o.owner, o.leaf)
}

// lockM is byte-range lock state: one (open state, lock-owner).
type lockM struct {
	open   *openM
	owner  string
	other  uint64
	seq    uint32
	access uint32 // share access cloned from the open state at creation
	freed  bool
	preset bool // the seqid was placed just below 2^32 through VerifSetStateIDSeqID
}

func (l *lockM) String() string {
	return fmt.Sprintf("%s.lock(%q)", l.open, l.owner)
}

func (l *lockM) ownerKey() string { return lockOwnerKey(l.open.inc.clientID, l.owner) }

func lockOwnerKey(clientID uint64, owner string) string {
	return fmt.Sprintf("%016x/%s", clientID, owner)
}

// ---------------------------------------------------------------- state IDs

func mkStateID(seq uint32, other uint64) nfsv4.Stateid4 {
	var s nfsv4.Stateid4
	s.Seqid = seq
	binary.LittleEndian.PutUint64(s.Other[:], other)
	return s
}

func stateIDOther(s *nfsv4.Stateid4) (uint64, bool) {
	if s.Other[8] != 0 || s.Other[9] != 0 || s.Other[10] != 0 || s.Other[11] != 0 {
		return 0, false
	}
	return binary.LittleEndian.Uint64(s.Other[:8]), true
}

var (
	anonSID   = nfsv4.Stateid4{}
	bypassSID = nfsv4.Stateid4{Seqid: nfsv4.NFS4_UINT32_MAX, Other: [12]byte{0xff, 0xff, 0xff, 0xff, 0xff, 0xff, 0xff, 0xff, 0xff, 0xff, 0xff, 0xff}}
)

func fmtSID(s nfsv4.Stateid4) string {
	switch s {
	case anonSID:
		return "sid(anonymous)"
	case bypassSID:
		return "sid(read-bypass)"
	}
	if o, ok := stateIDOther(&s); ok {
		return fmt.Sprintf("sid(%d,#%d)", s.Seqid, o)
	}
	return fmt.Sprintf("sid(%d,%x)", s.Seqid, s.Other)
}

// nextSeqID is RFC 8881 section 8.2.2, paragraph 2, as incrementSeqID
// documents it: the seqid of a state ID is a 32 bit counter that starts at
// one and wraps from 2^32-1 to one, because zero is the special value that
// means "the most recent one".
func nextSeqID(s uint32) uint32 {
	if s == maxU32 {
		return 1
	}
	return s + 1
}

// prevSeqID is the inverse of nextSeqID.
func prevSeqID(s uint32) uint32 {
	if s <= 1 {
		return maxU32
	}
	return s - 1
}

// compareSeq is RFC 8881 section 8.2.2 / 8.2.4: zero means "most recent",
// an older sequence ID is NFS4ERR_OLD_STATEID, a newer one is
// NFS4ERR_BAD_STATEID.
func compareSeq(client, server uint32) nfsv4.Nfsstat4 {
	if client == 0 || client == server {
		return nfsv4.NFS4_OK
	}
	if int32(client-server) > 0 {
		return nfsv4.NFS4ERR_BAD_STATEID
	}
	return nfsv4.NFS4ERR_OLD_STATEID
}

// resolveOpen predicts how the server must treat a state ID that is used
// as an open state ID by incarnation inc on current file handle fh.
func (inc *incM) resolveOpen(fh []byte, sid nfsv4.Stateid4) (nfsv4.Nfsstat4, *openM) {
	other, ok := stateIDOther(&sid)
	if !ok {
		return nfsv4.NFS4ERR_BAD_STATEID, nil
	}
	o, ok := inc.byOther[other].(*openM)
	if !ok || o.closed {
		return nfsv4.NFS4ERR_BAD_STATEID, nil
	}
	if !bytes.Equal(fh, o.fh) {
		return nfsv4.NFS4ERR_BAD_STATEID, nil
	}
	if st := compareSeq(sid.Seqid, o.seq); st != nfsv4.NFS4_OK {
		return st, nil
	}
	return nfsv4.NFS4_OK, o
}

func (inc *incM) resolveLock(fh []byte, sid nfsv4.Stateid4) (nfsv4.Nfsstat4, *lockM) {
	other, ok := stateIDOther(&sid)
	if !ok {
		return nfsv4.NFS4ERR_BAD_STATEID, nil
	}
	l, ok := inc.byOther[other].(*lockM)
	if !ok || l.freed {
		return nfsv4.NFS4ERR_BAD_STATEID, nil
	}
	if !bytes.Equal(fh, l.open.fh) {
		return nfsv4.NFS4ERR_BAD_STATEID, nil
	}
	if st := compareSeq(sid.Seqid, l.seq); st != nfsv4.NFS4_OK {
		return st, nil
	}
	return nfsv4.NFS4_OK, l
}

// testStateID predicts one TEST_STATEID status code.
func (inc *incM) testStateID(sid nfsv4.Stateid4) nfsv4.Nfsstat4 {
	other, ok := stateIDOther(&sid)
	if !ok {
		return nfsv4.NFS4ERR_BAD_STATEID
	}
	switch s := inc.byOther[other].(type) {
	case *openM:
		return compareSeq(sid.Seqid, s.seq)
	case *lockM:
		return compareSeq(sid.Seqid, s.seq)
	}
	return nfsv4.NFS4ERR_BAD_STATEID
}

// ---------------------------------------------------------------- byte-range lock model

// The offset space is compressed to 13 units: bytes 0..5, one GAP unit
// standing for bytes 6..2^64-8, and bytes 2^64-7..2^64-2. Generated
// ranges begin and end at one of the 14 points between the units, so a
// range covers either the whole gap or none of it. Byte 2^64-1 is not
// part of the universe (see the exclusion in the generator).
const (
	lockUnits  = 13
	lockPoints = 14
	maxU64     = uint64(math.MaxUint64)
)

func pointToOffset(p int) uint64 {
	if p <= 6 {
		return uint64(p)
	}
	return maxU64 - uint64(13-p)
}

func offsetToPoint(off uint64) (int, bool) {
	if off <= 6 {
		return int(off), true
	}
	if off >= maxU64-6 {
		return 13 - int(maxU64-off), true
	}
	return 0, false
}

const (
	ltRead  = 1
	ltWrite = 2
)

// fileLocks is the per-byte ownership map of one file.
type fileLocks struct {
	units [lockUnits]map[string]int // owner key -> lock type
}

func (f *fileLocks) conflict(owner string, lo, hi, typ int) (string, int, bool) {
	for u := lo; u < hi; u++ {
		keys := make([]string, 0, len(f.units[u]))
		for k := range f.units[u] {
			keys = append(keys, k)
		}
		sort.Strings(keys)
		for _, k := range keys {
			if k != owner && (f.units[u][k] == ltWrite || typ == ltWrite) {
				return k, u, true
			}
		}
	}
	return "", 0, false
}

func (f *fileLocks) set(owner string, lo, hi, typ int) {
	for u := lo; u < hi; u++ {
		if typ == 0 {
			delete(f.units[u], owner)
			continue
		}
		if f.units[u] == nil {
			f.units[u] = map[string]int{}
		}
		f.units[u][owner] = typ
	}
}

func (f *fileLocks) holds(owner string) bool {
	for u := 0; u < lockUnits; u++ {
		if _, ok := f.units[u][owner]; ok {
			return true
		}
	}
	return false
}

func (f *fileLocks) typeAt(owner string, u int) int {
	if u < 0 || u >= lockUnits {
		return 0
	}
	return f.units[u][owner]
}

func (f *fileLocks) owners() map[string]bool {
	m := map[string]bool{}
	for u := 0; u < lockUnits; u++ {
		for k := range f.units[u] {
			m[k] = true
		}
	}
	return m
}

func (f *fileLocks) String() string {
	var b bytes.Buffer
	for u := 0; u < lockUnits; u++ {
		if len(f.units[u]) == 0 {
			continue
		}
		keys := make([]string, 0, len(f.units[u]))
		for k := range f.units[u] {
			keys = append(keys, k)
		}
		sort.Strings(keys)
		fmt.Fprintf(&b, " u%d{", u)
		for _, k := range keys {
			fmt.Fprintf(&b, "%s:%d ", k, f.units[u][k])
		}
		b.WriteString("}")
	}
	return b.String()
}

// rangeToUnits converts an NFSv4 (offset, length) pair into a half-open
// interval of units; the status is what RFC 8881 section 18.10.3
// prescribes for malformed ranges.
func rangeToUnits(offset, length uint64) (lo, hi int, st nfsv4.Nfsstat4, inUniverse bool) {
	var end uint64
	switch {
	case length == 0:
		return 0, 0, nfsv4.NFS4ERR_INVAL, true
	case length == maxU64:
		end = maxU64
	case length > maxU64-offset:
		return 0, 0, nfsv4.NFS4ERR_INVAL, true
	default:
		end = offset + length
	}
	lo, ok1 := offsetToPoint(offset)
	hi, ok2 := offsetToPoint(end)
	if !ok1 || !ok2 || lo >= hi {
		return 0, 0, nfsv4.NFS4_OK, false
	}
	return lo, hi, nfsv4.NFS4_OK, true
}

package nfs41sim

import (
	"testing"

	"github.com/buildbarn/go-xdr/pkg/protocols/nfsv4"
)

// Fixed scripts for COMPOUNDs under SEQUENCE that contain an operation
// NFSv4.1 does not have (see illegalop.go). They run through the same
// executor and oracles as the generated histories, without rapid.

// tRaw: an operation list that the script only uses where the slot model
// does not execute it (false retries).
func (w *world) tRaw(desc string, ops ...nfsv4.NfsArgop4) *tmpl {
	t := &tmpl{kind: "raw", desc: desc, ops: ops, data: map[string]any{}}
	t.atExec = func(c *call) { w.failf("harness: %q was not meant to be executed", desc) }
	return t
}

func expectLabels(t *testing.T, w *world, want map[string]int) {
	t.Helper()
	for _, l := range sortedKeys(want) {
		if w.labels[l] != want[l] {
			t.Fatalf("label %s = %d, expected %d: %v", l, w.labels[l], want[l], w.labels)
		}
	}
}

// C19: the reply of a COMPOUND that ended at an operation NFSv4.1 does not
// have is retained like any other: retransmissions (same session, slot,
// sequence ID, operations) get it back, byte for byte, and nothing is
// executed again - also when operations before the illegal one changed
// state (OPEN), when operations follow it, and without sa_cachethis (a
// reply of SEQUENCE + one failed operation is always retained in full;
// longer ones in the NFS4ERR_RETRY_UNCACHED_REP form).
func TestC19IllegalOpRegressRetransmission(t *testing.T) {
	runScriptWith(t, c19Profile(), 1, func(w *world) {
		sess := w.bootstrap(w.clients[0])
		inc := sess.inc
		replay := func(slot uint32) {
			sl := sess.slots[slot]
			w.sendSeq(sess, slot, sl.lastSeq, "replay", sl.last.t, sl.last.cache, nil, sl.last)
		}
		for i, which := range illegalOpNames[:6] {
			// The operation alone, with and without sa_cachethis.
			w.next(sess, 0, w.withIllegalOp(inc, w.tNoop(), which, "none"), i%2 == 0, nil)
			replay(0)
			replay(0)
			// After LOOKUP, with operations behind it.
			w.next(sess, 1, w.withIllegalOp(inc, w.tLookup("a"), which, "remove"), true, nil)
			replay(1)
			// The same without sa_cachethis: four results, not retained.
			w.next(sess, 2, w.withIllegalOp(inc, w.tLookup("b"), which, "getfh"), false, nil)
			replay(2)
		}
		// After an OPEN that creates state: the open stays, once.
		c := w.next(sess, 0, w.withIllegalOp(inc, w.tOpen(inc, "a", "o1", accR|accW, "nocreate"), "OPEN_CONFIRM", "create"), true, nil)
		if len(c.res.Resarray) != 5 || c.res.Status != nfsv4.NFS4ERR_OP_ILLEGAL {
			t.Fatalf("OPEN + OPEN_CONFIRM was answered %s", statusOf(c.res))
		}
		fh := w.fhOf("a")
		o := inc.opens["o1|"+string(fh)]
		if o == nil {
			t.Fatalf("the OPEN before OPEN_CONFIRM left no open state in the model")
		}
		replay(0)
		if w.lookupTruth("c") != nil {
			t.Fatalf("the OPEN behind OPEN_CONFIRM created the file")
		}
		w.next(sess, 0, w.tClose(inc, fh, mkStateID(o.seq, o.other), "cur"), true, nil)
		expectLabels(t, w, map[string]int{
			"compound_with_illegal_op":                                  19,
			"compound_with_illegal_op_after_executed_operations":        13,
			"compound_with_illegal_op_and_operations_behind_it":         13,
			"compound_with_illegal_op_without_cachethis_small_reply":    3,
			"compound_with_illegal_op_without_cachethis_uncached_reply": 6,
			"replay_of_compound_with_illegal_op":                        25,
			"replay_of_compound_with_illegal_op:equal":                  19,
			"replay_of_compound_with_illegal_op:uncached":               6,
			"close_ok": 1,
		})
	})
}

// C19: a duplicate of such a COMPOUND that arrives while the original is
// still being processed (parked inside VirtualRead, inside the directory
// operation of OPEN) completes with the original's result.
func TestC19IllegalOpRegressInflightDuplicate(t *testing.T) {
	runScriptWith(t, c19Profile(), 1, func(w *world) {
		sess := w.bootstrap(w.clients[0])
		inc := sess.inc
		w.next(sess, 0, w.tLookup("a"), true, nil)
		fh := w.fhOf("a")
		for i, which := range illegalOpNames[:6] {
			var t1 *tmpl
			plan := map[string]bool{"io": true}
			if i%2 == 0 {
				t1 = w.withIllegalOp(inc, w.tIO(inc, "READ", fh, anonSID, "anon"), which, "none")
			} else {
				t1 = w.withIllegalOp(inc, w.tOpen(inc, "a", "o1", accR, "nocreate"), which, "remove")
				plan = map[string]bool{"open_after": true}
			}
			orig := w.next(sess, 1, t1, i%3 == 0, plan)
			if w.parkOf(orig) == nil {
				t.Fatalf("%q did not park", t1.desc)
			}
			w.sendSeq(sess, 1, orig.seq, "dup", t1, orig.cache, nil, orig)
			w.sendSeq(sess, 1, orig.seq, "dup", t1, orig.cache, nil, orig)
			w.stepNo++
			w.record("release", "the parked request")
			w.release(w.parkOf(orig))
		}
		o := inc.opens["o1|"+string(fh)]
		w.next(sess, 0, w.tClose(inc, fh, mkStateID(o.seq, o.other), "cur"), true, nil)
		expectLabels(t, w, map[string]int{
			"compound_with_illegal_op":                       6,
			"inflight_duplicate_of_compound_with_illegal_op": 12,
			"inflight_duplicate_completed_with_original":     12,
		})
	})
}

// C19: false retries around illegal operations. A request that reuses
// slot and sequence ID of a completed one with OP_ILLEGAL (or an
// NFSv4.0-only operation) in the place of an operation whose result is
// retained does not have the shape of the retained reply: it must be
// refused with NFS4ERR_SEQ_FALSE_RETRY, not answered with the other
// request's reply. The converse need not be detected: a retained
// OP_ILLEGAL result fits any operation (the server does not remember
// which opcode it refused), so such a request gets the refusal or the
// retained reply, and is never executed.
func TestC19IllegalOpRegressFalseRetry(t *testing.T) {
	runScriptWith(t, c19Profile(), 1, func(w *world) {
		sess := w.bootstrap(w.clients[0])
		inc := sess.inc
		putrootfh := func() nfsv4.NfsArgop4 { return &nfsv4.NfsArgop4_OP_PUTROOTFH{} }
		getfh := func() nfsv4.NfsArgop4 { return &nfsv4.NfsArgop4_OP_GETFH{} }
		lookupA := func() nfsv4.NfsArgop4 {
			return &nfsv4.NfsArgop4_OP_LOOKUP{Oplookup: nfsv4.Lookup4args{Objname: "a"}}
		}
		w.next(sess, 0, w.tLookup("a"), true, nil)
		for _, which := range illegalOpNames[:6] {
			ill := w.illegalArgop(inc, which)
			for pos, ops := range [][]nfsv4.NfsArgop4{
				{ill, lookupA(), getfh()},
				{putrootfh(), ill, getfh()},
				{putrootfh(), lookupA(), ill},
			} {
				c := w.sendSeq(sess, 0, 1, "false_retry", w.tRaw(which+" in the place of an operation of PUTROOTFH; LOOKUP; GETFH", ops...), true, nil, nil)
				if !c.mustFalse {
					t.Fatalf("the model does not require a false retry for %s at position %d", which, pos)
				}
			}
		}
		// The converse.
		w.next(sess, 1, w.withIllegalOp(inc, tPutRootFH(), "RENEW", "none"), true, nil)
		for _, ops := range [][]nfsv4.NfsArgop4{
			{putrootfh(), getfh()},
			{putrootfh(), w.illegalArgop(inc, "ILLEGAL")},
			{putrootfh(), w.illegalArgop(inc, "SETCLIENTID"), getfh()},
			{putrootfh(), w.illegalArgop(inc, "RENEW"), getfh()},
		} {
			c := w.sendSeq(sess, 1, 1, "false_retry", w.tRaw("another operation in the place of RENEW", ops...), true, nil, nil)
			if c.mustFalse || !c.mayFalse {
				t.Fatalf("the model misjudges a retry that differs at the position of a retained OP_ILLEGAL result")
			}
		}
		// A different operation before the illegal one is detectable.
		c := w.sendSeq(sess, 1, 1, "false_retry", w.tRaw("GETFH; RENEW", getfh(), w.illegalArgop(inc, "RENEW")), true, nil, nil)
		if !c.mustFalse {
			t.Fatalf("the model does not require a false retry for GETFH in the place of PUTROOTFH")
		}
		expectLabels(t, w, map[string]int{
			"false_retry_with_illegal_op_against_cached_reply:detectable_rejected": 18,
			"false_retry_against_cached_illegal_op":                                5,
			"false_retry_against_cached_illegal_op:detectable_rejected":            1,
		})
	})
}

package nfs41sim

import (
	"testing"

	"github.com/buildbarn/go-xdr/pkg/protocols/nfsv4"
)

// Fixed script for COMPOUNDs with more operations than their session
// allows (see toomanyops.go). It runs through the same executor and oracles
// as the generated histories, without rapid.

// C14/C19: a COMPOUND with more operations than ca_maxoperations is refused
// by SEQUENCE with NFS4ERR_TOO_MANY_OPS, nothing of it is executed, and it
// leaves nothing behind on its slot: a retransmission is refused again, the
// other slots go on, and a request of acceptable size with the same
// sequence ID is a new request - it is executed (parked, with a duplicate
// that completes with it), retained and replayed like any other.
func TestC14TooManyOpsRegressSlotStaysUsable(t *testing.T) {
	runScriptWith(t, c19Profile(), 1, func(w *world) {
		sess := w.bootstrap(w.clients[0])
		inc := sess.inc
		if sess.maxOps != maxOperations {
			t.Fatalf("the session allows %d operations, the program was configured with %d", sess.maxOps, maxOperations)
		}
		w.next(sess, 0, w.tLookup("a"), true, nil)
		fh := w.fhOf("a")

		// On a fresh slot.
		over := w.tTooManyOps(sess, w.tOpen(inc, "a", "o1", accR|accW, "nocreate"), 1)
		c := w.next(sess, 1, over, true, nil)
		if !isSeqError(c.res, nfsv4.NFS4ERR_TOO_MANY_OPS) {
			t.Fatalf("the oversized COMPOUND was answered %s", statusOf(c.res))
		}
		w.sendSeq(sess, 1, 1, "too_many_ops_retransmitted", over, true, nil, nil)
		w.next(sess, 2, w.tLookup("b"), true, nil)
		w.next(sess, 1, w.tOpen(inc, "a", "o1", accR|accW, "nocreate"), true, nil)
		o := inc.opens["o1|"+string(fh)]
		if o == nil {
			t.Fatalf("the OPEN that reused the sequence ID of the refused request left no open state in the model")
		}

		// On a slot with a retained reply (the LOOKUP), four operations too
		// many, without sa_cachethis.
		over = w.tTooManyOps(sess, w.tRemove("a"), 4)
		w.next(sess, 0, over, false, nil)
		w.sendSeq(sess, 0, 2, "too_many_ops_retransmitted", over, false, nil, nil)
		// The request before it, once more.
		d := sess.slots[0].dropped
		if d == nil {
			t.Fatalf("the model does not remember the reply that the slot retained")
		}
		w.sendSeq(sess, 0, 1, "replay_after_too_many_ops", d.t, d.cache, nil, d)
		if w.lookupTruth("a") == nil {
			t.Fatalf("the REMOVE of the refused COMPOUND was executed")
		}
		// The sequence ID is still to be had: a READ that parks, a duplicate
		// of it, the release, a retransmission.
		read := w.tIO(inc, "READ", fh, mkStateID(o.seq, o.other), "cur")
		orig := w.next(sess, 0, read, true, map[string]bool{"io": true})
		if w.parkOf(orig) == nil {
			t.Fatalf("the READ did not park")
		}
		w.sendSeq(sess, 0, orig.seq, "dup", read, true, nil, orig)
		w.stepNo++
		w.record("release", "the parked READ")
		w.release(w.parkOf(orig))
		w.sendSeq(sess, 0, orig.seq, "replay", read, true, nil, orig)

		// Exactly as many operations as the session allows.
		m := w.next(sess, 2, w.tMaxOps(sess, w.tLookup("b")), true, nil)
		if len(m.args.Argarray) != maxOperations || len(m.res.Resarray) != maxOperations || m.res.Status != nfsv4.NFS4_OK {
			t.Fatalf("a COMPOUND of %d operations was answered %s", len(m.args.Argarray), statusOf(m.res))
		}
		// An oversized one under a sequence ID that is not the next one.
		w.sendSeq(sess, 2, 7, "misordered", w.tTooManyOps(sess, w.tNoop(), 2), false, nil, nil)

		w.next(sess, 1, w.tClose(inc, fh, mkStateID(o.seq, o.other), "cur"), true, nil)
		expectLabels(t, w, map[string]int{
			"compound_too_many_ops":                                 4,
			"compound_too_many_ops:limit+1":                         2,
			"compound_too_many_ops:limit+4":                         2,
			"compound_too_many_ops_on_slot_with_cached_reply":       2,
			"too_many_ops_retransmission_refused_again":             2,
			"slot_reused_after_too_many_ops":                        2,
			"slot_reused_after_too_many_ops_by_request_that_parked": 1,
			"inflight_duplicate_completed_with_original":            1,
			"replay_equal": 1,
			"compound_at_max_operations_executed_completely":            1,
			"oversized_compound_answered_by_sequence_id:SEQ_MISORDERED": 1,
			"close_ok": 1,
		})
		if w.labels["retransmission_after_too_many_ops:reply_was_discarded"]+w.labels["retransmission_after_too_many_ops:answered_from_cache"] != 1 {
			t.Fatalf("the retransmission of the request before the refused one was not evaluated: %v", w.labels)
		}
	})
}

package nfs41sim

import (
	"bytes"
	"encoding/binary"
	"fmt"
	"strings"

	"github.com/buildbarn/go-xdr/pkg/protocols/nfsv4"
)

// Templates: the operation lists the client simulators send after
// SEQUENCE, each with the reference model's view of it.

type sts = []nfsv4.Nfsstat4

func one(st nfsv4.Nfsstat4) sts { return sts{st} }

func resStatus(r nfsv4.NfsResop4) nfsv4.Nfsstat4 {
	b := encodeResop(r)
	return nfsv4.Nfsstat4(binary.BigEndian.Uint32(b[4:8]))
}

func accToWire(a uint32) uint32 {
	switch a {
	case accR:
		return nfsv4.OPEN4_SHARE_ACCESS_READ
	case accW:
		return nfsv4.OPEN4_SHARE_ACCESS_WRITE
	default:
		return nfsv4.OPEN4_SHARE_ACCESS_BOTH
	}
}

func opPutFH(fh []byte) nfsv4.NfsArgop4 {
	return &nfsv4.NfsArgop4_OP_PUTFH{Opputfh: nfsv4.Putfh4args{Object: fh}}
}

func (w *world) fhName(fh []byte) string {
	if bytes.Equal(fh, w.rootFH) {
		return "root"
	}
	if l := w.leafByHandle[string(fh)]; l != nil {
		return l.String()
	}
	return fmt.Sprintf("fh(%x)", fh)
}

// ---------------------------------------------------------------- OPEN

var openHows = []string{"nocreate", "unchecked", "unchecked_trunc", "guarded", "exclusive4", "exclusive4_1"}

func sizeAttr(size uint64) nfsv4.Fattr4 {
	var v [8]byte
	binary.BigEndian.PutUint64(v[:], size)
	return nfsv4.Fattr4{Attrmask: nfsv4.Bitmap4{1 << nfsv4.FATTR4_SIZE}, AttrVals: v[:]}
}

func openHow(how string) nfsv4.Openflag4 {
	switch how {
	case "nocreate":
		return &nfsv4.Openflag4_default{Opentype: nfsv4.OPEN4_NOCREATE}
	case "unchecked":
		return &nfsv4.Openflag4_OPEN4_CREATE{How: &nfsv4.Createhow4_UNCHECKED4{}}
	case "unchecked_trunc":
		return &nfsv4.Openflag4_OPEN4_CREATE{How: &nfsv4.Createhow4_UNCHECKED4{Createattrs: sizeAttr(0)}}
	case "guarded":
		return &nfsv4.Openflag4_OPEN4_CREATE{How: &nfsv4.Createhow4_GUARDED4{}}
	case "exclusive4":
		return &nfsv4.Openflag4_OPEN4_CREATE{How: &nfsv4.Createhow4_EXCLUSIVE4{Createverf: nfsv4.Verifier4{9, 9, 9}}}
	case "exclusive4_1":
		return &nfsv4.Openflag4_OPEN4_CREATE{How: &nfsv4.Createhow4_EXCLUSIVE4_1{ChCreateboth: nfsv4.Creatverfattr{CvaVerf: nfsv4.Verifier4{8, 8, 8}}}}
	}
	panic("nfs41sim: unknown open how " + how)
}

func (w *world) tOpen(inc *incM, name, owner string, acc uint32, how string) *tmpl {
	t := &tmpl{kind: "open", stateOp: true, data: map[string]any{}}
	t.desc = fmt.Sprintf("OPEN(CLAIM_NULL %q, owner %q, %s, %s)", name, owner, accString(acc), how)
	t.ops = []nfsv4.NfsArgop4{
		&nfsv4.NfsArgop4_OP_PUTROOTFH{},
		&nfsv4.NfsArgop4_OP_OPEN{Opopen: nfsv4.Open4args{
			ShareAccess: accToWire(acc),
			ShareDeny:   nfsv4.OPEN4_SHARE_DENY_NONE,
			Owner:       nfsv4.OpenOwner4{Clientid: inc.clientID, Owner: []byte(owner)},
			Openhow:     openHow(how),
			Claim:       &nfsv4.OpenClaim4_CLAIM_NULL{File: name},
		}},
		&nfsv4.NfsArgop4_OP_GETFH{},
	}
	exclusive := how == "exclusive4" || how == "exclusive4_1"
	if exclusive {
		// "Don't bother implementing EXCLUSIVE4 and EXCLUSIVE4_1, as we
		// announce supporting a persistent reply cache."
		t.atExec = func(c *call) {
			t.expect = []sts{one(nfsv4.NFS4_OK), one(nfsv4.NFS4ERR_INVAL)}
		}
	} else {
		t.parkOK = []string{"open_before", "open_after"}
		t.faultOK = []string{"openchild", "openself", "newfile"}
		t.predict = func(c *call) {
			leaf := w.lookupTruth(name)
			st := nfsv4.NFS4_OK
			switch {
			case how == "nocreate" && leaf == nil:
				st = nfsv4.NFS4ERR_NOENT
			case how == "guarded" && leaf != nil:
				st = nfsv4.NFS4ERR_EXIST
			}
			w.mu.Lock()
			t.data["nLeaves"] = len(w.leaves)
			w.mu.Unlock()
			t.data["leaf"] = leaf
			t.expect = []sts{one(nfsv4.NFS4_OK), one(st), one(nfsv4.NFS4_OK)}
			if leaf == nil && st == nfsv4.NFS4_OK {
				w.label("open_creates_file")
			}
		}
	}
	t.onDone = func(c *call, res []nfsv4.NfsResop4) {
		if len(res) < 3 || resStatus(res[2]) != nfsv4.NFS4_OK {
			return
		}
		ok := res[1].(*nfsv4.NfsResop4_OP_OPEN).Opopen.(*nfsv4.Open4res_NFS4_OK).Resok4
		fh := res[2].(*nfsv4.NfsResop4_OP_GETFH).Opgetfh.(*nfsv4.Getfh4res_NFS4_OK).Resok4.Object
		leaf := w.leafByHandle[string(fh)]
		if leaf == nil {
			w.failf("C18: OPEN of %q returned file handle %x that the handle allocator never issued", name, fh)
		}
		if want, _ := t.data["leaf"].(*countLeaf); want != nil {
			if leaf != want {
				w.failf("C18: OPEN of existing %q opened %s, but the name refers to %s", name, leaf, want)
			}
		} else if leaf.id < t.data["nLeaves"].(int) {
			w.failf("C18: OPEN created %q but returned the handle of the older %s", name, leaf)
		}
		w.learnFH(fh, leaf)
		w.modelOpen(c, owner, leaf, fh, acc, ok.Stateid)
	}
	return t
}

func (w *world) tOpenFH(inc *incM, fh []byte, owner string, acc uint32) *tmpl {
	t := &tmpl{kind: "open_fh", stateOp: true, data: map[string]any{}, faultOK: []string{"openself"}}
	t.desc = fmt.Sprintf("PUTFH %s; OPEN(CLAIM_FH, owner %q, %s)", w.fhName(fh), owner, accString(acc))
	t.ops = []nfsv4.NfsArgop4{
		opPutFH(fh),
		&nfsv4.NfsArgop4_OP_OPEN{Opopen: nfsv4.Open4args{
			ShareAccess: accToWire(acc),
			ShareDeny:   nfsv4.OPEN4_SHARE_DENY_NONE,
			Owner:       nfsv4.OpenOwner4{Clientid: inc.clientID, Owner: []byte(owner)},
			Openhow:     openHow("nocreate"),
			Claim:       &nfsv4.OpenClaim4_CLAIM_FH{},
		}},
		&nfsv4.NfsArgop4_OP_GETFH{},
	}
	t.atExec = func(c *call) {
		st, leaf := w.predictPutFH(fh)
		switch {
		case st != nfsv4.NFS4_OK:
			t.expect = []sts{one(st)}
		case leaf == nil:
			t.expect = []sts{one(nfsv4.NFS4_OK), one(nfsv4.NFS4ERR_ISDIR)}
		default:
			t.expect = []sts{one(nfsv4.NFS4_OK), one(nfsv4.NFS4_OK), one(nfsv4.NFS4_OK)}
			if !w.leafLinked(leaf) {
				w.label("open_fh_of_unlinked_file")
			}
		}
	}
	t.onDone = func(c *call, res []nfsv4.NfsResop4) {
		if len(res) != 3 || resStatus(res[2]) != nfsv4.NFS4_OK {
			return
		}
		ok := res[1].(*nfsv4.NfsResop4_OP_OPEN).Opopen.(*nfsv4.Open4res_NFS4_OK).Resok4
		got := res[2].(*nfsv4.NfsResop4_OP_GETFH).Opgetfh.(*nfsv4.Getfh4res_NFS4_OK).Resok4.Object
		if !bytes.Equal(got, fh) {
			w.failf("C18: OPEN(CLAIM_FH) on %x changed the current file handle to %x", fh, got)
		}
		w.modelOpen(c, owner, w.leafByHandle[string(fh)], fh, acc, ok.Stateid)
	}
	return t
}

func (w *world) learnFH(fh []byte, leaf *countLeaf) {
	for _, k := range w.knownFH {
		if bytes.Equal(k.fh, fh) {
			return
		}
	}
	w.knownFH = append(w.knownFH, fhRec{fh: append([]byte(nil), fh...), leaf: leaf})
}

// modelOpen registers the outcome of a successful OPEN.
func (w *world) modelOpen(c *call, owner string, leaf *countLeaf, fh []byte, acc uint32, sid nfsv4.Stateid4) {
	inc := c.inc
	other, ok := stateIDOther(&sid)
	if !ok {
		w.failf("C18: OPEN returned malformed state ID %s", fmtSID(sid))
	}
	key := owner + "|" + string(fh)
	if o := inc.opens[key]; o != nil {
		// RFC 8881 section 8.2.2: same owner and file => same state ID
		// with the next sequence ID.
		if other != o.other || sid.Seqid != nextSeqID(o.seq) {
			w.failf("C18: OPEN by %s of a file it already has open returned %s, expected sid(%d,#%d)", o, fmtSID(sid), nextSeqID(o.seq), o.other)
		}
		w.noteSeqIDBump(o.seq, sid.Seqid, "open")
		o.seq = sid.Seqid
		if acc&^o.access != 0 {
			w.label("upgrade")
		} else {
			w.label("reopen_same_access")
		}
		o.access |= acc
		return
	}
	if _, dup := inc.byOther[other]; dup {
		w.failf("C18: OPEN returned state ID %s whose 'other' is already in use by %s", fmtSID(sid), inc)
	}
	if sid.Seqid != 1 {
		w.failf("C18: OPEN returned a new state ID %s whose seqid is not 1", fmtSID(sid))
	}
	o := &openM{inc: inc, owner: owner, leaf: leaf, fh: append([]byte(nil), fh...), other: other, seq: 1, access: acc, locks: map[string]*lockM{}, ord: len(w.allOpens)}
	inc.opens[key] = o
	inc.byOther[other] = o
	inc.everState = true
	w.allOpens = append(w.allOpens, o)
	w.label("open_state_created")
}

// ---------------------------------------------------------------- CLOSE / OPEN_DOWNGRADE

func (w *world) tClose(inc *incM, fh []byte, sid nfsv4.Stateid4, how string) *tmpl {
	t := &tmpl{kind: "close", stateOp: true, data: map[string]any{}}
	t.desc = fmt.Sprintf("PUTFH %s; CLOSE(%s %s)", w.fhName(fh), fmtSID(sid), how)
	t.ops = []nfsv4.NfsArgop4{
		opPutFH(fh),
		&nfsv4.NfsArgop4_OP_CLOSE{Opclose: nfsv4.Close4args{OpenStateid: sid}},
	}
	t.atExec = func(c *call) {
		pst, _ := w.predictPutFH(fh)
		if pst != nfsv4.NFS4_OK {
			t.expect = []sts{one(pst)}
			return
		}
		st, o := inc.resolveOpen(fh, sid)
		t.expect = []sts{one(nfsv4.NFS4_OK), one(st)}
		t.data["o"] = o
		w.noteRejection("close", how, st)
	}
	t.onDone = func(c *call, res []nfsv4.NfsResop4) {
		if len(res) == 2 && resStatus(res[1]) == nfsv4.NFS4_OK {
			o := t.data["o"].(*openM)
			if o.ioHold[bitR]+o.ioHold[bitW] > 0 {
				w.label("close_during_io")
			}
			if !w.leafLinked(o.leaf) {
				w.label("close_of_unlinked_file")
			}
			w.modelClose(o, "closed")
			w.label("close_ok")
		}
	}
	return t
}

// noteSeqIDBump labels a state ID whose seqid went from 2^32-1 to 1.
func (w *world) noteSeqIDBump(before, after uint32, op string) {
	if after < before {
		w.label("stateid_seqid_wrapped")
		w.label("stateid_seqid_wrapped_by:" + op)
	}
}

func (w *world) noteRejection(op, how string, st nfsv4.Nfsstat4) {
	if how != "cur" && how != "seq0" && st != nfsv4.NFS4_OK {
		w.label("stateid_rejected:" + how)
	}
	if (how != "cur" && how != "seq0") && st == nfsv4.NFS4_OK {
		w.label("stateid_deviation_valid_in_own_namespace:" + how)
	}
}

func (w *world) tDowngrade(inc *incM, fh []byte, sid nfsv4.Stateid4, how string, acc uint32) *tmpl {
	t := &tmpl{kind: "downgrade", stateOp: true, data: map[string]any{}}
	t.desc = fmt.Sprintf("PUTFH %s; OPEN_DOWNGRADE(%s %s -> %s)", w.fhName(fh), fmtSID(sid), how, accString(acc))
	t.ops = []nfsv4.NfsArgop4{
		opPutFH(fh),
		&nfsv4.NfsArgop4_OP_OPEN_DOWNGRADE{OpopenDowngrade: nfsv4.OpenDowngrade4args{OpenStateid: sid, ShareAccess: accToWire(acc), ShareDeny: nfsv4.OPEN4_SHARE_DENY_NONE}},
	}
	t.atExec = func(c *call) {
		pst, _ := w.predictPutFH(fh)
		if pst != nfsv4.NFS4_OK {
			t.expect = []sts{one(pst)}
			return
		}
		st, o := inc.resolveOpen(fh, sid)
		w.noteRejection("downgrade", how, st)
		if st == nfsv4.NFS4_OK && acc&^o.access != 0 {
			// RFC 8881 section 18.18.3: the new access must be a subset.
			st = nfsv4.NFS4ERR_INVAL
			o = nil
		}
		t.expect = []sts{one(nfsv4.NFS4_OK), one(st)}
		t.data["o"] = o
	}
	t.onDone = func(c *call, res []nfsv4.NfsResop4) {
		if len(res) != 2 || resStatus(res[1]) != nfsv4.NFS4_OK {
			return
		}
		o := t.data["o"].(*openM)
		got := res[1].(*nfsv4.NfsResop4_OP_OPEN_DOWNGRADE).OpopenDowngrade.(*nfsv4.OpenDowngrade4res_NFS4_OK).Resok4.OpenStateid
		other, _ := stateIDOther(&got)
		if other != o.other || !(got.Seqid == nextSeqID(o.seq) || (got.Seqid == o.seq && acc == o.access)) {
			w.failf("C18: OPEN_DOWNGRADE of %s returned %s, expected sid(%d,#%d)", o, fmtSID(got), nextSeqID(o.seq), o.other)
		}
		w.noteSeqIDBump(o.seq, got.Seqid, "open_downgrade")
		if acc != o.access {
			w.label("downgrade")
		} else {
			w.label("downgrade_noop")
		}
		o.seq = got.Seqid
		o.access = acc
	}
	return t
}

// ---------------------------------------------------------------- LOCK / LOCKT / LOCKU / FREE_STATEID

type lockRange struct {
	offset, length uint64
	desc           string
}

func wireLockType(typ int, wait bool) nfsv4.NfsLockType4 {
	switch {
	case typ == ltRead && !wait:
		return nfsv4.READ_LT
	case typ == ltRead:
		return nfsv4.READW_LT
	case !wait:
		return nfsv4.WRITE_LT
	default:
		return nfsv4.WRITEW_LT
	}
}

func typName(typ int) string {
	if typ == ltRead {
		return "READ"
	}
	return "WRITE"
}

// predictLock decides what a LOCK/LOCKT of owner on leaf must answer.
// It returns the acceptable statuses and, when the request is in the
// model's universe and valid, the unit interval.
func (w *world) predictLock(leaf *countLeaf, owner string, r lockRange, typ int) (acceptable sts, lo, hi int, valid bool) {
	lo, hi, st, inU := rangeToUnits(r.offset, r.length)
	if st != nfsv4.NFS4_OK {
		return one(st), 0, 0, false
	}
	if !inU {
		panic("nfs41sim: generated a lock range outside the model universe")
	}
	fl := w.locks[leaf]
	if fl == nil {
		return one(nfsv4.NFS4_OK), lo, hi, true
	}
	if _, _, conflict := fl.conflict(owner, lo, hi, typ); conflict {
		return one(nfsv4.NFS4ERR_DENIED), lo, hi, true
	}
	return one(nfsv4.NFS4_OK), lo, hi, true
}

// checkDenied verifies that a DENIED reply names a genuinely conflicting
// lock: an owner other than the requester that holds, with the reported
// type, every byte of the reported range, which overlaps the requested
// range and conflicts with the requested type.
func (w *world) checkDenied(what string, leaf *countLeaf, owner string, lo, hi, typ int, d *nfsv4.Lock4denied) {
	dlo, dhi, st, inU := rangeToUnits(d.Offset, d.Length)
	if st != nfsv4.NFS4_OK || !inU {
		w.failf("C20: %s was denied naming range (offset %d, length %d), which no owner ever locked", what, d.Offset, d.Length)
	}
	dtyp := 0
	switch d.Locktype {
	case nfsv4.READ_LT:
		dtyp = ltRead
	case nfsv4.WRITE_LT:
		dtyp = ltWrite
	default:
		w.failf("C20: %s was denied naming lock type %d", what, d.Locktype)
	}
	downer := lockOwnerKey(d.Owner.Clientid, string(d.Owner.Owner))
	if downer == owner {
		w.failf("C20: %s by owner %s was denied because of the owner's own lock [%d,%d) %s", what, owner, dlo, dhi, typName(dtyp))
	}
	fl := w.locks[leaf]
	for u := dlo; u < dhi; u++ {
		if fl == nil || fl.typeAt(downer, u) != dtyp {
			w.failf("C20: %s was denied naming %s lock of owner %s on units [%d,%d), but according to the history that owner does not hold unit %d with that type (model:%v)", what, typName(dtyp), downer, dlo, dhi, u, fl)
		}
	}
	if dhi <= lo || dlo >= hi {
		w.failf("C20: %s on units [%d,%d) was denied naming units [%d,%d), which do not overlap", what, lo, hi, dlo, dhi)
	}
	if dtyp != ltWrite && typ != ltWrite {
		w.failf("C20: %s for a shared lock was denied naming a shared lock", what)
	}
}

// applyLock updates the byte model for a granted LOCK or a LOCKU and
// labels splits, merges and ranges ending at the maximum offset.
func (w *world) applyLock(leaf *countLeaf, owner string, lo, hi, typ int) {
	fl := w.locks[leaf]
	if fl == nil {
		fl = &fileLocks{}
		w.locks[leaf] = fl
	}
	before, after := fl.typeAt(owner, lo-1), fl.typeAt(owner, hi)
	if before != 0 && before == after && before != typ {
		allHeld := true
		for u := lo; u < hi; u++ {
			if fl.typeAt(owner, u) != before {
				allHeld = false
			}
		}
		if allHeld {
			w.label("lock_split")
		}
	}
	if typ != 0 && (before == typ || after == typ) {
		w.label("lock_merge")
	}
	if typ != 0 {
		for u := lo; u < hi; u++ {
			if t := fl.typeAt(owner, u); t != 0 && t != typ {
				w.label("lock_retype")
				break
			}
		}
	}
	if hi == lockUnits {
		w.label("lock_range_to_max_offset")
	}
	fl.set(owner, lo, hi, typ)
	if typ != 0 {
		w.label("lock_granted")
		w.grantedOwners[owner] = true
	} else {
		w.label("unlock_done")
	}
}

func (w *world) tLock(inc *incM, fh []byte, newOwner bool, sid nfsv4.Stateid4, how, lockOwner string, typ int, wait bool, r lockRange) *tmpl {
	t := &tmpl{kind: "lock", stateOp: true, data: map[string]any{}}
	var locker nfsv4.Locker4
	if newOwner {
		locker = &nfsv4.Locker4_TRUE{OpenOwner: nfsv4.OpenToLockOwner4{OpenStateid: sid, LockOwner: nfsv4.LockOwner4{Clientid: w.wireOwnerClientID(inc), Owner: []byte(lockOwner)}}}
		t.desc = fmt.Sprintf("PUTFH %s; LOCK(%s %s, new lock-owner %q (clientid field %#x) via open %s %s)", w.fhName(fh), typName(typ), r.desc, lockOwner, locker.(*nfsv4.Locker4_TRUE).OpenOwner.LockOwner.Clientid, fmtSID(sid), how)
	} else {
		locker = &nfsv4.Locker4_FALSE{LockOwner: nfsv4.ExistLockOwner4{LockStateid: sid}}
		t.desc = fmt.Sprintf("PUTFH %s; LOCK(%s %s, existing lock state %s %s)", w.fhName(fh), typName(typ), r.desc, fmtSID(sid), how)
	}
	t.ops = []nfsv4.NfsArgop4{
		opPutFH(fh),
		&nfsv4.NfsArgop4_OP_LOCK{Oplock: nfsv4.Lock4args{Locktype: wireLockType(typ, wait), Offset: r.offset, Length: r.length, Locker: locker}},
	}
	t.atExec = func(c *call) {
		pst, _ := w.predictPutFH(fh)
		if pst != nfsv4.NFS4_OK {
			t.expect = []sts{one(pst)}
			return
		}
		var o *openM
		var l *lockM
		var st nfsv4.Nfsstat4
		if newOwner {
			st, o = inc.resolveOpen(fh, sid)
			if o != nil {
				l = o.locks[lockOwner]
			}
		} else {
			st, l = inc.resolveLock(fh, sid)
			if l != nil {
				o = l.open
				lockOwner = l.owner
			}
		}
		w.noteRejection("lock", how, st)
		if st != nfsv4.NFS4_OK {
			t.expect = []sts{one(nfsv4.NFS4_OK), one(st)}
			return
		}
		key := lockOwnerKey(inc.clientID, lockOwner)
		acceptable, lo, hi, valid := w.predictLock(o.leaf, key, r, typ)
		t.expect = []sts{one(nfsv4.NFS4_OK), acceptable}
		t.data["o"], t.data["l"], t.data["key"], t.data["lo"], t.data["hi"], t.data["valid"] = o, l, key, lo, hi, valid
		if valid && newOwner && l == nil {
			// Is this the same protocol-level owner taking lock state
			// through a second open of the same file?
			for _, o2 := range inc.opens {
				if o2 != o && o2.leaf == o.leaf {
					if l2 := o2.locks[lockOwner]; l2 != nil {
						t.data["second_open"] = true
						if fl := w.locks[o.leaf]; fl != nil {
							for u := lo; u < hi; u++ {
								if fl.typeAt(key, u) != 0 {
									w.label("same_owner_second_open_overlapping_own_lock")
									break
								}
							}
						}
					}
				}
			}
		}
	}
	t.onDone = func(c *call, res []nfsv4.NfsResop4) {
		if len(res) != 2 || t.data["o"] == nil {
			return
		}
		o := t.data["o"].(*openM)
		l, _ := t.data["l"].(*lockM)
		key := t.data["key"].(string)
		lo, hi := t.data["lo"].(int), t.data["hi"].(int)
		what := fmt.Sprintf("LOCK %s units [%d,%d) on %s", typName(typ), lo, hi, o.leaf)
		switch r := res[1].(*nfsv4.NfsResop4_OP_LOCK).Oplock.(type) {
		case *nfsv4.Lock4res_NFS4_OK:
			got := r.Resok4.LockStateid
			other, ok := stateIDOther(&got)
			if !ok {
				w.failf("C18: LOCK returned malformed state ID %s", fmtSID(got))
			}
			if l != nil {
				if other != l.other || got.Seqid != nextSeqID(l.seq) {
					w.failf("C18: LOCK through existing %s returned %s, expected sid(%d,#%d)", l, fmtSID(got), nextSeqID(l.seq), l.other)
				}
				w.noteSeqIDBump(l.seq, got.Seqid, "lock")
				l.seq = got.Seqid
			} else {
				if _, dup := inc.byOther[other]; dup {
					w.failf("C18: LOCK returned state ID %s whose 'other' is already in use by %s", fmtSID(got), inc)
				}
				if got.Seqid != 1 {
					w.failf("C18: LOCK returned a new lock state ID %s whose seqid is not 1", fmtSID(got))
				}
				l = &lockM{open: o, owner: lockOwner, other: other, seq: 1, access: o.access}
				o.locks[lockOwner] = l
				inc.byOther[other] = l
				w.label("lock_state_created")
				if t.data["second_open"] != nil {
					w.label("same_owner_lock_state_via_second_open")
				}
			}
			w.applyLock(o.leaf, key, lo, hi, typ)
		case *nfsv4.Lock4res_NFS4ERR_DENIED:
			w.checkDenied(what, o.leaf, key, lo, hi, typ, &r.Denied)
			w.label("lock_denied")
		}
	}
	return t
}

func (w *world) tLockT(inc *incM, fh []byte, lockOwner string, typ int, r lockRange) *tmpl {
	t := &tmpl{kind: "lockt", data: map[string]any{}}
	wireCID := w.wireOwnerClientID(inc)
	t.desc = fmt.Sprintf("PUTFH %s; LOCKT(%s %s, owner %q (clientid field %#x))", w.fhName(fh), typName(typ), r.desc, lockOwner, wireCID)
	t.ops = []nfsv4.NfsArgop4{
		opPutFH(fh),
		&nfsv4.NfsArgop4_OP_LOCKT{Oplockt: nfsv4.Lockt4args{Locktype: wireLockType(typ, false), Offset: r.offset, Length: r.length, Owner: nfsv4.LockOwner4{Clientid: wireCID, Owner: []byte(lockOwner)}}},
	}
	key := lockOwnerKey(inc.clientID, lockOwner)
	t.atExec = func(c *call) {
		pst, leaf := w.predictPutFH(fh)
		switch {
		case pst != nfsv4.NFS4_OK:
			t.expect = []sts{one(pst)}
		case leaf == nil:
			t.expect = []sts{one(nfsv4.NFS4_OK), one(nfsv4.NFS4ERR_ISDIR)}
		default:
			acceptable, lo, hi, valid := w.predictLock(leaf, key, r, typ)
			t.expect = []sts{one(nfsv4.NFS4_OK), acceptable}
			t.data["leaf"], t.data["lo"], t.data["hi"], t.data["valid"] = leaf, lo, hi, valid
			if valid {
				if fl := w.locks[leaf]; fl != nil {
					for u := lo; u < hi; u++ {
						if fl.typeAt(key, u) != 0 {
							w.label("lockt_over_own_lock")
							break
						}
					}
				}
			}
		}
	}
	t.onDone = func(c *call, res []nfsv4.NfsResop4) {
		if len(res) != 2 || t.data["leaf"] == nil {
			return
		}
		if r, ok := res[1].(*nfsv4.NfsResop4_OP_LOCKT).Oplockt.(*nfsv4.Lockt4res_NFS4ERR_DENIED); ok {
			lo, hi := t.data["lo"].(int), t.data["hi"].(int)
			leaf := t.data["leaf"].(*countLeaf)
			w.checkDenied(fmt.Sprintf("LOCKT %s units [%d,%d) on %s", typName(typ), lo, hi, leaf), leaf, key, lo, hi, typ, &r.Denied)
			w.label("lockt_denied")
		} else if resStatus(res[1]) == nfsv4.NFS4_OK {
			w.label("lockt_ok")
		}
	}
	return t
}

func (w *world) tLockU(inc *incM, fh []byte, sid nfsv4.Stateid4, how string, r lockRange) *tmpl {
	t := &tmpl{kind: "locku", stateOp: true, data: map[string]any{}}
	t.desc = fmt.Sprintf("PUTFH %s; LOCKU(%s, lock state %s %s)", w.fhName(fh), r.desc, fmtSID(sid), how)
	t.ops = []nfsv4.NfsArgop4{
		opPutFH(fh),
		&nfsv4.NfsArgop4_OP_LOCKU{Oplocku: nfsv4.Locku4args{Locktype: nfsv4.READ_LT, LockStateid: sid, Offset: r.offset, Length: r.length}},
	}
	t.atExec = func(c *call) {
		pst, _ := w.predictPutFH(fh)
		if pst != nfsv4.NFS4_OK {
			t.expect = []sts{one(pst)}
			return
		}
		st, l := inc.resolveLock(fh, sid)
		w.noteRejection("locku", how, st)
		if st != nfsv4.NFS4_OK {
			t.expect = []sts{one(nfsv4.NFS4_OK), one(st)}
			return
		}
		lo, hi, rst, _ := rangeToUnits(r.offset, r.length)
		t.expect = []sts{one(nfsv4.NFS4_OK), one(rst)}
		if rst == nfsv4.NFS4_OK {
			t.data["l"], t.data["lo"], t.data["hi"] = l, lo, hi
		}
	}
	t.onDone = func(c *call, res []nfsv4.NfsResop4) {
		if len(res) != 2 || t.data["l"] == nil || resStatus(res[1]) != nfsv4.NFS4_OK {
			return
		}
		l := t.data["l"].(*lockM)
		got := res[1].(*nfsv4.NfsResop4_OP_LOCKU).Oplocku.(*nfsv4.Locku4res_NFS4_OK).LockStateid
		other, _ := stateIDOther(&got)
		if other != l.other || got.Seqid != nextSeqID(l.seq) {
			w.failf("C18: LOCKU through %s returned %s, expected sid(%d,#%d)", l, fmtSID(got), nextSeqID(l.seq), l.other)
		}
		w.noteSeqIDBump(l.seq, got.Seqid, "locku")
		l.seq = got.Seqid
		w.applyLock(l.open.leaf, l.ownerKey(), t.data["lo"].(int), t.data["hi"].(int), 0)
		w.markProbe(l.open.leaf, "locku")
	}
	return t
}

func (w *world) tFreeStateID(inc *incM, sid nfsv4.Stateid4, how string) *tmpl {
	t := &tmpl{kind: "free_stateid", stateOp: true, data: map[string]any{}}
	t.desc = fmt.Sprintf("FREE_STATEID(%s %s)", fmtSID(sid), how)
	t.ops = []nfsv4.NfsArgop4{
		&nfsv4.NfsArgop4_OP_FREE_STATEID{OpfreeStateid: nfsv4.FreeStateid4args{FsaStateid: sid}},
	}
	t.atExec = func(c *call) {
		other, ok := stateIDOther(&sid)
		if !ok {
			t.expect = []sts{one(nfsv4.NFS4ERR_BAD_STATEID)}
			return
		}
		switch s := inc.byOther[other].(type) {
		case *lockM:
			st := compareSeq(sid.Seqid, s.seq)
			if st == nfsv4.NFS4_OK {
				// RFC 8881 section 18.38.3: a state ID with locks
				// associated with it is not freed.
				if fl := w.locks[s.open.leaf]; fl != nil && fl.holds(s.ownerKey()) {
					st = nfsv4.NFS4ERR_LOCKS_HELD
					w.label("free_stateid_locks_held")
				} else {
					t.data["l"] = s
				}
			}
			t.expect = []sts{one(st)}
		case *openM:
			// Open state cannot be freed this way; both answers leave
			// it untouched.
			t.expect = []sts{{nfsv4.NFS4ERR_BAD_STATEID, nfsv4.NFS4ERR_LOCKS_HELD}}
		default:
			t.expect = []sts{one(nfsv4.NFS4ERR_BAD_STATEID)}
		}
	}
	t.onDone = func(c *call, res []nfsv4.NfsResop4) {
		if len(res) == 1 && resStatus(res[0]) == nfsv4.NFS4_OK && t.data["l"] != nil {
			w.modelFreeLock(t.data["l"].(*lockM), "freed", false)
			w.label("free_stateid_ok")
		}
	}
	return t
}

func (w *world) tTestStateID(inc *incM, sids []nfsv4.Stateid4) *tmpl {
	t := &tmpl{kind: "test_stateid", data: map[string]any{}}
	t.desc = "TEST_STATEID("
	for i, s := range sids {
		if i > 0 {
			t.desc += ", "
		}
		t.desc += fmtSID(s)
	}
	t.desc += ")"
	t.ops = []nfsv4.NfsArgop4{
		&nfsv4.NfsArgop4_OP_TEST_STATEID{OptestStateid: nfsv4.TestStateid4args{TsStateids: sids}},
	}
	var want []nfsv4.Nfsstat4
	t.atExec = func(c *call) {
		t.expect = []sts{one(nfsv4.NFS4_OK)}
		for _, s := range sids {
			want = append(want, inc.testStateID(s))
		}
	}
	t.onDone = func(c *call, res []nfsv4.NfsResop4) {
		got := res[0].(*nfsv4.NfsResop4_OP_TEST_STATEID).OptestStateid.(*nfsv4.TestStateid4res_NFS4_OK).TsrResok4.TsrStatusCodes
		if len(got) != len(want) {
			w.failf("C18: TEST_STATEID of %d state IDs returned %d status codes", len(want), len(got))
		}
		for i := range want {
			if got[i] != want[i] {
				w.failf("C18: TEST_STATEID(%s) by %s answered %s, expected %s", fmtSID(sids[i]), inc, shortStatus(got[i]), shortStatus(want[i]))
			}
		}
	}
	return t
}

// ---------------------------------------------------------------- READ / WRITE / SETATTR

func (w *world) tIO(inc *incM, op string, fh []byte, sid nfsv4.Stateid4, how string) *tmpl {
	t := &tmpl{kind: op, data: map[string]any{}}
	t.desc = fmt.Sprintf("PUTFH %s; %s(%s %s)", w.fhName(fh), op, fmtSID(sid), how)
	bit, acc := bitR, accR
	var second nfsv4.NfsArgop4
	switch op {
	case "READ":
		second = &nfsv4.NfsArgop4_OP_READ{Opread: nfsv4.Read4args{Stateid: sid, Offset: 0, Count: 4}}
		t.parkOK = []string{"io"}
		t.faultOK = []string{"read", "read", "openself"}
	case "WRITE":
		bit, acc = bitW, accW
		second = &nfsv4.NfsArgop4_OP_WRITE{Opwrite: nfsv4.Write4args{Stateid: sid, Offset: 1, Stable: nfsv4.FILE_SYNC4, Data: []byte{0x5a}}}
		t.parkOK = []string{"io"}
		t.faultOK = []string{"write", "write", "openself"}
	case "SETATTR":
		bit, acc = bitW, accW
		second = &nfsv4.NfsArgop4_OP_SETATTR{Opsetattr: nfsv4.Setattr4args{Stateid: sid, ObjAttributes: sizeAttr(3)}}
		t.faultOK = []string{"setattr"}
	}
	t.ops = []nfsv4.NfsArgop4{opPutFH(fh), second}
	special := sid == anonSID || sid == bypassSID
	t.atExec = func(c *call) {
		pst, leaf := w.predictPutFH(fh)
		if pst != nfsv4.NFS4_OK {
			t.expect = []sts{one(pst)}
			return
		}
		var st nfsv4.Nfsstat4
		var o *openM
		switch {
		case special && leaf == nil && op == "SETATTR":
			st = nfsv4.NFS4ERR_INVAL // a directory has no size
		case special && leaf == nil:
			st = nfsv4.NFS4ERR_ISDIR
		case special:
			st = nfsv4.NFS4_OK
			w.label("io_special_stateid")
		default:
			st, o = inc.resolveOpen(fh, sid)
			switch st {
			case nfsv4.NFS4_OK:
				if o.access&acc == 0 {
					st, o = nfsv4.NFS4ERR_OPENMODE, nil
				}
			case nfsv4.NFS4ERR_BAD_STATEID:
				var l *lockM
				st, l = inc.resolveLock(fh, sid)
				if st == nfsv4.NFS4_OK {
					// RFC 8881 section 9.1.2: the access of a lock
					// state ID is that of the open at the time the
					// lock state was established.
					if l.access&acc == 0 {
						st = nfsv4.NFS4ERR_OPENMODE
					} else {
						o = l.open
						w.label("io_with_lock_stateid")
					}
				}
			}
			w.noteRejection("io", how, st)
		}
		t.expect = []sts{one(nfsv4.NFS4_OK), one(st)}
		if st == nfsv4.NFS4_OK && c.plan["io"] && op != "SETATTR" {
			// The I/O will park: it holds the share reservation.
			if o != nil {
				o.ioHold[bit]++
				t.data["hold"] = o
			} else {
				h := w.anonHold[leaf]
				if h == nil {
					h = &[2]int{}
					w.anonHold[leaf] = h
				}
				h[bit]++
				t.data["anon"] = h
			}
			w.label("io_parked")
		}
	}
	t.onDone = func(c *call, res []nfsv4.NfsResop4) {
		if o, ok := t.data["hold"].(*openM); ok {
			o.ioHold[bit]--
		}
		if h, ok := t.data["anon"].(*[2]int); ok {
			h[bit]--
		}
	}
	return t
}

// ---------------------------------------------------------------- namespace, probes, misc

func (w *world) tRemove(name string) *tmpl {
	t := &tmpl{kind: "remove", data: map[string]any{}}
	t.desc = fmt.Sprintf("REMOVE %q", name)
	t.ops = []nfsv4.NfsArgop4{
		&nfsv4.NfsArgop4_OP_PUTROOTFH{},
		&nfsv4.NfsArgop4_OP_REMOVE{Opremove: nfsv4.Remove4args{Target: name}},
	}
	t.atExec = func(c *call) {
		leaf := w.lookupTruth(name)
		if leaf == nil {
			t.expect = []sts{one(nfsv4.NFS4_OK), one(nfsv4.NFS4ERR_NOENT)}
			return
		}
		t.expect = []sts{one(nfsv4.NFS4_OK), one(nfsv4.NFS4_OK)}
		if w.leafHasLiveOpen(leaf) {
			w.label("remove_of_open_file")
		}
	}
	return t
}

func (w *world) tLookup(name string) *tmpl {
	t := &tmpl{kind: "lookup", data: map[string]any{}}
	t.desc = fmt.Sprintf("LOOKUP %q", name)
	t.ops = []nfsv4.NfsArgop4{
		&nfsv4.NfsArgop4_OP_PUTROOTFH{},
		&nfsv4.NfsArgop4_OP_LOOKUP{Oplookup: nfsv4.Lookup4args{Objname: name}},
		&nfsv4.NfsArgop4_OP_GETFH{},
	}
	t.atExec = func(c *call) {
		leaf := w.lookupTruth(name)
		t.data["leaf"] = leaf
		if leaf == nil {
			t.expect = []sts{one(nfsv4.NFS4_OK), one(nfsv4.NFS4ERR_NOENT)}
		} else {
			t.expect = []sts{one(nfsv4.NFS4_OK), one(nfsv4.NFS4_OK), one(nfsv4.NFS4_OK)}
		}
	}
	t.onDone = func(c *call, res []nfsv4.NfsResop4) {
		if len(res) == 3 && resStatus(res[2]) == nfsv4.NFS4_OK {
			fh := res[2].(*nfsv4.NfsResop4_OP_GETFH).Opgetfh.(*nfsv4.Getfh4res_NFS4_OK).Resok4.Object
			leaf := w.leafByHandle[string(fh)]
			if leaf == nil || leaf != t.data["leaf"].(*countLeaf) {
				w.failf("C18: LOOKUP %q returned handle %x (%v), but the name refers to %v", name, fh, leaf, t.data["leaf"])
			}
			w.learnFH(fh, leaf)
		}
	}
	return t
}

// tProbe: is the file still reachable through its handle?
func (w *world) tProbe(fh []byte) *tmpl {
	t := &tmpl{kind: "probe", data: map[string]any{}}
	t.desc = fmt.Sprintf("PUTFH %s; GETFH", w.fhName(fh))
	t.ops = []nfsv4.NfsArgop4{opPutFH(fh), &nfsv4.NfsArgop4_OP_GETFH{}}
	t.atExec = func(c *call) {
		st, leaf := w.predictPutFH(fh)
		if st != nfsv4.NFS4_OK {
			t.expect = []sts{one(st)}
			if leaf != nil {
				w.label("probe_unlinked_closed_file_is_stale")
			}
			return
		}
		t.expect = []sts{one(nfsv4.NFS4_OK), one(nfsv4.NFS4_OK)}
		if leaf != nil && !w.leafLinked(leaf) {
			w.label("probe_unlinked_open_file_reachable")
		}
	}
	return t
}

func (w *world) tNoop() *tmpl {
	return &tmpl{kind: "noop", desc: "(no operations)", data: map[string]any{}, atExec: func(c *call) {}}
}

func (w *world) tReclaimComplete() *tmpl {
	t := &tmpl{kind: "reclaim_complete", desc: "RECLAIM_COMPLETE", data: map[string]any{}}
	t.ops = []nfsv4.NfsArgop4{&nfsv4.NfsArgop4_OP_RECLAIM_COMPLETE{OpreclaimComplete: nfsv4.ReclaimComplete4args{}}}
	t.atExec = func(c *call) { t.expect = []sts{one(nfsv4.NFS4_OK)} }
	return t
}

func (w *world) tDestroySessionInSeq(target *sessM) *tmpl {
	t := &tmpl{kind: "destroy_session_inseq", data: map[string]any{}}
	t.desc = fmt.Sprintf("DESTROY_SESSION(%s) inside SEQUENCE", target)
	t.ops = []nfsv4.NfsArgop4{&nfsv4.NfsArgop4_OP_DESTROY_SESSION{OpdestroySession: nfsv4.DestroySession4args{DsaSessionid: target.id}}}
	t.atExec = func(c *call) {
		if target.live() {
			t.expect = []sts{one(nfsv4.NFS4_OK)}
		} else {
			t.expect = []sts{one(nfsv4.NFS4ERR_BADSESSION)}
		}
	}
	t.onDone = func(c *call, res []nfsv4.NfsResop4) {
		if len(res) == 1 && resStatus(res[0]) == nfsv4.NFS4_OK {
			target.destroyed = true
			w.label("destroy_session_inside_sequence")
			if target == c.sess {
				w.label("destroy_own_session_inside_sequence")
			}
		}
	}
	return t
}

func (w *world) predictDestroyClientID(target *incM) nfsv4.Nfsstat4 {
	if target.gone {
		return nfsv4.NFS4ERR_STALE_CLIENTID
	}
	live := false
	for _, s := range target.sessions {
		if !s.destroyed {
			live = true
		}
	}
	if target.holds > 0 || len(target.opens) > 0 || live {
		return nfsv4.NFS4ERR_CLIENTID_BUSY
	}
	return nfsv4.NFS4_OK
}

func (w *world) tDestroyClientIDInSeq(target *incM) *tmpl {
	t := &tmpl{kind: "destroy_clientid_inseq", data: map[string]any{}}
	t.desc = fmt.Sprintf("DESTROY_CLIENTID(%s) inside SEQUENCE", target)
	t.ops = []nfsv4.NfsArgop4{&nfsv4.NfsArgop4_OP_DESTROY_CLIENTID{OpdestroyClientid: nfsv4.DestroyClientid4args{DcaClientid: target.clientID}}}
	t.atExec = func(c *call) { t.expect = []sts{one(w.predictDestroyClientID(target))} }
	t.onDone = func(c *call, res []nfsv4.NfsResop4) {
		if len(res) == 1 && resStatus(res[0]) == nfsv4.NFS4_OK {
			w.reclaim(target, "destroyed")
			w.label("destroy_clientid_ok")
		}
	}
	return t
}

// ---------------------------------------------------------------- current state ID

var currentSID = nfsv4.Stateid4{Seqid: 1}

// tOpenThen: OPEN followed, in the same COMPOUND, by an operation that
// uses the "current state ID" special value (RFC 8881 section 16.2.3.1.2),
// optionally with operations in between that change the current file
// handle. via:
//
//	none          the operation follows the OPEN directly;
//	save_restore  SAVEFH, PUTFH other, RESTOREFH: the saved current state
//	              ID comes back with the saved file handle;
//	putfh_other, putfh_same, putrootfh, lookup_other, lookup_same
//	              the current file handle is set anew, which invalidates
//	              the current state ID: a state ID is honoured only for
//	              the file it was issued for, so the operation must fail
//	              with NFS4ERR_BAD_STATEID and leave everything in place.
func (w *world) tOpenThen(inc *incM, name, owner string, acc uint32, then, via string, otherFH []byte, otherName string) *tmpl {
	t := w.tOpen(inc, name, owner, acc, "nocreate")
	t.kind = "open_then_" + then
	t.parkOK = nil
	switch then {
	case "read", "write", "setattr":
		t.faultOK = []string{"openchild", "openself", then, then}
	}
	sameLeaf := w.lookupTruth(name)
	if sameLeaf == nil && via == "putfh_same" {
		via = "none"
	}
	var between []nfsv4.NfsArgop4
	switch via {
	case "save_restore":
		between = []nfsv4.NfsArgop4{&nfsv4.NfsArgop4_OP_SAVEFH{}, opPutFH(otherFH), &nfsv4.NfsArgop4_OP_RESTOREFH{}}
		t.desc += fmt.Sprintf("; SAVEFH; PUTFH %s; RESTOREFH", w.fhName(otherFH))
	case "putfh_other":
		between = []nfsv4.NfsArgop4{opPutFH(otherFH)}
		t.desc += "; PUTFH " + w.fhName(otherFH)
	case "putfh_same":
		otherFH = sameLeaf.handleCopy()
		between = []nfsv4.NfsArgop4{opPutFH(otherFH)}
		t.desc += "; PUTFH " + w.fhName(otherFH) + " (the same file)"
	case "putrootfh":
		between = []nfsv4.NfsArgop4{&nfsv4.NfsArgop4_OP_PUTROOTFH{}}
		t.desc += "; PUTROOTFH"
	case "lookup_other", "lookup_same":
		if via == "lookup_same" {
			otherName = name
		}
		between = []nfsv4.NfsArgop4{&nfsv4.NfsArgop4_OP_PUTROOTFH{}, &nfsv4.NfsArgop4_OP_LOOKUP{Oplookup: nfsv4.Lookup4args{Objname: otherName}}}
		t.desc += fmt.Sprintf("; PUTROOTFH; LOOKUP %q", otherName)
	}
	preserved := via == "none" || via == "save_restore"
	t.desc += "; " + strings.ToUpper(then) + "(current state ID)"
	var last nfsv4.NfsArgop4
	bit := accR
	switch then {
	case "read":
		last = &nfsv4.NfsArgop4_OP_READ{Opread: nfsv4.Read4args{Stateid: currentSID, Offset: 0, Count: 2}}
	case "write":
		bit = accW
		last = &nfsv4.NfsArgop4_OP_WRITE{Opwrite: nfsv4.Write4args{Stateid: currentSID, Offset: 0, Stable: nfsv4.FILE_SYNC4, Data: []byte{0x33}}}
	case "close":
		last = &nfsv4.NfsArgop4_OP_CLOSE{Opclose: nfsv4.Close4args{OpenStateid: currentSID}}
	case "setattr":
		last = &nfsv4.NfsArgop4_OP_SETATTR{Opsetattr: nfsv4.Setattr4args{Stateid: currentSID, ObjAttributes: sizeAttr(2)}}
	case "downgrade":
		last = &nfsv4.NfsArgop4_OP_OPEN_DOWNGRADE{OpopenDowngrade: nfsv4.OpenDowngrade4args{OpenStateid: currentSID, ShareAccess: accToWire(acc), ShareDeny: nfsv4.OPEN4_SHARE_DENY_NONE}}
	case "lock":
		last = &nfsv4.NfsArgop4_OP_LOCK{Oplock: nfsv4.Lock4args{Locktype: nfsv4.READ_LT, Offset: 0, Length: 1, Locker: &nfsv4.Locker4_TRUE{OpenOwner: nfsv4.OpenToLockOwner4{OpenStateid: currentSID, LockOwner: nfsv4.LockOwner4{Clientid: inc.clientID, Owner: []byte("Lcur")}}}}}
	}
	if !preserved {
		t.kind = "open_switchfh_then_" + then
	}
	t.ops = append(append(t.ops, between...), last)
	lastIdx := len(t.ops) - 1
	openPredict, openDone := t.predict, t.onDone
	t.predict = func(c *call) {
		openPredict(c)
		if t.expect[1][0] != nfsv4.NFS4_OK {
			return
		}
		// The operations that move the current file handle.
		for _, op := range between {
			st := nfsv4.NFS4_OK
			switch o := op.(type) {
			case *nfsv4.NfsArgop4_OP_PUTFH:
				if via == "putfh_same" {
					// The file was opened a moment ago.
				} else {
					st, _ = w.predictPutFH(o.Opputfh.Object)
				}
			case *nfsv4.NfsArgop4_OP_LOOKUP:
				if w.lookupTruth(o.Oplookup.Objname) == nil {
					st = nfsv4.NFS4ERR_NOENT
				}
			}
			t.expect = append(t.expect, one(st))
			if st != nfsv4.NFS4_OK {
				return
			}
		}
		st := nfsv4.NFS4_OK
		if !preserved {
			// No current state ID any more: nothing may be honoured.
			st = nfsv4.NFS4ERR_BAD_STATEID
			w.label("stateid_rejected:current_after_filehandle_change")
			w.label("current_stateid_after:" + via)
		} else if then != "close" {
			// The access of the open state after this OPEN.
			access := acc
			if leaf, _ := t.data["leaf"].(*countLeaf); leaf != nil {
				if o := inc.opens[owner+"|"+string(leaf.handleCopy())]; o != nil {
					access |= o.access
				}
			}
			if access&bit == 0 {
				st = nfsv4.NFS4ERR_OPENMODE
			}
		}
		t.expect = append(t.expect, one(st))
	}
	t.onDone = func(c *call, res []nfsv4.NfsResop4) {
		openDone(c, res)
		if len(res) != lastIdx+1 {
			return
		}
		if then == "close" && resStatus(res[lastIdx]) == nfsv4.NFS4_OK {
			fh := res[2].(*nfsv4.NfsResop4_OP_GETFH).Opgetfh.(*nfsv4.Getfh4res_NFS4_OK).Resok4.Object
			if o := inc.opens[owner+"|"+string(fh)]; o != nil {
				w.modelClose(o, "closed")
				w.label("close_ok")
			}
		}
		if preserved {
			w.label("current_stateid_used:" + then)
			if via == "save_restore" {
				w.label("current_stateid_restored_by_restorefh")
			}
		}
	}
	return t
}

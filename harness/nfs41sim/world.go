package nfs41sim

import (
	"bytes"
	"context"
	"fmt"
	"os"
	"runtime/debug"
	"sort"
	"strings"
	"sync"
	"testing/synctest"
	"time"

	"github.com/buildbarn/bb-remote-execution/pkg/filesystem/virtual"
	nfsv4prog "github.com/buildbarn/bb-remote-execution/pkg/filesystem/virtual/nfsv4"
	"github.com/buildbarn/bb-storage/pkg/filesystem/path"
	"github.com/buildbarn/go-xdr/pkg/protocols/nfsv4"
	"pgregory.net/rapid"
)

const (
	leaseTime     = 60 * time.Second
	slotsPerSess  = 3
	maxOperations = 8
)

type step struct {
	N   int    `json:"n"`
	Op  string `json:"op"`
	Arg string `json:"arg,omitempty"`
	Out string `json:"out,omitempty"`
}

type violation struct{ msg string }

type park struct {
	id       int
	c        *call
	kind     string
	ch       chan struct{}
	released bool
}

type ctxKey struct{}

func callFrom(ctx context.Context) *call {
	c, _ := ctx.Value(ctxKey{}).(*call)
	return c
}

// call is one COMPOUND request in flight or completed.
type call struct {
	id    int
	desc  string
	class string // new, replay, dup, false_retry, misordered, stale_busy, bad_slot, bad_session, nonseq
	inc   *incM
	sess  *sessM
	slot  uint32
	seq   uint32
	cache bool
	orig  *call
	args  *nfsv4.Compound4args
	t     *tmpl

	// Expectation computed when the request is issued.
	mode      string         // exec, cached, wait, error, stale_busy
	expStatus nfsv4.Nfsstat4 // for mode error
	mustFalse bool           // cached mode: NFS4ERR_SEQ_FALSE_RETRY is required
	mayFalse  bool           // cached mode: NFS4ERR_SEQ_FALSE_RETRY is acceptable

	refusedBefore bool  // error mode, NFS4ERR_TOO_MANY_OPS: the same request was refused on this slot and sequence ID before
	afterRefused  *call // exec and error mode: the request that was refused with NFS4ERR_TOO_MANY_OPS on this slot and sequence ID before
	everParked    bool  // written under world.mu
	oversized     bool  // more operations than the session allows, under a sequence ID that is not the slot's next one

	// Written by the goroutines of the call, under world.mu.
	plan        map[string]bool
	park        *park
	openedLeaf  *countLeaf
	openedShare virtual.ShareMask
	done        bool
	res         *nfsv4.Compound4res
	raw         []byte
	panicMsg    string

	// Injected fault that fired (site and status name), under world.mu.
	faultFired  string
	faultStatus string

	collected bool
	dups      []*call
	earlyOK   bool
}

// tmpl is the operation list of a COMPOUND after its SEQUENCE, together
// with the model's view of it.
type tmpl struct {
	kind     string
	desc     string
	ops      []nfsv4.NfsArgop4
	atExec   func(c *call)                        // model effects and predictions when the server starts executing
	predict  func(c *call)                        // prediction that must be made right before the directory operation
	onDone   func(c *call, res []nfsv4.NfsResop4) // verify the reply, update the model
	parkOK   []string                             // park kinds that make sense for this template
	faultOK  []string                             // fault sites this template can reach
	noEffect bool                                 // documented to be refused before anything is touched
	stateOp  bool                                 // successful execution changes open or lock state
	expect   []sts                                // acceptable statuses per operation (filled by atExec/predict)
	data     map[string]any
	illegal  *illegalInfo // the operation list contains an operation NFSv4.1 does not have (see illegalop.go)
}

type fhRec struct {
	fh   []byte
	leaf *countLeaf // nil: the root directory
}

type sidRec struct {
	sid nfsv4.Stateid4
	fh  []byte
	why string
}

type world struct {
	ownerClientID *uint64 // clientid field of the lock-owner in the next LOCK/LOCKT, if not the session's
	rt  *rapid.T
	p   *profile
	ctx context.Context

	clk      *simClock
	logger   *errLogger
	nfsAlloc *virtual.NFSStatefulHandleAllocator
	progRNG  *programRNG
	realRoot virtual.PrepopulatedDirectory
	rootFH   []byte
	pool     *nfsv4prog.OpenedFilesPool
	prog     nfsv4.Nfs4Program

	mu           sync.Mutex
	leaves       []*countLeaf
	leafByHandle map[string]*countLeaf
	violations   []string
	parks        []*park
	nextParkID   int
	creating     *call // request on whose behalf the root directory is inside VirtualOpenChild

	clients  []*clientSim
	allIncs  []*incM
	allOpens []*openM
	locks    map[*countLeaf]*fileLocks
	anonHold map[*countLeaf]*[2]int
	calls    []*call
	knownFH  []fhRec
	deadSIDs []sidRec

	script []step
	stepNo int
	labels map[string]int
	excl   map[string]int

	grantedOwners map[string]bool
	notes         []string

	observer       *clientSim
	deferQuiescent bool                  // inside an observer sweep: the quiescence invariants are checked once, at its end
	probeDirty     map[*countLeaf]string // files whose lock table the observer is to sweep, and why
}

func (w *world) violateLocked(format string, args ...any) {
	w.violations = append(w.violations, fmt.Sprintf(format, args...))
}

func (w *world) failf(format string, args ...any) {
	panic(violation{msg: fmt.Sprintf(format, args...)})
}

// lockLeak reports a lock that is still held at quiescence. The bubble
// can never drain once a lock is leaked (the requests that are still
// parked will block on it when they are released, and goroutines blocked
// on a mutex are not durably blocked), so the violation is printed and the
// process ends instead of going through rt.Fatalf and shrinking.
func (w *world) lockLeak(format string, args ...any) {
	fmt.Printf("VERIF-VIOLATION property=C14 (profile %s): %s\nscript:\n%s", w.p.name, fmt.Sprintf(format, args...), formatScript(w.script))
	os.Exit(1)
}

func (w *world) label(l string) { w.labels[l]++ }

func (w *world) record(op, arg string) *step {
	caseProgress.Add(1)
	w.script = append(w.script, step{N: w.stepNo, Op: op, Arg: arg})
	return &w.script[len(w.script)-1]
}

func (w *world) setOut(out string) {
	if len(w.script) > 0 {
		s := &w.script[len(w.script)-1]
		if s.Out == "" {
			s.Out = out
		} else {
			s.Out += "; " + out
		}
	}
}

var fileNames = []string{"a", "b", "c"}

func newWorld(rt *rapid.T, p *profile) *world {
	seed := rapid.Uint64Range(0, 1<<20).Draw(rt, "rngSeed")
	nClients := rapid.IntRange(p.clients[0], p.clients[1]).Draw(rt, "nClients")
	if nClients < p.clients[1] && rapid.IntRange(0, 3).Draw(rt, "moreClients") != 0 {
		nClients++
	}
	w := newWorldWith(rt, p, seed, nClients)
	// The server draws the sequence ID that an incarnation's first
	// CREATE_SESSION has to use at random (eir_sequenceid). Any 32 bit
	// value is a valid outcome of that, so the harness, which owns the
	// random number generator, makes some of them lie just below the
	// wrap-around.
	for i := 0; i < 6; i++ {
		v := pick(w, "firstCreateSessionSequence", []int64{-1, -1, -1, 0xFFFFFFFF, 0xFFFFFFFE, 0xFFFFFFFD, 0})
		w.progRNG.uint32s = append(w.progRNG.uint32s, v)
	}
	return w
}

// programRNG is the random number generator handed to the NFSv4.1
// program. Uint32 is only used for the initial CREATE_SESSION sequence ID
// of a new client incarnation; the harness can dictate those values.
type programRNG struct {
	detRNG
	uint32s []int64 // -1: no override
}

func (r *programRNG) Uint32() uint32 {
	r.mu.Lock()
	var v int64 = -1
	if len(r.uint32s) > 0 {
		v, r.uint32s = r.uint32s[0], r.uint32s[1:]
	}
	r.mu.Unlock()
	if v >= 0 {
		return uint32(v)
	}
	return r.detRNG.Uint32()
}

func newWorldWith(rt *rapid.T, p *profile, seed uint64, nClients int) *world {
	w := &world{
		rt:           rt,
		p:            p,
		ctx:          context.Background(),
		clk:          &simClock{now: time.Unix(1_000_000, 0).UTC()},
		logger:       &errLogger{},
		leafByHandle: map[string]*countLeaf{},
		locks:        map[*countLeaf]*fileLocks{},
		anonHold:     map[*countLeaf]*[2]int{},
		labels:       map[string]int{},
		excl:         map[string]int{},

		grantedOwners: map[string]bool{},
		progRNG:       &programRNG{detRNG: detRNG{ctr: seed*7919 + 17}},
	}
	w.nfsAlloc = virtual.NewNFSHandleAllocator(&detRNG{ctr: seed * 1000003})
	setter := func(requested virtual.AttributesMask, attributes *virtual.Attributes) {}
	files := &outerAllocator{w: w, base: virtual.NewHandleAllocatingFileAllocator(&innerAllocator{w: w}, w.nfsAlloc)}
	links := virtual.NewHandleAllocatingSymlinkFactory(virtual.NewBaseSymlinkFactory(setter), w.nfsAlloc.New(), path.UNIXFormat)
	w.realRoot = virtual.NewInMemoryPrepopulatedDirectory(
		files, links, w.logger, w.nfsAlloc, sort.Sort, func(string) bool { return false },
		w.clk, virtual.CaseSensitiveComponentNormalizer, setter, virtual.NoNamedAttributesFactory)
	var attributes virtual.Attributes
	w.realRoot.VirtualGetAttributes(w.ctx, virtual.AttributesMaskFileHandle, &attributes)
	w.rootFH = append([]byte(nil), attributes.GetFileHandle()...)
	w.knownFH = append(w.knownFH, fhRec{fh: w.rootFH})

	// Two files exist from the start.
	for _, name := range fileNames[:2] {
		var out virtual.Attributes
		leaf, _, _, s := w.realRoot.VirtualOpenChild(w.ctx, path.MustNewComponent(name), virtual.ShareMaskWrite, (&virtual.Attributes{}).SetSizeBytes(4), nil, virtual.AttributesMaskFileHandle, &out)
		if s != virtual.StatusOK {
			panic(fmt.Sprintf("nfs41sim: cannot create initial file: status %d", s))
		}
		leaf.VirtualClose(virtual.ShareMaskWrite)
	}

	w.pool = nfsv4prog.NewOpenedFilesPool(w.nfsAlloc.ResolveHandle)
	w.prog = nfsv4prog.NewNFS41Program(
		&parkDir{Directory: w.realRoot, w: w},
		w.pool,
		nfsv4.ServerOwner4{SoMinorId: 1, SoMajorId: []byte("verif")},
		[]byte("scope"),
		&nfsv4.ChannelAttrs4{
			CaHeaderpadsize:         0,
			CaMaxrequestsize:        1 << 20,
			CaMaxresponsesize:       1 << 20,
			CaMaxresponsesizeCached: 1 << 16,
			CaMaxoperations:         maxOperations,
			CaMaxrequests:           slotsPerSess,
		},
		w.progRNG,
		nfsv4.Verifier4{1, 2, 3, 4, 5, 6, 7, 8},
		w.clk,
		leaseTime, leaseTime,
		path.UNIXFormat,
		nil,
	)
	for i := 0; i < nClients; i++ {
		w.clients = append(w.clients, &clientSim{idx: i, ownerID: []byte(fmt.Sprintf("client-%d", i))})
	}
	return w
}

// ---------------------------------------------------------------- parks

func (w *world) maybePark(ctx context.Context, kind string) {
	c := callFrom(ctx)
	if c == nil {
		return
	}
	w.mu.Lock()
	if !c.plan[kind] {
		w.mu.Unlock()
		return
	}
	delete(c.plan, kind)
	p := &park{id: w.nextParkID, c: c, kind: kind, ch: make(chan struct{})}
	w.nextParkID++
	w.parks = append(w.parks, p)
	c.park = p
	c.everParked = true
	w.mu.Unlock()
	<-p.ch
	w.mu.Lock()
	c.park = nil
	w.mu.Unlock()
}

func (w *world) pendingParks() []*park {
	w.mu.Lock()
	defer w.mu.Unlock()
	var out []*park
	for _, p := range w.parks {
		if !p.released {
			out = append(out, p)
		}
	}
	return out
}

func (w *world) parkOf(c *call) *park {
	w.mu.Lock()
	defer w.mu.Unlock()
	if c.park != nil && !c.park.released {
		return c.park
	}
	return nil
}

// release lets a parked request continue and waits for quiescence.
func (w *world) release(p *park) {
	if p.kind == "open_before" && p.c.t != nil && p.c.t.predict != nil {
		// The directory operation is about to run: predict now.
		p.c.t.predict(p.c)
	}
	w.mu.Lock()
	p.released = true
	w.mu.Unlock()
	close(p.ch)
	synctest.Wait()
	w.mustHaveReturned(p.c)
	w.collect()
}

// ---------------------------------------------------------------- running compounds

func encodeRes(res *nfsv4.Compound4res) []byte {
	var b bytes.Buffer
	if _, err := res.WriteTo(&b); err != nil {
		panic(fmt.Sprintf("nfs41sim: cannot encode reply: %v", err))
	}
	return b.Bytes()
}

func encodeResop(r nfsv4.NfsResop4) []byte {
	var b bytes.Buffer
	if _, err := r.WriteTo(&b); err != nil {
		panic(fmt.Sprintf("nfs41sim: cannot encode result: %v", err))
	}
	return b.Bytes()
}

func encodeArgs(ops []nfsv4.NfsArgop4) []byte {
	var b bytes.Buffer
	for _, op := range ops {
		if _, err := op.WriteTo(&b); err != nil {
			panic(fmt.Sprintf("nfs41sim: cannot encode request: %v", err))
		}
	}
	return b.Bytes()
}

// start runs the COMPOUND of c in its own goroutine and waits for
// quiescence. It does not look at the result. (Also a request that is
// not expected to block - it is not going to park and does not wait for
// another request - gets a goroutine of its own: if it blocks on a channel
// nevertheless, e.g. because an earlier, refused request left its slot
// marked busy, the harness regains control and reports it; see
// mustHaveReturned.)
func (w *world) start(c *call) {
	c.id = len(w.calls)
	w.calls = append(w.calls, c)
	ctx := context.WithValue(w.ctx, ctxKey{}, c)
	run := func() {
		var res *nfsv4.Compound4res
		var panicMsg string
		func() {
			defer func() {
				if r := recover(); r != nil {
					panicMsg = fmt.Sprintf("%v\n%s", r, debug.Stack())
				}
			}()
			var err error
			res, err = w.prog.NfsV4Nfsproc4Compound(ctx, c.args)
			if err != nil {
				panicMsg = fmt.Sprintf("COMPOUND returned a Go error: %v", err)
			}
		}()
		var raw []byte
		if res != nil {
			raw = encodeRes(res)
		}
		w.mu.Lock()
		c.res, c.raw, c.panicMsg, c.done = res, raw, panicMsg, true
		w.mu.Unlock()
	}
	go run()
	synctest.Wait()
}

// mustHaveReturned: at quiescence a request has returned unless the
// harness parked it (inside leaf I/O, around VirtualOpenChild) or it is a
// duplicate that waits for the original on whose slot and sequence ID it
// arrived. Anything else is blocked on a channel that no request of the
// case is going to serve: every other goroutine of the bubble is idle.
func (w *world) mustHaveReturned(c *call) {
	if w.isDone(c) || w.parkOf(c) != nil {
		return
	}
	if c.mode == "wait" && c.orig != nil && !c.orig.collected {
		return
	}
	where := ""
	if c.sess != nil {
		where = fmt.Sprintf(" on %s slot %d sequence %d", c.sess, c.slot, c.seq)
		if r := c.afterRefused; r != nil {
			where += fmt.Sprintf(" (the previous request on that slot and sequence ID, #%d, was refused with NFS4ERR_TOO_MANY_OPS: a refused request does not consume the sequence ID and must not leave the slot busy)", r.id)
		}
	}
	w.failf("C14/C19 (liveness): request #%d %q (%s%s; the model expects: %s) never returns: it is neither parked by the harness nor a duplicate of a request that is still being processed, and every goroutine of the case is idle, so it waits for something that nothing is ever going to provide (a slot or lock left behind by an earlier request)", c.id, c.desc, c.class, where, c.mode)
}

func (w *world) isDone(c *call) bool {
	w.mu.Lock()
	defer w.mu.Unlock()
	return c.done
}

// collect processes every request that completed since the last time,
// in the order in which the requests were issued.
func (w *world) collect() {
	for _, c := range w.calls {
		if c.collected || !w.isDone(c) {
			continue
		}
		if c.mode == "wait" && !c.orig.collected {
			// Answered before the original completed.
			w.checkEarlyDup(c)
			continue
		}
		c.collected = true
		w.finish(c)
	}
	if w.deferQuiescent {
		// Inside an observer sweep only the locks are probed after every
		// request, so that a leaked lock is reported before the next
		// request can block on it.
		w.checkLocksFree()
	} else {
		w.checkQuiescent()
	}
}

// checkLocksFree: the TryLock probes alone.
func (w *world) checkLocksFree() {
	w.mu.Lock()
	viol := append([]string(nil), w.violations...)
	w.mu.Unlock()
	if len(viol) > 0 {
		w.failf("%s", strings.Join(viol, "\n"))
	}
	if _, ok := nfsv4prog.VerifStateCounts(w.prog); !ok {
		w.lockLeak("the lock of the NFSv4.1 program or of a client incarnation without a request in flight is still held at quiescence: a request returned without releasing it (VerifStateCounts could not acquire it)")
	}
	w.checkClientLocksFree()
	if _, ok := w.pool.VerifUseCount(); !ok {
		w.lockLeak("the lock of the opened files pool or the byte-range lock table lock of an opened file is still held at quiescence: a request returned without releasing it")
	}
	if !w.nfsAlloc.VerifNFSHandlePoolLockIsFree() {
		w.lockLeak("the lock of the NFS handle pool is still held at quiescence: a call returned without releasing it")
	}
}

// checkClientLocksFree: the lock of every client incarnation, including
// those that have requests in flight. At quiescence every request of the
// case has returned, waits for the original of which it is a duplicate
// (outside of all locks), or is parked by the harness inside
// VirtualRead/VirtualWrite or around VirtualOpenChild, all of which the
// program calls without holding a client incarnation's lock. So a lock
// that cannot be acquired was leaked by an operation that has returned.
func (w *world) checkClientLocksFree() {
	if !nfsv4prog.VerifClientLocksFree(w.prog) {
		w.mu.Lock()
		var parked []string
		for _, p := range w.parks {
			if !p.released {
				parked = append(parked, fmt.Sprintf("#%d at %s", p.c.id, p.kind))
			}
		}
		w.mu.Unlock()
		w.lockLeak("the lock of a client incarnation (or of the NFSv4.1 program) is still held at quiescence although no request is executing inside the program (parked by the harness outside of all program locks: %v): an operation returned without releasing it (VerifClientLocksFree)", parked)
	}
}

func statusOf(res *nfsv4.Compound4res) string {
	if res == nil {
		return "<nil>"
	}
	var b strings.Builder
	b.WriteString(shortStatus(res.Status))
	if n := len(res.Resarray); n > 0 {
		fmt.Fprintf(&b, "/%d", n)
	}
	return b.String()
}

func shortStatus(st nfsv4.Nfsstat4) string {
	s := fmt.Sprintf("%v", st)
	if n, ok := statusNames[st]; ok {
		s = n
	}
	return s
}

var statusNames = map[nfsv4.Nfsstat4]string{
	nfsv4.NFS4_OK:                     "OK",
	nfsv4.NFS4ERR_BADSESSION:          "BADSESSION",
	nfsv4.NFS4ERR_BADSLOT:             "BADSLOT",
	nfsv4.NFS4ERR_BAD_STATEID:         "BAD_STATEID",
	nfsv4.NFS4ERR_OLD_STATEID:         "OLD_STATEID",
	nfsv4.NFS4ERR_SEQ_MISORDERED:      "SEQ_MISORDERED",
	nfsv4.NFS4ERR_SEQ_FALSE_RETRY:     "SEQ_FALSE_RETRY",
	nfsv4.NFS4ERR_RETRY_UNCACHED_REP:  "RETRY_UNCACHED_REP",
	nfsv4.NFS4ERR_STALE:               "STALE",
	nfsv4.NFS4ERR_STALE_CLIENTID:      "STALE_CLIENTID",
	nfsv4.NFS4ERR_CLIENTID_BUSY:       "CLIENTID_BUSY",
	nfsv4.NFS4ERR_DELAY:               "DELAY",
	nfsv4.NFS4ERR_DENIED:              "DENIED",
	nfsv4.NFS4ERR_INVAL:               "INVAL",
	nfsv4.NFS4ERR_NOENT:               "NOENT",
	nfsv4.NFS4ERR_EXIST:               "EXIST",
	nfsv4.NFS4ERR_ISDIR:               "ISDIR",
	nfsv4.NFS4ERR_OPENMODE:            "OPENMODE",
	nfsv4.NFS4ERR_LOCKS_HELD:          "LOCKS_HELD",
	nfsv4.NFS4ERR_NOTDIR:              "NOTDIR",
	nfsv4.NFS4ERR_NOT_ONLY_OP:         "NOT_ONLY_OP",
	nfsv4.NFS4ERR_OP_NOT_IN_SESSION:   "OP_NOT_IN_SESSION",
	nfsv4.NFS4ERR_TOO_MANY_OPS:        "TOO_MANY_OPS",
	nfsv4.NFS4ERR_NOFILEHANDLE:        "NOFILEHANDLE",
	nfsv4.NFS4ERR_SEQUENCE_POS:        "SEQUENCE_POS",
	nfsv4.NFS4ERR_MINOR_VERS_MISMATCH: "MINOR_VERS_MISMATCH",
	nfsv4.NFS4ERR_IO:                  "IO",
	nfsv4.NFS4ERR_ACCESS:              "ACCESS",
	nfsv4.NFS4ERR_RECLAIM_BAD:         "RECLAIM_BAD",
	nfsv4.NFS4ERR_NO_GRACE:            "NO_GRACE",
	nfsv4.NFS4ERR_NOTSUPP:             "NOTSUPP",
	nfsv4.NFS4ERR_SHARE_DENIED:        "SHARE_DENIED",
	nfsv4.NFS4ERR_XDEV:                "XDEV",
	nfsv4.NFS4ERR_OP_ILLEGAL:          "OP_ILLEGAL",
}

// ---------------------------------------------------------------- lease model

// sweep mirrors what every entry into the program does first: client
// incarnations that are idle and whose lease ran out are reclaimed.
func (w *world) sweep() int {
	now := w.clk.Now()
	n := 0
	for _, inc := range w.allIncs {
		if inc.gone || inc.holds > 0 {
			continue
		}
		if inc.lastRenew.Before(now.Add(-leaseTime)) {
			w.reclaim(inc, "lease expired")
			w.label("reclaim:expired")
			n++
		}
	}
	return n
}

// reclaim removes every record of an incarnation from the model.
func (w *world) reclaim(inc *incM, why string) {
	if inc.holds > 0 {
		w.failf("harness: model reclaims %s while it holds requests", inc)
	}
	hadState := false
	for _, key := range sortedKeys(inc.opens) {
		w.modelClose(inc.opens[key], why)
		hadState = true
	}
	if hadState {
		w.label("reclaim_with_state")
		w.label("reclaim_with_state:" + strings.Fields(why)[0])
	}
	inc.gone = true
	inc.goneWhy = why
	if inc.client.confirmed == inc {
		inc.client.confirmed = nil
	}
}

// modelClose removes open state and everything hanging off it.
func (w *world) modelClose(o *openM, why string) {
	for _, lk := range sortedKeys(o.locks) {
		l := o.locks[lk]
		w.modelFreeLock(l, why, true)
	}
	o.closed = true
	w.markProbe(o.leaf, strings.Fields(why)[0])
	delete(o.inc.opens, o.owner+"|"+string(o.fh))
	delete(o.inc.byOther, o.other)
	w.deadSIDs = append(w.deadSIDs, sidRec{sid: mkStateID(o.seq, o.other), fh: o.fh, why: why})
}

// modelFreeLock removes lock state. With unlock set, all bytes the
// lock-owner holds on that file are released (CLOSE, lease expiry,
// re-registration: POSIX record-lock semantics, the byte map is keyed by
// owner and file); FREE_STATEID is only granted when there are none.
func (w *world) modelFreeLock(l *lockM, why string, unlock bool) {
	if unlock {
		if fl := w.locks[l.open.leaf]; fl != nil {
			if fl.holds(l.ownerKey()) {
				w.label("locks_released_by:" + strings.Fields(why)[0])
			}
			fl.set(l.ownerKey(), 0, lockUnits, 0)
		}
	}
	l.freed = true
	w.markProbe(l.open.leaf, strings.Fields(why)[0])
	delete(l.open.locks, l.owner)
	delete(l.open.inc.byOther, l.other)
	w.deadSIDs = append(w.deadSIDs, sidRec{sid: mkStateID(l.seq, l.other), fh: l.open.fh, why: why})
}

func sortedKeys[V any](m map[string]V) []string {
	keys := make([]string, 0, len(m))
	for k := range m {
		keys = append(keys, k)
	}
	sort.Strings(keys)
	return keys
}

// ---------------------------------------------------------------- quiescence invariants

func (w *world) expectedOutstanding(l *countLeaf, bit int) int {
	acc := accR
	share := virtual.ShareMaskRead
	if bit == bitW {
		acc = accW
		share = virtual.ShareMaskWrite
	}
	n := 0
	for _, o := range w.allOpens {
		if o.leaf != l {
			continue
		}
		held := o.ioHold[bit] > 0
		if !o.closed {
			if o.access&acc != 0 {
				held = true
			}
			for _, lk := range o.locks {
				if !lk.freed && lk.access&acc != 0 {
					held = true
				}
			}
		}
		if held {
			n++
		}
	}
	if h := w.anonHold[l]; h != nil {
		n += h[bit]
	}
	for _, c := range w.calls {
		if !c.collected && c.openedLeaf == l && c.openedShare&share != 0 {
			n++
		}
	}
	return n
}

func (w *world) checkQuiescent() {
	w.mu.Lock()
	viol := append([]string(nil), w.violations...)
	type cnt struct{ out [2]int }
	counts := make([]cnt, len(w.leaves))
	for i, l := range w.leaves {
		counts[i].out = [2]int{l.outstandingLocked(bitR), l.outstandingLocked(bitW)}
	}
	leaves := append([]*countLeaf(nil), w.leaves...)
	w.mu.Unlock()
	if len(viol) > 0 {
		w.failf("%s", strings.Join(viol, "\n"))
	}
	for _, c := range w.calls {
		if c.panicMsg != "" {
			w.failf("panic in the code under test during %s: %s", c.desc, c.panicMsg)
		}
	}
	if !w.p.oracle["acct"] {
		return
	}
	for i, l := range leaves {
		for bit := 0; bit < 2; bit++ {
			if exp := w.expectedOutstanding(l, bit); counts[i].out[bit] != exp {
				w.failf("C18: %s is open for %s %d time(s), but the replies imply that %d holder(s) (open state, lock state, in-flight I/O) are entitled to it", l, bitNames[bit], counts[i].out[bit], exp)
			}
		}
	}
	w.checkCounts()
}

// modelCounts is what VerifStateCounts must report according to the model.
func (w *world) modelCounts() map[string]int {
	m := map[string]int{}
	owners := map[string]bool{}
	for _, inc := range w.allIncs {
		if inc.gone {
			continue
		}
		owners[string(inc.client.ownerID)] = true
		m["client_incarnations"]++
		m["hold_count"] += inc.holds
		for _, s := range inc.sessions {
			if !s.destroyed {
				m["sessions"]++
			}
		}
		if inc.holds > 0 {
			continue
		}
		m["idle_client_incarnations"]++
		oo := map[string]bool{}
		lo := map[string]bool{}
		for _, o := range inc.opens {
			oo[o.owner] = true
			m["open_owner_files"]++
			for _, l := range o.locks {
				lo[l.owner] = true
				m["lock_owner_files"]++
			}
		}
		m["open_owners"] += len(oo)
		m["lock_owners"] += len(lo)
	}
	m["clients"] = len(owners)
	return m
}

func (w *world) checkCounts() {
	got, ok := nfsv4prog.VerifStateCounts(w.prog)
	if !ok {
		w.lockLeak("the lock of the NFSv4.1 program or of a client incarnation without a request in flight is still held at quiescence: a request returned without releasing it (VerifStateCounts could not acquire it)")
	}
	w.checkClientLocksFree()
	exp := w.modelCounts()
	for _, k := range []string{"clients", "client_incarnations", "sessions", "hold_count", "idle_client_incarnations", "open_owners", "open_owner_files", "lock_owner_files"} {
		if got[k] != exp[k] {
			w.failf("C18: the program retains %d %s, but the history implies %d (program: %v, model: %v)", got[k], k, exp[k], got, exp)
		}
	}
	if got["lock_owners"] > exp["lock_owners"] {
		w.failf("C18: the program retains %d lock_owners, but the history implies at most %d", got["lock_owners"], exp["lock_owners"])
	}
	poolCount, ok := w.pool.VerifOpenedCount()
	if !ok {
		w.lockLeak("the lock of the opened files pool is still held at quiescence: a request returned without releasing it")
	}
	open := map[*countLeaf]bool{}
	for _, o := range w.allOpens {
		if !o.closed {
			open[o.leaf] = true
		}
	}
	if poolCount != len(open) {
		w.failf("C18: the opened files pool tracks %d files, but the replies imply %d files are open", poolCount, len(open))
	}
	if _, ok := w.pool.VerifUseCount(); !ok {
		w.lockLeak("the lock of the opened files pool or the byte-range lock table lock of an opened file is still held at quiescence: a request returned without releasing it")
	}
	if !w.nfsAlloc.VerifNFSHandlePoolLockIsFree() {
		w.lockLeak("the lock of the NFS handle pool is still held at quiescence: a call returned without releasing it")
	}
}

// ---------------------------------------------------------------- helpers over the real file system

// lookupTruth asks the real root directory which leaf a name refers to.
func (w *world) lookupTruth(name string) *countLeaf {
	var attributes virtual.Attributes
	child, s := w.realRoot.VirtualLookup(w.ctx, path.MustNewComponent(name), 0, &attributes)
	if s != virtual.StatusOK {
		return nil
	}
	_, leaf := child.GetPair()
	return identify(leaf)
}

func (w *world) rootChangeID() uint64 {
	var attributes virtual.Attributes
	w.realRoot.VirtualGetAttributes(w.ctx, virtual.AttributesMaskChangeID, &attributes)
	return attributes.GetChangeID()
}

func (w *world) leafLinked(l *countLeaf) bool {
	w.mu.Lock()
	defer w.mu.Unlock()
	return l.links > 0
}

func (w *world) leafHasLiveOpen(l *countLeaf) bool {
	for _, o := range w.allOpens {
		if o.leaf == l && !o.closed {
			return true
		}
	}
	return false
}

// predictPutFH: a file handle resolves while the file is linked or open.
func (w *world) predictPutFH(fh []byte) (nfsv4.Nfsstat4, *countLeaf) {
	if bytes.Equal(fh, w.rootFH) {
		return nfsv4.NFS4_OK, nil
	}
	l := w.leafByHandle[string(fh)]
	if l == nil {
		return nfsv4.NFS4ERR_STALE, nil
	}
	if w.leafLinked(l) || w.leafHasLiveOpen(l) {
		return nfsv4.NFS4_OK, l
	}
	return nfsv4.NFS4ERR_STALE, l
}

// snapshot captures everything a request that must not execute is not
// allowed to change.
type snapshot struct {
	leafCounters string
	rootChange   uint64
	counts       string
	nLeaves      int
}

func (w *world) snapshot() snapshot {
	var b strings.Builder
	w.mu.Lock()
	for _, l := range w.leaves {
		fmt.Fprintf(&b, "%d:%v/%v/%d/%d/%d;", l.id, l.opens, l.closes, l.ioStarted, l.changeID, l.links)
	}
	n := len(w.leaves)
	w.mu.Unlock()
	got, _ := nfsv4prog.VerifStateCounts(w.prog)
	return snapshot{leafCounters: b.String(), rootChange: w.rootChangeID(), counts: fmt.Sprintf("%v", got), nLeaves: n}
}

func (s snapshot) diff(t snapshot) string {
	var d []string
	if s.leafCounters != t.leafCounters {
		d = append(d, fmt.Sprintf("leaf open/close/IO counters %s -> %s", s.leafCounters, t.leafCounters))
	}
	if s.rootChange != t.rootChange {
		d = append(d, fmt.Sprintf("root directory change ID %d -> %d", s.rootChange, t.rootChange))
	}
	if s.counts != t.counts {
		d = append(d, fmt.Sprintf("state record counts %s -> %s", s.counts, t.counts))
	}
	if s.nLeaves != t.nLeaves {
		d = append(d, fmt.Sprintf("files created %d -> %d", s.nLeaves, t.nLeaves))
	}
	return strings.Join(d, "; ")
}

package nfs41sim

import (
	"os"
	"runtime/debug"
	"testing"
)

// The cases allocate many small short-lived objects (requests, replies,
// script lines) on a small live heap, so the default GC target makes the
// collector run constantly. A larger target trades some tens of MB for
// about a quarter of the run time.
func TestMain(m *testing.M) {
	if os.Getenv("GOGC") == "" {
		debug.SetGCPercent(400)
	}
	os.Exit(m.Run())
}

package nfs41sim

import (
	"fmt"

	"github.com/buildbarn/go-xdr/pkg/protocols/nfsv4"
)

// COMPOUNDs measured against the limits of their session.
//
// CREATE_SESSION negotiates, per channel, ca_maxoperations (operations per
// COMPOUND, SEQUENCE included), ca_maxrequestsize, ca_maxresponsesize and
// ca_maxresponsesize_cached (RFC 8881 section 18.36.3). The program grants
// the configured ca_maxoperations whatever the client asks for and the
// minimum of the requested and the configured value for the three sizes;
// of the four it polices ca_maxoperations only (there is no
// NFS4ERR_REQ_TOO_BIG, NFS4ERR_REP_TOO_BIG or NFS4ERR_REP_TOO_BIG_TO_CACHE
// in it), so that is the limit the harness crosses. The clients ask for
// less than, exactly and more than the configured value; the model takes
// the limit of a session from the CREATE_SESSION reply.
//
// What must happen to a COMPOUND with more operations than granted (RFC
// 8881 sections 18.36.3 and 18.46.3, opSequence): the sequence ID is
// looked at first (a retransmission, a misordered one and a duplicate of a
// request in progress are answered as such); with the slot's next sequence
// ID the SEQUENCE fails with NFS4ERR_TOO_MANY_OPS, which is the only result,
// nothing is executed, and the slot's sequence ID is not consumed: a
// retransmission is refused in the same way, and the next request that
// carries this sequence ID is a new request, which is executed like any
// other one (it neither blocks nor is it treated as a replay). A COMPOUND of
// exactly the granted size is executed.

// paddedBases: the templates that are padded. All of them leave the
// session and the client alone, so that the operations behind them are
// reached whenever they succeed.
var paddedBases = []string{"noop", "putrootfh", "lookup", "open", "open", "open_fh", "read", "write", "setattr", "close", "downgrade", "lock_new", "lock_existing", "locku", "lockt", "free_stateid", "test_stateid", "remove", "probe"}

func (w *world) opsLimit(sess *sessM) int {
	if sess != nil && sess.maxOps > 0 {
		return sess.maxOps
	}
	return maxOperations
}

// buildTemplateFor is buildTemplate for a request on sess; the two kinds
// that depend on the limits of the session are handled here.
func (w *world) buildTemplateFor(sess *sessM, kind string) *tmpl {
	switch kind {
	case "too_many_ops":
		excess := w.draw("excessOperations", 1, 4)
		return w.tTooManyOps(sess, w.buildTemplate(sess.inc, pick(w, "oversizedBase", paddedBases)), excess)
	case "max_ops":
		return w.tMaxOps(sess, w.buildTemplate(sess.inc, pick(w, "paddedBase", paddedBases)))
	}
	return w.buildTemplate(sess.inc, kind)
}

// tracePadding: operations that would leave traces if they were executed
// (a REMOVE, a creating and truncating OPEN), between harmless ones.
func (w *world) tracePadding(inc *incM, n int) ([]nfsv4.NfsArgop4, string) {
	var ops []nfsv4.NfsArgop4
	desc := ""
	for i := 0; len(ops) < n; i++ {
		switch i % 5 {
		case 0, 2:
			ops = append(ops, &nfsv4.NfsArgop4_OP_PUTROOTFH{})
			desc += "; PUTROOTFH"
		case 1:
			ops = append(ops, &nfsv4.NfsArgop4_OP_REMOVE{Opremove: nfsv4.Remove4args{Target: fileNames[0]}})
			desc += fmt.Sprintf("; REMOVE %q", fileNames[0])
		case 3:
			ops = append(ops, &nfsv4.NfsArgop4_OP_OPEN{Opopen: nfsv4.Open4args{
				ShareAccess: nfsv4.OPEN4_SHARE_ACCESS_BOTH,
				ShareDeny:   nfsv4.OPEN4_SHARE_DENY_NONE,
				Owner:       nfsv4.OpenOwner4{Clientid: inc.clientID, Owner: []byte(openOwners[0])},
				Openhow:     openHow("unchecked_trunc"),
				Claim:       &nfsv4.OpenClaim4_CLAIM_NULL{File: fileNames[2]},
			}})
			desc += fmt.Sprintf("; OPEN(CLAIM_NULL %q, unchecked_trunc)", fileNames[2])
		case 4:
			ops = append(ops, &nfsv4.NfsArgop4_OP_GETFH{})
			desc += "; GETFH"
		}
	}
	return ops, desc
}

// tTooManyOps: the operations of an ordinary request (base) followed by
// padding, excess operations more than the session allows. It is never
// executed.
func (w *world) tTooManyOps(sess *sessM, base *tmpl, excess int) *tmpl {
	total := w.opsLimit(sess) - 1 + excess
	t := &tmpl{kind: "too_many_ops", data: map[string]any{}}
	t.ops = append([]nfsv4.NfsArgop4(nil), base.ops...)
	pad, padDesc := w.tracePadding(sess.inc, total-len(t.ops))
	t.ops = append(t.ops, pad...)
	t.desc = fmt.Sprintf("(%d operations behind SEQUENCE, the session allows %d) %s%s", len(t.ops), w.opsLimit(sess)-1, base.desc, padDesc)
	t.atExec = func(c *call) {
		w.failf("harness: the oversized request %q was expected to be executed", t.desc)
	}
	return t
}

// tMaxOps: an ordinary request (t) padded with PUTROOTFH and GETFH to exactly
// the number of operations the session allows. The template is changed in
// place (its closures refer to it), like withIllegalOp does: the model's
// view of its own operations stays what it was; if all of them can succeed
// the padding is reached, and all of it succeeds.
func (w *world) tMaxOps(sess *sessM, t *tmpl) *tmpl {
	nBase := len(t.ops)
	nPad := w.opsLimit(sess) - 1 - nBase
	if nPad <= 0 {
		return t
	}
	var pad []nfsv4.NfsArgop4
	for i := 0; i < nPad; i++ {
		if i%2 == 0 {
			pad = append(pad, &nfsv4.NfsArgop4_OP_PUTROOTFH{})
		} else {
			pad = append(pad, &nfsv4.NfsArgop4_OP_GETFH{})
		}
	}
	t.kind = "max_ops_after_" + t.kind
	if nBase == 0 {
		t.desc = ""
	} else {
		t.desc += "; "
	}
	t.desc += fmt.Sprintf("%d x PUTROOTFH/GETFH (%d operations behind SEQUENCE: the most the session allows)", nPad, nBase+nPad)
	t.ops = append(append([]nfsv4.NfsArgop4(nil), t.ops...), pad...)

	extend := func() {
		if len(t.expect) == nBase && (nBase == 0 || hasStatus(t.expect[nBase-1], nfsv4.NFS4_OK)) {
			t.expect = t.expect[:nBase:nBase]
			for range pad {
				t.expect = append(t.expect, one(nfsv4.NFS4_OK))
			}
		}
	}
	baseAtExec, basePredict, baseDone := t.atExec, t.predict, t.onDone
	if basePredict != nil {
		t.predict = func(c *call) {
			basePredict(c)
			extend()
		}
	} else {
		t.atExec = func(c *call) {
			if baseAtExec != nil {
				baseAtExec(c)
			}
			extend()
		}
	}
	t.onDone = func(c *call, res []nfsv4.NfsResop4) {
		if baseDone != nil {
			n := len(res)
			if n > nBase {
				n = nBase
			}
			baseDone(c, res[:n:n])
		}
		for i := nBase; i < len(res); i++ {
			if i%2 != nBase%2 {
				// GETFH behind PUTROOTFH.
				if r, ok := res[i].(*nfsv4.NfsResop4_OP_GETFH); ok {
					if fh, ok := r.Opgetfh.(*nfsv4.Getfh4res_NFS4_OK); ok && string(fh.Resok4.Object) != string(w.rootFH) {
						w.failf("C18: GETFH behind PUTROOTFH (operation %d of %q) returned %x, which is not the root file handle", i+1, c.desc, fh.Resok4.Object)
					}
				}
			}
		}
	}
	return t
}

// seqActionOn is seqAction on a given slot: a new request with the slot's
// next sequence ID.
func (w *world) seqActionOn(sess *sessM, slot uint32, kind string, forcePark bool) *call {
	t := w.buildTemplateFor(sess, kind)
	if !forcePark && t.kind != "too_many_ops" && w.pct("dropPutFH", 3) {
		t = w.withoutFileHandle(t)
	}
	plan := map[string]bool{}
	if len(t.parkOK) > 0 && (forcePark || w.pct("park", w.p.parkPct)) {
		plan[pick(w, "parkAt", t.parkOK)] = true
	}
	if len(t.faultOK) > 0 && w.p.faultPct > 0 && w.pct("fault", w.p.faultPct) {
		site := pick(w, "faultSite", t.faultOK)
		plan["fault:"+site+":"+pick(w, "faultStatus", faultKinds[site])] = true
	}
	class := "new"
	if t.kind == "too_many_ops" {
		class = "too_many_ops"
	}
	c := w.sendSeq(sess, slot, sess.slots[slot].lastSeq+1, class, t, w.pct("cachethis", w.p.cachePct), plan, nil)
	w.learnSessionFate(c)
	return c
}

// tooManyOpsAction sends a COMPOUND with more operations than its session
// allows on an idle slot, with the slot's next sequence ID, and most of the
// time follows it up on the same slot: with a retransmission (refused
// again), with another oversized request, with a retransmission of the
// request the slot executed before (whose reply the server may or may not
// retain), and with what the refusal must not get in the way of: a new
// request of acceptable size that carries the same sequence ID, which has
// to be executed, parked or not. (Without the follow-up the other actions
// get to such a slot as well, sooner or later.)
func (w *world) tooManyOpsAction() {
	sess, slot := w.needSession()
	if sess == nil {
		return
	}
	sl := sess.slots[slot]
	seq := sl.lastSeq + 1
	c := w.sendSeq(sess, slot, seq, "too_many_ops", w.buildTemplateFor(sess, "too_many_ops"), w.pct("cachethis", w.p.cachePct), nil, nil)
	w.learnSessionFate(c)
	for i := 0; i < 3; i++ {
		if c.mode != "error" || c.expStatus != nfsv4.NFS4ERR_TOO_MANY_OPS || !sess.live() || sess.clientKnowsDead || sl.busy != nil || sl.lastSeq+1 != seq {
			return
		}
		switch pick(w, "tooManyOpsFollowUp", []string{"none", "retransmit", "retransmit", "oversized_again", "previous", "reuse", "reuse", "reuse", "reuse_parked", "reuse_parked"}) {
		case "none":
			return
		case "retransmit":
			r := w.sendSeq(sess, slot, seq, "too_many_ops_retransmitted", c.t, c.cache, nil, nil)
			w.learnSessionFate(r)
		case "oversized_again":
			r := w.sendSeq(sess, slot, seq, "too_many_ops", w.buildTemplateFor(sess, "too_many_ops"), w.pct("cachethis", w.p.cachePct), nil, nil)
			w.learnSessionFate(r)
		case "previous":
			if d := sl.dropped; d != nil {
				r := w.sendSeq(sess, slot, sl.lastSeq, "replay_after_too_many_ops", d.t, d.cache, nil, d)
				w.learnSessionFate(r)
			}
		case "reuse":
			w.seqActionOn(sess, slot, pick(w, "template", templateKinds), false)
			return
		case "reuse_parked":
			w.seqActionOn(sess, slot, pick(w, "template", []string{"read", "write", "open", "open"}), true)
			return
		}
	}
}

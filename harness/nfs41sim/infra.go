// Package nfs41sim drives the real NFSv4.1 program
// (pkg/filesystem/virtual/nfsv4/nfs41_program.go) of bb-remote-execution,
// wired to the real in-memory prepopulated directory, the real NFS handle
// allocator and the real opened files pool, with generated multi-client
// COMPOUND histories under a harness-owned clock and schedule
// (testing/synctest). It checks the NFSv4.1 parts of the properties C18
// (open/lock state accounting and reclamation), C19 (exactly-once
// execution and replay) and C20(b) (byte-range locks through the
// protocol).
package nfs41sim

import (
	"context"
	"errors"
	"fmt"
	"sort"
	"strings"
	"sync"
	"time"

	"github.com/buildbarn/bb-remote-execution/pkg/filesystem/pool"
	"github.com/buildbarn/bb-remote-execution/pkg/filesystem/virtual"
	"github.com/buildbarn/bb-storage/pkg/clock"
	"github.com/buildbarn/bb-storage/pkg/filesystem"
	"github.com/buildbarn/bb-storage/pkg/filesystem/path"
)

// ---------------------------------------------------------------- clock

// simClock is a manually advanced clock. The NFSv4.1 program only calls
// Now(); the other methods exist to satisfy clock.Clock.
type simClock struct {
	mu  sync.Mutex
	now time.Time
}

func (c *simClock) Now() time.Time {
	c.mu.Lock()
	defer c.mu.Unlock()
	return c.now
}

func (c *simClock) advance(d time.Duration) {
	c.mu.Lock()
	c.now = c.now.Add(d)
	c.mu.Unlock()
}

func (c *simClock) NewContextWithTimeout(parent context.Context, timeout time.Duration) (context.Context, context.CancelFunc) {
	panic("nfs41sim: clock.NewContextWithTimeout is not expected to be used by the NFSv4.1 program")
}

func (c *simClock) NewTimer(d time.Duration) (clock.Timer, <-chan time.Time) {
	panic("nfs41sim: clock.NewTimer is not expected to be used by the NFSv4.1 program")
}

func (c *simClock) NewTicker(d time.Duration) (clock.Ticker, <-chan time.Time) {
	panic("nfs41sim: clock.NewTicker is not expected to be used by the NFSv4.1 program")
}

// ---------------------------------------------------------------- RNG

// detRNG is a deterministic random.SingleThreadedGenerator (splitmix64
// over a counter). Every consumer gets its own instance, because each of
// them calls it under its own lock.
type detRNG struct {
	mu  sync.Mutex
	ctr uint64
}

func mix64(x uint64) uint64 {
	x += 0x9E3779B97F4A7C15
	x = (x ^ (x >> 30)) * 0xBF58476D1CE4E5B9
	x = (x ^ (x >> 27)) * 0x94D049BB133111EB
	return x ^ (x >> 31)
}

func (r *detRNG) Uint64() uint64 {
	r.mu.Lock()
	defer r.mu.Unlock()
	r.ctr++
	return mix64(r.ctr)
}
func (r *detRNG) Uint32() uint32       { return uint32(r.Uint64() >> 32) }
func (r *detRNG) Float64() float64     { return float64(r.Uint64()>>11) / (1 << 53) }
func (r *detRNG) Int64N(n int64) int64 { return int64(r.Uint64() % uint64(n)) }
func (r *detRNG) IntN(n int) int       { return int(r.Uint64() % uint64(n)) }
func (r *detRNG) Read(p []byte) (int, error) {
	for i := range p {
		p[i] = byte(r.Uint64())
	}
	return len(p), nil
}

func (r *detRNG) Shuffle(n int, swap func(i, j int)) {
	for i := n - 1; i > 0; i-- {
		swap(i, r.IntN(i+1))
	}
}

// ---------------------------------------------------------------- error logger

type errLogger struct {
	mu   sync.Mutex
	msgs []string
}

func (l *errLogger) Log(err error) {
	l.mu.Lock()
	l.msgs = append(l.msgs, err.Error())
	l.mu.Unlock()
}

// ---------------------------------------------------------------- injected faults

// A request can carry one generated one-shot fault: a key
// "fault:<site>:<status>" in its plan. The fake at that site fails the
// first call it receives on behalf of that request with that status,
// before it has done anything, and records that it did. Sites:
//
//	openself   countLeaf.VirtualOpenSelf (OPEN of an existing file with any
//	           claim, READ/WRITE with a special state ID)
//	openchild  the root directory's VirtualOpenChild (before the real call)
//	newfile    the file allocator underneath the real directory (OPEN that
//	           creates a file)
//	read, write, setattr
//	           countLeaf.VirtualRead/VirtualWrite (after the generated park)
//	           and VirtualSetAttributes
var faultStatuses = map[string]virtual.Status{
	"io":     virtual.StatusErrIO,
	"access": virtual.StatusErrAccess,
	"noent":  virtual.StatusErrNoEnt,
}

var faultKinds = map[string][]string{
	"openself":  {"io", "access"},
	"openchild": {"io", "access", "noent"},
	"newfile":   {"io"},
	"read":      {"io"},
	"write":     {"io"},
	"setattr":   {"io", "access"},
}

// takeFaultLocked consumes the fault planned for site in request c.
func (w *world) takeFaultLocked(c *call, site string) (virtual.Status, bool) {
	if c == nil {
		return 0, false
	}
	prefix := "fault:" + site + ":"
	var keys []string
	for k := range c.plan {
		if strings.HasPrefix(k, prefix) {
			keys = append(keys, k)
		}
	}
	if len(keys) == 0 {
		return 0, false
	}
	sort.Strings(keys)
	delete(c.plan, keys[0])
	name := keys[0][len(prefix):]
	c.faultFired, c.faultStatus = site, name
	return faultStatuses[name], true
}

func (w *world) takeFault(ctx context.Context, site string) (virtual.Status, bool) {
	c := callFrom(ctx)
	if c == nil {
		return 0, false
	}
	w.mu.Lock()
	defer w.mu.Unlock()
	return w.takeFaultLocked(c, site)
}

// ---------------------------------------------------------------- counting leaf

const (
	bitR = 0
	bitW = 1
)

var bitNames = [2]string{"read", "write"}

func maskBits(m virtual.ShareMask) (r, w bool) {
	return m&virtual.ShareMaskRead != 0, m&virtual.ShareMaskWrite != 0
}

// countLeaf is the instrumented regular file underneath the real NFS
// handle allocator decorator. It counts opens and closes per share bit,
// detects I/O on a bit that is not open, and can park inside
// VirtualRead/VirtualWrite. It mimics the life cycle of the real
// pool-backed file: once it has neither links nor open descriptors it is
// dead, and opening it yields StatusErrStale.
type countLeaf struct {
	w  *world
	id int

	// Protected by w.mu.
	handle     []byte
	content    []byte
	links      int
	opens      [2]int
	closes     [2]int
	ioStarted  int
	ioFinished int
	changeID   uint64
}

type applyIdentify struct {
	leaf *countLeaf
}

func (l *countLeaf) outstandingLocked(bit int) int { return l.opens[bit] - l.closes[bit] }

func (l *countLeaf) handleCopy() []byte {
	l.w.mu.Lock()
	defer l.w.mu.Unlock()
	return append([]byte(nil), l.handle...)
}

func (l *countLeaf) String() string { return fmt.Sprintf("leaf#%d", l.id) }

func (l *countLeaf) openLocked(share virtual.ShareMask) {
	r, wr := maskBits(share)
	if r {
		l.opens[bitR]++
	}
	if wr {
		l.opens[bitW]++
	}
}

func (l *countLeaf) Link() virtual.Status {
	l.w.mu.Lock()
	defer l.w.mu.Unlock()
	if l.links == 0 && l.outstandingLocked(bitR)+l.outstandingLocked(bitW) == 0 {
		return virtual.StatusErrStale
	}
	l.links++
	return virtual.StatusOK
}

func (l *countLeaf) Unlink() {
	l.w.mu.Lock()
	defer l.w.mu.Unlock()
	if l.links == 0 {
		l.w.violateLocked("harness/VFS: %s unlinked while its link count is zero", l)
		return
	}
	l.links--
}

func (l *countLeaf) VirtualAllocate(ctx context.Context, off, size uint64) virtual.Status {
	return virtual.StatusOK
}

func (l *countLeaf) VirtualSeek(ctx context.Context, offset uint64, regionType filesystem.RegionType) (*uint64, virtual.Status) {
	return nil, virtual.StatusErrNXIO
}

func (l *countLeaf) VirtualOpenSelf(ctx context.Context, shareAccess virtual.ShareMask, options *virtual.OpenExistingOptions, requested virtual.AttributesMask, attributes *virtual.Attributes) virtual.Status {
	l.w.mu.Lock()
	defer l.w.mu.Unlock()
	if l.links == 0 && l.outstandingLocked(bitR)+l.outstandingLocked(bitW) == 0 {
		return virtual.StatusErrStale
	}
	if s, ok := l.w.takeFaultLocked(callFrom(ctx), "openself"); ok {
		return s
	}
	l.openLocked(shareAccess)
	if options.Truncate {
		l.content = nil
		l.changeID++
	}
	l.getAttributesLocked(requested, attributes)
	return virtual.StatusOK
}

func (l *countLeaf) VirtualClose(shareAccess virtual.ShareMask) {
	l.w.mu.Lock()
	defer l.w.mu.Unlock()
	r, wr := maskBits(shareAccess)
	for bit, set := range [2]bool{r, wr} {
		if !set {
			continue
		}
		l.closes[bit]++
		if l.closes[bit] > l.opens[bit] {
			l.w.violateLocked("C18: %s closed for %s more often than it was opened (opens=%d closes=%d)", l, bitNames[bit], l.opens[bit], l.closes[bit])
		}
	}
}

func (l *countLeaf) ioCheckLocked(bit int, when, what string) {
	if l.outstandingLocked(bit) <= 0 {
		l.w.violateLocked("C18: %s on %s %s while its %s open count is %d (opens=%d closes=%d)", what, l, when, bitNames[bit], l.outstandingLocked(bit), l.opens[bit], l.closes[bit])
	}
}

func (l *countLeaf) VirtualRead(ctx context.Context, buf []byte, offset uint64) (int, bool, virtual.Status) {
	l.w.mu.Lock()
	l.ioCheckLocked(bitR, "started", "VirtualRead")
	l.ioStarted++
	l.w.mu.Unlock()

	l.w.maybePark(ctx, "io")

	l.w.mu.Lock()
	defer l.w.mu.Unlock()
	l.ioCheckLocked(bitR, "finished", "VirtualRead")
	l.ioFinished++
	if s, ok := l.w.takeFaultLocked(callFrom(ctx), "read"); ok {
		return 0, false, s
	}
	b, eof := virtual.BoundReadToFileSize(buf, offset, uint64(len(l.content)))
	n := copy(b, l.content[min(offset, uint64(len(l.content))):])
	return n, eof, virtual.StatusOK
}

func (l *countLeaf) VirtualWrite(ctx context.Context, buf []byte, offset uint64) (int, virtual.Status) {
	l.w.mu.Lock()
	l.ioCheckLocked(bitW, "started", "VirtualWrite")
	l.ioStarted++
	l.w.mu.Unlock()

	l.w.maybePark(ctx, "io")

	l.w.mu.Lock()
	defer l.w.mu.Unlock()
	l.ioCheckLocked(bitW, "finished", "VirtualWrite")
	l.ioFinished++
	if s, ok := l.w.takeFaultLocked(callFrom(ctx), "write"); ok {
		return 0, s
	}
	if offset > 1<<16 {
		return 0, virtual.StatusErrIO
	}
	if end := int(offset) + len(buf); end > len(l.content) {
		l.content = append(l.content, make([]byte, end-len(l.content))...)
	}
	copy(l.content[offset:], buf)
	l.changeID++
	return len(buf), virtual.StatusOK
}

func (l *countLeaf) getAttributesLocked(requested virtual.AttributesMask, attributes *virtual.Attributes) {
	attributes.SetChangeID(l.changeID)
	attributes.SetFileType(filesystem.FileTypeRegularFile)
	attributes.SetHasNamedAttributes(false)
	attributes.SetIsInNamedAttributeDirectory(false)
	attributes.SetPermissions(virtual.PermissionsRead | virtual.PermissionsWrite)
	attributes.SetSizeBytes(uint64(len(l.content)))
}

func (l *countLeaf) VirtualGetAttributes(ctx context.Context, requested virtual.AttributesMask, attributes *virtual.Attributes) {
	l.w.mu.Lock()
	defer l.w.mu.Unlock()
	l.getAttributesLocked(requested, attributes)
}

func (l *countLeaf) VirtualSetAttributes(ctx context.Context, in *virtual.Attributes, requested virtual.AttributesMask, attributes *virtual.Attributes) virtual.Status {
	l.w.mu.Lock()
	defer l.w.mu.Unlock()
	if s, ok := l.w.takeFaultLocked(callFrom(ctx), "setattr"); ok {
		return s
	}
	if size, ok := in.GetSizeBytes(); ok {
		if size > 1<<16 {
			return virtual.StatusErrIO
		}
		if int(size) <= len(l.content) {
			l.content = l.content[:size]
		} else {
			l.content = append(l.content, make([]byte, int(size)-len(l.content))...)
		}
		l.changeID++
	}
	l.getAttributesLocked(requested, attributes)
	return virtual.StatusOK
}

func (l *countLeaf) VirtualApply(data any) bool {
	if p, ok := data.(*applyIdentify); ok {
		p.leaf = l
		return true
	}
	return false
}

func (l *countLeaf) VirtualOpenNamedAttributes(ctx context.Context, createDirectory bool, requested virtual.AttributesMask, attributes *virtual.Attributes) (virtual.Directory, virtual.Status) {
	return nil, virtual.StatusErrNoEnt
}

// identify returns the countLeaf underneath a (decorated) leaf.
func identify(leaf virtual.Leaf) *countLeaf {
	var p applyIdentify
	if leaf != nil && leaf.VirtualApply(&p) {
		return p.leaf
	}
	return nil
}

// ---------------------------------------------------------------- file allocators

// innerAllocator creates counting leaves. It sits below the real
// handle-allocating file allocator.
type innerAllocator struct {
	w *world
}

func (a *innerAllocator) NewFile(holeSource pool.HoleSource, isExecutable bool, size uint64, shareAccess virtual.ShareMask) (virtual.LinkableLeaf, error) {
	w := a.w
	w.mu.Lock()
	defer w.mu.Unlock()
	if _, ok := w.takeFaultLocked(w.creating, "newfile"); ok {
		return nil, errors.New("nfs41sim: injected file allocation failure")
	}
	l := &countLeaf{w: w, id: len(w.leaves), links: 1}
	if size > 0 && size <= 1<<16 {
		l.content = make([]byte, size)
	}
	l.openLocked(shareAccess)
	w.leaves = append(w.leaves, l)
	return l, nil
}

// outerAllocator sits above the real handle-allocating file allocator
// and records the file handle the real NFS handle allocator gave to
// every new counting leaf.
type outerAllocator struct {
	w    *world
	base virtual.FileAllocator
}

func (a *outerAllocator) NewFile(holeSource pool.HoleSource, isExecutable bool, size uint64, shareAccess virtual.ShareMask) (virtual.LinkableLeaf, error) {
	leaf, err := a.base.NewFile(holeSource, isExecutable, size, shareAccess)
	if err != nil {
		return nil, err
	}
	var attributes virtual.Attributes
	leaf.VirtualGetAttributes(context.Background(), virtual.AttributesMaskFileHandle, &attributes)
	cl := identify(leaf)
	if cl == nil {
		panic("nfs41sim: cannot identify freshly created leaf")
	}
	a.w.mu.Lock()
	cl.handle = append([]byte(nil), attributes.GetFileHandle()...)
	a.w.leafByHandle[string(cl.handle)] = cl
	a.w.mu.Unlock()
	return leaf, nil
}

// ---------------------------------------------------------------- parking root directory

// parkDir decorates the real root directory handed to the NFSv4.1
// program. It can park before and after the real VirtualOpenChild call,
// i.e. outside of the directory's own lock, and it records which leaf the
// call opened.
type parkDir struct {
	virtual.Directory
	w *world
}

func (d *parkDir) VirtualOpenChild(ctx context.Context, name path.Component, shareAccess virtual.ShareMask, createAttributes *virtual.Attributes, existingOptions *virtual.OpenExistingOptions, requested virtual.AttributesMask, openedFileAttributes *virtual.Attributes) (virtual.Leaf, virtual.AttributesMask, virtual.ChangeInfo, virtual.Status) {
	d.w.maybePark(ctx, "open_before")
	if s, ok := d.w.takeFault(ctx, "openchild"); ok {
		return nil, 0, virtual.ChangeInfo{}, s
	}
	// The file allocator has no context: tell it on whose behalf the
	// directory is about to call it.
	d.w.mu.Lock()
	d.w.creating = callFrom(ctx)
	d.w.mu.Unlock()
	leaf, respected, changeInfo, s := d.Directory.VirtualOpenChild(ctx, name, shareAccess, createAttributes, existingOptions, requested, openedFileAttributes)
	d.w.mu.Lock()
	d.w.creating = nil
	d.w.mu.Unlock()
	if s == virtual.StatusOK {
		if c := callFrom(ctx); c != nil {
			d.w.mu.Lock()
			c.openedLeaf = identify(leaf)
			c.openedShare = shareAccess
			d.w.mu.Unlock()
		}
		d.w.maybePark(ctx, "open_after")
	}
	return leaf, respected, changeInfo, s
}

// VirtualRename: the real directory only renames into directories of its
// own kind, so the decorator of the target is taken off.
func (d *parkDir) VirtualRename(ctx context.Context, oldName path.Component, newDirectory virtual.Directory, newName path.Component) (virtual.ChangeInfo, virtual.ChangeInfo, virtual.Status) {
	if pd, ok := newDirectory.(*parkDir); ok {
		newDirectory = pd.Directory
	}
	return d.Directory.VirtualRename(ctx, oldName, newDirectory, newName)
}

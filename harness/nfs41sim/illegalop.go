package nfs41sim

import (
	"fmt"

	"github.com/buildbarn/go-xdr/pkg/protocols/nfsv4"
)

// COMPOUNDs under SEQUENCE that contain an operation NFSv4.1 does not
// have: the NFSv4.0-only operations RENEW, OPEN_CONFIRM, SETCLIENTID,
// SETCLIENTID_CONFIRM and RELEASE_LOCKOWNER (a client that mixes up minor
// versions) and the literal opcode OP_ILLEGAL.
//
// What the server must do with them: RFC 8881 section 18.0 / 15.2: an
// operation that is not defined for the minor version is answered with
// result opcode OP_ILLEGAL and status NFS4ERR_OP_ILLEGAL, and the COMPOUND
// ends there (the code does exactly that in the default branch of the
// operation switch of opSequence; the upstream test for SETCLIENTID under
// SEQUENCE documents it). Table "Valid Error Returns for Each Protocol
// Operation" of RFC 8881 lists NFS4ERR_NOTSUPP for the five operations that
// are mandatory to not implement, so (result opcode of the operation,
// NFS4ERR_NOTSUPP) is accepted for those as well. Operations before it
// have been executed and their effects stay; operations after it must not
// be executed.
//
// Such a reply is stored in the slot like any other one, so the C19
// machinery applies unchanged: a retransmission is answered with it, a
// duplicate that arrives while the original is in progress completes with
// it, and the shape rule for false retries treats a cached OP_ILLEGAL
// result as matching whatever operation was requested at that position
// ("opNum != argArray[i].GetArgop() && opNum != nfsv4.OP_ILLEGAL").

type illegalInfo struct {
	at    int    // index of the operation in tmpl.ops
	which string // name of the operation
}

var v40OnlyOps = []string{"RENEW", "OPEN_CONFIRM", "SETCLIENTID", "SETCLIENTID_CONFIRM", "RELEASE_LOCKOWNER"}

var illegalOpNames = []string{"RENEW", "OPEN_CONFIRM", "SETCLIENTID", "SETCLIENTID_CONFIRM", "RELEASE_LOCKOWNER", "ILLEGAL", "ILLEGAL"}

// illegalArgop builds the arguments of one of these operations the way an
// NFSv4.0 client of the same machine would: its own client ID, one of its
// state IDs.
func (w *world) illegalArgop(inc *incM, which string) nfsv4.NfsArgop4 {
	switch which {
	case "RENEW":
		return &nfsv4.NfsArgop4_OP_RENEW{Oprenew: nfsv4.Renew4args{Clientid: inc.clientID}}
	case "OPEN_CONFIRM":
		sid := mkStateID(1, 1)
		if st := filterStates(statesOf(inc), "open"); len(st) > 0 {
			sid = st[0].sid
		}
		return &nfsv4.NfsArgop4_OP_OPEN_CONFIRM{OpopenConfirm: nfsv4.OpenConfirm4args{OpenStateid: sid, Seqid: 1}}
	case "SETCLIENTID":
		return &nfsv4.NfsArgop4_OP_SETCLIENTID{Opsetclientid: nfsv4.Setclientid4args{
			Client:        nfsv4.NfsClientId4{Verifier: inc.verifier, Id: inc.client.ownerID},
			Callback:      nfsv4.CbClient4{CbProgram: 0x40000000, CbLocation: nfsv4.Clientaddr4{NaRNetid: "tcp", NaRAddr: "127.0.0.1.8.1"}},
			CallbackIdent: 7,
		}}
	case "SETCLIENTID_CONFIRM":
		return &nfsv4.NfsArgop4_OP_SETCLIENTID_CONFIRM{OpsetclientidConfirm: nfsv4.SetclientidConfirm4args{Clientid: inc.clientID, SetclientidConfirm: [8]byte{1, 2, 3}}}
	case "RELEASE_LOCKOWNER":
		return &nfsv4.NfsArgop4_OP_RELEASE_LOCKOWNER{OpreleaseLockowner: nfsv4.ReleaseLockowner4args{LockOwner: nfsv4.StateOwner4{Clientid: inc.clientID, Owner: []byte(lockOwners[0])}}}
	case "ILLEGAL":
		return &nfsv4.NfsArgop4_OP_ILLEGAL{}
	}
	panic("nfs41sim: unknown illegal operation " + which)
}

var trailingKinds = []string{"none", "none", "getfh", "remove", "create", "illegal_again"}

// trailingOps: operations behind the illegal one. None of them may be
// executed; most of them would leave traces if they were (REMOVE, a
// creating OPEN).
func (w *world) trailingOps(inc *incM, kind, which string) ([]nfsv4.NfsArgop4, string) {
	switch kind {
	case "getfh":
		return []nfsv4.NfsArgop4{&nfsv4.NfsArgop4_OP_GETFH{}}, "; GETFH"
	case "remove":
		return []nfsv4.NfsArgop4{
			&nfsv4.NfsArgop4_OP_PUTROOTFH{},
			&nfsv4.NfsArgop4_OP_REMOVE{Opremove: nfsv4.Remove4args{Target: fileNames[0]}},
		}, fmt.Sprintf("; PUTROOTFH; REMOVE %q", fileNames[0])
	case "create":
		return []nfsv4.NfsArgop4{
			&nfsv4.NfsArgop4_OP_PUTROOTFH{},
			&nfsv4.NfsArgop4_OP_OPEN{Opopen: nfsv4.Open4args{
				ShareAccess: nfsv4.OPEN4_SHARE_ACCESS_BOTH,
				ShareDeny:   nfsv4.OPEN4_SHARE_DENY_NONE,
				Owner:       nfsv4.OpenOwner4{Clientid: inc.clientID, Owner: []byte(openOwners[0])},
				Openhow:     openHow("unchecked_trunc"),
				Claim:       &nfsv4.OpenClaim4_CLAIM_NULL{File: fileNames[2]},
			}},
		}, fmt.Sprintf("; PUTROOTFH; OPEN(CLAIM_NULL %q, unchecked_trunc)", fileNames[2])
	case "illegal_again":
		other := "RENEW"
		if which == "RENEW" {
			other = "ILLEGAL"
		}
		return []nfsv4.NfsArgop4{w.illegalArgop(inc, other)}, "; " + other
	}
	return nil, ""
}

func tPutRootFH() *tmpl {
	t := &tmpl{kind: "putrootfh", desc: "PUTROOTFH", data: map[string]any{}}
	t.ops = []nfsv4.NfsArgop4{&nfsv4.NfsArgop4_OP_PUTROOTFH{}}
	t.atExec = func(c *call) { t.expect = []sts{one(nfsv4.NFS4_OK)} }
	return t
}

func hasStatus(alts sts, st nfsv4.Nfsstat4) bool {
	for _, s := range alts {
		if s == st {
			return true
		}
	}
	return false
}

// withIllegalOp appends one of the operations NFSv4.1 does not have, and
// optionally more operations behind it, to the operation list of t (which
// is changed in place: the closures of a template refer to it). The
// model's view of the operations of t stays what it was; if all of them
// can succeed, the next result must be the refusal of the illegal
// operation, and it must be the last one.
func (w *world) withIllegalOp(inc *incM, t *tmpl, which, trailing string) *tmpl {
	nBase := len(t.ops)
	op := w.illegalArgop(inc, which)
	trail, trailDesc := w.trailingOps(inc, trailing, which)
	t.illegal = &illegalInfo{at: nBase, which: which}
	t.kind = "illegal_op_after_" + t.kind
	if nBase == 0 {
		t.desc = which + trailDesc
	} else {
		t.desc += "; " + which + trailDesc
	}
	t.ops = append(append(append([]nfsv4.NfsArgop4(nil), t.ops...), op), trail...)

	want := one(nfsv4.NFS4ERR_OP_ILLEGAL)
	if which != "ILLEGAL" {
		want = sts{nfsv4.NFS4ERR_OP_ILLEGAL, nfsv4.NFS4ERR_NOTSUPP}
	}
	// t.expect lists the operations up to the first one that cannot
	// succeed: the illegal operation is reached if that list covers all
	// of them and the last one can succeed.
	extend := func() {
		if len(t.expect) == nBase && (nBase == 0 || hasStatus(t.expect[nBase-1], nfsv4.NFS4_OK)) {
			t.expect = append(t.expect[:nBase:nBase], want)
		}
	}
	baseAtExec, basePredict, baseDone := t.atExec, t.predict, t.onDone
	if basePredict != nil {
		t.predict = func(c *call) {
			basePredict(c)
			extend()
		}
	} else {
		t.atExec = func(c *call) {
			if baseAtExec != nil {
				baseAtExec(c)
			}
			extend()
		}
	}
	t.onDone = func(c *call, res []nfsv4.NfsResop4) {
		if baseDone != nil {
			n := len(res)
			if n > nBase {
				n = nBase
			}
			baseDone(c, res[:n:n])
		}
		if len(res) <= nBase {
			w.label("illegal_op_not_reached")
			return
		}
		// (finishExec has verified that a failing result is the last one
		// and that its status is one of the expected ones.)
		r := res[nBase]
		st := resStatus(r)
		switch {
		case r.GetResop() == nfsv4.OP_ILLEGAL && st == nfsv4.NFS4ERR_OP_ILLEGAL:
		case which != "ILLEGAL" && r.GetResop() == op.GetArgop() && st == nfsv4.NFS4ERR_NOTSUPP:
			w.label("v40_only_op_answered_notsupp")
		default:
			w.failf("C19: %s under SEQUENCE (request %q) was answered with result opcode %s status %s, expected result opcode OP_ILLEGAL with NFS4ERR_OP_ILLEGAL", which, c.desc, opName(r.GetResop()), shortStatus(st))
		}
		w.label("compound_with_illegal_op")
		w.label("compound_with_illegal_op:" + which)
		if nBase > 0 {
			w.label("compound_with_illegal_op_after_executed_operations")
		}
		if len(trail) > 0 {
			w.label("compound_with_illegal_op_and_operations_behind_it")
		}
		if c.cache {
			w.label("compound_with_illegal_op_cachethis")
		} else if cachedFull(c) {
			w.label("compound_with_illegal_op_without_cachethis_small_reply")
		} else {
			w.label("compound_with_illegal_op_without_cachethis_uncached_reply")
		}
	}
	return t
}

// repliedIllegal: did c execute up to its illegal operation?
func repliedIllegal(c *call) bool {
	if c == nil || c.t == nil || c.t.illegal == nil || c.res == nil {
		return false
	}
	n := len(c.res.Resarray)
	return n == c.t.illegal.at+2 && c.res.Resarray[n-1].GetResop() != nfsv4.OP_SEQUENCE && c.res.Status != nfsv4.NFS4_OK
}

// cachedIllegalResult: does the reply that the slot retains for c contain
// an OP_ILLEGAL result?
func cachedIllegalResult(c *call) bool {
	if c == nil || c.res == nil || !cachedFull(c) {
		return false
	}
	for _, r := range c.res.Resarray[1:] {
		if r.GetResop() == nfsv4.OP_ILLEGAL {
			return true
		}
	}
	return false
}

func hasIllegalArgop(ops []nfsv4.NfsArgop4) bool {
	for _, op := range ops {
		switch op.GetArgop() {
		case nfsv4.OP_ILLEGAL, nfsv4.OP_RENEW, nfsv4.OP_OPEN_CONFIRM, nfsv4.OP_SETCLIENTID, nfsv4.OP_SETCLIENTID_CONFIRM, nfsv4.OP_RELEASE_LOCKOWNER:
			return true
		}
	}
	return false
}

// tFalseRetryVariant builds an operation list that differs from the one
// of orig in one place, for a request that reuses orig's slot and
// sequence ID: it is never executed (the slot model of sendSeq answers it
// from the cache, refuses it, or lets it wait for orig), so it has no
// model effects of its own. The places are chosen around the illegal
// operations: one of orig's operations is replaced by the literal
// OP_ILLEGAL or by an NFSv4.0-only operation (a requested operation of
// that kind matches no cached result of another type), and the illegal
// operation of orig is replaced by another operation (a cached OP_ILLEGAL
// result matches any requested operation, so that one need not be
// detected).
func (w *world) tFalseRetryVariant(inc *incM, orig *call) *tmpl {
	ops := append([]nfsv4.NfsArgop4(nil), orig.args.Argarray[1:]...)
	n := len(ops)
	choices := []string{"append_illegal"}
	if n > 0 {
		choices = append(choices, "illegal_literal_at", "illegal_literal_at", "v40_op_at", "v40_op_at", "drop_last")
	}
	var ill *illegalInfo
	if orig.t != nil && orig.t.illegal != nil && orig.t.illegal.at < n {
		ill = orig.t.illegal
		choices = append(choices, "other_illegal_at_illegal_position", "other_illegal_at_illegal_position", "valid_op_at_illegal_position", "valid_op_at_illegal_position", "other_operations_behind", "other_operations_behind")
	}
	how := pick(w, "falseRetryVariant", choices)
	desc := ""
	switch how {
	case "append_illegal":
		which := pick(w, "illegalOp", illegalOpNames)
		ops = append(ops, w.illegalArgop(inc, which))
		desc = "with " + which + " appended"
	case "illegal_literal_at":
		k := w.draw("position", 0, n-1)
		ops[k] = w.illegalArgop(inc, "ILLEGAL")
		desc = fmt.Sprintf("with operation %d replaced by ILLEGAL", k+1)
	case "v40_op_at":
		k := w.draw("position", 0, n-1)
		which := pick(w, "illegalOp", v40OnlyOps)
		ops[k] = w.illegalArgop(inc, which)
		desc = fmt.Sprintf("with operation %d replaced by %s", k+1, which)
	case "drop_last":
		ops = ops[:n-1]
		desc = "without its last operation"
	case "other_illegal_at_illegal_position":
		var others []string
		for _, o := range illegalOpNames[:6] {
			if o != ill.which {
				others = append(others, o)
			}
		}
		which := pick(w, "illegalOp", others)
		ops[ill.at] = w.illegalArgop(inc, which)
		desc = fmt.Sprintf("with %s (operation %d) replaced by %s", ill.which, ill.at+1, which)
	case "valid_op_at_illegal_position":
		valid := pick(w, "validOp", []string{"GETFH", "PUTROOTFH", "SAVEFH"})
		switch valid {
		case "GETFH":
			ops[ill.at] = &nfsv4.NfsArgop4_OP_GETFH{}
		case "PUTROOTFH":
			ops[ill.at] = &nfsv4.NfsArgop4_OP_PUTROOTFH{}
		case "SAVEFH":
			ops[ill.at] = &nfsv4.NfsArgop4_OP_SAVEFH{}
		}
		desc = fmt.Sprintf("with %s (operation %d) replaced by %s", ill.which, ill.at+1, valid)
	case "other_operations_behind":
		var kinds []string
		for _, k := range trailingKinds[1:] {
			kinds = append(kinds, k)
		}
		kind := pick(w, "trailing", kinds)
		trail, trailDesc := w.trailingOps(inc, kind, ill.which)
		if encoded := encodeArgs(trail); string(encoded) == string(encodeArgs(ops[ill.at+1:])) {
			trail, trailDesc = append(trail, &nfsv4.NfsArgop4_OP_GETFH{}), trailDesc+"; GETFH"
		}
		ops = append(ops[:ill.at+1:ill.at+1], trail...)
		desc = fmt.Sprintf("with the operations behind %s replaced by %q", ill.which, trailDesc)
	}
	t := &tmpl{kind: "false_retry_variant", data: map[string]any{}, ops: ops}
	t.desc = fmt.Sprintf("(%s) %s", desc, orig.desc)
	t.atExec = func(c *call) {
		w.failf("harness: a false-retry variant (%q) was expected to be executed", t.desc)
	}
	w.label("false_retry_variant:" + how)
	return t
}

package nfs41sim

import (
	"bytes"
	"fmt"
	"sort"
	"strings"
	"time"

	"github.com/buildbarn/go-xdr/pkg/protocols/nfsv4"
)

// ---------------------------------------------------------------- non-session compounds

func (w *world) runSimple(desc string, op nfsv4.NfsArgop4) *call {
	c := &call{desc: desc, class: "nonseq", args: &nfsv4.Compound4args{Minorversion: 1, Argarray: []nfsv4.NfsArgop4{op}}}
	w.start(c)
	if !w.isDone(c) {
		w.failf("C19: %s did not return", desc)
	}
	c.collected = true
	if c.panicMsg != "" {
		w.failf("panic in the code under test during %s: %s", desc, c.panicMsg)
	}
	if len(c.res.Resarray) != 1 {
		w.failf("%s returned %d results", desc, len(c.res.Resarray))
	}
	return c
}

func (w *world) findInc(cl *clientSim, verifier nfsv4.Verifier4) *incM {
	for _, inc := range cl.incs {
		if !inc.gone && inc.verifier == verifier {
			return inc
		}
	}
	return nil
}

func verifierOf(n int) nfsv4.Verifier4 {
	return nfsv4.Verifier4{0xee, byte(n >> 8), byte(n)}
}

// doExchangeID sends EXCHANGE_ID for client cl with its current or a
// fresh verifier.
func (w *world) doExchangeID(cl *clientSim, fresh bool) *incM {
	if fresh {
		cl.verifierN++
	}
	verifier := verifierOf(cl.verifierN)
	w.stepNo++
	w.record("EXCHANGE_ID", fmt.Sprintf("client c%d verifier %d", cl.idx, cl.verifierN))
	w.sweep()
	existing := w.findInc(cl, verifier)
	c := w.runSimple("EXCHANGE_ID", &nfsv4.NfsArgop4_OP_EXCHANGE_ID{OpexchangeId: nfsv4.ExchangeId4args{
		EiaClientowner:  nfsv4.ClientOwner4{CoVerifier: verifier, CoOwnerid: cl.ownerID},
		EiaStateProtect: &nfsv4.StateProtect4A_SP4_NONE{},
	}})
	res, ok := c.res.Resarray[0].(*nfsv4.NfsResop4_OP_EXCHANGE_ID).OpexchangeId.(*nfsv4.ExchangeId4res_NFS4_OK)
	if !ok {
		w.failf("C18: EXCHANGE_ID failed with %s", shortStatus(c.res.Status))
	}
	r := &res.EirResok4
	confirmedFlag := r.EirFlags&nfsv4.EXCHGID4_FLAG_CONFIRMED_R != 0
	var inc *incM
	if existing != nil {
		inc = existing
		if r.EirClientid != inc.clientID {
			w.failf("C18: EXCHANGE_ID of the known, unexpired %s returned client ID %x instead of %x", inc, r.EirClientid, inc.clientID)
		}
		if confirmedFlag != (cl.confirmed == inc) {
			w.failf("C18: EXCHANGE_ID of %s: CONFIRMED_R flag is %v, but the history says confirmed=%v", inc, confirmedFlag, cl.confirmed == inc)
		}
		if !confirmedFlag && r.EirSequenceid != inc.nextCSSeq {
			w.failf("C19: EXCHANGE_ID of unconfirmed %s announced CREATE_SESSION sequence %d, expected %d", inc, r.EirSequenceid, inc.nextCSSeq)
		}
		w.label("exchange_id_existing")
	} else {
		for _, other := range w.allIncs {
			if !other.gone && other.clientID == r.EirClientid {
				w.failf("C18: EXCHANGE_ID handed out client ID %x, which still belongs to %s", r.EirClientid, other)
			}
		}
		if confirmedFlag {
			w.failf("C18: EXCHANGE_ID of a new incarnation has the CONFIRMED_R flag")
		}
		inc = &incM{client: cl, ord: len(cl.incs), verifier: verifier, clientID: r.EirClientid, nextCSSeq: r.EirSequenceid, lastRenew: w.clk.Now(), opens: map[string]*openM{}, byOther: map[uint64]any{}}
		cl.incs = append(cl.incs, inc)
		w.allIncs = append(w.allIncs, inc)
		w.label("exchange_id_new")
	}
	w.setOut(fmt.Sprintf("%s id=%x", inc, inc.clientID))
	w.checkQuiescent()
	return inc
}

// doCreateSession sends CREATE_SESSION for inc. kind: next, replay,
// misordered.
func (w *world) doCreateSession(inc *incM, kind string) *sessM {
	seq := inc.nextCSSeq
	switch kind {
	case "replay":
		seq--
	case "misordered":
		seq += uint32(w.draw("csDelta", 1, 3))
	case "misordered_back":
		seq -= 2
	}
	w.stepNo++
	w.record("CREATE_SESSION", fmt.Sprintf("%s %s", inc, kind))
	swept := w.sweep()
	var before snapshot
	if kind != "next" {
		before = w.snapshot()
	}
	// Predict.
	mode := "misordered"
	switch {
	case inc.gone:
		mode = "stale"
	case seq == inc.nextCSSeq-1:
		mode = "replay"
	case seq == inc.nextCSSeq:
		mode = "exec"
	}
	cl := inc.client
	delay := false
	if mode == "exec" {
		if inc.holds == 0 {
			inc.lastRenew = w.clk.Now()
		}
		if conf := cl.confirmed; conf != inc {
			if conf != nil {
				if conf.holds > 0 {
					// "The incarnation is currently running one or more
					// blocking operations."
					delay = true
				} else {
					w.reclaim(conf, "replaced by a new incarnation")
					w.label("reclaim:replaced")
				}
			}
			if !delay {
				cl.confirmed = inc
			}
		}
	}
	// The ca_maxoperations the client asks for is a function of the
	// sequence ID, so that a retransmission of a CREATE_SESSION carries the
	// arguments of the original. Less than, as much as and more than what
	// the server is configured to accept: whatever the reply grants is the
	// limit that the model applies to the COMPOUNDs of the session. (The
	// size limits are always asked for in full: the program does not police
	// them, and the requests and replies of the harness stay far below
	// them, as those of a real client do.)
	reqMaxOps := requestedMaxOperations[seq%uint32(len(requestedMaxOperations))]
	c := w.runSimple("CREATE_SESSION", &nfsv4.NfsArgop4_OP_CREATE_SESSION{OpcreateSession: nfsv4.CreateSession4args{
		CsaClientid: inc.clientID,
		CsaSequence: seq,
		CsaForeChanAttrs: nfsv4.ChannelAttrs4{
			CaMaxrequestsize: 1 << 20, CaMaxresponsesize: 1 << 20, CaMaxresponsesizeCached: 1 << 16, CaMaxoperations: reqMaxOps, CaMaxrequests: 100,
		},
		CsaBackChanAttrs: nfsv4.ChannelAttrs4{CaMaxrequestsize: 4096, CaMaxresponsesize: 4096, CaMaxoperations: 2, CaMaxrequests: 1},
	}})
	st := c.res.Status
	w.setOut(shortStatus(st))
	var sess *sessM
	expect := func(want nfsv4.Nfsstat4) {
		if st != want {
			w.failf("C19: CREATE_SESSION(%s, sequence %s) answered %s, expected %s", inc, kind, shortStatus(st), shortStatus(want))
		}
	}
	switch mode {
	case "stale":
		expect(nfsv4.NFS4ERR_STALE_CLIENTID)
	case "misordered":
		expect(nfsv4.NFS4ERR_SEQ_MISORDERED)
		w.label("create_session_misordered")
	case "replay":
		if inc.lastCS == nil {
			// RFC 8881 section 18.36.4: nothing to replay yet.
			expect(nfsv4.NFS4ERR_SEQ_MISORDERED)
		} else {
			if seq >= ^uint32(0)-1 || seq == 0 {
				w.label("create_session_replay_at_wrap_around")
			}
			if !bytes.Equal(c.raw, inc.lastCS.raw) {
				w.failf("C19: the replay of CREATE_SESSION(%s) was answered with a reply that differs from the original one (original status %s, replay status %s)", inc, shortStatus(inc.lastCS.res.Status), shortStatus(st))
			}
			w.label("create_session_replay")
		}
	case "exec":
		if delay {
			expect(nfsv4.NFS4ERR_DELAY)
			w.label("create_session_delayed_by_inflight_request")
			break
		}
		expect(nfsv4.NFS4_OK)
		ok := c.res.Resarray[0].(*nfsv4.NfsResop4_OP_CREATE_SESSION).OpcreateSession.(*nfsv4.CreateSession4res_NFS4_OK).CsrResok4
		for _, other := range w.allIncs {
			for _, s := range other.sessions {
				if s.id == ok.CsrSessionid {
					w.failf("C19: CREATE_SESSION returned session ID %x, which was handed out before", ok.CsrSessionid)
				}
			}
		}
		if ok.CsrSequence != seq {
			w.failf("C19: CREATE_SESSION echoed sequence %d instead of %d", ok.CsrSequence, seq)
		}
		if ok.CsrForeChanAttrs.CaMaxrequests != slotsPerSess {
			w.failf("harness: CREATE_SESSION granted %d slots, expected %d", ok.CsrForeChanAttrs.CaMaxrequests, slotsPerSess)
		}
		granted := ok.CsrForeChanAttrs
		if granted.CaMaxoperations < 2 {
			w.failf("C19: CREATE_SESSION granted ca_maxoperations %d: not even SEQUENCE and one operation fit into a COMPOUND of this session", granted.CaMaxoperations)
		}
		if granted.CaMaxrequestsize > 1<<20 || granted.CaMaxresponsesize > 1<<20 || granted.CaMaxresponsesizeCached > 1<<16 {
			// RFC 8881 section 18.36.3: the server may lower what the
			// client asked for, not raise it.
			w.failf("C19: CREATE_SESSION granted fore channel sizes %d/%d/%d, more than the client asked for (%d/%d/%d)", granted.CaMaxrequestsize, granted.CaMaxresponsesize, granted.CaMaxresponsesizeCached, 1<<20, 1<<20, 1<<16)
		}
		sess = &sessM{inc: inc, ord: len(inc.sessions), id: ok.CsrSessionid, maxOps: int(granted.CaMaxoperations)}
		switch {
		case granted.CaMaxoperations < reqMaxOps:
			w.label("create_session_maxoperations_lowered_by_server")
		case granted.CaMaxoperations > reqMaxOps:
			w.label("create_session_maxoperations_raised_by_server")
		default:
			w.label("create_session_maxoperations_as_requested")
		}
		for i := 0; i < slotsPerSess; i++ {
			sess.slots = append(sess.slots, &slotM{})
		}
		inc.sessions = append(inc.sessions, sess)
		inc.nextCSSeq++
		inc.lastCS = c
		w.label("create_session_ok")
		if seq == 0 || seq == ^uint32(0) {
			w.label("create_session_sequence_at_wrap_around")
		}
		if inc.nextCSSeq == 0 || inc.nextCSSeq == 1 {
			// The next one, its replay (sequence - 1) and the misordered
			// variants straddle 2^32.
			w.label("create_session_sequence_wrapped")
		}
		w.setOut(fmt.Sprintf("%s maxops=%d", sess, sess.maxOps))
	}
	if kind != "next" && mode != "exec" && swept == 0 {
		if d := before.diff(w.snapshot()); d != "" {
			w.failf("C19: CREATE_SESSION(%s, %s) answered %s but had side effects: %s", inc, kind, shortStatus(st), d)
		}
	}
	w.checkQuiescent()
	return sess
}

func (w *world) doDestroySession(target *sessM) {
	w.stepNo++
	w.record("DESTROY_SESSION", target.String())
	w.sweep()
	want := nfsv4.NFS4ERR_BADSESSION
	if target.live() {
		want = nfsv4.NFS4_OK
	}
	c := w.runSimple("DESTROY_SESSION", &nfsv4.NfsArgop4_OP_DESTROY_SESSION{OpdestroySession: nfsv4.DestroySession4args{DsaSessionid: target.id}})
	w.setOut(shortStatus(c.res.Status))
	if c.res.Status != want {
		w.failf("C18: DESTROY_SESSION(%s) answered %s, expected %s", target, shortStatus(c.res.Status), shortStatus(want))
	}
	if want == nfsv4.NFS4_OK {
		for _, sl := range target.slots {
			if sl.busy != nil {
				w.label("destroy_session_with_request_in_flight")
			}
		}
		target.destroyed = true
		w.label("destroy_session_ok")
	}
	w.checkQuiescent()
}

func (w *world) doDestroyClientID(target *incM) {
	w.stepNo++
	w.record("DESTROY_CLIENTID", target.String())
	w.sweep()
	want := w.predictDestroyClientID(target)
	c := w.runSimple("DESTROY_CLIENTID", &nfsv4.NfsArgop4_OP_DESTROY_CLIENTID{OpdestroyClientid: nfsv4.DestroyClientid4args{DcaClientid: target.clientID}})
	w.setOut(shortStatus(c.res.Status))
	if c.res.Status != want {
		w.failf("C18: DESTROY_CLIENTID(%s) answered %s, expected %s", target, shortStatus(c.res.Status), shortStatus(want))
	}
	if want == nfsv4.NFS4_OK {
		w.reclaim(target, "destroyed")
		w.label("destroy_clientid_ok")
	}
	w.checkQuiescent()
}

// requestedMaxOperations: the values of ca_maxoperations the clients ask
// for in CREATE_SESSION, indexed by the sequence ID of the request.
var requestedMaxOperations = []uint32{100, 2, maxOperations, 5}

// ---------------------------------------------------------------- session compounds

func seqOp(sessID [nfsv4.NFS4_SESSIONID_SIZE]byte, slot, seq uint32, cache bool) nfsv4.NfsArgop4 {
	return &nfsv4.NfsArgop4_OP_SEQUENCE{Opsequence: nfsv4.Sequence4args{
		SaSessionid: sessID, SaSequenceid: seq, SaSlotid: slot, SaHighestSlotid: slotsPerSess - 1, SaCachethis: cache,
	}}
}

// cachedFull: does the reply cache hold the complete reply of c? "If
// either the client asked us to cache the reply, or the reply is
// sufficiently small, we should always cache it."
func cachedFull(c *call) bool {
	n := len(c.res.Resarray)
	return c.cache || n < 2 || (n == 2 && c.res.Status != nfsv4.NFS4_OK)
}

// falseRetryDetectable: would a retry with operation list ops be
// recognised as a false retry, according to what the upstream tests
// document (FalseRetries: NotEnoughOperations, TooManyOperations,
// MismatchingOperationType)?
func falseRetryDetectable(orig *call, ops []nfsv4.NfsArgop4) bool {
	var types []nfsv4.NfsOpnum4
	status := orig.res.Status
	if cachedFull(orig) {
		for _, r := range orig.res.Resarray[1:] {
			types = append(types, r.GetResop())
		}
	} else {
		types = []nfsv4.NfsOpnum4{orig.res.Resarray[1].GetResop()}
		status = nfsv4.NFS4ERR_RETRY_UNCACHED_REP
	}
	if len(types) > len(ops) || (status == nfsv4.NFS4_OK && len(types) != len(ops)) {
		return true
	}
	for i, ty := range types {
		if ty != ops[i].GetArgop() && ty != nfsv4.OP_ILLEGAL {
			return true
		}
	}
	return false
}

// falseRetryDetectableFull is the same rule applied to the complete reply
// of orig, which is what a duplicate that waited for orig receives.
func falseRetryDetectableFull(orig *call, ops []nfsv4.NfsArgop4) bool {
	results := orig.res.Resarray[1:]
	if len(results) > len(ops) || (orig.res.Status == nfsv4.NFS4_OK && len(results) != len(ops)) {
		return true
	}
	for i, r := range results {
		if ty := r.GetResop(); ty != ops[i].GetArgop() && ty != nfsv4.OP_ILLEGAL {
			return true
		}
	}
	return false
}

// sendSeq issues SEQUENCE + template on (sess, slot) with the given
// sequence ID and lets the model decide what must happen.
func (w *world) sendSeq(sess *sessM, slot, seq uint32, class string, t *tmpl, cache bool, plan map[string]bool, orig *call) *call {
	w.stepNo++
	planDesc := ""
	for _, k := range []string{"io", "open_before", "open_after"} {
		if plan[k] {
			planDesc += " park:" + k
		}
	}
	for _, k := range sortedBoolKeys(plan) {
		if strings.HasPrefix(k, "fault:") {
			planDesc += " " + k
		}
	}
	cacheDesc := ""
	if cache {
		cacheDesc = " cachethis"
	}
	w.record("SEQ:"+class, fmt.Sprintf("%s slot %d seq %d%s%s | %s", sess, slot, seq, cacheDesc, planDesc, t.desc))
	swept := w.sweep()

	c := &call{desc: t.desc, class: class, inc: sess.inc, sess: sess, slot: slot, seq: seq, cache: cache, t: t, orig: orig, plan: plan}
	c.args = &nfsv4.Compound4args{Minorversion: 1, Argarray: append([]nfsv4.NfsArgop4{seqOp(sess.id, slot, seq, cache)}, t.ops...)}

	// Sequence-level prediction (RFC 8881 section 2.10.6.1).
	switch {
	case !sess.live():
		c.mode, c.expStatus = "error", nfsv4.NFS4ERR_BADSESSION
	case int(slot) >= len(sess.slots):
		c.mode, c.expStatus = "error", nfsv4.NFS4ERR_BADSLOT
	default:
		sl := sess.slots[slot]
		switch {
		case seq == sl.lastSeq && sl.busy != nil:
			c.mode, c.orig = "stale_busy", sl.last
			if c.orig == nil {
				c.orig = sl.dropped
			}
		case seq == sl.lastSeq && sl.last == nil && sl.dropped != nil:
			// The reply to the slot's last request was still retained when
			// a request with the next sequence ID arrived and was refused
			// with NFS4ERR_TOO_MANY_OPS: the server may have discarded it at
			// that moment or not.
			c.mode, c.orig = "maybe_cached", sl.dropped
			if !bytes.Equal(encodeArgs(t.ops), encodeArgs(sl.dropped.args.Argarray[1:])) {
				c.mayFalse = true
			}
		case seq == sl.lastSeq && sl.last == nil:
			c.mode, c.expStatus = "error", nfsv4.NFS4ERR_SEQ_MISORDERED
		case seq == sl.lastSeq:
			c.mode, c.orig = "cached", sl.last
			if !bytes.Equal(encodeArgs(t.ops), encodeArgs(sl.last.args.Argarray[1:])) {
				c.mayFalse = true
				c.mustFalse = falseRetryDetectable(sl.last, t.ops)
			}
		case seq == sl.lastSeq+1 && sl.busy != nil:
			c.mode, c.orig = "wait", sl.busy
			sl.busy.dups = append(sl.busy.dups, c)
			if !bytes.Equal(encodeArgs(t.ops), encodeArgs(sl.busy.args.Argarray[1:])) {
				c.mayFalse = true
			}
		case seq == sl.lastSeq+1:
			if 1+len(t.ops) > sess.maxOps {
				// RFC 8881 sections 18.36.3 and 18.46.3: refused by SEQUENCE,
				// nothing is executed, and the slot's sequence ID is not
				// consumed: the next request with this sequence ID is a new
				// request (and a retransmission of this one is refused again).
				c.mode, c.expStatus = "error", nfsv4.NFS4ERR_TOO_MANY_OPS
				// The slot's cached reply is discarded nevertheless (or not:
				// see maybe_cached above).
				if sl.last != nil {
					sl.dropped = sl.last
				}
				sl.last = nil
				if r := sl.refused; r != nil && r.cache == cache && bytes.Equal(encodeArgs(t.ops), encodeArgs(r.args.Argarray[1:])) {
					c.refusedBefore = true
				}
				c.afterRefused, sl.refused = sl.refused, c
			} else {
				c.mode = "exec"
				c.afterRefused, sl.refused = sl.refused, nil
			}
		default:
			c.mode, c.expStatus = "error", nfsv4.NFS4ERR_SEQ_MISORDERED
		}
	}

	if limit := sess.maxOps; limit > 0 && 1+len(t.ops) > limit && !(c.mode == "error" && c.expStatus == nfsv4.NFS4ERR_TOO_MANY_OPS) {
		// More operations than the session allows, but the sequence ID
		// decides first: a retransmission, a duplicate, a misordered one.
		// (Where the model expects a refusal by the sequence ID, or the
		// cached reply of another request, NFS4ERR_TOO_MANY_OPS is just as
		// good a refusal: see refusedAsOversized.)
		c.oversized = sess.live() && int(slot) < len(sess.slots)
		how := c.mode
		if c.mode == "error" {
			how = shortStatus(c.expStatus)
		}
		w.label("oversized_compound_answered_by_sequence_id:" + how)
	}

	var before snapshot
	checkUnchanged := c.mode != "exec" && swept == 0
	// Requests that are executed but documented to be refused before
	// they touch anything (unsupported claims, share_deny).
	checkRefused := c.mode == "exec" && t.noEffect && swept == 0
	if checkUnchanged || checkRefused {
		before = w.snapshot()
	}
	if c.mode == "exec" {
		sl := sess.slots[slot]
		sl.busy = c
		sess.inc.holds++
		if t.atExec != nil {
			t.atExec(c)
		}
		if t.predict != nil && !plan["open_before"] {
			t.predict(c)
		}
	}
	w.start(c)
	if c.mode == "wait" {
		w.label("inflight_duplicate_sent")
	}
	w.mustHaveReturned(c)
	w.collect()
	if checkUnchanged && (c.mode != "wait") {
		if d := before.diff(w.snapshot()); d != "" {
			w.failf("C19: request %q (%s, expected to be answered without execution: %s) had side effects: %s", t.desc, class, c.mode, d)
		}
	}
	if checkRefused && c.collected {
		if d := before.diff(w.snapshot()); d != "" {
			w.failf("C18: request %q is refused as a whole (%s), but it had side effects: %s", t.desc, statusOf(c.res), d)
		}
		w.label("refused_without_side_effects:" + t.kind)
	}
	return c
}

func sortedBoolKeys(m map[string]bool) []string {
	keys := make([]string, 0, len(m))
	for k := range m {
		keys = append(keys, k)
	}
	sort.Strings(keys)
	return keys
}

// faultOps: the operations in which a fault site can be reached.
var faultOps = map[string][]nfsv4.NfsOpnum4{
	"openself":  {nfsv4.OP_OPEN, nfsv4.OP_READ, nfsv4.OP_WRITE},
	"openchild": {nfsv4.OP_OPEN},
	"newfile":   {nfsv4.OP_OPEN},
	"read":      {nfsv4.OP_READ},
	"write":     {nfsv4.OP_WRITE},
	"setattr":   {nfsv4.OP_SETATTR},
}

var faultNFSStatus = map[string]nfsv4.Nfsstat4{
	"io":     nfsv4.NFS4ERR_IO,
	"access": nfsv4.NFS4ERR_ACCESS,
	"noent":  nfsv4.NFS4ERR_NOENT,
}

// applyFault adjusts the expectation of a request in which an injected
// fault fired: the first operation that can reach the site fails with the
// NFSv4 equivalent of the injected status and the COMPOUND ends there;
// everything before it is as predicted.
func (w *world) applyFault(c *call) {
	w.mu.Lock()
	site, status := c.faultFired, c.faultStatus
	var unreached []string
	for _, k := range sortedBoolKeys(c.plan) {
		if strings.HasPrefix(k, "fault:") {
			unreached = append(unreached, k)
		}
	}
	w.mu.Unlock()
	if len(unreached) > 0 {
		w.label("fault_planned_but_site_not_reached")
	}
	if site == "" {
		return
	}
	t := c.t
	for i, op := range t.ops {
		hit := false
		for _, o := range faultOps[site] {
			if op.GetArgop() == o {
				hit = true
			}
		}
		if !hit {
			continue
		}
		if i < len(t.expect) {
			t.expect = append(t.expect[:i:i], one(faultNFSStatus[status]))
		}
		break
	}
	w.label("fault_fired")
	w.label("fault_fired:" + site + ":" + status)
	w.label("fault_fired_in:" + t.kind)
}

func seqResult(res *nfsv4.Compound4res) (*nfsv4.Sequence4resok, nfsv4.Nfsstat4, bool) {
	if len(res.Resarray) == 0 {
		return nil, 0, false
	}
	s, ok := res.Resarray[0].(*nfsv4.NfsResop4_OP_SEQUENCE)
	if !ok {
		return nil, 0, false
	}
	if r, ok := s.Opsequence.(*nfsv4.Sequence4res_NFS4_OK); ok {
		return &r.SrResok4, nfsv4.NFS4_OK, true
	}
	return nil, s.Opsequence.GetSrStatus(), true
}

// isSeqError: the reply consists of a failed SEQUENCE only.
func isSeqError(res *nfsv4.Compound4res, st nfsv4.Nfsstat4) bool {
	_, got, ok := seqResult(res)
	return ok && len(res.Resarray) == 1 && got == st && res.Status == st
}

// replayAcceptable: is res an acceptable answer to a retransmission of
// orig? Either byte-equal to the original reply, or - when the original
// did not ask for caching - the documented NFS4ERR_RETRY_UNCACHED_REP
// form: the original SEQUENCE result followed by the second operation
// failing with that status.
func replayAcceptable(orig *call, raw []byte, res *nfsv4.Compound4res) (bool, string) {
	if bytes.Equal(raw, orig.raw) {
		return true, "equal"
	}
	if !orig.cache && len(orig.res.Resarray) >= 2 && res.Status == nfsv4.NFS4ERR_RETRY_UNCACHED_REP && len(res.Resarray) == 2 &&
		bytes.Equal(encodeResop(res.Resarray[0]), encodeResop(orig.res.Resarray[0])) &&
		res.Resarray[1].GetResop() == orig.res.Resarray[1].GetResop() &&
		resStatus(res.Resarray[1]) == nfsv4.NFS4ERR_RETRY_UNCACHED_REP {
		return true, "uncached"
	}
	return false, ""
}

// refusedAsOversized: c has more operations than its session allows and
// its sequence ID is not the slot's next one, so that the code answers it
// by its sequence ID (false retry, misordered, duplicate). A server that
// looks at the number of operations first refuses it as well, with
// NFS4ERR_TOO_MANY_OPS, which serves the property equally: it is rejected
// without side effects and does not receive another request's reply.
func (w *world) refusedAsOversized(c *call) bool {
	if c.oversized && c.res != nil && isSeqError(c.res, nfsv4.NFS4ERR_TOO_MANY_OPS) {
		w.label("oversized_compound_refused_with_too_many_ops_regardless_of_sequence_id")
		return true
	}
	return false
}

func (w *world) checkEarlyDup(c *call) {
	if c.earlyOK {
		return
	}
	if w.refusedAsOversized(c) {
		c.earlyOK = true
		c.collected = true
		return
	}
	// A duplicate of a request that is still being processed cannot
	// carry the original's result yet. NFS4ERR_DELAY would be the only
	// harmless early answer.
	if c.res != nil && isSeqError(c.res, nfsv4.NFS4ERR_DELAY) {
		c.earlyOK = true
		c.collected = true
		return
	}
	w.failf("C19: a duplicate of %q arrived while the original was still being processed and was answered at once with %s, before the original's result existed", c.orig.desc, statusOf(c.res))
}

// finish verifies the reply of a completed session compound and updates
// the model.
func (w *world) finish(c *call) {
	if c.panicMsg != "" {
		w.failf("panic in the code under test during %q: %s", c.desc, c.panicMsg)
	}
	if c.class == "nonseq" {
		return
	}
	res := c.res
	w.setOutFor(c, statusOf(res))
	switch c.mode {
	case "error":
		if c.expStatus == nfsv4.NFS4ERR_SEQ_MISORDERED && w.refusedAsOversized(c) {
			return
		}
		if !isSeqError(res, c.expStatus) {
			w.failf("C19: request %q (%s on %s slot %d seq %d) was answered %s, expected a SEQUENCE failing with %s", c.desc, c.class, c.sess, c.slot, c.seq, statusOf(res), shortStatus(c.expStatus))
		}
		w.label("seq_error:" + shortStatus(c.expStatus))
		if c.expStatus == nfsv4.NFS4ERR_TOO_MANY_OPS {
			w.label("compound_too_many_ops")
			w.label(fmt.Sprintf("compound_too_many_ops:limit+%d", len(c.args.Argarray)-c.sess.maxOps))
			if c.refusedBefore {
				w.label("too_many_ops_retransmission_refused_again")
			}
			if c.sess.slots[c.slot].dropped != nil {
				w.label("compound_too_many_ops_on_slot_with_cached_reply")
			}
		}
		if c.expStatus == nfsv4.NFS4ERR_SEQ_MISORDERED && int(c.slot) < len(c.sess.slots) {
			if sl := c.sess.slots[c.slot]; sl.preset {
				switch {
				case straddles(c.seq, sl.lastSeq), straddles(c.seq, sl.lastSeq+1):
					// The rejected sequence ID lies on the other side of
					// 2^32 from the slot's last or next one.
					w.label("misordered_at_wrap_around")
				case c.seq == sl.lastSeq && (c.seq == maxU32 || c.seq == 0):
					w.label("retransmission_without_cached_reply_at_wrap_around")
				}
			}
		}
	case "stale_busy":
		if !isSeqError(res, nfsv4.NFS4ERR_SEQ_MISORDERED) && !w.refusedAsOversized(c) {
			ok := false
			if c.orig != nil {
				ok, _ = replayAcceptable(c.orig, c.raw, res)
			}
			if !ok {
				w.failf("C19: a retransmission of the previous request of a busy slot was answered %s, neither NFS4ERR_SEQ_MISORDERED nor the cached reply", statusOf(res))
			}
		}
		w.label("stale_replay_on_busy_slot")
	case "cached":
		w.finishCached(c)
	case "maybe_cached":
		// A retransmission of the request that the slot executed last,
		// after a request with the next sequence ID was refused with
		// NFS4ERR_TOO_MANY_OPS. It is not executed (sendSeq compares the
		// snapshots); the cached reply is acceptable, and so is what a slot
		// without a retained reply answers.
		switch {
		case w.refusedAsOversized(c):
		case isSeqError(res, nfsv4.NFS4ERR_SEQ_MISORDERED):
			w.label("retransmission_after_too_many_ops:reply_was_discarded")
		case c.mayFalse && isSeqError(res, nfsv4.NFS4ERR_SEQ_FALSE_RETRY):
			w.label("retransmission_after_too_many_ops:false_retry_rejected")
		default:
			if ok, _ := replayAcceptable(c.orig, c.raw, res); !ok {
				w.failf("C19: after a request with the next sequence ID was refused with NFS4ERR_TOO_MANY_OPS, the retransmission of the slot's last executed request %q (slot %d, sequence %d) was answered %s, which is neither its original reply %s nor NFS4ERR_SEQ_MISORDERED", c.orig.desc, c.slot, c.seq, statusOf(res), statusOf(c.orig.res))
			}
			w.label("retransmission_after_too_many_ops:answered_from_cache")
		}
	case "wait":
		// Verified together with the original.
		if !c.orig.collected {
			w.failf("harness: duplicate finished before its original")
		}
	case "exec":
		w.finishExec(c)
	}
}

func (w *world) setOutFor(c *call, out string) {
	w.setOut(fmt.Sprintf("#%d=%s", c.id, out))
}

func (w *world) finishCached(c *call) {
	res, orig := c.res, c.orig
	// The slot's last sequence ID is 2^32-1 (the next one is 0) or 0 (the
	// previous one was 2^32-1).
	atWrap := c.sess.slots[c.slot].preset && (c.seq == maxU32 || c.seq == 0)
	if c.mayFalse {
		// Same slot and sequence ID, different operation list.
		if atWrap {
			w.label("false_retry_at_wrap_around")
		}
		if w.refusedAsOversized(c) {
			return
		}
		// The classes around operations NFSv4.1 does not have: the cached
		// reply contains an OP_ILLEGAL result (which matches any requested
		// operation at its position), or the retry contains such an
		// operation (which matches no cached result of another type).
		againstIllegal, withIllegal := cachedIllegalResult(orig), hasIllegalArgop(c.t.ops)
		illegalClass := func(outcome string) {
			if againstIllegal {
				w.label("false_retry_against_cached_illegal_op")
				w.label("false_retry_against_cached_illegal_op:" + outcome)
			}
			if withIllegal && !againstIllegal {
				w.label("false_retry_with_illegal_op_against_cached_reply")
				w.label("false_retry_with_illegal_op_against_cached_reply:" + outcome)
			}
		}
		if isSeqError(res, nfsv4.NFS4ERR_SEQ_FALSE_RETRY) {
			w.label("false_retry_rejected")
			if c.mustFalse {
				illegalClass("detectable_rejected")
			} else {
				illegalClass("undetectable_rejected")
			}
			return
		}
		if c.mustFalse {
			w.failf("C19: request %q reused slot %d sequence %d of %q with a different operation list and was answered %s, expected NFS4ERR_SEQ_FALSE_RETRY", c.desc, c.slot, c.seq, orig.desc, statusOf(res))
		}
		if ok, _ := replayAcceptable(orig, c.raw, res); !ok {
			w.failf("C19: request %q reused slot %d sequence %d of %q with different arguments and was answered %s, which is neither NFS4ERR_SEQ_FALSE_RETRY nor the original's cached reply", c.desc, c.slot, c.seq, orig.desc, statusOf(res))
		}
		w.label("false_retry_undetectable_answered_from_cache")
		illegalClass("undetectable_answered_from_cache")
		return
	}
	ok, how := replayAcceptable(orig, c.raw, res)
	if !ok {
		w.failf("C19: the retransmission of %q (slot %d, sequence %d, cachethis=%v) was answered %s, but the original reply was %s (replies differ)", orig.desc, c.slot, c.seq, orig.cache, statusOf(res), statusOf(orig.res))
	}
	if orig.cache && how != "equal" {
		w.failf("C19: the retransmission of %q, sent with sa_cachethis, was not answered from the cache", orig.desc)
	}
	w.label("replay_" + how)
	if atWrap {
		w.label("replay_at_wrap_around")
	}
	if orig.res.Status == nfsv4.NFS4_OK && orig.t != nil && orig.t.stateOp && how == "equal" {
		w.label("replay_of_successful_state_op")
		w.label("replay_of_successful:" + orig.t.kind)
	}
	if repliedIllegal(orig) {
		w.label("replay_of_compound_with_illegal_op")
		w.label("replay_of_compound_with_illegal_op:" + how)
		w.label("replay_of_compound_with_illegal_op:" + orig.t.illegal.which)
		if orig.t.illegal.at > 0 {
			w.label("replay_of_compound_with_illegal_op_after_executed_operations")
		}
	}
}

func (w *world) finishExec(c *call) {
	res, t, inc := c.res, c.t, c.inc
	// The program expires leases once more before it releases the
	// incarnation; the incarnation's lease is renewed at that moment.
	w.sweep()
	inc.holds--
	if inc.holds == 0 {
		inc.lastRenew = w.clk.Now()
	}
	sl := c.sess.slots[c.slot]
	sl.busy = nil
	if c.seq < sl.lastSeq {
		// Only reachable from a preset slot: 0 follows 2^32-1.
		w.label("slot_sequence_wrapped")
	}
	sl.lastSeq = c.seq
	sl.last = c
	sl.dropped = nil

	ok, st, isSeq := seqResult(res)
	if !isSeq || st != nfsv4.NFS4_OK {
		w.failf("C19: request %q on %s slot %d with the next sequence ID %d was answered %s, expected it to be executed", c.desc, c.sess, c.slot, c.seq, statusOf(res))
	}
	if ok.SrSessionid != c.sess.id || ok.SrSequenceid != c.seq || ok.SrSlotid != c.slot || ok.SrHighestSlotid != slotsPerSess-1 {
		w.failf("C19: SEQUENCE result %+v does not echo session/slot/sequence of the request (slot %d seq %d)", *ok, c.slot, c.seq)
	}
	results := res.Resarray[1:]
	w.applyFault(c)
	// The compound stops at the first failing operation; t.expect lists
	// the acceptable statuses of every operation up to the first one that
	// cannot succeed.
	mismatch := func() {
		var exp []string
		for _, alts := range t.expect {
			var a []string
			for _, s := range alts {
				a = append(a, shortStatus(s))
			}
			exp = append(exp, fmt.Sprint(a))
		}
		var got []string
		for _, r := range results {
			got = append(got, shortStatus(resStatus(r)))
		}
		w.failf("%s: request %q by %s was answered %v, expected %v", propertyOf(t.kind), c.desc, inc, got, exp)
	}
	allOK := true
	for i, r := range results {
		if i >= len(t.expect) {
			mismatch()
		}
		got := resStatus(r)
		found := false
		for _, s := range t.expect[i] {
			if s == got {
				found = true
			}
		}
		if !found {
			mismatch()
		}
		if got != nfsv4.NFS4_OK {
			allOK = false
			if i != len(results)-1 {
				mismatch()
			}
		}
	}
	if allOK && len(results) != len(t.expect) {
		mismatch()
	}
	last := nfsv4.NFS4_OK
	if len(results) > 0 {
		last = resStatus(results[len(results)-1])
	}
	if res.Status != last {
		w.failf("C19: COMPOUND status %s differs from the status of its last result %s", shortStatus(res.Status), shortStatus(last))
	}
	if t.onDone != nil {
		t.onDone(c, results)
	}
	w.label("exec:" + t.kind)
	if c.afterRefused != nil {
		// (finishExec: c was executed.) The sequence ID that an oversized
		// request did not consume.
		w.label("slot_reused_after_too_many_ops")
		if c.everParked {
			w.label("slot_reused_after_too_many_ops_by_request_that_parked")
		}
	}
	if len(c.args.Argarray) == c.sess.maxOps {
		w.label("compound_at_max_operations")
		if len(results) == len(t.ops) {
			w.label("compound_at_max_operations_executed_completely")
		}
	}
	if w.p.labelErrorReturns && last != nfsv4.NFS4_OK {
		w.label("error_return:" + opName(results[len(results)-1].GetResop()) + ":" + shortStatus(last))
	}

	// Duplicates that arrived while this request was being processed
	// must now complete with this request's result.
	for _, d := range c.dups {
		if d.collected {
			continue
		}
		if !w.isDone(d) {
			w.failf("C19: a duplicate of %q (same session, slot %d, sequence %d) arrived while the original was still being processed; the original has completed with %s, but the duplicate never returns", c.desc, c.slot, c.seq, statusOf(res))
		}
		d.collected = true
		if d.panicMsg != "" {
			w.failf("panic in the code under test during a duplicate of %q: %s", c.desc, d.panicMsg)
		}
		if d.mayFalse && repliedIllegal(c) {
			w.label("false_retry_against_inflight_compound_with_illegal_op")
		}
		if d.mayFalse && isSeqError(d.res, nfsv4.NFS4ERR_SEQ_FALSE_RETRY) {
			w.label("false_retry_inflight_rejected")
			continue
		}
		if d.mayFalse && w.refusedAsOversized(d) {
			continue
		}
		if d.mayFalse && falseRetryDetectableFull(c, d.t.ops) {
			// The original's reply does not even have the shape of a
			// reply to this request (number or types of operations): the
			// replay branch refuses exactly this once the original has
			// completed.
			w.label("false_retry_inflight_with_different_operations")
			if w.p.strictInflightFalseRetry {
				if ok, _ := replayAcceptable(c, d.raw, d.res); ok {
					w.failf("C19: request %q reused slot %d sequence %d of %q, which was still being processed, with a different operation list (the operations of the reply do not match those of the request) and was answered with the other request's reply %s", d.desc, c.slot, c.seq, c.desc, statusOf(d.res))
				}
				if _, st, isSeq := seqResult(d.res); !isSeq || st == nfsv4.NFS4_OK || len(d.res.Resarray) != 1 {
					w.failf("C19: request %q reused slot %d sequence %d of the in-flight %q with a different operation list and was answered %s, which is neither a refusal by SEQUENCE nor (rightly) the original's reply", d.desc, c.slot, c.seq, c.desc, statusOf(d.res))
				}
				w.label("false_retry_inflight_refused")
				continue
			}
		}
		if ok, _ := replayAcceptable(c, d.raw, d.res); !ok {
			w.failf("C19: a duplicate of %q that arrived while the original was being processed completed with %s, but the original's result is %s", c.desc, statusOf(d.res), statusOf(res))
		}
		if d.mayFalse {
			w.label("false_retry_inflight_answered_with_original")
		} else {
			w.label("inflight_duplicate_completed_with_original")
			if repliedIllegal(c) {
				w.label("inflight_duplicate_of_compound_with_illegal_op")
				w.label("inflight_duplicate_of_compound_with_illegal_op:" + c.t.illegal.which)
			}
			if sl.preset && (c.seq == maxU32 || c.seq == 0) {
				w.label("inflight_duplicate_at_wrap_around")
			}
		}
	}
}

func propertyOf(kind string) string {
	switch kind {
	case "lock", "lockt", "locku", "lock_probe":
		return "C20"
	}
	return "C18"
}

// ---------------------------------------------------------------- time

func (w *world) doAdvance(d time.Duration) {
	w.stepNo++
	w.record("advance", d.String())
	w.clk.advance(d)
}

var opNames = map[nfsv4.NfsOpnum4]string{
	nfsv4.OP_CLOSE: "CLOSE", nfsv4.OP_FREE_STATEID: "FREE_STATEID", nfsv4.OP_GETFH: "GETFH", nfsv4.OP_LINK: "LINK",
	nfsv4.OP_LOCK: "LOCK", nfsv4.OP_LOCKT: "LOCKT", nfsv4.OP_LOCKU: "LOCKU", nfsv4.OP_LOOKUP: "LOOKUP",
	nfsv4.OP_OPEN: "OPEN", nfsv4.OP_OPEN_DOWNGRADE: "OPEN_DOWNGRADE", nfsv4.OP_PUTFH: "PUTFH", nfsv4.OP_PUTROOTFH: "PUTROOTFH",
	nfsv4.OP_READ: "READ", nfsv4.OP_REMOVE: "REMOVE", nfsv4.OP_RENAME: "RENAME", nfsv4.OP_RESTOREFH: "RESTOREFH",
	nfsv4.OP_SAVEFH: "SAVEFH", nfsv4.OP_SETATTR: "SETATTR", nfsv4.OP_WRITE: "WRITE", nfsv4.OP_TEST_STATEID: "TEST_STATEID",
	nfsv4.OP_DESTROY_SESSION: "DESTROY_SESSION", nfsv4.OP_DESTROY_CLIENTID: "DESTROY_CLIENTID", nfsv4.OP_RECLAIM_COMPLETE: "RECLAIM_COMPLETE",
	nfsv4.OP_ILLEGAL: "ILLEGAL", nfsv4.OP_RENEW: "RENEW", nfsv4.OP_OPEN_CONFIRM: "OPEN_CONFIRM", nfsv4.OP_SETCLIENTID: "SETCLIENTID",
	nfsv4.OP_SETCLIENTID_CONFIRM: "SETCLIENTID_CONFIRM", nfsv4.OP_RELEASE_LOCKOWNER: "RELEASE_LOCKOWNER",
}

func opName(op nfsv4.NfsOpnum4) string {
	if n, ok := opNames[op]; ok {
		return n
	}
	return fmt.Sprintf("op%d", op)
}

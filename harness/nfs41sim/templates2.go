package nfs41sim

import (
	"bytes"
	"fmt"
	"strconv"
	"strings"

	"github.com/buildbarn/go-xdr/pkg/protocols/nfsv4"
)

// Templates added when the simulator was strengthened: the remaining OPEN
// claim types, share_deny, RENAME and LINK, and the observer's LOCKT
// sweeps.

// ---------------------------------------------------------------- OPEN: remaining claims, share_deny

var delegTypeNames = map[nfsv4.OpenDelegationType4]string{
	nfsv4.OPEN_DELEGATE_NONE:  "NONE",
	nfsv4.OPEN_DELEGATE_READ:  "READ",
	nfsv4.OPEN_DELEGATE_WRITE: "WRITE",
}

// tOpenPrevious: PUTFH; OPEN(CLAIM_PREVIOUS); GETFH. The server has no
// grace period. The code documents "Only permit reusing an existing
// open-owner file, using the same delegation type": with open state of
// that open-owner on that file and delegate type NONE the request is
// treated like another OPEN by that owner (or refused, which RFC 8881
// section 18.16.3 allows outside of the grace period); in every other
// case it must be refused with NFS4ERR_RECLAIM_BAD or NFS4ERR_NO_GRACE.
// The code opens the file before it looks at the open-owner, so a refusal
// has to close it again.
func (w *world) tOpenPrevious(inc *incM, fh []byte, owner string, acc uint32, deleg nfsv4.OpenDelegationType4) *tmpl {
	t := &tmpl{kind: "open_previous", stateOp: true, data: map[string]any{}, faultOK: []string{"openself"}}
	t.desc = fmt.Sprintf("PUTFH %s; OPEN(CLAIM_PREVIOUS delegate type %s, owner %q, %s)", w.fhName(fh), delegTypeNames[deleg], owner, accString(acc))
	t.ops = []nfsv4.NfsArgop4{
		opPutFH(fh),
		&nfsv4.NfsArgop4_OP_OPEN{Opopen: nfsv4.Open4args{
			ShareAccess: accToWire(acc),
			ShareDeny:   nfsv4.OPEN4_SHARE_DENY_NONE,
			Owner:       nfsv4.OpenOwner4{Clientid: inc.clientID, Owner: []byte(owner)},
			Openhow:     openHow("nocreate"),
			Claim:       &nfsv4.OpenClaim4_CLAIM_PREVIOUS{DelegateType: deleg},
		}},
		&nfsv4.NfsArgop4_OP_GETFH{},
	}
	refused := sts{nfsv4.NFS4ERR_RECLAIM_BAD, nfsv4.NFS4ERR_NO_GRACE}
	t.atExec = func(c *call) {
		st, leaf := w.predictPutFH(fh)
		switch {
		case st != nfsv4.NFS4_OK:
			t.expect = []sts{one(st)}
		case leaf == nil:
			t.expect = []sts{one(nfsv4.NFS4_OK), one(nfsv4.NFS4ERR_ISDIR)}
		default:
			existing := inc.opens[owner+"|"+string(fh)]
			if existing != nil && deleg == nfsv4.OPEN_DELEGATE_NONE {
				t.expect = []sts{one(nfsv4.NFS4_OK), append(sts{nfsv4.NFS4_OK}, refused...), one(nfsv4.NFS4_OK)}
				t.data["may_grant"] = true
			} else {
				t.expect = []sts{one(nfsv4.NFS4_OK), refused}
			}
			t.data["leaf"] = leaf
			t.data["existing"] = existing != nil
		}
	}
	t.onDone = func(c *call, res []nfsv4.NfsResop4) {
		if t.data["leaf"] == nil || len(res) < 2 {
			return
		}
		if resStatus(res[1]) != nfsv4.NFS4_OK {
			for _, r := range refused {
				if resStatus(res[1]) == r {
					if t.data["existing"].(bool) {
						w.label("claim_previous_refused_with_open_owner_file")
					} else {
						w.label("claim_previous_refused_without_open_owner_file")
					}
				}
			}
			return
		}
		if len(res) != 3 || resStatus(res[2]) != nfsv4.NFS4_OK {
			return
		}
		ok := res[1].(*nfsv4.NfsResop4_OP_OPEN).Opopen.(*nfsv4.Open4res_NFS4_OK).Resok4
		got := res[2].(*nfsv4.NfsResop4_OP_GETFH).Opgetfh.(*nfsv4.Getfh4res_NFS4_OK).Resok4.Object
		if !bytes.Equal(got, fh) {
			w.failf("C18: OPEN(CLAIM_PREVIOUS) on %x changed the current file handle to %x", fh, got)
		}
		w.modelOpen(c, owner, t.data["leaf"].(*countLeaf), fh, acc, ok.Stateid)
		w.label("claim_previous_granted_as_reopen")
	}
	return t
}

// tOpenDelegClaim: OPEN with one of the four delegation claims. The server
// never hands out delegations; "we can only meaningfully support
// CLAIM_NULL, CLAIM_PREVIOUS, and CLAIM_FH". The request has to be refused
// (the code: NFS4ERR_RECLAIM_BAD for the *_CUR claims, NFS4ERR_NOTSUPP for
// the *_PREV claims) and nothing may be opened, created or recorded.
func (w *world) tOpenDelegClaim(inc *incM, claim string, fh []byte, name, owner string, acc uint32, how string, sid nfsv4.Stateid4) *tmpl {
	t := &tmpl{kind: "open_" + claim, data: map[string]any{}, noEffect: true}
	var first nfsv4.NfsArgop4
	var c4 nfsv4.OpenClaim4
	byName := false
	switch claim {
	case "delegate_cur":
		c4 = &nfsv4.OpenClaim4_CLAIM_DELEGATE_CUR{DelegateCurInfo: nfsv4.OpenClaimDelegateCur4{DelegateStateid: sid, File: name}}
		byName = true
	case "delegate_prev":
		c4 = &nfsv4.OpenClaim4_CLAIM_DELEGATE_PREV{FileDelegatePrev: name}
		byName = true
	case "deleg_cur_fh":
		c4 = &nfsv4.OpenClaim4_CLAIM_DELEG_CUR_FH{OcDelegateStateid: sid}
	case "deleg_prev_fh":
		c4 = &nfsv4.OpenClaim4_CLAIM_DELEG_PREV_FH{}
	default:
		panic("nfs41sim: unknown delegation claim " + claim)
	}
	if byName {
		first = &nfsv4.NfsArgop4_OP_PUTROOTFH{}
		t.desc = fmt.Sprintf("OPEN(CLAIM_%s %q %s, owner %q, %s, %s)", claim, name, fmtSID(sid), owner, accString(acc), how)
	} else {
		first = opPutFH(fh)
		t.desc = fmt.Sprintf("PUTFH %s; OPEN(CLAIM_%s %s, owner %q, %s, %s)", w.fhName(fh), claim, fmtSID(sid), owner, accString(acc), how)
	}
	t.ops = []nfsv4.NfsArgop4{
		first,
		&nfsv4.NfsArgop4_OP_OPEN{Opopen: nfsv4.Open4args{
			ShareAccess: accToWire(acc),
			ShareDeny:   nfsv4.OPEN4_SHARE_DENY_NONE,
			Owner:       nfsv4.OpenOwner4{Clientid: inc.clientID, Owner: []byte(owner)},
			Openhow:     openHow(how),
			Claim:       c4,
		}},
		&nfsv4.NfsArgop4_OP_GETFH{},
	}
	t.atExec = func(c *call) {
		refusal := sts{nfsv4.NFS4ERR_RECLAIM_BAD, nfsv4.NFS4ERR_NOTSUPP, nfsv4.NFS4ERR_BAD_STATEID, nfsv4.NFS4ERR_NO_GRACE}
		if byName {
			t.expect = []sts{one(nfsv4.NFS4_OK), refusal}
			return
		}
		st, leaf := w.predictPutFH(fh)
		switch {
		case st != nfsv4.NFS4_OK:
			t.expect = []sts{one(st)}
		case leaf == nil:
			t.expect = []sts{one(nfsv4.NFS4_OK), append(sts{nfsv4.NFS4ERR_ISDIR}, refusal...)}
		default:
			t.expect = []sts{one(nfsv4.NFS4_OK), refusal}
		}
	}
	t.onDone = func(c *call, res []nfsv4.NfsResop4) {
		if len(res) == 2 {
			w.label("delegation_claim_refused:" + claim)
		}
	}
	return t
}

// tOpenDeny: OPEN (CLAIM_NULL or CLAIM_FH) with share_deny other than
// NONE. "As with most UNIX-like systems, we don't support share_deny.
// Only permit this field to be set to OPEN4_SHARE_DENY_NONE": the request
// is refused (the code: NFS4ERR_SHARE_DENIED for the three defined
// values, NFS4ERR_INVAL for undefined ones) before anything is looked up,
// opened or created.
func (w *world) tOpenDeny(inc *incM, fh []byte, name, owner string, acc uint32, how string, deny uint32) *tmpl {
	t := &tmpl{kind: "open_share_deny", data: map[string]any{}, noEffect: true}
	var first nfsv4.NfsArgop4
	var c4 nfsv4.OpenClaim4
	if fh == nil {
		first = &nfsv4.NfsArgop4_OP_PUTROOTFH{}
		c4 = &nfsv4.OpenClaim4_CLAIM_NULL{File: name}
		t.desc = fmt.Sprintf("OPEN(CLAIM_NULL %q, owner %q, %s, %s, share_deny %d)", name, owner, accString(acc), how, deny)
	} else {
		first = opPutFH(fh)
		c4 = &nfsv4.OpenClaim4_CLAIM_FH{}
		how = "nocreate"
		t.desc = fmt.Sprintf("PUTFH %s; OPEN(CLAIM_FH, owner %q, %s, share_deny %d)", w.fhName(fh), owner, accString(acc), deny)
	}
	t.ops = []nfsv4.NfsArgop4{
		first,
		&nfsv4.NfsArgop4_OP_OPEN{Opopen: nfsv4.Open4args{
			ShareAccess: accToWire(acc),
			ShareDeny:   deny,
			Owner:       nfsv4.OpenOwner4{Clientid: inc.clientID, Owner: []byte(owner)},
			Openhow:     openHow(how),
			Claim:       c4,
		}},
		&nfsv4.NfsArgop4_OP_GETFH{},
	}
	t.atExec = func(c *call) {
		refusal := sts{nfsv4.NFS4ERR_SHARE_DENIED, nfsv4.NFS4ERR_NOTSUPP, nfsv4.NFS4ERR_INVAL}
		if deny > nfsv4.OPEN4_SHARE_DENY_BOTH {
			refusal = one(nfsv4.NFS4ERR_INVAL)
		}
		if fh == nil {
			t.expect = []sts{one(nfsv4.NFS4_OK), refusal}
			return
		}
		st, leaf := w.predictPutFH(fh)
		switch {
		case st != nfsv4.NFS4_OK:
			t.expect = []sts{one(st)}
		case leaf == nil:
			t.expect = []sts{one(nfsv4.NFS4_OK), append(sts{nfsv4.NFS4ERR_ISDIR}, refusal...)}
		default:
			t.expect = []sts{one(nfsv4.NFS4_OK), refusal}
		}
	}
	t.onDone = func(c *call, res []nfsv4.NfsResop4) {
		if len(res) == 2 {
			w.label("share_deny_refused")
		}
	}
	return t
}

// ---------------------------------------------------------------- RENAME, LINK

// tRename: RENAME inside the root directory, reached either through
// PUTROOTFH or through PUTFH of the root's file handle. Renaming over an
// existing file removes that file's name; if it was the last one, the file
// is unlinked, and if it is open it has to stay usable.
func (w *world) tRename(oldName, newName string, viaPutFH bool) *tmpl {
	t := &tmpl{kind: "rename", data: map[string]any{}}
	var first nfsv4.NfsArgop4 = &nfsv4.NfsArgop4_OP_PUTROOTFH{}
	t.desc = fmt.Sprintf("PUTROOTFH; SAVEFH; RENAME %q -> %q", oldName, newName)
	if viaPutFH {
		first = opPutFH(w.rootFH)
		t.desc = fmt.Sprintf("PUTFH root; SAVEFH; RENAME %q -> %q", oldName, newName)
	}
	t.ops = []nfsv4.NfsArgop4{
		first,
		&nfsv4.NfsArgop4_OP_SAVEFH{},
		&nfsv4.NfsArgop4_OP_RENAME{Oprename: nfsv4.Rename4args{Oldname: oldName, Newname: newName}},
	}
	t.atExec = func(c *call) {
		oldLeaf, newLeaf := w.lookupTruth(oldName), w.lookupTruth(newName)
		if oldLeaf == nil {
			t.expect = []sts{one(nfsv4.NFS4_OK), one(nfsv4.NFS4_OK), one(nfsv4.NFS4ERR_NOENT)}
			return
		}
		t.expect = []sts{one(nfsv4.NFS4_OK), one(nfsv4.NFS4_OK), one(nfsv4.NFS4_OK)}
		t.data["old"] = oldLeaf
		if w.leafHasLiveOpen(oldLeaf) {
			w.label("rename_of_open_file")
		}
		if newLeaf != nil && newLeaf != oldLeaf {
			t.data["replaced"] = newLeaf
			if w.leafHasLiveOpen(newLeaf) {
				w.label("rename_over_open_file")
			}
		}
	}
	t.onDone = func(c *call, res []nfsv4.NfsResop4) {
		if len(res) != 3 || resStatus(res[2]) != nfsv4.NFS4_OK || t.data["old"] == nil {
			return
		}
		if got := w.lookupTruth(newName); got != t.data["old"].(*countLeaf) {
			w.failf("C18: after RENAME %q -> %q the new name refers to %v instead of %v", oldName, newName, got, t.data["old"])
		}
		if r, ok := t.data["replaced"].(*countLeaf); ok && !w.leafLinked(r) {
			w.label("file_unlinked_by_rename")
			if w.leafHasLiveOpen(r) {
				w.label("open_file_unlinked_by_rename")
			}
		}
	}
	return t
}

// tLink: PUTFH file; SAVEFH; PUTROOTFH; LINK name.
func (w *world) tLink(fh []byte, newName string) *tmpl {
	t := &tmpl{kind: "link", data: map[string]any{}}
	t.desc = fmt.Sprintf("PUTFH %s; SAVEFH; PUTROOTFH; LINK %q", w.fhName(fh), newName)
	t.ops = []nfsv4.NfsArgop4{
		opPutFH(fh),
		&nfsv4.NfsArgop4_OP_SAVEFH{},
		&nfsv4.NfsArgop4_OP_PUTROOTFH{},
		&nfsv4.NfsArgop4_OP_LINK{Oplink: nfsv4.Link4args{Newname: newName}},
	}
	t.atExec = func(c *call) {
		st, leaf := w.predictPutFH(fh)
		ok := one(nfsv4.NFS4_OK)
		switch {
		case st != nfsv4.NFS4_OK:
			t.expect = []sts{one(st)}
		case leaf == nil:
			t.expect = []sts{ok, ok, ok, one(nfsv4.NFS4ERR_ISDIR)}
		default:
			var bad sts
			if w.lookupTruth(newName) != nil {
				bad = append(bad, nfsv4.NFS4ERR_EXIST)
			}
			if !w.leafLinked(leaf) {
				// "Link() ... if l.linkCount == 0 { return StatusErrStale }":
				// a file without names cannot be brought back.
				bad = append(bad, nfsv4.NFS4ERR_STALE)
				w.label("link_of_unlinked_open_file_refused")
			}
			if len(bad) > 0 {
				t.expect = []sts{ok, ok, ok, bad}
				return
			}
			t.expect = []sts{ok, ok, ok, ok}
			t.data["leaf"] = leaf
		}
	}
	t.onDone = func(c *call, res []nfsv4.NfsResop4) {
		if len(res) != 4 || resStatus(res[3]) != nfsv4.NFS4_OK || t.data["leaf"] == nil {
			return
		}
		leaf := t.data["leaf"].(*countLeaf)
		if got := w.lookupTruth(newName); got != leaf {
			w.failf("C18: after LINK %q the name refers to %v instead of %v", newName, got, leaf)
		}
		w.label("link_created")
		if w.leafHasLiveOpen(leaf) {
			w.label("link_to_open_file_created")
		}
	}
	return t
}

// ---------------------------------------------------------------- observer LOCKT sweeps

const observerLockOwner = "OBSERVER"

type lockProbe struct {
	unit, typ int
}

func unitRange(u int) lockRange {
	off := pointToOffset(u)
	return lockRange{offset: off, length: pointToOffset(u+1) - off}
}

// tLockProbe: PUTFH; LOCKT...: the observer lock-owner, who never holds
// a lock, tests single units. Every LOCKT must be answered as the
// per-byte model says (OK: no conflicting holder of that unit; DENIED:
// naming a lock that is really there), so the server's lock table is
// compared with the model unit by unit instead of only where a later
// generated request happens to look.
func (w *world) tLockProbe(inc *incM, fh []byte, leaf *countLeaf, probes []lockProbe, why string) *tmpl {
	t := &tmpl{kind: "lock_probe", data: map[string]any{}}
	var desc strings.Builder
	desc.WriteString("observer after ")
	desc.WriteString(why)
	desc.WriteString(": PUTFH ")
	desc.WriteString(w.fhName(fh))
	desc.WriteString("; LOCKT")
	t.ops = []nfsv4.NfsArgop4{opPutFH(fh)}
	for _, p := range probes {
		r := unitRange(p.unit)
		desc.WriteString(" ")
		desc.WriteString(typName(p.typ)[:1])
		desc.WriteString(strconv.Itoa(p.unit))
		t.ops = append(t.ops, &nfsv4.NfsArgop4_OP_LOCKT{Oplockt: nfsv4.Lockt4args{Locktype: wireLockType(p.typ, false), Offset: r.offset, Length: r.length, Owner: nfsv4.LockOwner4{Clientid: inc.clientID, Owner: []byte(observerLockOwner)}}})
	}
	t.desc = desc.String()
	key := lockOwnerKey(inc.clientID, observerLockOwner)
	t.atExec = func(c *call) {
		if st, _ := w.predictPutFH(fh); st != nfsv4.NFS4_OK {
			t.expect = []sts{one(st)}
			return
		}
		t.expect = []sts{one(nfsv4.NFS4_OK)}
		for _, p := range probes {
			acceptable, _, _, _ := w.predictLock(leaf, key, unitRange(p.unit), p.typ)
			t.expect = append(t.expect, acceptable)
			if acceptable[0] != nfsv4.NFS4_OK {
				break
			}
		}
	}
	t.onDone = func(c *call, res []nfsv4.NfsResop4) {
		if len(res) < 2 {
			return
		}
		for i, r := range res[1:] {
			p := probes[i]
			if d, ok := r.(*nfsv4.NfsResop4_OP_LOCKT).Oplockt.(*nfsv4.Lockt4res_NFS4ERR_DENIED); ok {
				w.checkDenied(fmt.Sprintf("the observer's LOCKT %s of unit %d of %s after %s", typName(p.typ), p.unit, leaf, why), leaf, key, p.unit, p.unit+1, p.typ, &d.Denied)
				w.labels["lock_probe_units_held"]++
			} else {
				w.labels["lock_probe_units_free"]++
			}
		}
	}
	return t
}

// ---------------------------------------------------------------- a superseded current state ID

// tOpenReopenThen: PUTROOTFH; OPEN; SAVEFH; PUTROOTFH; OPEN of the same
// file by the same open-owner; RESTOREFH; an operation that uses the
// current state ID. The second OPEN supersedes the state ID of the first
// (same "other", next seqid); RESTOREFH brings back the file handle
// together with the state ID as SAVEFH stored it, i.e. the superseded
// one. RFC 8881 sections 8.2.3 and 16.2.3.1.2, as quoted by
// getOpenOwnerFileByStateID(): only CLOSE and OPEN_DOWNGRADE insist on
// the latest seqid of the current state ID (NFS4ERR_OLD_STATEID, nothing
// changes); every other use is honoured. Seven operations: it only fits
// sessions that allow eight per COMPOUND (others refuse it as a whole,
// which the engine predicts).
func (w *world) tOpenReopenThen(inc *incM, name, owner string, acc, acc2 uint32, then string) *tmpl {
	t := &tmpl{kind: "open_reopen_then_" + then, stateOp: true, data: map[string]any{}}
	open := func(a uint32) nfsv4.NfsArgop4 {
		return &nfsv4.NfsArgop4_OP_OPEN{Opopen: nfsv4.Open4args{
			ShareAccess: accToWire(a),
			ShareDeny:   nfsv4.OPEN4_SHARE_DENY_NONE,
			Owner:       nfsv4.OpenOwner4{Clientid: inc.clientID, Owner: []byte(owner)},
			Openhow:     openHow("nocreate"),
			Claim:       &nfsv4.OpenClaim4_CLAIM_NULL{File: name},
		}}
	}
	bit := accR
	var last nfsv4.NfsArgop4
	switch then {
	case "read":
		last = &nfsv4.NfsArgop4_OP_READ{Opread: nfsv4.Read4args{Stateid: currentSID, Offset: 0, Count: 2}}
	case "write":
		bit = accW
		last = &nfsv4.NfsArgop4_OP_WRITE{Opwrite: nfsv4.Write4args{Stateid: currentSID, Offset: 0, Stable: nfsv4.FILE_SYNC4, Data: []byte{0x34}}}
	case "close":
		last = &nfsv4.NfsArgop4_OP_CLOSE{Opclose: nfsv4.Close4args{OpenStateid: currentSID}}
	case "downgrade":
		last = &nfsv4.NfsArgop4_OP_OPEN_DOWNGRADE{OpopenDowngrade: nfsv4.OpenDowngrade4args{OpenStateid: currentSID, ShareAccess: accToWire(acc), ShareDeny: nfsv4.OPEN4_SHARE_DENY_NONE}}
	default:
		panic("nfs41sim: tOpenReopenThen " + then)
	}
	t.desc = fmt.Sprintf("OPEN(CLAIM_NULL %q, owner %q, %s, nocreate); SAVEFH; PUTROOTFH; OPEN(the same, %s); RESTOREFH; %s(current state ID, superseded)", name, owner, accString(acc), accString(acc2), strings.ToUpper(then))
	t.ops = []nfsv4.NfsArgop4{
		&nfsv4.NfsArgop4_OP_PUTROOTFH{}, open(acc), &nfsv4.NfsArgop4_OP_SAVEFH{},
		&nfsv4.NfsArgop4_OP_PUTROOTFH{}, open(acc2), &nfsv4.NfsArgop4_OP_RESTOREFH{},
		last,
	}
	t.predict = func(c *call) {
		leaf := w.lookupTruth(name)
		t.data["leaf"] = leaf
		if leaf == nil {
			t.expect = []sts{one(nfsv4.NFS4_OK), one(nfsv4.NFS4ERR_NOENT)}
			return
		}
		st := nfsv4.NFS4_OK
		if then == "close" || then == "downgrade" {
			st = nfsv4.NFS4ERR_OLD_STATEID
			w.label("superseded_current_stateid_refused:" + then)
		} else {
			access := acc | acc2
			if o := inc.opens[owner+"|"+string(leaf.handleCopy())]; o != nil {
				access |= o.access
			}
			if access&bit == 0 {
				st = nfsv4.NFS4ERR_OPENMODE
			}
			w.label("superseded_current_stateid_honoured:" + then)
		}
		ok := one(nfsv4.NFS4_OK)
		t.expect = []sts{ok, ok, ok, ok, ok, ok, one(st)}
	}
	t.onDone = func(c *call, res []nfsv4.NfsResop4) {
		leaf, _ := t.data["leaf"].(*countLeaf)
		if leaf == nil {
			return
		}
		fh := leaf.handleCopy()
		for _, x := range []struct {
			idx int
			acc uint32
		}{{1, acc}, {4, acc2}} {
			if len(res) <= x.idx || resStatus(res[x.idx]) != nfsv4.NFS4_OK {
				return
			}
			ok := res[x.idx].(*nfsv4.NfsResop4_OP_OPEN).Opopen.(*nfsv4.Open4res_NFS4_OK).Resok4
			w.learnFH(fh, leaf)
			w.modelOpen(c, owner, leaf, fh, x.acc, ok.Stateid)
		}
	}
	return t
}

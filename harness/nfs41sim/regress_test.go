package nfs41sim

import (
	"testing"

	"github.com/buildbarn/go-xdr/pkg/protocols/nfsv4"
)

// Minimal scripts of the defects the generated checks found in the pinned
// tree. They run through the same executor and oracles, without rapid.

func runScript(t *testing.T, nClients int, body func(w *world)) {
	runScriptWith(t, c18Profile(), nClients, body)
}

func runScriptWith(t *testing.T, p *profile, nClients int, body func(w *world)) {
	p.faultPct, p.probePct = 0, 100
	res, failure := runInBubble(t, func() *world { return newWorldWith(nil, p, 7, nClients) }, func(w *world) {
		body(w)
		w.finalDrain()
	})
	if failure != "" {
		t.Fatalf("%s\nscript:\n%s", failure, formatScript(res.script))
	}
}

func (w *world) next(sess *sessM, slot uint32, t *tmpl, cache bool, plan map[string]bool) *call {
	if plan == nil {
		plan = map[string]bool{}
	}
	return w.sendSeq(sess, slot, sess.slots[slot].lastSeq+1, "new", t, cache, plan, nil)
}

func (w *world) fhOf(name string) []byte {
	l := w.lookupTruth(name)
	for _, k := range w.knownFH {
		if k.leaf == l {
			return k.fh
		}
	}
	panic("file handle of " + name + " was not learned yet")
}

// C19: a duplicate SEQUENCE (same session, slot, sequence ID, operations)
// that arrives while the original is parked inside VirtualRead must
// complete with the original's result once the original is released.
func TestC19RegressInflightDuplicateCompletes(t *testing.T) {
	runScript(t, 1, func(w *world) {
		sess := w.bootstrap(w.clients[0])
		w.next(sess, 0, w.tLookup("a"), true, nil)
		read := w.tIO(sess.inc, "READ", w.fhOf("a"), anonSID, "anon")
		orig := w.next(sess, 1, read, true, map[string]bool{"io": true})
		if w.parkOf(orig) == nil {
			t.Fatalf("the READ did not park")
		}
		w.sendSeq(sess, 1, orig.seq, "dup", read, true, nil, orig)
		w.stepNo++
		w.record("release", "the parked READ")
		w.release(w.parkOf(orig))
		if w.labels["inflight_duplicate_completed_with_original"] != 1 {
			t.Fatalf("the duplicate was not evaluated: %v", w.labels)
		}
	})
}

// C20: an owner's own locks never conflict: LOCKT naming the owner that
// holds the range, and a LOCK by the same lock-owner through a second
// open (other open-owner) of the same file.
func TestC20RegressOwnLocksNeverConflict(t *testing.T) {
	runScript(t, 1, func(w *world) {
		sess := w.bootstrap(w.clients[0])
		inc := sess.inc
		w.next(sess, 0, w.tOpen(inc, "a", "o1", accR|accW, "nocreate"), true, nil)
		fh := w.fhOf("a")
		o1 := inc.opens["o1|"+string(fh)]
		r := lockRange{offset: 0, length: 3, desc: "units [0,3)"}
		w.next(sess, 0, w.tLock(inc, fh, true, mkStateID(o1.seq, o1.other), "cur", "L1", ltWrite, false, r), true, nil)
		w.next(sess, 0, w.tLockT(inc, fh, "L1", ltWrite, r), true, nil)
		w.next(sess, 0, w.tLockT(inc, fh, "L2", ltWrite, r), true, nil)
		w.next(sess, 0, w.tOpen(inc, "a", "o2", accR, "nocreate"), true, nil)
		o2 := inc.opens["o2|"+string(fh)]
		r2 := lockRange{offset: 1, length: maxU64, desc: "units [1,13)"}
		w.next(sess, 0, w.tLock(inc, fh, true, mkStateID(o2.seq, o2.other), "cur", "L1", ltRead, false, r2), true, nil)
		if w.labels["same_owner_lock_state_via_second_open"] != 1 || w.labels["lockt_denied"] != 1 || w.labels["lockt_ok"] != 1 {
			t.Fatalf("script did not reach the intended states: %v", w.labels)
		}
		// Closing the first open releases the owner's bytes on the file.
		w.next(sess, 0, w.tClose(inc, fh, mkStateID(o1.seq, o1.other), "cur"), true, nil)
		w.next(sess, 0, w.tLockT(inc, fh, "L2", ltWrite, r2), true, nil)
		w.next(sess, 0, w.tClose(inc, fh, mkStateID(o2.seq, o2.other), "cur"), true, nil)
	})
}

// C18/C20: FREE_STATEID of lock state that still holds byte-range locks
// is refused with NFS4ERR_LOCKS_HELD (RFC 8881 section 18.38.3) and leaves
// everything in place; after LOCKU it succeeds and releases the share
// reservation cloned into the lock state.
func TestC18RegressFreeStateIDWithLocksHeld(t *testing.T) {
	runScript(t, 1, func(w *world) {
		sess := w.bootstrap(w.clients[0])
		inc := sess.inc
		w.next(sess, 0, w.tOpen(inc, "a", "o1", accR|accW, "nocreate"), true, nil)
		fh := w.fhOf("a")
		o1 := inc.opens["o1|"+string(fh)]
		r := lockRange{offset: 2, length: 2, desc: "units [2,4)"}
		w.next(sess, 0, w.tLock(inc, fh, true, mkStateID(o1.seq, o1.other), "cur", "L1", ltRead, false, r), true, nil)
		l := o1.locks["L1"]
		c := w.next(sess, 0, w.tFreeStateID(inc, mkStateID(l.seq, l.other), "cur"), true, nil)
		if c.res.Status != nfsv4.NFS4ERR_LOCKS_HELD {
			t.Fatalf("FREE_STATEID answered %s", shortStatus(c.res.Status))
		}
		w.next(sess, 0, w.tLockU(inc, fh, mkStateID(l.seq, l.other), "cur", r), true, nil)
		w.next(sess, 0, w.tDowngrade(inc, fh, mkStateID(o1.seq, o1.other), "cur", accR), true, nil)
		w.next(sess, 0, w.tFreeStateID(inc, mkStateID(l.seq, l.other), "cur"), true, nil)
		if w.labels["free_stateid_ok"] != 1 {
			t.Fatalf("FREE_STATEID after LOCKU was not granted: %v", w.labels)
		}
	})
}

// C18: "state IDs are honoured only for the file ... they were issued for":
// the current state ID set by OPEN does not survive an operation that sets
// the current file handle anew (PUTFH, PUTROOTFH, LOOKUP), but it is saved
// and restored together with the file handle by SAVEFH/RESTOREFH.
func TestC18RegressCurrentStateIDFollowsFileHandle(t *testing.T) {
	runScript(t, 1, func(w *world) {
		sess := w.bootstrap(w.clients[0])
		inc := sess.inc
		w.next(sess, 0, w.tLookup("a"), true, nil)
		w.next(sess, 0, w.tLookup("b"), true, nil)
		fhB := w.fhOf("b")
		for _, via := range []string{"putfh_other", "putfh_same", "putrootfh", "lookup_other", "lookup_same"} {
			for _, then := range []string{"read", "write", "close", "setattr", "downgrade", "lock"} {
				w.next(sess, 0, w.tOpenThen(inc, "a", "o1", accR|accW, then, via, fhB, "b"), true, nil)
			}
		}
		if w.labels["stateid_rejected:current_after_filehandle_change"] != 30 {
			t.Fatalf("not every variant was evaluated: %v", w.labels)
		}
		w.next(sess, 0, w.tOpenThen(inc, "a", "o1", accR|accW, "read", "save_restore", fhB, "b"), true, nil)
		w.next(sess, 0, w.tOpenThen(inc, "a", "o1", accR|accW, "close", "save_restore", fhB, "b"), true, nil)
		if w.labels["current_stateid_restored_by_restorefh"] != 2 || len(inc.opens) != 0 {
			t.Fatalf("SAVEFH/RESTOREFH variant did not close the file: %v", w.labels)
		}
	})
}

// C19 (strict reading, part nfs41strict): a request that reuses slot and
// sequence ID of a request that is still parked, with operations the
// original's reply does not fit, must not receive that reply.
func TestC19StrictRegressInflightFalseRetryRefused(t *testing.T) {
	p := c19Profile()
	p.strictInflightFalseRetry = true
	runScriptWith(t, p, 1, func(w *world) {
		sess := w.bootstrap(w.clients[0])
		w.next(sess, 0, w.tLookup("a"), true, nil)
		read := w.tIO(sess.inc, "READ", w.fhOf("a"), anonSID, "anon")
		orig := w.next(sess, 1, read, true, map[string]bool{"io": true})
		if w.parkOf(orig) == nil {
			t.Fatalf("the READ did not park")
		}
		w.sendSeq(sess, 1, orig.seq, "false_retry", w.tOpen(sess.inc, "a", "o1", accR, "nocreate"), true, nil, nil)
		w.stepNo++
		w.record("release", "the parked READ")
		w.release(w.parkOf(orig))
		if w.labels["false_retry_inflight_rejected"] != 1 {
			t.Fatalf("the false retry was not evaluated: %v", w.labels)
		}
	})
}

// C18: CLAIM_PREVIOUS without matching open state is refused and the file,
// which the server opened before it looked, is closed again; with matching
// open state it acts like another OPEN by that owner. Delegation claims
// and share_deny are refused without touching anything.
func TestC18RegressOpenClaims(t *testing.T) {
	runScript(t, 1, func(w *world) {
		sess := w.bootstrap(w.clients[0])
		inc := sess.inc
		w.next(sess, 0, w.tLookup("a"), true, nil)
		fh := w.fhOf("a")
		w.next(sess, 0, w.tOpenPrevious(inc, fh, "o1", accR|accW, nfsv4.OPEN_DELEGATE_NONE), true, nil)
		w.next(sess, 0, w.tOpen(inc, "a", "o1", accR, "nocreate"), true, nil)
		w.next(sess, 0, w.tOpenPrevious(inc, fh, "o1", accW, nfsv4.OPEN_DELEGATE_NONE), true, nil)
		w.next(sess, 0, w.tOpenPrevious(inc, fh, "o1", accW, nfsv4.OPEN_DELEGATE_READ), true, nil)
		w.next(sess, 0, w.tOpenPrevious(inc, fh, "o2", accW, nfsv4.OPEN_DELEGATE_NONE), true, nil)
		for _, claim := range []string{"delegate_cur", "delegate_prev", "deleg_cur_fh", "deleg_prev_fh"} {
			w.next(sess, 0, w.tOpenDelegClaim(inc, claim, fh, "a", "o1", accR, "nocreate", anonSID), true, nil)
		}
		for _, deny := range []uint32{1, 2, 3, 4} {
			w.next(sess, 0, w.tOpenDeny(inc, nil, "c", "o1", accR, "unchecked", deny), true, nil)
			w.next(sess, 0, w.tOpenDeny(inc, fh, "", "o1", accR, "nocreate", deny), true, nil)
		}
		if w.labels["claim_previous_refused_without_open_owner_file"] != 2 || w.labels["claim_previous_refused_with_open_owner_file"] != 1 ||
			w.labels["claim_previous_granted_as_reopen"] != 1 || w.labels["share_deny_refused"] != 8 {
			t.Fatalf("script did not reach the intended states: %v", w.labels)
		}
	})
}

// C18: an open file stays usable through its state ID and file handle
// after RENAME replaced its last name, and after LINK + REMOVE of the
// original name it is reachable under the new name.
func TestC18RegressOpenFileSurvivesRenameAndLink(t *testing.T) {
	runScript(t, 1, func(w *world) {
		sess := w.bootstrap(w.clients[0])
		inc := sess.inc
		w.next(sess, 0, w.tOpen(inc, "a", "o1", accR|accW, "nocreate"), true, nil)
		fhA := w.fhOf("a")
		oa := inc.opens["o1|"+string(fhA)]
		w.next(sess, 0, w.tRename("b", "a", false), true, nil)
		if w.labels["open_file_unlinked_by_rename"] != 1 {
			t.Fatalf("RENAME did not unlink the open file: %v", w.labels)
		}
		w.next(sess, 0, w.tProbe(fhA), true, nil)
		w.next(sess, 0, w.tIO(inc, "WRITE", fhA, mkStateID(oa.seq, oa.other), "cur"), true, nil)
		w.next(sess, 0, w.tLink(fhA, "c"), true, nil)
		w.next(sess, 0, w.tClose(inc, fhA, mkStateID(oa.seq, oa.other), "cur"), true, nil)
		w.next(sess, 0, w.tProbe(fhA), true, nil)
		// LINK + REMOVE of the original name.
		w.next(sess, 0, w.tOpen(inc, "a", "o2", accR, "nocreate"), true, nil)
		fhB := w.fhOf("a")
		ob := inc.opens["o2|"+string(fhB)]
		w.next(sess, 0, w.tLink(fhB, "c"), true, nil)
		w.next(sess, 0, w.tRemove("a"), true, nil)
		w.next(sess, 0, w.tIO(inc, "READ", fhB, mkStateID(ob.seq, ob.other), "cur"), true, nil)
		w.next(sess, 0, w.tRename("c", "b", true), true, nil)
		w.next(sess, 0, w.tRemove("b"), true, nil)
		w.next(sess, 0, w.tIO(inc, "READ", fhB, mkStateID(ob.seq, ob.other), "cur"), true, nil)
		w.next(sess, 0, w.tProbe(fhB), true, nil)
		if w.labels["link_to_open_file_created"] != 1 || w.labels["probe_unlinked_open_file_reachable"] != 2 || w.labels["probe_unlinked_closed_file_is_stale"] != 1 {
			t.Fatalf("script did not reach the intended states: %v", w.labels)
		}
	})
}

// C19: slot sequence IDs wrap from 2^32-1 to 0 (RFC 8881 section
// 2.10.6.1). New requests, retransmissions, a duplicate of a request in
// flight and misordered sequence IDs on both sides of the wrap-around.
func TestC19RegressSlotSequenceWrapAround(t *testing.T) {
	runScriptWith(t, c19Profile(), 1, func(w *world) {
		sess := w.bootstrap(w.clients[0])
		inc := sess.inc
		w.next(sess, 0, w.tLookup("a"), true, nil)
		fh := w.fhOf("a")
		sl := sess.slots[0]
		w.presetSlot(slotRef{sess, 0}, maxU32-1)
		// Nothing to replay at the slot's sequence ID.
		w.sendSeq(sess, 0, maxU32-1, "misordered", w.tRemove("a"), true, nil, nil)
		open := w.tOpen(inc, "a", "o1", accR|accW, "nocreate")
		w.next(sess, 0, open, true, nil) // sequence 2^32-1
		o := inc.opens["o1|"+string(fh)]
		if o == nil || sl.lastSeq != maxU32 {
			t.Fatalf("OPEN at sequence 2^32-1 was not executed")
		}
		w.sendSeq(sess, 0, maxU32, "replay", open, true, nil, sl.last)
		w.sendSeq(sess, 0, 1, "misordered", w.tRemove("a"), true, nil, nil)        // two ahead, beyond the wrap
		w.sendSeq(sess, 0, maxU32-1, "misordered", w.tRemove("a"), true, nil, nil) // one behind
		read := w.tIO(inc, "READ", fh, mkStateID(o.seq, o.other), "cur")
		orig := w.next(sess, 0, read, true, map[string]bool{"io": true}) // sequence 0
		if w.parkOf(orig) == nil || orig.seq != 0 {
			t.Fatalf("the READ at sequence 0 did not park")
		}
		w.sendSeq(sess, 0, 0, "dup", read, true, nil, orig)
		w.sendSeq(sess, 0, maxU32, "stale_busy", open, true, nil, sl.last)
		w.stepNo++
		w.record("release", "the parked READ")
		w.release(w.parkOf(orig))
		w.sendSeq(sess, 0, 0, "replay", read, true, nil, sl.last)
		w.sendSeq(sess, 0, 0, "false_retry", w.tRemove("a"), true, nil, nil)
		w.sendSeq(sess, 0, maxU32, "misordered", w.tRemove("a"), true, nil, nil) // one behind, beyond the wrap
		w.sendSeq(sess, 0, 2, "misordered", w.tRemove("a"), true, nil, nil)
		w.next(sess, 0, w.tClose(inc, fh, mkStateID(o.seq, o.other), "cur"), true, nil) // sequence 1
		for l, n := range map[string]int{"slot_sequence_wrapped": 1, "replay_at_wrap_around": 2, "misordered_at_wrap_around": 3, "inflight_duplicate_at_wrap_around": 1, "false_retry_rejected": 1, "retransmission_without_cached_reply_at_wrap_around": 0, "close_ok": 1} {
			if w.labels[l] != n {
				t.Fatalf("label %s = %d, expected %d: %v", l, w.labels[l], n, w.labels)
			}
		}
	})
}

// C18: the seqid of a state ID wraps from 2^32-1 to 1 (RFC 8881 section
// 8.2.2: zero is skipped, it means "the most recent one"); a seqid the
// state ID had before the wrap is NFS4ERR_OLD_STATEID, one it has not had
// yet is NFS4ERR_BAD_STATEID, on both sides of the wrap-around.
func TestC18RegressStateIDSeqidWrapAround(t *testing.T) {
	runScript(t, 1, func(w *world) {
		sess := w.bootstrap(w.clients[0])
		inc := sess.inc
		w.next(sess, 0, w.tOpen(inc, "a", "o1", accR|accW, "nocreate"), true, nil)
		fh := w.fhOf("a")
		o := inc.opens["o1|"+string(fh)]
		r := lockRange{offset: 0, length: 3, desc: "units [0,3)"}
		w.next(sess, 0, w.tLock(inc, fh, true, mkStateID(o.seq, o.other), "cur", "L1", ltWrite, false, r), true, nil)
		l := o.locks["L1"]
		w.presetStateID(stateTarget{inc, o.other, o.String(), &o.seq, &o.preset}, maxU32-1)
		w.presetStateID(stateTarget{inc, l.other, l.String(), &l.seq, &l.preset}, maxU32)
		osid := func(seq uint32) nfsv4.Stateid4 { return mkStateID(seq, o.other) }
		lsid := func(seq uint32) nfsv4.Stateid4 { return mkStateID(seq, l.other) }
		expect := func(c *call, want nfsv4.Nfsstat4) {
			if c.res.Status != want {
				t.Fatalf("%s answered %s, expected %s", c.desc, shortStatus(c.res.Status), shortStatus(want))
			}
		}
		// Open state: 2^32-2 -> 2^32-1 -> 1 -> 2.
		expect(w.next(sess, 0, w.tDowngrade(inc, fh, osid(maxU32), "future", accR|accW), true, nil), nfsv4.NFS4ERR_BAD_STATEID)
		expect(w.next(sess, 0, w.tDowngrade(inc, fh, osid(1), "future", accR|accW), true, nil), nfsv4.NFS4ERR_BAD_STATEID)
		expect(w.next(sess, 0, w.tOpen(inc, "a", "o1", accR, "nocreate"), true, nil), nfsv4.NFS4_OK)
		if o.seq != maxU32 {
			t.Fatalf("open state ID is %d", o.seq)
		}
		expect(w.next(sess, 0, w.tClose(inc, fh, osid(maxU32-1), "old"), true, nil), nfsv4.NFS4ERR_OLD_STATEID)
		expect(w.next(sess, 0, w.tDowngrade(inc, fh, osid(maxU32), "cur", accR|accW), true, nil), nfsv4.NFS4_OK)
		if o.seq != 1 {
			t.Fatalf("open state ID is %d after the wrap-around", o.seq)
		}
		expect(w.next(sess, 0, w.tClose(inc, fh, osid(maxU32), "old"), true, nil), nfsv4.NFS4ERR_OLD_STATEID)
		expect(w.next(sess, 0, w.tClose(inc, fh, osid(maxU32-1), "old"), true, nil), nfsv4.NFS4ERR_OLD_STATEID)
		expect(w.next(sess, 0, w.tClose(inc, fh, osid(2), "future"), true, nil), nfsv4.NFS4ERR_BAD_STATEID)
		expect(w.next(sess, 0, w.tOpen(inc, "a", "o1", accW, "nocreate"), true, nil), nfsv4.NFS4_OK)
		// Lock state: 2^32-1 -> 1 -> 2.
		expect(w.next(sess, 0, w.tLockU(inc, fh, lsid(1), "future", r), true, nil), nfsv4.NFS4ERR_BAD_STATEID)
		expect(w.next(sess, 0, w.tLock(inc, fh, false, lsid(maxU32), "cur", "", ltRead, false, lockRange{offset: 4, length: 1, desc: "units [4,5)"}), true, nil), nfsv4.NFS4_OK)
		if l.seq != 1 {
			t.Fatalf("lock state ID is %d after the wrap-around", l.seq)
		}
		expect(w.next(sess, 0, w.tLockU(inc, fh, lsid(maxU32), "old", r), true, nil), nfsv4.NFS4ERR_OLD_STATEID)
		expect(w.next(sess, 0, w.tLockU(inc, fh, lsid(0), "seq0", r), true, nil), nfsv4.NFS4_OK)
		w.next(sess, 0, w.tTestStateID(inc, []nfsv4.Stateid4{osid(maxU32), osid(2), osid(3), osid(0), lsid(maxU32), lsid(2), lsid(3)}), true, nil)
		expect(w.next(sess, 0, w.tClose(inc, fh, osid(2), "cur"), true, nil), nfsv4.NFS4_OK)
		if w.labels["stateid_seqid_wrapped"] != 2 || w.labels["stateid_rejected:old"] != 4 || w.labels["stateid_rejected:future"] != 4 {
			t.Fatalf("script did not reach the intended states: %v", w.labels)
		}
	})
}

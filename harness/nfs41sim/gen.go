package nfs41sim

import (
	"fmt"
	"math/bits"
	"os"
	"runtime/debug"
	"sort"
	"strings"
	"sync/atomic"
	"testing"
	"testing/synctest"
	"time"

	nfsv4prog "github.com/buildbarn/bb-remote-execution/pkg/filesystem/virtual/nfsv4"
	"github.com/buildbarn/go-xdr/pkg/protocols/nfsv4"
	"pgregory.net/rapid"

	"verif/harness/internal/simkit"
)

// profile selects generator weights and oracles for one property.
type profile struct {
	name       string
	clients    [2]int
	steps      [2]int
	ops        []string // multiset of action names, drawn uniformly
	oracle     map[string]bool
	parkPct    int
	devPct     int
	cachePct   int
	faultPct   int // chance that a request that can reach a fault site carries a one-shot fault
	probePct   int // chance that the observer sweeps the lock table of the files touched by a release
	nontrivial func(l map[string]int) bool
	excludeDup bool

	// strictInflightFalseRetry: a false retry of a request that is still
	// being processed must not be answered with that request's reply when
	// the reply does not even fit the operations of the retry.
	strictInflightFalseRetry bool

	// labelErrorReturns: record which (operation, error status) returns
	// were reached (C14: every error return releases all locks).
	labelErrorReturns bool
}

// draw returns a (nearly) uniformly distributed integer in [lo, hi].
// rapid.IntRange is deliberately biased towards small values (about 43%
// of IntRange(0,99) draws are below 10), which would starve most of a
// weighted operation table; single bits are unbiased, so the value is
// assembled from bits. A smaller bit pattern still means a smaller value,
// so shrinking keeps working.
func (w *world) draw(name string, lo, hi int) int {
	n := uint64(hi - lo + 1)
	if n <= 1 {
		return lo
	}
	k := bits.Len64(n-1) + 3
	var v uint64
	for _, b := range rapid.SliceOfN(rapid.Bool(), k, k).Draw(w.rt, name) {
		v <<= 1
		if b {
			v |= 1
		}
	}
	return lo + int(v*n>>uint(k))
}

func (w *world) pct(name string, p int) bool {
	return w.draw(name, 0, 99) < p
}

// drawOwnerClientID decides what the clientid field of the lock-owner in
// the next LOCK / LOCKT carries. NFSv4.1 identifies the client by the
// session; RFC 5661 18.10.3 / 18.11.3: the field "MAY be set to any value
// by the client and MUST be ignored by the server".
func (w *world) drawOwnerClientID(inc *incM) {
	w.ownerClientID = nil
	if !w.pct("ownerClientidNotTheSessions", 30) {
		return
	}
	v := pick(w, "ownerClientid", []uint64{0, 0, inc.clientID + 1, ^uint64(0)})
	for _, other := range w.allIncs {
		if other != inc && w.pct("ownerClientidOfAnotherClient", 30) {
			v = other.clientID
		}
	}
	w.ownerClientID = &v
	w.label("lock_owner_clientid_field_not_the_sessions")
}

// wireOwnerClientID is what the templates put into the clientid field of
// a lock-owner.
func (w *world) wireOwnerClientID(inc *incM) uint64 {
	if w.ownerClientID != nil {
		v := *w.ownerClientID
		w.ownerClientID = nil
		return v
	}
	return inc.clientID
}

func pick[T any](w *world, name string, xs []T) T {
	return xs[w.draw(name, 0, len(xs)-1)]
}

// ---------------------------------------------------------------- choosing sessions, files, state IDs

func (w *world) allSessions() []*sessM {
	var out []*sessM
	for _, inc := range w.allIncs {
		out = append(out, inc.sessions...)
	}
	return out
}

// needSession returns a session the client believes to be usable and an
// idle slot of it. If there is none, a client is (re)registered instead
// and nil is returned.
func (w *world) needSession() (*sessM, uint32) {
	type cand struct {
		s    *sessM
		idle []uint32
	}
	var cands []cand
	for _, s := range w.allSessions() {
		if s.clientKnowsDead {
			continue
		}
		var idle []uint32
		for i, sl := range s.slots {
			if sl.busy == nil {
				idle = append(idle, uint32(i))
			}
		}
		if len(idle) > 0 {
			cands = append(cands, cand{s, idle})
		}
	}
	if len(cands) == 0 {
		w.bootstrap(pick(w, "client", w.clients))
		return nil, 0
	}
	// Slots whose sequence ID is about to wrap, or just did, are preferred.
	var hot []slotRef
	for _, c := range cands {
		for _, i := range c.idle {
			if c.s.slots[i].hot() {
				hot = append(hot, slotRef{c.s, i})
			}
		}
	}
	if len(hot) > 0 && w.pct("preferWrappingSlot", 60) {
		r := pick(w, "slotRef", hot)
		return r.s, r.slot
	}
	c := pick(w, "session", cands)
	return c.s, pick(w, "slot", c.idle)
}

// bootstrap registers a client the way a real client does after it
// learned that its session is gone: EXCHANGE_ID with its current
// verifier, then CREATE_SESSION.
func (w *world) bootstrap(cl *clientSim) *sessM {
	inc := w.doExchangeID(cl, false)
	return w.doCreateSession(inc, "next")
}

func (w *world) leafFHs() []fhRec {
	var out []fhRec
	for _, k := range w.knownFH {
		if k.leaf != nil {
			out = append(out, k)
		}
	}
	return out
}

func (w *world) pickFH(preferLeaf bool) ([]byte, bool) {
	leaves := w.leafFHs()
	if len(leaves) == 0 {
		return nil, false
	}
	if !preferLeaf || w.pct("useRootFH", 7) {
		return w.rootFH, true
	}
	return pick(w, "fh", leaves).fh, true
}

type stateRef struct {
	sid    nfsv4.Stateid4
	fh     []byte
	kind   string // open or lock
	seq    uint32
	preset bool // the seqid was placed just below 2^32 (see presetStateID)
}

// hot: the next few seqids of the state ID straddle the wrap-around.
func (s stateRef) hot() bool {
	return s.preset && (s.seq >= maxU32-3 || s.seq <= 2)
}

func statesOf(inc *incM) []stateRef {
	var others []uint64
	for o := range inc.byOther {
		others = append(others, o)
	}
	sort.Slice(others, func(i, j int) bool { return others[i] < others[j] })
	var out []stateRef
	for _, o := range others {
		switch s := inc.byOther[o].(type) {
		case *openM:
			out = append(out, stateRef{sid: mkStateID(s.seq, s.other), fh: s.fh, kind: "open", seq: s.seq, preset: s.preset})
		case *lockM:
			out = append(out, stateRef{sid: mkStateID(s.seq, s.other), fh: s.open.fh, kind: "lock", seq: s.seq, preset: s.preset})
		}
	}
	return out
}

func filterStates(in []stateRef, want string) []stateRef {
	if want == "any" {
		return in
	}
	var out []stateRef
	for _, s := range in {
		if s.kind == want {
			out = append(out, s)
		}
	}
	return out
}

var sidDeviations = []string{"seq0", "old", "future", "otherfile", "foreign", "dead", "anon", "bypass", "wrongkind", "garbage", "current_unset"}

// pickSID chooses the state ID (and the file handle to go with it) for
// an operation of incarnation inc that wants an open or a lock state ID.
// Mostly the right one; with probability devPct a deviation.
func (w *world) pickSID(inc *incM, want string) (nfsv4.Stateid4, []byte, string, bool) {
	own := statesOf(inc)
	right := filterStates(own, want)
	// State IDs whose seqid is about to wrap, or just did, are preferred,
	// so that the bumps and the comparisons happen across the wrap-around.
	var hot []stateRef
	for _, s := range right {
		if s.hot() {
			hot = append(hot, s)
		}
	}
	if len(hot) > 0 && w.pct("preferWrappingStateID", 60) {
		right = hot
	}
	if len(right) > 0 && !w.pct("sidDeviation", w.p.devPct) {
		s := pick(w, "state", right)
		return s.sid, s.fh, "cur", true
	}
	if len(right) == 0 && !w.pct("sidDeviationWithoutState", 25) {
		// Nothing to refer to yet: the caller establishes state first.
		return nfsv4.Stateid4{}, nil, "", false
	}
	anyFH, ok := w.pickFH(true)
	if !ok {
		return nfsv4.Stateid4{}, nil, "", false
	}
	deviations := sidDeviations
	if len(hot) > 0 {
		// More seqid deviations while a state ID is at its wrap-around.
		deviations = append(append([]string(nil), sidDeviations...), "old", "old", "old", "future", "seq0")
	}
	dev := pick(w, "deviation", deviations)
	base := right
	if dev == "wrongkind" {
		base = nil
		for _, s := range own {
			if s.kind != want {
				base = append(base, s)
			}
		}
	}
	switch dev {
	case "seq0", "old", "future", "otherfile", "wrongkind":
		if len(base) == 0 {
			break
		}
		s := pick(w, "state", base)
		switch dev {
		case "seq0":
			s.sid.Seqid = 0
		case "old":
			switch {
			case s.preset:
				// The state ID has been through every seqid: one of the
				// last three it had (2^32-1 precedes 1).
				v := s.seq
				for i, n := 0, w.draw("oldBy", 1, 3); i < n; i++ {
					v = prevSeqID(v)
				}
				s.sid.Seqid = v
				if v > s.seq {
					w.label("stateid_deviation_across_wrap:old")
				}
			case s.seq < 2:
				dev = "future"
				s.sid.Seqid = s.seq + 1
			default:
				s.sid.Seqid = s.seq - uint32(w.draw("oldBy", 1, int(s.seq-1)))
			}
		case "future":
			// One of the next three seqids the state ID will have (1
			// follows 2^32-1).
			v := s.seq
			for i, n := 0, w.draw("futureBy", 1, 3); i < n; i++ {
				v = nextSeqID(v)
			}
			s.sid.Seqid = v
			if v < s.seq {
				w.label("stateid_deviation_across_wrap:future")
			}
		case "otherfile":
			s.fh = anyFH
		}
		return s.sid, s.fh, dev, true
	case "foreign":
		var foreign []stateRef
		for _, other := range w.allIncs {
			if other != inc && !other.gone {
				foreign = append(foreign, filterStates(statesOf(other), want)...)
			}
		}
		if len(foreign) > 0 {
			s := pick(w, "state", foreign)
			return s.sid, s.fh, dev, true
		}
	case "dead":
		if len(w.deadSIDs) > 0 {
			d := pick(w, "deadSID", w.deadSIDs)
			return d.sid, d.fh, dev, true
		}
	case "bypass":
		return bypassSID, anyFH, dev, true
	case "current_unset":
		// The "current state ID" special value without a preceding
		// operation that set one.
		return currentSID, anyFH, dev, true
	case "garbage":
		g := mkStateID(1, 1)
		g.Other[10] = 0x77
		return g, anyFH, dev, true
	}
	return anonSID, anyFH, "anon", true
}

// drawRangeNear draws a lock range for an operation of lock-owner key on
// leaf. Part of the time the range is placed relative to a run the owner
// already holds (inside it, adjacent to it, overlapping its end), which
// is what makes the lock table split and merge entries.
func (w *world) drawRangeNear(leaf *countLeaf, key string) lockRange {
	fl := w.locks[leaf]
	if leaf == nil || fl == nil || !fl.holds(key) || !w.pct("rangeNearOwnLock", 45) {
		return w.drawRange()
	}
	type run struct{ lo, hi int }
	var runs []run
	for u := 0; u < lockUnits; {
		t := fl.typeAt(key, u)
		if t == 0 {
			u++
			continue
		}
		v := u
		for v < lockUnits && fl.typeAt(key, v) == t {
			v++
		}
		runs = append(runs, run{u, v})
		u = v
	}
	r := pick(w, "ownRun", runs)
	lo, hi := r.lo, r.hi
	switch pick(w, "rangePlacement", []string{"inside", "inside", "after", "before", "overlap_end", "same"}) {
	case "inside":
		if r.hi-r.lo >= 3 {
			lo = w.draw("insideLo", r.lo+1, r.hi-2)
			hi = w.draw("insideHi", lo+1, r.hi-1)
		}
	case "after":
		if r.hi < lockUnits {
			lo, hi = r.hi, w.draw("afterHi", r.hi+1, lockUnits)
		}
	case "before":
		if r.lo > 0 {
			lo, hi = w.draw("beforeLo", 0, r.lo-1), r.lo
		}
	case "overlap_end":
		if r.hi < lockUnits && r.hi-r.lo >= 2 {
			lo, hi = r.hi-1, w.draw("overlapHi", r.hi+1, lockUnits)
		}
	}
	off := pointToOffset(lo)
	length := pointToOffset(hi) - off
	if hi == lockPoints-1 && w.pct("lengthAllOnes", 60) {
		length = maxU64
	}
	return lockRange{offset: off, length: length, desc: fmt.Sprintf("units [%d,%d) as (offset %d, length %d)", lo, hi, off, length)}
}

// lockHint finds the file and lock-owner key an operation with this
// state ID acts on, if the state ID is one of inc's live ones.
func (w *world) lockHint(inc *incM, sid nfsv4.Stateid4, lockOwner string) (*countLeaf, string) {
	other, ok := stateIDOther(&sid)
	if !ok {
		return nil, ""
	}
	switch s := inc.byOther[other].(type) {
	case *openM:
		return s.leaf, lockOwnerKey(inc.clientID, lockOwner)
	case *lockM:
		return s.open.leaf, s.ownerKey()
	}
	return nil, ""
}

func (w *world) drawRange() lockRange {
	k := w.draw("rangeKind", 0, 99)
	switch {
	case k < 4:
		off := pointToOffset(w.draw("rangeLo", 0, lockPoints-1))
		return lockRange{offset: off, length: 0, desc: fmt.Sprintf("[offset %d, length 0]", off)}
	case k < 8:
		off := maxU64 - uint64(w.draw("rangeOff", 0, 3))
		length := (maxU64 - off) + 1 + uint64(w.draw("rangeExcess", 0, 2))
		return lockRange{offset: off, length: length, desc: fmt.Sprintf("[offset 2^64-1-%d, length %d: overflows]", maxU64-off, length)}
	case k < 10:
		// Offset 2^64-1 can only be combined with the all-ones length; the
		// lock table represents ranges with an exclusive end of at most
		// 2^64-1, so that range would be empty ("ByteRangeLock holds
		// information on a lock held on a non-empty range").
		w.excl["lock range starting at offset 2^64-1 (not representable as a non-empty range in the lock table)"]++
	}
	lo := w.draw("rangeLo", 0, lockPoints-2)
	hi := lockPoints - 1
	if !w.pct("rangeToMax", 30) {
		hi = w.draw("rangeHi", lo+1, lockPoints-1)
	}
	off := pointToOffset(lo)
	var length uint64
	desc := ""
	if hi == lockPoints-1 && w.pct("lengthAllOnes", 60) {
		length = maxU64
		desc = fmt.Sprintf("units [%d,%d) as (offset %d, length all-ones)", lo, hi, off)
	} else {
		length = pointToOffset(hi) - off
		desc = fmt.Sprintf("units [%d,%d) as (offset %d, length %d)", lo, hi, off, length)
	}
	return lockRange{offset: off, length: length, desc: desc}
}

var (
	openOwners = []string{"o1", "o2"}
	lockOwners = []string{"L1", "L2", "L3"}
	accesses   = []uint32{accR, accW, accR | accW}
)

// buildTemplate draws the arguments of one operation list for inc.
func (w *world) buildTemplate(inc *incM, kind string) *tmpl {
	switch kind {
	case "open":
		how := pick(w, "how", []string{"nocreate", "nocreate", "nocreate", "nocreate", "nocreate", "unchecked", "unchecked", "unchecked_trunc", "guarded", "guarded", "exclusive4", "exclusive4_1"})
		return w.tOpen(inc, pick(w, "name", fileNames), pick(w, "openOwner", openOwners), pick(w, "access", accesses), how)
	case "open_then":
		name := pick(w, "name", fileNames)
		via := pick(w, "currentVia", []string{"none", "none", "save_restore", "save_reopen_restore", "save_reopen_restore", "putfh_other", "putfh_other", "putfh_same", "putrootfh", "lookup_other", "lookup_same"})
		otherFH, ok := w.pickFH(true)
		if !ok {
			via = "none"
		}
		then := pick(w, "then", []string{"read", "write", "close"})
		if via != "none" && via != "save_restore" {
			// The current state ID is gone: every kind of use must be refused.
			then = pick(w, "thenRefused", []string{"read", "write", "close", "setattr", "downgrade", "lock"})
			if w.p.name == "C20" && w.pct("thenLock", 60) {
				then = "lock"
			}
		}
		var otherName string
		for _, n := range fileNames {
			if n != name {
				otherName = n
				break
			}
		}
		if via == "save_reopen_restore" {
			then = pick(w, "thenSuperseded", []string{"read", "write", "close", "close", "downgrade", "downgrade"})
			return w.tOpenReopenThen(inc, name, pick(w, "openOwner", openOwners), pick(w, "access", accesses), pick(w, "reopenAccess", accesses), then)
		}
		return w.tOpenThen(inc, name, pick(w, "openOwner", openOwners), pick(w, "access", accesses), then, via, otherFH, otherName)
	case "open_fh":
		fh, ok := w.pickFH(true)
		if !ok {
			return w.tLookup(pick(w, "name", fileNames))
		}
		return w.tOpenFH(inc, fh, pick(w, "openOwner", openOwners), pick(w, "access", accesses))
	case "open_previous":
		// Mostly for a file and open-owner that have open state.
		deleg := pick(w, "delegateType", []nfsv4.OpenDelegationType4{nfsv4.OPEN_DELEGATE_NONE, nfsv4.OPEN_DELEGATE_NONE, nfsv4.OPEN_DELEGATE_NONE, nfsv4.OPEN_DELEGATE_READ, nfsv4.OPEN_DELEGATE_WRITE})
		if keys := sortedKeys(inc.opens); len(keys) > 0 && w.pct("previousOfOpenFile", 50) {
			o := inc.opens[pick(w, "open", keys)]
			owner := o.owner
			if w.pct("previousOtherOwner", 25) {
				owner = pick(w, "openOwner", openOwners)
			}
			return w.tOpenPrevious(inc, o.fh, owner, pick(w, "access", accesses), deleg)
		}
		fh, ok := w.pickFH(true)
		if !ok {
			return w.tLookup(pick(w, "name", fileNames))
		}
		return w.tOpenPrevious(inc, fh, pick(w, "openOwner", openOwners), pick(w, "access", accesses), deleg)
	case "open_deleg":
		claim := pick(w, "delegClaim", []string{"delegate_cur", "delegate_prev", "deleg_cur_fh", "deleg_prev_fh"})
		fh, ok := w.pickFH(true)
		if !ok {
			claim = "delegate_cur"
		}
		sid := anonSID
		if st := statesOf(inc); len(st) > 0 && w.pct("delegWithLiveStateID", 60) {
			sid = pick(w, "state", st).sid
		}
		how := pick(w, "how", []string{"nocreate", "nocreate", "unchecked", "guarded"})
		return w.tOpenDelegClaim(inc, claim, fh, pick(w, "name", fileNames), pick(w, "openOwner", openOwners), pick(w, "access", accesses), how, sid)
	case "open_deny":
		deny := pick(w, "shareDeny", []uint32{nfsv4.OPEN4_SHARE_DENY_READ, nfsv4.OPEN4_SHARE_DENY_WRITE, nfsv4.OPEN4_SHARE_DENY_BOTH, nfsv4.OPEN4_SHARE_DENY_BOTH, 4, 0x80000000})
		var fh []byte
		if w.pct("denyByFH", 40) {
			fh, _ = w.pickFH(true)
		}
		how := pick(w, "how", []string{"nocreate", "nocreate", "unchecked", "unchecked_trunc", "guarded"})
		return w.tOpenDeny(inc, fh, pick(w, "name", fileNames), pick(w, "openOwner", openOwners), pick(w, "access", accesses), how, deny)
	case "rename":
		oldName := pick(w, "name", fileNames)
		newName := pick(w, "newName", fileNames)
		// Prefer renaming over a file that is open.
		var openNames []string
		for _, n := range fileNames {
			if l := w.lookupTruth(n); l != nil && w.leafHasLiveOpen(l) {
				openNames = append(openNames, n)
			}
		}
		if len(openNames) > 0 && w.pct("renameOverOpenFile", 60) {
			newName = pick(w, "newName", openNames)
		}
		return w.tRename(oldName, newName, w.pct("renameViaPutFH", 50))
	case "link":
		fh, ok := w.pickFH(true)
		if !ok {
			return w.tLookup(pick(w, "name", fileNames))
		}
		return w.tLink(fh, pick(w, "newName", fileNames))
	case "close":
		sid, fh, how, ok := w.pickSID(inc, "open")
		if !ok {
			return w.buildTemplate(inc, "open")
		}
		return w.tClose(inc, fh, sid, how)
	case "downgrade":
		sid, fh, how, ok := w.pickSID(inc, "open")
		if !ok {
			return w.buildTemplate(inc, "open")
		}
		return w.tDowngrade(inc, fh, sid, how, pick(w, "access", accesses))
	case "lock_new":
		sid, fh, how, ok := w.pickSID(inc, "open")
		if !ok {
			return w.buildTemplate(inc, "open")
		}
		lockOwner := pick(w, "lockOwner", lockOwners)
		w.drawOwnerClientID(inc)
		return w.tLock(inc, fh, true, sid, how, lockOwner, w.draw("lockType", ltRead, ltWrite), w.pct("lockWait", 20), w.drawRangeNear(w.lockHint(inc, sid, lockOwner)))
	case "lock_existing":
		sid, fh, how, ok := w.pickSID(inc, "lock")
		if !ok {
			return w.buildTemplate(inc, "lock_new")
		}
		return w.tLock(inc, fh, false, sid, how, "", w.draw("lockType", ltRead, ltWrite), w.pct("lockWait", 20), w.drawRangeNear(w.lockHint(inc, sid, "")))
	case "lockt":
		fh, ok := w.pickFH(true)
		if !ok {
			return w.tLookup(pick(w, "name", fileNames))
		}
		w.drawOwnerClientID(inc)
		return w.tLockT(inc, fh, pick(w, "lockOwner", lockOwners), w.draw("lockType", ltRead, ltWrite), w.drawRange())
	case "locku":
		sid, fh, how, ok := w.pickSID(inc, "lock")
		if !ok {
			return w.buildTemplate(inc, "lock_new")
		}
		return w.tLockU(inc, fh, sid, how, w.drawRangeNear(w.lockHint(inc, sid, "")))
	case "free_stateid":
		want := "lock"
		if w.pct("freeOpenState", 15) {
			want = "open"
		}
		sid, _, how, ok := w.pickSID(inc, want)
		if !ok {
			return w.buildTemplate(inc, "lock_new")
		}
		return w.tFreeStateID(inc, sid, how)
	case "test_stateid":
		var sids []nfsv4.Stateid4
		for i, n := 0, w.draw("nTest", 1, 3); i < n; i++ {
			sid, _, _, ok := w.pickSID(inc, "any")
			if !ok {
				sid = anonSID
			}
			sids = append(sids, sid)
		}
		return w.tTestStateID(inc, sids)
	case "read", "write", "setattr":
		var sid nfsv4.Stateid4
		var fh []byte
		var how string
		var ok bool
		if w.pct("ioSpecial", 20) {
			fh, ok = w.pickFH(true)
			sid, how = anonSID, "anon"
			if kind == "read" && w.pct("ioBypass", 40) {
				sid, how = bypassSID, "bypass"
			}
		} else {
			sid, fh, how, ok = w.pickSID(inc, "any")
			if !ok {
				return w.buildTemplate(inc, "open")
			}
		}
		if !ok {
			return w.tLookup(pick(w, "name", fileNames))
		}
		return w.tIO(inc, strings.ToUpper(kind), fh, sid, how)
	case "remove":
		return w.tRemove(pick(w, "name", fileNames))
	case "lookup":
		return w.tLookup(pick(w, "name", fileNames))
	case "probe":
		fh, ok := w.pickFH(true)
		if !ok {
			return w.tLookup(pick(w, "name", fileNames))
		}
		var unlinked []fhRec
		for _, k := range w.leafFHs() {
			if !w.leafLinked(k.leaf) {
				unlinked = append(unlinked, k)
			}
		}
		if len(unlinked) > 0 && w.pct("probeUnlinked", 70) {
			fh = pick(w, "fh", unlinked).fh
		}
		return w.tProbe(fh)
	case "noop":
		return w.tNoop()
	case "reclaim_complete":
		return w.tReclaimComplete()
	case "destroy_session_inseq":
		all := w.allSessions()
		return w.tDestroySessionInSeq(pick(w, "targetSession", all))
	case "destroy_clientid_inseq":
		return w.tDestroyClientIDInSeq(pick(w, "targetInc", w.allIncs))
	case "putrootfh":
		return tPutRootFH()
	case "illegal_op":
		// Operations that are executed first (possibly none), then an
		// operation NFSv4.1 does not have, then possibly more operations.
		base := w.buildTemplate(inc, pick(w, "illegalOpAfter", illegalOpBases))
		return w.withIllegalOp(inc, base, pick(w, "illegalOp", illegalOpNames), pick(w, "trailing", trailingKinds))
	}
	panic("nfs41sim: unknown template " + kind)
}

var templateKinds = []string{"too_many_ops", "max_ops", "open", "open", "open_then", "open_fh", "open_previous", "open_deleg", "open_deny", "rename", "link", "close", "downgrade", "lock_new", "lock_existing", "lockt", "locku", "free_stateid", "test_stateid", "read", "write", "setattr", "remove", "lookup", "probe", "noop", "reclaim_complete", "illegal_op"}

// illegalOpBases: what a COMPOUND executes before it reaches an operation
// NFSv4.1 does not have.
var illegalOpBases = []string{"noop", "noop", "noop", "putrootfh", "lookup", "open", "open", "open", "open_fh", "read", "write", "close", "lock_new", "probe"}

// ---------------------------------------------------------------- actions

func (w *world) seqAction(kind string, forcePark bool) *call {
	sess, slot := w.needSession()
	if sess == nil {
		return nil
	}
	return w.seqActionOn(sess, slot, kind, forcePark)
}

// illegalOpAction sends a COMPOUND with an operation NFSv4.1 does not
// have and, most of the time, follows it up at once with what C19 is
// about: a retransmission or a false retry when it has completed, a
// duplicate or a false retry while it is parked. (The general replay, dup
// and false_retry actions reach these compounds as well, but prefer
// others.)
func (w *world) illegalOpAction() {
	c := w.seqAction("illegal_op", false)
	if c == nil || c.mode != "exec" || c.t.illegal == nil || !c.sess.live() || c.sess.clientKnowsDead {
		return
	}
	r := slotRef{c.sess, c.slot}
	sl := c.sess.slots[c.slot]
	switch {
	case sl.busy == c:
		switch pick(w, "illegalOpFollowUp", []string{"none", "dup", "dup", "false_retry"}) {
		case "dup":
			if !w.p.excludeDup {
				w.dupOf(r)
			}
		case "false_retry":
			if !w.p.excludeDup {
				w.falseRetryOn(r, true, 100)
			}
		}
	case sl.busy == nil && sl.last == c:
		switch pick(w, "illegalOpFollowUp", []string{"none", "replay", "replay", "false_retry"}) {
		case "replay":
			w.replayOf(r)
		case "false_retry":
			w.falseRetryOn(r, false, 100)
		}
	}
}

func (w *world) replayOf(r slotRef) {
	sl := r.s.slots[r.slot]
	c := w.sendSeq(r.s, r.slot, sl.lastSeq, "replay", sl.last.t, sl.last.cache, nil, sl.last)
	w.learnSessionFate(c)
}

func (w *world) dupOf(r slotRef) {
	b := r.s.slots[r.slot].busy
	w.sendSeq(r.s, r.slot, b.seq, "dup", b.t, b.cache, nil, b)
}

// falseRetryOn reuses the sequence ID of the slot's last (or, inflight,
// current) request for another operation list: variantPct of the time one
// that differs from the original's in a single place (see
// tFalseRetryVariant), otherwise an unrelated template.
func (w *world) falseRetryOn(r slotRef, inflight bool, variantPct int) {
	sl := r.s.slots[r.slot]
	orig, seq := sl.last, sl.lastSeq
	if inflight {
		orig, seq = sl.busy, sl.busy.seq
	}
	var t *tmpl
	if w.pct("falseRetryVariantOfOriginal", variantPct) {
		t = w.tFalseRetryVariant(r.s.inc, orig)
	} else {
		t = w.buildTemplateFor(r.s, pick(w, "template", templateKinds))
	}
	w.sendSeq(r.s, r.slot, seq, "false_retry", t, w.pct("cachethis", w.p.cachePct), nil, nil)
}

func (w *world) learnSessionFate(c *call) {
	if w.isDone(c) && c.res != nil && isSeqError(c.res, nfsv4.NFS4ERR_BADSESSION) {
		c.sess.clientKnowsDead = true
	}
}

// withoutFileHandle is the deviation "no current file handle": the
// leading PUTFH is dropped, so the first operation that needs the current
// file handle must fail with NFS4ERR_NOFILEHANDLE and nothing may change.
func (w *world) withoutFileHandle(t *tmpl) *tmpl {
	if len(t.ops) < 2 || t.noEffect {
		// (Requests that are refused because of their arguments do not
		// get as far as looking at the current file handle.)
		return t
	}
	if _, ok := t.ops[0].(*nfsv4.NfsArgop4_OP_PUTFH); !ok {
		return t
	}
	return &tmpl{
		kind:   t.kind,
		desc:   "(no file handle) " + t.desc[strings.Index(t.desc, ";")+1:],
		ops:    t.ops[1:],
		data:   map[string]any{},
		atExec: func(c *call) { c.t.expect = []sts{one(nfsv4.NFS4ERR_NOFILEHANDLE)}; w.label("no_file_handle_rejected") },
	}
}

type slotRef struct {
	s    *sessM
	slot uint32
}

func (w *world) slotsWhere(f func(s *sessM, sl *slotM) bool) []slotRef {
	var out []slotRef
	for _, s := range w.allSessions() {
		for i, sl := range s.slots {
			if f(s, sl) {
				out = append(out, slotRef{s, uint32(i)})
			}
		}
	}
	return out
}

// preferHot narrows the candidates down to the slots whose sequence ID
// is about to wrap or just did, most of the time.
func (w *world) preferHot(cands []slotRef) []slotRef {
	var hot []slotRef
	for _, r := range cands {
		if r.s.slots[r.slot].hot() {
			hot = append(hot, r)
		}
	}
	if len(hot) > 0 && w.pct("preferWrappingSlot", 60) {
		return hot
	}
	return cands
}

// presetSlot places the sequence ID of an idle slot of a session the
// server still has just below the wrap-around (or at zero, right behind
// it). A client could only get there by sending 2^32 requests on the
// slot; the hook does to the slot what those would have done (the cached
// reply is discarded: the model treats the slot like a fresh one, whose
// sequence ID has no reply to be replayed).
func (w *world) presetSlot(r slotRef, v uint32) {
	sl := r.s.slots[r.slot]
	w.stepNo++
	w.record("preset_slot", fmt.Sprintf("%s slot %d: last sequence ID %d -> %d", r.s, r.slot, sl.lastSeq, v))
	if !nfsv4prog.VerifSetSlotSequenceID(w.prog, r.s.id, r.slot, v) {
		w.failf("C19: %s slot %d is idle and its session exists according to the replies, but the server considers the slot busy or the session gone (VerifSetSlotSequenceID refused)", r.s, r.slot)
	}
	sl.lastSeq, sl.last, sl.preset = v, nil, true
	sl.dropped, sl.refused = nil, nil
	w.label("slot_sequence_preset")
	w.checkQuiescent()
}

type stateTarget struct {
	inc   *incM
	other uint64
	desc  string
	seq   *uint32
	flag  *bool
}

// presetTargets: the live open and lock state IDs of incarnations that no
// request holds.
func (w *world) presetTargets() []stateTarget {
	var out []stateTarget
	for _, inc := range w.allIncs {
		if inc.gone || inc.holds > 0 {
			continue
		}
		var others []uint64
		for o := range inc.byOther {
			others = append(others, o)
		}
		sort.Slice(others, func(i, j int) bool { return others[i] < others[j] })
		for _, o := range others {
			switch s := inc.byOther[o].(type) {
			case *openM:
				out = append(out, stateTarget{inc, o, s.String(), &s.seq, &s.preset})
			case *lockM:
				out = append(out, stateTarget{inc, o, s.String(), &s.seq, &s.preset})
			}
		}
	}
	return out
}

// presetStateID places the seqid of a live open or lock state ID just
// below its wrap-around, which a client could only reach through 2^32
// state-changing operations on it.
func (w *world) presetStateID(t stateTarget, v uint32) {
	w.stepNo++
	w.record("preset_stateid_seqid", fmt.Sprintf("%s: sid(%d,#%d) -> sid(%d,#%d)", t.desc, *t.seq, t.other, v, t.other))
	if !nfsv4prog.VerifSetStateIDSeqID(w.prog, t.inc.clientID, t.other, v) {
		w.failf("C18: %s exists and %s has no request in flight according to the replies, but the server does not have that state ID or holds the incarnation (VerifSetStateIDSeqID refused)", t.desc, t.inc)
	}
	*t.seq, *t.flag = v, true
	w.label("stateid_seqid_preset")
	w.checkQuiescent()
}

func (w *world) doStep(op string) {
	w.doStepInner(op)
	w.maybeProbeLocks()
}

func (w *world) doStepInner(op string) {
	switch op {
	case "bootstrap":
		w.bootstrap(pick(w, "client", w.clients))
	case "reregister":
		// The client restarted: new verifier, then CREATE_SESSION.
		cl := pick(w, "client", w.clients)
		inc := w.doExchangeID(cl, true)
		w.doCreateSession(inc, "next")
	case "exchange_id":
		w.doExchangeID(pick(w, "client", w.clients), w.pct("freshVerifier", 30))
	case "create_session":
		if len(w.allIncs) == 0 {
			w.bootstrap(pick(w, "client", w.clients))
			return
		}
		kind := pick(w, "csKind", []string{"next", "next", "next", "next", "replay", "replay", "replay", "misordered", "misordered_back"})
		w.doCreateSession(pick(w, "inc", w.allIncs), kind)
	case "destroy_session":
		all := w.allSessions()
		if len(all) == 0 {
			w.bootstrap(pick(w, "client", w.clients))
			return
		}
		w.doDestroySession(pick(w, "targetSession", all))
	case "destroy_clientid":
		if len(w.allIncs) == 0 {
			w.bootstrap(pick(w, "client", w.clients))
			return
		}
		w.doDestroyClientID(pick(w, "targetInc", w.allIncs))
	case "shutdown":
		w.shutdown()
	case "preset_slot":
		cands := w.slotsWhere(func(s *sessM, sl *slotM) bool { return s.live() && !s.clientKnowsDead && sl.busy == nil && !sl.hot() })
		if len(cands) == 0 {
			w.seqAction(pick(w, "template", []string{"open", "close", "lock_new"}), false)
			return
		}
		r := pick(w, "slotRef", cands)
		v := pick(w, "slotSequence", []uint32{maxU32 - 2, maxU32 - 1, maxU32, maxU32, 0})
		w.presetSlot(r, v)
		if w.pct("retransmitAfterPreset", 25) {
			// A "retransmission" with the slot's sequence ID, of which the
			// slot has no reply: RFC 8881 section 2.10.6.1.3 leaves
			// NFS4ERR_SEQ_MISORDERED, as for a fresh slot.
			t := w.buildTemplate(r.s.inc, pick(w, "template", []string{"open", "close", "lock_new", "remove", "write"}))
			c := w.sendSeq(r.s, r.slot, v, "misordered", t, w.pct("cachethis", w.p.cachePct), nil, nil)
			w.learnSessionFate(c)
		}
	case "preset_stateid_seqid":
		all := w.presetTargets()
		var cands []stateTarget
		for _, t := range all {
			if !*t.flag {
				cands = append(cands, t)
			}
		}
		if len(cands) == 0 {
			cands = all
		}
		if len(cands) == 0 {
			w.seqAction(pick(w, "template", []string{"open", "lock_new"}), false)
			return
		}
		w.presetStateID(pick(w, "stateID", cands), pick(w, "seqid", []uint32{maxU32 - 2, maxU32 - 1, maxU32, maxU32}))
	case "release":
		parks := w.pendingParks()
		if len(parks) == 0 {
			w.seqAction(pick(w, "template", []string{"read", "write", "open"}), true)
			return
		}
		p := pick(w, "park", parks)
		w.stepNo++
		w.record("release", fmt.Sprintf("park %s of #%d %s", p.kind, p.c.id, p.c.desc))
		w.release(p)
	case "advance":
		w.doAdvance(pick(w, "duration", []time.Duration{time.Second, 10 * time.Second, 29 * time.Second, 31 * time.Second, 59 * time.Second, 60 * time.Second, 60*time.Second + time.Nanosecond, 61 * time.Second, 90 * time.Second, 150 * time.Second}))
	case "advance_small":
		w.doAdvance(pick(w, "duration", []time.Duration{time.Nanosecond, time.Second, 20 * time.Second, 40 * time.Second}))
	case "replay":
		cands := w.slotsWhere(func(s *sessM, sl *slotM) bool { return sl.last != nil && sl.busy == nil && !s.clientKnowsDead })
		if w.pct("preferStateOp", 70) {
			var pref []slotRef
			for _, r := range cands {
				l := r.s.slots[r.slot].last
				if l.t.stateOp && l.res.Status == nfsv4.NFS4_OK {
					pref = append(pref, r)
				}
			}
			if len(pref) > 0 {
				cands = pref
			}
		}
		if len(cands) == 0 {
			w.seqAction(pick(w, "template", []string{"open", "close", "lock_new"}), false)
			return
		}
		w.replayOf(pick(w, "slotRef", w.preferHot(cands)))
	case "illegal_op":
		w.illegalOpAction()
	case "too_many_ops":
		w.tooManyOpsAction()
	case "dup":
		if w.p.excludeDup {
			w.excl["duplicate of a request that is still being processed (open known finding)"]++
			return
		}
		cands := w.slotsWhere(func(s *sessM, sl *slotM) bool { return sl.busy != nil && s.live() })
		if len(cands) == 0 {
			w.seqAction(pick(w, "template", []string{"read", "write", "open"}), true)
			return
		}
		w.dupOf(pick(w, "slotRef", w.preferHot(cands)))
	case "false_retry":
		inflightPct := 25
		if w.p.strictInflightFalseRetry {
			inflightPct = 70
		}
		inflight := !w.p.excludeDup && w.pct("falseRetryInflight", inflightPct)
		cands := w.slotsWhere(func(s *sessM, sl *slotM) bool {
			if inflight {
				return sl.busy != nil && s.live()
			}
			return sl.last != nil && sl.busy == nil && s.live()
		})
		if len(cands) == 0 {
			w.seqAction(pick(w, "template", []string{"open", "close", "lock_new"}), false)
			return
		}
		w.falseRetryOn(pick(w, "slotRef", w.preferHot(cands)), inflight, 30)
	case "misordered":
		cands := w.slotsWhere(func(s *sessM, sl *slotM) bool { return !s.clientKnowsDead })
		if len(cands) == 0 {
			w.bootstrap(pick(w, "client", w.clients))
			return
		}
		r := pick(w, "slotRef", w.preferHot(cands))
		sl := r.s.slots[r.slot]
		delta := pick(w, "seqDelta", []uint32{2, 3, 17, 1 << 31, ^uint32(0), ^uint32(1)})
		t := w.buildTemplateFor(r.s, pick(w, "template", []string{"open", "close", "lock_new", "remove", "write", "free_stateid", "too_many_ops"}))
		c := w.sendSeq(r.s, r.slot, sl.lastSeq+delta, "misordered", t, w.pct("cachethis", w.p.cachePct), nil, nil)
		w.learnSessionFate(c)
	case "stale_busy":
		cands := w.slotsWhere(func(s *sessM, sl *slotM) bool { return sl.busy != nil && sl.last != nil && s.live() })
		if len(cands) == 0 {
			w.seqAction(pick(w, "template", []string{"read", "write", "open"}), true)
			return
		}
		r := pick(w, "slotRef", w.preferHot(cands))
		sl := r.s.slots[r.slot]
		w.sendSeq(r.s, r.slot, sl.lastSeq, "stale_busy", sl.last.t, sl.last.cache, nil, sl.last)
	case "bad_slot":
		all := w.allSessions()
		if len(all) == 0 {
			w.bootstrap(pick(w, "client", w.clients))
			return
		}
		s := pick(w, "session", all)
		t := w.buildTemplateFor(s, pick(w, "template", []string{"open", "remove", "noop", "too_many_ops"}))
		w.sendSeq(s, uint32(slotsPerSess+w.draw("slotExcess", 0, 2)), 1, "bad_slot", t, false, nil, nil)
	case "bad_session":
		var dead []*sessM
		for _, s := range w.allSessions() {
			if !s.live() {
				dead = append(dead, s)
			}
		}
		var s *sessM
		if len(dead) > 0 && w.pct("useDeadSession", 80) {
			s = pick(w, "session", dead)
		} else {
			s = &sessM{inc: &incM{client: &clientSim{idx: 99}, gone: true, opens: map[string]*openM{}, byOther: map[uint64]any{}}, destroyed: true}
			s.id[0], s.id[5] = 0xba, byte(w.draw("bogus", 0, 255))
			for i := 0; i < slotsPerSess; i++ {
				s.slots = append(s.slots, &slotM{})
			}
		}
		t := w.buildTemplateFor(s, pick(w, "template", []string{"open", "remove", "noop", "too_many_ops"}))
		slot := uint32(w.draw("slot", 0, slotsPerSess-1))
		c := w.sendSeq(s, slot, s.slots[slot].lastSeq+1, "bad_session", t, false, nil, nil)
		w.learnSessionFate(c)
	default:
		w.seqAction(op, false)
	}
}

// shutdown: an orderly client shutdown. CLOSE every open file,
// DESTROY_SESSION every session, DESTROY_CLIENTID.
func (w *world) shutdown() {
	var cands []*incM
	for _, inc := range w.allIncs {
		if !inc.gone && inc.client.confirmed == inc && inc.holds == 0 {
			cands = append(cands, inc)
		}
	}
	if len(cands) == 0 {
		w.bootstrap(pick(w, "client", w.clients))
		return
	}
	inc := pick(w, "inc", cands)
	var sess *sessM
	for _, s := range inc.sessions {
		if s.live() {
			sess = s
		}
	}
	if sess == nil {
		w.doCreateSession(inc, "next")
		return
	}
	for _, key := range sortedKeys(inc.opens) {
		o := inc.opens[key]
		if o == nil || !sess.live() {
			// The lease ran out in the meantime.
			continue
		}
		w.sendSeq(sess, 0, sess.slots[0].lastSeq+1, "new", w.tClose(inc, o.fh, mkStateID(o.seq, o.other), "cur"), false, map[string]bool{}, nil)
	}
	for _, s := range inc.sessions {
		if s.live() {
			w.doDestroySession(s)
			s.clientKnowsDead = true
		}
	}
	w.doDestroyClientID(inc)
	w.label("orderly_shutdown")
}

// ---------------------------------------------------------------- final drain

// finalDrain: every parked request is released and must return; then
// every client vanishes, the lease time passes and one more call is
// made: nothing may be retained.
func (w *world) finalDrain() {
	if len(w.grantedOwners) >= 2 {
		w.label("lock_owners_granted>=2")
	}
	for {
		parks := w.pendingParks()
		if len(parks) == 0 {
			break
		}
		w.stepNo++
		w.record("release", fmt.Sprintf("(final) park %s of #%d %s", parks[0].kind, parks[0].c.id, parks[0].c.desc))
		w.release(parks[0])
	}
	for _, c := range w.calls {
		if !w.isDone(c) {
			w.failf("C19: request #%d %q (%s) never returned although nothing is parked any more", c.id, c.desc, c.class)
		}
		if !c.collected {
			w.failf("harness: request #%d %q completed but was not evaluated", c.id, c.desc)
		}
	}
	// The lock table of every file against the per-byte model, once more.
	w.probeAllLocks("final")
	w.doAdvance(leaseTime + time.Second)
	// Any call will do; use a SEQUENCE on a session that cannot exist.
	bogus := &sessM{inc: &incM{client: &clientSim{idx: 99}, gone: true}, destroyed: true}
	bogus.id[0] = 0xfd
	for i := 0; i < slotsPerSess; i++ {
		bogus.slots = append(bogus.slots, &slotM{})
	}
	w.sendSeq(bogus, 0, 1, "bad_session", w.tNoop(), false, nil, nil)
	for _, inc := range w.allIncs {
		if !inc.gone {
			w.failf("harness: model retains %s after all leases expired", inc)
		}
	}
	w.checkQuiescentStrict()

	// A fresh client checks that every unlinked file is now stale and
	// every linked file is still reachable.
	cl := &clientSim{idx: len(w.clients), ownerID: []byte("final-prober")}
	w.clients = append(w.clients, cl)
	sess := w.bootstrap(cl)
	for _, k := range w.knownFH {
		w.sendSeq(sess, 0, sess.slots[0].lastSeq+1, "new", w.tProbe(k.fh), false, map[string]bool{}, nil)
	}
}

// checkQuiescentStrict: after all leases expired nothing is retained.
func (w *world) checkQuiescentStrict() {
	oracle := w.p.oracle["acct"]
	w.p.oracle["acct"] = true
	w.checkQuiescent()
	w.p.oracle["acct"] = oracle
	w.mu.Lock()
	for _, l := range w.leaves {
		for bit := 0; bit < 2; bit++ {
			if n := l.outstandingLocked(bit); n != 0 {
				w.mu.Unlock()
				w.failf("C18: after all leases expired %s is still open for %s %d time(s)", l, bitNames[bit], n)
			}
		}
		if l.ioStarted != l.ioFinished {
			w.mu.Unlock()
			w.failf("C18: %s has %d I/O calls that never finished", l, l.ioStarted-l.ioFinished)
		}
	}
	w.mu.Unlock()
	counts := w.modelCounts()
	for _, k := range sortedKeys(counts) {
		if counts[k] != 0 {
			w.failf("harness: model count %s=%d after all leases expired", k, counts[k])
		}
	}
	for _, fl := range w.locks {
		if len(fl.owners()) != 0 {
			w.failf("harness: lock model retains owners after all leases expired: %v", fl)
		}
	}
}

// ---------------------------------------------------------------- running one case

// caseProgress is bumped at every step of every case (see world.addStep):
// the stall watchdog of runInBubble watches it.
var caseProgress atomic.Uint64

type caseResult struct {
	script []step
	labels map[string]int
	excl   map[string]int
}

func isRapidPanic(r any) bool {
	return strings.Contains(fmt.Sprintf("%T", r), "rapid.")
}

func formatScript(script []step) string {
	var b strings.Builder
	for _, s := range script {
		fmt.Fprintf(&b, "  %3d %-18s %s", s.N, s.Op, s.Arg)
		if s.Out != "" {
			fmt.Fprintf(&b, "  => %s", s.Out)
		}
		b.WriteByte('\n')
	}
	return b.String()
}

// runInBubble executes body inside a synctest bubble with a fresh world
// and converts violations, panics and bubble deadlocks into a failure
// message.
func runInBubble(t *testing.T, mk func() *world, body func(w *world)) (*caseResult, string) {
	res := &caseResult{}
	var failure string
	var rapidPanic any
	// A request that blocks on a mutex (a lock that an earlier call
	// leaked, or a lock-order deadlock) is not "durably blocked", so
	// synctest.Wait never returns and the case hangs. Time inside the
	// bubble is fake; the stall watchdog runs outside of it on real time
	// and looks at progress, not at total duration (see simkit).
	var hung atomic.Pointer[world]
	caseProgress.Add(1)
	stopWatchdog := simkit.StallWatchdog(&caseProgress, 90, func() {
		script := "(world not created)"
		if w := hung.Load(); w != nil {
			script = formatScript(w.script)
		}
		fmt.Printf("VERIF-VIOLATION property=C14: no step of the case completed during 90 s in which this process was running: a call is blocked on a mutex that is never released (leaked lock or deadlock inside the NFSv4.1 program, the opened files pool, the handle allocator or the directory)\nscript so far:\n%s", script)
		os.Exit(1)
	})
	defer stopWatchdog()
	func() {
		defer func() {
			// A goroutine that is blocked forever makes the bubble panic
			// when its root function returns.
			if r := recover(); r != nil {
				msg := fmt.Sprint(r)
				if failure == "" {
					if strings.Contains(msg, "deadlock") {
						failure = "C19 (liveness): after everything was released a request of the case is still blocked forever: " + msg
					} else {
						failure = "panic outside the bubble: " + msg
					}
				}
			}
		}()
		synctest.Test(t, func(st *testing.T) {
			var w *world
			defer func() {
				if r := recover(); r != nil {
					if v, ok := r.(violation); ok {
						failure = v.msg
					} else if isRapidPanic(r) {
						rapidPanic = r
					} else {
						failure = fmt.Sprintf("panic in the harness or the code under test: %v\n%s", r, debug.Stack())
					}
				}
				if w != nil {
					// Let every goroutine of the case finish.
					for _, pk := range w.pendingParks() {
						w.mu.Lock()
						pk.released = true
						w.mu.Unlock()
						close(pk.ch)
					}
					synctest.Wait()
					res.script, res.labels, res.excl = w.script, w.labels, w.excl
				}
			}()
			w = mk()
			hung.Store(w)
			body(w)
		})
	}()
	if rapidPanic != nil {
		panic(rapidPanic)
	}
	return res, failure
}

func runCase(t *testing.T, rt *rapid.T, p *profile) *caseResult {
	res, failure := runInBubble(t, func() *world { return newWorld(rt, p) }, func(w *world) {
		// Mostly long histories; the short ones exist so that a failing
		// case can shrink to a short script.
		n := w.draw("steps", p.steps[0], p.steps[1])
		if w.draw("long", 0, 9) != 0 {
			n += 30
		}
		for i := 0; i < n; i++ {
			w.doStep(pick(w, "op", p.ops))
		}
		w.labels["script_steps"] = len(w.script)
		w.finalDrain()
	})
	if failure != "" {
		rt.Fatalf("%s\nscript:\n%s", failure, formatScript(res.script))
	}
	return res
}

func labelList(l map[string]int) []string {
	var out []string
	for _, k := range sortedKeys(l) {
		out = append(out, k)
	}
	return out
}

func recordCase(rec *simkit.Recorder, p *profile, res *caseResult) {
	rec.LabelN("total_script_steps", res.labels["script_steps"])
	delete(res.labels, "script_steps")
	for _, k := range sortedKeys(res.excl) {
		for i := 0; i < res.excl[k]; i++ {
			rec.Exclude(k)
		}
	}
	rec.Case(res.script, p.nontrivial(res.labels), labelList(res.labels)...)
}

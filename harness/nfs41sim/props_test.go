package nfs41sim

import (
	"sort"
	"strings"
	"testing"

	"pgregory.net/rapid"

	"verif/harness/internal/simkit"
)

const commonRule = "rapid-generated histories of 1-3 protocol-following NFSv4.1 client simulators (client IDs, CREATE_SESSION sequence IDs, session IDs, slot sequence IDs, state IDs and file handles are taken from replies only) against the real NewNFS41Program + OpenedFilesPool + NFS handle allocator + in-memory prepopulated directory with counting leaves, inside testing/synctest: every COMPOUND runs in its own goroutine, leaf I/O and VirtualOpenChild can park and are released by generated actions, synctest.Wait after every action, simulated clock. Actions: EXCHANGE_ID (same/new verifier), CREATE_SESSION (next/replay/misordered), DESTROY_SESSION, DESTROY_CLIENTID, orderly shutdown, OPEN (CLAIM_NULL all create modes, CLAIM_FH, CLAIM_PREVIOUS with/without open state of that owner and with every delegate type, the four delegation claims, share_deny 1..3 and undefined values; R/W/RW), OPEN_DOWNGRADE, CLOSE, LOCK (new/existing lock-owner), LOCKT, LOCKU, FREE_STATEID, TEST_STATEID, READ/WRITE/SETATTR (open, lock, anonymous, read-bypass state IDs), REMOVE, RENAME (also over an open file, via PUTROOTFH and via PUTFH), LINK (also of open and of unlinked-but-open files), LOOKUP, PUTFH probes, RECLAIM_COMPLETE, DESTROY_SESSION/DESTROY_CLIENTID inside SEQUENCE, clock advances around the lease time, state-ID deviations (seqid 0/old/future, other file, other client, dead, wrong kind, garbage), retransmissions, duplicates of in-flight requests, false retries, misordered sequence IDs, bad slots and sessions; illegal_op: COMPOUNDs that, after none or some executed operations (PUTROOTFH, LOOKUP+GETFH, OPEN+GETFH, PUTFH+READ/WRITE/CLOSE/LOCK/GETFH, with parks and injected failures as usual), contain an operation NFSv4.1 does not have (the NFSv4.0-only RENEW, OPEN_CONFIRM, SETCLIENTID, SETCLIENTID_CONFIRM, RELEASE_LOCKOWNER, or the literal opcode OP_ILLEGAL) and possibly operations behind it (GETFH, REMOVE, a creating OPEN, another illegal operation): the result at that position must be OP_ILLEGAL/NFS4ERR_OP_ILLEGAL (for the five NFSv4.0 operations also <operation>/NFS4ERR_NOTSUPP, which the error table of RFC 8881 lists) and the last one, the effects of the operations before it stay in the model, nothing behind it is executed (label compound_with_illegal_op); two thirds of them are followed at once by a retransmission or false retry (when completed) or a duplicate or false retry (while parked), and 30% of all false retries are single-place variants of the original request (an operation replaced by OP_ILLEGAL or an NFSv4.0 operation, the illegal operation replaced by another illegal or a valid one, the operations behind it changed, an operation appended or dropped); one-shot injected failures (EIO/EACCES/ENOENT) of VirtualOpenChild, VirtualOpenSelf, file allocation, VirtualRead/VirtualWrite (after the park) and VirtualSetAttributes; too_many_ops / max_ops: CREATE_SESSION asks for ca_maxoperations 100, 2, 8 or 5 (a function of its sequence ID, so that retransmissions carry the same arguments) and the model takes the limit of the session from the reply (the program grants its configured 8 whatever is asked and polices no other negotiated limit: it has no REQ_TOO_BIG/REP_TOO_BIG/REP_TOO_BIG_TO_CACHE, and the harness stays far below the negotiated sizes); too_many_ops sends, with the next sequence ID of an idle slot, the operations of an ordinary request followed by PUTROOTFH/REMOVE/creating OPEN/GETFH padding, 1..4 operations more than the session allows: SEQUENCE must fail with NFS4ERR_TOO_MANY_OPS as the only result, leaf counters, file count, root change ID and state record counts must not move (label compound_too_many_ops), and the sequence ID is not consumed; 90% are followed up at once on the same slot (up to three times) by a retransmission (refused again: too_many_ops_retransmission_refused_again), another oversized request, a retransmission of the request the slot executed before (NFS4ERR_SEQ_MISORDERED if the server discarded its reply, which the code does, or the retained reply; never executed: retransmission_after_too_many_ops:*), or a new request of acceptable size with the same sequence ID, parked or not, which must be executed and verified like any other (slot_reused_after_too_many_ops), after which retransmissions/duplicates/false retries of it behave as usual; oversized operation lists are also used for false retries of completed and in-flight requests, misordered sequence IDs, bad slots and sessions, where the sequence ID decides (oversized_compound_answered_by_sequence_id:*); max_ops pads an ordinary request with PUTROOTFH/GETFH to exactly the granted number of operations, which must all be executed (compound_at_max_operations_executed_completely); every request that is neither parked by the harness nor a duplicate of an in-flight request must have returned at the next quiescence (each request runs in its own goroutine; one that waits on a channel nobody serves, e.g. on a slot that a refused request left marked busy, is reported with the script instead of deadlocking the bubble); initial CREATE_SESSION sequence IDs at 2^32-3..2^32-1 and 0; preset_slot: the last sequence ID of an idle slot is placed at 2^32-3..2^32-1 or 0 through the hook VerifSetSlotSequenceID (what 2^32 requests on the slot would have done; the model then treats the slot as one without a cached reply), after which new requests, retransmissions, in-flight duplicates, false retries and misordered sequence IDs are aimed at that slot 60% of the time, so that they straddle the wrap-around 2^32-1 -> 0; preset_stateid_seqid: the seqid of a live open or lock state ID of a client without a request in flight is placed at 2^32-3..2^32-1 through VerifSetStateIDSeqID, after which OPEN upgrades, OPEN_DOWNGRADE, LOCK, LOCKU, CLOSE, FREE_STATEID, TEST_STATEID and I/O prefer that state ID, the model bumps the seqid as incrementSeqID documents (1 follows 2^32-1, 0 is skipped) and the old/future deviations step back/forward through the same cycle; an observer client that LOCKTs every unit x {READ, WRITE} of the files touched by a release (always in the C20 profile, 10% elsewhere, and always once before the final lease expiry); final drain: release everything, all leases expire, one more call. "

func c18Profile() *profile {
	return &profile{
		name:    "C18",
		clients: [2]int{1, 3},
		steps:   [2]int{3, 80},
		ops: weighted(map[string]int{
			"bootstrap":              1,
			"reregister":             2,
			"exchange_id":            1,
			"create_session":         2,
			"destroy_session":        1,
			"destroy_clientid":       1,
			"shutdown":               1,
			"open":                   12,
			"open_fh":                6,
			"open_then":              3,
			"open_previous":          4,
			"open_deleg":             2,
			"open_deny":              2,
			"rename":                 3,
			"link":                   2,
			"close":                  7,
			"downgrade":              6,
			"lock_new":               7,
			"lock_existing":          4,
			"lockt":                  2,
			"locku":                  4,
			"free_stateid":           4,
			"test_stateid":           3,
			"read":                   6,
			"write":                  6,
			"setattr":                3,
			"remove":                 3,
			"lookup":                 2,
			"probe":                  4,
			"noop":                   1,
			"reclaim_complete":       1,
			"destroy_session_inseq":  1,
			"destroy_clientid_inseq": 1,
			"release":                9,
			"advance":                3,
			"advance_small":          3,
			"replay":                 2,
			"misordered":             1,
			"bad_session":            1,
			"preset_stateid_seqid":   3,
			"preset_slot":            1,
			"illegal_op":             2,
			"too_many_ops":           3,
			"max_ops":                2,
		}),
		oracle:   map[string]bool{"acct": true},
		parkPct:  35,
		devPct:   25,
		cachePct: 50,
		faultPct: 12,
		probePct: 10,
		nontrivial: func(l map[string]int) bool {
			return (l["upgrade"] > 0 || l["downgrade"] > 0) && l["lock_state_created"] > 0 &&
				(l["reclaim_with_state:lease"] > 0 || l["reclaim_with_state:replaced"] > 0)
		},
	}
}

func c19Profile() *profile {
	return &profile{
		name: "C19",
		// Since /repo commit 88326dd (fix of finding
		// C19/inflight-false-retry-gets-original-reply/nfs41) the strict
		// reading applies to every C19 history.
		strictInflightFalseRetry: true,
		clients:                  [2]int{1, 2},
		steps:                    [2]int{3, 80},
		ops: weighted(map[string]int{
			"bootstrap":             1,
			"reregister":            1,
			"create_session":        5,
			"destroy_session":       1,
			"open":                  10,
			"open_fh":               4,
			"open_then":             3,
			"open_previous":         2,
			"open_deny":             1,
			"rename":                1,
			"close":                 6,
			"downgrade":             3,
			"lock_new":              6,
			"lock_existing":         3,
			"locku":                 3,
			"free_stateid":          2,
			"read":                  5,
			"write":                 5,
			"remove":                2,
			"lookup":                2,
			"noop":                  1,
			"destroy_session_inseq": 1,
			"release":               10,
			"advance_small":         2,
			"advance":               1,
			"replay":                12,
			"dup":                   10,
			"false_retry":           7,
			"misordered":            4,
			"stale_busy":            2,
			"bad_slot":              2,
			"bad_session":           1,
			"preset_slot":           4,
			"preset_stateid_seqid":  2,
			"illegal_op":            4,
			"too_many_ops":          5,
			"max_ops":               2,
		}),
		oracle:   map[string]bool{"acct": true},
		parkPct:  50,
		devPct:   10,
		cachePct: 60,
		faultPct: 6,
		nontrivial: func(l map[string]int) bool {
			return l["replay_of_successful_state_op"] > 0 && l["inflight_duplicate_completed_with_original"] > 0
		},
	}
}

func c20Profile() *profile {
	return &profile{
		name:    "C20",
		clients: [2]int{1, 2},
		steps:   [2]int{3, 80},
		ops: weighted(map[string]int{
			"bootstrap":     1,
			"reregister":    1,
			"open":          8,
			"open_fh":       4,
			"open_then":     3,
			"close":         4,
			"downgrade":     1,
			"lock_new":      16,
			"lock_existing": 14,
			"lockt":         12,
			"locku":         12,
			"free_stateid":  5,
			"read":          1,
			"remove":        1,
			"lookup":        1,
			"advance":       1,
			"advance_small": 3,
			"release":       2,
			"replay":        1,
		}),
		oracle:   map[string]bool{"acct": true},
		parkPct:  15,
		devPct:   8,
		cachePct: 50,
		faultPct: 3,
		probePct: 100,
		nontrivial: func(l map[string]int) bool {
			return l["lock_owners_granted>=2"] > 0 && (l["lock_split"] > 0 || l["lock_merge"] > 0) && l["lock_range_to_max_offset"] > 0
		},
	}
}

// weighted expands a weight table into the multiset the generator draws
// from (sorted, so that the draw is independent of map iteration order).
func weighted(m map[string]int) []string {
	var out []string
	for _, k := range sortedKeys(m) {
		for i := 0; i < m[k]; i++ {
			out = append(out, k)
		}
	}
	return out
}

func runProperty(t *testing.T, p *profile, rec *simkit.Recorder) {
	rapid.Check(t, func(rt *rapid.T) {
		res := runCase(t, rt, p)
		recordCase(rec, p, res)
	})
}

func TestC18NFS41StateAccounting(t *testing.T) {
	rec := simkit.NewRecorder(t, "C18", "nfs41_state_accounting", commonRule+
		"ORACLE: per counting leaf and share bit closes <= opens at all times and no VirtualRead/VirtualWrite while that bit's count is 0 (checked inside the leaf, at the start and at the end of every I/O call); at every quiescence the outstanding open count per leaf and bit equals what the replies imply is held (open state per open-owner incl. upgrades/downgrades, share access cloned into lock state, parked I/O, OPENs parked after VirtualOpenChild), VerifStateCounts == model (clients, incarnations, sessions, hold count, idle list, open-owners, open-owner files, lock-owner files), opened-files pool == files with open state, all locks free; every operation's status == reference model of state-ID resolution in the requesting client's own namespace (RFC 8881 8.2: other file/foreign/dead => BAD_STATEID, old seqid => OLD_STATEID, future => BAD_STATEID, also when the seqid has wrapped from 2^32-1 to 1: label stateid_seqid_wrapped) with the model unchanged on rejection; every state ID returned by OPEN of an already open file, OPEN_DOWNGRADE, LOCK and LOCKU carries the successor of the previous seqid (1 after 2^32-1, never 0); PUTFH of a file without names (after REMOVE of the last name or RENAME over it) succeeds and I/O through its state IDs works while open state exists, and is NFS4ERR_STALE afterwards; a request in which an injected failure fired fails at that operation with the NFSv4 equivalent of the injected status and changes neither the model nor any count (a failed or refused OPEN leaves no open behind: CLAIM_PREVIOUS refused after the leaf was opened must close it again); delegation claims and share_deny are refused with all counters unchanged; after all leases expired + one call everything is zero. "+
		"NON-TRIVIAL: an upgrade or downgrade happened, lock state was created, and state was reclaimed by lease expiry or re-registration. Distinct by script hash")
	runProperty(t, c18Profile(), rec)
}

func TestC19NFS41ExactlyOnce(t *testing.T) {
	p := c19Profile()
	if simkit.KnownOpen("C19/inflight-duplicate-never-returns/nfs41") {
		p.excludeDup = true
	}
	rec := simkit.NewRecorder(t, "C19", "nfs41_exactly_once", commonRule+
		"ORACLE: slot model per (session, slot): sequence == last => the reply must be XDR-byte-equal to the original's (or, when the original was sent without sa_cachethis and had >= 2 results, the documented NFS4ERR_RETRY_UNCACHED_REP form) and leaf open/close/I-O counters, file count, root change ID and VerifStateCounts must not move; a duplicate that arrives while the original is parked must not be answered before the original completes and must complete, in the same quiescence as the original, with the original's result; a different operation list under the same slot+sequence => NFS4ERR_SEQ_FALSE_RETRY where the difference is in the number or types of operations covered by the cached reply (as the upstream FalseRetries tests document), otherwise either that or the original's cached reply, never executed (a cached OP_ILLEGAL result fits every requested operation at its position, so a retry that differs only there or behind it need not be detected: false_retry_against_cached_illegal_op; a requested OP_ILLEGAL or NFSv4.0-only operation fits no cached result of another type: false_retry_with_illegal_op_against_cached_reply); the replies of COMPOUNDs that ended at an operation NFSv4.1 does not have are replies like any other: retransmission => byte-equal (or, without sa_cachethis and with >= 3 results, the RETRY_UNCACHED_REP form), in-flight duplicate => the original's result (replay_of_compound_with_illegal_op, inflight_duplicate_of_compound_with_illegal_op); sequence neither last nor last+1 (32 bit arithmetic: 0 follows 2^32-1) => NFS4ERR_SEQ_MISORDERED without side effects; all of this also on slots whose sequence ID was preset just below 2^32 (labels slot_sequence_wrapped, replay_at_wrap_around, misordered_at_wrap_around, inflight_duplicate_at_wrap_around, false_retry_at_wrap_around); bad slot / unknown session => BADSLOT / BADSESSION; CREATE_SESSION with the previous sequence => byte-equal reply and no second session, other sequence => SEQ_MISORDERED; every executed request is checked against the C18 model as well. "+
		"NON-TRIVIAL: a retransmission of a successful OPEN/CLOSE/LOCK/LOCKU/OPEN_DOWNGRADE/FREE_STATEID compound was answered from the cache AND a duplicate of an in-flight request completed with the original's result. Distinct by script hash")
	runProperty(t, p, rec)
}

func TestC20NFS41ByteRangeLocks(t *testing.T) {
	rec := simkit.NewRecorder(t, "C20", "nfs41_byte_range_locks", commonRule+
		"Lock ranges begin and end at 14 points (0..6, 2^64-7..2^64-1; lengths incl. all-ones, zero and overflowing ones). ORACLE: per-file per-byte reference map keyed by (client ID, lock-owner bytes) over 13 units: LOCK granted <=> no other owner holds a conflicting byte, also when the same lock-owner locks through a second open/open-owner of the file; a DENIED reply (LOCK and LOCKT) must name an owner other than the requester that holds every byte of the named range with the named type, overlapping and conflicting with the request; LOCKT denied <=> the same LOCK would be denied (own locks never conflict); LOCKU frees exactly the range; CLOSE, lease expiry, re-registration free exactly the bytes of the lock-owners of that open / client - both decided on the server's lock table by the observer's per-unit LOCKT sweep after every such step (26 LOCKTs per file against the model); FREE_STATEID => NFS4ERR_LOCKS_HELD <=> the lock-owner still holds bytes on that file; zero-length and overflowing ranges => NFS4ERR_INVAL. "+
		"NON-TRIVIAL: >= 2 lock-owners were granted locks, a split or merge happened, and a range ended at the maximum offset. Distinct by script hash")
	runProperty(t, c20Profile(), rec)
}

// TestC19NFS41InflightFalseRetry: the C19 histories with more false
// retries of requests that are still being processed, and the strict
// reading of "a retransmission whose content differs from the original is
// never answered with another request's reply" for them: when the
// original's reply does not fit the operation list of the retry (the very
// test the replay branch of SEQUENCE applies to a completed original),
// the retry must be refused instead of receiving that reply.
func TestC19NFS41InflightFalseRetry(t *testing.T) {
	p := c19Profile()
	p.strictInflightFalseRetry = true
	p.ops = append(p.ops, "false_retry", "false_retry", "false_retry", "false_retry", "false_retry", "false_retry", "release", "release")
	sort.Strings(p.ops)
	p.nontrivial = func(l map[string]int) bool {
		return l["false_retry_inflight_rejected"] > 0 && l["inflight_duplicate_completed_with_original"] > 0
	}
	if simkit.KnownOpen("C19/inflight-duplicate-never-returns/nfs41") {
		p.excludeDup = true
	}
	rec := simkit.NewRecorder(t, "C19", "nfs41_inflight_false_retry", commonRule+
		"Like nfs41_exactly_once, with 70% of the false retries aimed at a slot whose request is parked. ORACLE (in addition to all oracles of nfs41_exactly_once): a request that reuses slot and sequence ID of a request that is still being processed with an operation list that the original's complete reply does not fit (more results than operations, a successful reply with a different number of results, or a result of a different operation type; the same rule opSequence applies to completed requests and the upstream FalseRetries tests document) must be answered by a failing SEQUENCE (NFS4ERR_SEQ_FALSE_RETRY, or any other refusal), never with the original's reply, and must not execute. "+
		"NON-TRIVIAL: such a false retry was refused AND a true duplicate of an in-flight request completed with the original's result. Distinct by script hash")
	runProperty(t, p, rec)
}

// TestC14NFS41LocksReleased: the general C18 history generator with more
// injected faults, registered for C14: after every request (at every
// quiescence) the lock of the NFSv4.1 program, the lock of every idle
// client incarnation, the lock of the opened files pool, the byte-range
// lock table lock of every opened file and the lock of the NFS handle pool
// must be free, the root directory must answer, and no request may hang.
func TestC14NFS41LocksReleased(t *testing.T) {
	p := c18Profile()
	p.name = "C14"
	p.faultPct = 30
	p.devPct = 30
	p.labelErrorReturns = true
	p.nontrivial = func(l map[string]int) bool {
		n := 0
		for k := range l {
			if strings.HasPrefix(k, "error_return:") {
				n++
			}
		}
		return l["fault_fired"] > 0 && n >= 4
	}
	rec := simkit.NewRecorder(t, "C14", "nfs41_locks_released", commonRule+
		"Generator of nfs41_state_accounting (incl. OPEN with every claim type and share_deny, RENAME, LINK) with one-shot injected failures of VirtualOpenChild, VirtualOpenSelf, file allocation, VirtualRead, VirtualWrite, VirtualSetAttributes in 30% of the requests that can reach them and 30% state-ID deviations, so that the error returns of the operations are reached (labelled error_return:<operation>:<status>). ORACLE after every request, at quiescence (every request of the case has returned or is parked inside the leaf / before or after VirtualOpenChild, i.e. outside of all locks of the program): VerifStateCounts can take nfs41Program.clientsLock and the lock of every client incarnation without a request in flight, VerifClientLocksFree can take the lock of every client incarnation including those with requests in flight (the harness parks requests only inside leaf I/O and around VirtualOpenChild, which the program calls without a client incarnation lock), VerifOpenedCount/VerifUseCount can take OpenedFilesPool.lock and every OpenedFile.locksLock, VerifNFSHandlePoolLockIsFree holds (all TryLock probes); every request that is not parked has returned (a request that blocks on a leaked mutex makes the case hang, which a stall watchdog outside the bubble reports as VERIF-VIOLATION when no step of the case completed during 90 consecutive on-time one-second ticks of the real clock, i.e. while this process demonstrably had the CPU; time during which the process was starved does not count); all oracles of nfs41_state_accounting stay armed. "+
		"NON-TRIVIAL: an injected fault fired and error returns of at least four distinct (operation, status) kinds were reached. Distinct by script hash")
	runProperty(t, p, rec)
}

package nfs41sim

import (
	"testing"

	"pgregory.net/rapid"

	"verif/harness/internal/simkit"
)

const commonRule = "rapid-generated histories of 1-3 protocol-following NFSv4.1 client simulators (client IDs, CREATE_SESSION sequence IDs, session IDs, slot sequence IDs, state IDs and file handles are taken from replies only) against the real NewNFS41Program + OpenedFilesPool + NFS handle allocator + in-memory prepopulated directory with counting leaves, inside testing/synctest: every COMPOUND runs in its own goroutine, leaf I/O and VirtualOpenChild can park and are released by generated actions, synctest.Wait after every action, simulated clock. Actions: EXCHANGE_ID (same/new verifier), CREATE_SESSION (next/replay/misordered), DESTROY_SESSION, DESTROY_CLIENTID, orderly shutdown, OPEN (CLAIM_NULL all create modes, CLAIM_FH; R/W/RW), OPEN_DOWNGRADE, CLOSE, LOCK (new/existing lock-owner), LOCKT, LOCKU, FREE_STATEID, TEST_STATEID, READ/WRITE/SETATTR (open, lock, anonymous, read-bypass state IDs), REMOVE, LOOKUP, PUTFH probes, RECLAIM_COMPLETE, DESTROY_SESSION/DESTROY_CLIENTID inside SEQUENCE, clock advances around the lease time, state-ID deviations (seqid 0/old/future, other file, other client, dead, wrong kind, garbage), retransmissions, duplicates of in-flight requests, false retries, misordered sequence IDs, bad slots and sessions; final drain: release everything, all leases expire, one more call. "

func c18Profile() *profile {
	return &profile{
		name:    "C18",
		clients: [2]int{1, 3},
		steps:   [2]int{3, 80},
		ops: weighted(map[string]int{
			"bootstrap":              1,
			"reregister":             2,
			"exchange_id":            1,
			"create_session":         2,
			"destroy_session":        1,
			"destroy_clientid":       1,
			"shutdown":               1,
			"open":                   12,
			"open_fh":                6,
			"open_then":              3,
			"close":                  7,
			"downgrade":              6,
			"lock_new":               7,
			"lock_existing":          4,
			"lockt":                  2,
			"locku":                  4,
			"free_stateid":           4,
			"test_stateid":           3,
			"read":                   6,
			"write":                  6,
			"setattr":                3,
			"remove":                 3,
			"lookup":                 2,
			"probe":                  4,
			"noop":                   1,
			"reclaim_complete":       1,
			"destroy_session_inseq":  1,
			"destroy_clientid_inseq": 1,
			"release":                9,
			"advance":                3,
			"advance_small":          3,
			"replay":                 2,
			"misordered":             1,
			"bad_session":            1,
		}),
		oracle:   map[string]bool{"acct": true},
		parkPct:  35,
		devPct:   25,
		cachePct: 50,
		nontrivial: func(l map[string]int) bool {
			return (l["upgrade"] > 0 || l["downgrade"] > 0) && l["lock_state_created"] > 0 &&
				(l["reclaim_with_state:lease"] > 0 || l["reclaim_with_state:replaced"] > 0)
		},
	}
}

func c19Profile() *profile {
	return &profile{
		name:    "C19",
		clients: [2]int{1, 2},
		steps:   [2]int{3, 80},
		ops: weighted(map[string]int{
			"bootstrap":             1,
			"reregister":            1,
			"create_session":        5,
			"destroy_session":       1,
			"open":                  10,
			"open_fh":               4,
			"open_then":             3,
			"close":                 6,
			"downgrade":             3,
			"lock_new":              6,
			"lock_existing":         3,
			"locku":                 3,
			"free_stateid":          2,
			"read":                  5,
			"write":                 5,
			"remove":                2,
			"lookup":                2,
			"noop":                  1,
			"destroy_session_inseq": 1,
			"release":               10,
			"advance_small":         2,
			"advance":               1,
			"replay":                12,
			"dup":                   10,
			"false_retry":           7,
			"misordered":            4,
			"stale_busy":            2,
			"bad_slot":              2,
			"bad_session":           1,
		}),
		oracle:   map[string]bool{"acct": true},
		parkPct:  50,
		devPct:   10,
		cachePct: 60,
		nontrivial: func(l map[string]int) bool {
			return l["replay_of_successful_state_op"] > 0 && l["inflight_duplicate_completed_with_original"] > 0
		},
	}
}

func c20Profile() *profile {
	return &profile{
		name:    "C20",
		clients: [2]int{1, 2},
		steps:   [2]int{3, 80},
		ops: weighted(map[string]int{
			"bootstrap":     1,
			"reregister":    1,
			"open":          8,
			"open_fh":       4,
			"close":         4,
			"downgrade":     1,
			"lock_new":      16,
			"lock_existing": 14,
			"lockt":         12,
			"locku":         12,
			"free_stateid":  5,
			"read":          1,
			"remove":        1,
			"lookup":        1,
			"advance":       1,
			"advance_small": 3,
			"release":       2,
			"replay":        1,
		}),
		oracle:   map[string]bool{"acct": true},
		parkPct:  15,
		devPct:   8,
		cachePct: 50,
		nontrivial: func(l map[string]int) bool {
			return l["lock_owners_granted>=2"] > 0 && (l["lock_split"] > 0 || l["lock_merge"] > 0) && l["lock_range_to_max_offset"] > 0
		},
	}
}

// weighted expands a weight table into the multiset the generator draws
// from (sorted, so that the draw is independent of map iteration order).
func weighted(m map[string]int) []string {
	var out []string
	for _, k := range sortedKeys(m) {
		for i := 0; i < m[k]; i++ {
			out = append(out, k)
		}
	}
	return out
}

func runProperty(t *testing.T, p *profile, rec *simkit.Recorder) {
	rapid.Check(t, func(rt *rapid.T) {
		res := runCase(t, rt, p)
		recordCase(rec, p, res)
	})
}

func TestC18NFS41StateAccounting(t *testing.T) {
	rec := simkit.NewRecorder(t, "C18", "nfs41_state_accounting", commonRule+
		"ORACLE: per counting leaf and share bit closes <= opens at all times and no VirtualRead/VirtualWrite while that bit's count is 0 (checked inside the leaf, at the start and at the end of every I/O call); at every quiescence the outstanding open count per leaf and bit equals what the replies imply is held (open state per open-owner incl. upgrades/downgrades, share access cloned into lock state, parked I/O, OPENs parked after VirtualOpenChild), VerifStateCounts == model (clients, incarnations, sessions, hold count, idle list, open-owners, open-owner files, lock-owner files), opened-files pool == files with open state, all locks free; every operation's status == reference model of state-ID resolution in the requesting client's own namespace (RFC 8881 8.2: other file/foreign/dead => BAD_STATEID, old seqid => OLD_STATEID, future => BAD_STATEID) with the model unchanged on rejection; PUTFH of an unlinked file succeeds while open state exists and is NFS4ERR_STALE afterwards; after all leases expired + one call everything is zero. "+
		"NON-TRIVIAL: an upgrade or downgrade happened, lock state was created, and state was reclaimed by lease expiry or re-registration. Distinct by script hash")
	runProperty(t, c18Profile(), rec)
}

func TestC19NFS41ExactlyOnce(t *testing.T) {
	p := c19Profile()
	if simkit.KnownOpen("C19/inflight-duplicate-never-returns/nfs41") {
		p.excludeDup = true
	}
	rec := simkit.NewRecorder(t, "C19", "nfs41_exactly_once", commonRule+
		"ORACLE: slot model per (session, slot): sequence == last => the reply must be XDR-byte-equal to the original's (or, when the original was sent without sa_cachethis and had >= 2 results, the documented NFS4ERR_RETRY_UNCACHED_REP form) and leaf open/close/I-O counters, file count, root change ID and VerifStateCounts must not move; a duplicate that arrives while the original is parked must not be answered before the original completes and must complete, in the same quiescence as the original, with the original's result; a different operation list under the same slot+sequence => NFS4ERR_SEQ_FALSE_RETRY where the difference is in the number or types of operations covered by the cached reply (as the upstream FalseRetries tests document), otherwise either that or the original's cached reply, never executed; sequence neither last nor last+1 => NFS4ERR_SEQ_MISORDERED without side effects; bad slot / unknown session => BADSLOT / BADSESSION; CREATE_SESSION with the previous sequence => byte-equal reply and no second session, other sequence => SEQ_MISORDERED; every executed request is checked against the C18 model as well. "+
		"NON-TRIVIAL: a retransmission of a successful OPEN/CLOSE/LOCK/LOCKU/OPEN_DOWNGRADE/FREE_STATEID compound was answered from the cache AND a duplicate of an in-flight request completed with the original's result. Distinct by script hash")
	runProperty(t, p, rec)
}

func TestC20NFS41ByteRangeLocks(t *testing.T) {
	rec := simkit.NewRecorder(t, "C20", "nfs41_byte_range_locks", commonRule+
		"Lock ranges begin and end at 14 points (0..6, 2^64-7..2^64-1; lengths incl. all-ones, zero and overflowing ones). ORACLE: per-file per-byte reference map keyed by (client ID, lock-owner bytes) over 13 units: LOCK granted <=> no other owner holds a conflicting byte, also when the same lock-owner locks through a second open/open-owner of the file; a DENIED reply (LOCK and LOCKT) must name an owner other than the requester that holds every byte of the named range with the named type, overlapping and conflicting with the request; LOCKT denied <=> the same LOCK would be denied (own locks never conflict); LOCKU frees exactly the range; CLOSE, lease expiry, re-registration free exactly the bytes of the lock-owners of that open / client; FREE_STATEID => NFS4ERR_LOCKS_HELD <=> the lock-owner still holds bytes on that file; zero-length and overflowing ranges => NFS4ERR_INVAL. "+
		"NON-TRIVIAL: >= 2 lock-owners were granted locks, a split or merge happened, and a range ended at the maximum offset. Distinct by script hash")
	runProperty(t, c20Profile(), rec)
}

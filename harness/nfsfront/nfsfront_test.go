package nfsfront

import (
	"strings"
	"testing"

	"pgregory.net/rapid"

	"verif/harness/internal/simkit"
)

const nfRule = "rapid state machine: one protocol-following client (SETCLIENTID/SETCLIENTID_CONFIRM resp. EXCHANGE_ID/CREATE_SESSION/SEQUENCE; one open-owner with OPEN_CONFIRM and RFC 7530 9.1.7 sequence IDs) sends generated COMPOUNDs to the real NFSv4 program over the real InMemoryPrepopulatedDirectory (NFS stateful handle allocator, pool-backed file allocator over an in-memory pool, handle-allocating symlink factory). COMPOUNDs are built from PUTROOTFH/PUTFH(any handle a reply ever contained, also of removed objects)/GETFH/SAVEFH/RESTOREFH/LOOKUP/LOOKUPP/CREATE(dir, symlink, fifo, socket, block device)/OPEN(nocreate, UNCHECKED with and without truncation, GUARDED, EXCLUSIVE)+OPEN_CONFIRM+WRITE+READ+CLOSE/REMOVE/RENAME(same and cross directory, onto files, empty and non-empty directories, the same object)/LINK/READDIR(page sizes from one entry to everything, dircount, all attribute sets, resumed from any cookie an earlier reply contained with the right, a wrong or the zero verifier)/READLINK/GETATTR/READ+WRITE with the anonymous state ID, plus invalid names and random operation sequences; profile 'small' (names a-e, depth <= 3) or 'wide' (12-16 entries of all kinds in the root, 16 names). ORACLE: naive POSIX-style reference tree executed operation by operation on every reply: status (a set where RFC 7530/8881 and the code's POSIX answer differ), current/saved file handle, handles and fileids stable and never shared between objects, type/numlinks/size/change attributes, change_info4 (atomic, before = last seen change attribute, after > before iff the entry set changed), READDIR pages (no entry at or before the cookie position, no removed entry, cookies strictly increasing and stable per entry, no entry that existed since the cookie was issued skipped, eof only when all of them were reported, reply size <= maxcount), READLINK targets, file bytes through every name; after EVERY COMPOUND the whole tree is re-read through NFS (paginated READDIR of every directory with a drawn page size and attribute set, LOOKUP+GETFH+GETATTR+READLINK/READ of every entry, PUTFH probes of handles of removed objects, backing file count) and must equal the reference tree. NON-TRIVIAL: (a RENAME that replaced an existing entry or was refused for type/emptiness, or a REMOVE refused for NOTEMPTY, or an operation on a removed directory through a handle obtained before removal) AND a READDIR resumed from a non-zero cookie after its directory was modified since the cookie was handed out AND at least one hard link or file created through OPEN; distinct by script hash"

func nfRunCase(rt *rapid.T, rec *simkit.Recorder, v41 bool) {
	profile := rapid.SampledFrom([]string{"small", "small", "wide"}).Draw(rt, "profile")
	c := newNfCase(rt, rec, v41, profile)
	if profile == "wide" {
		c.populateWide()
	}
	steps := c.steps()
	var table []int
	for round := 0; ; round++ {
		added := false
		for i, s := range steps {
			if round < s.weight {
				table = append(table, i)
				added = true
			}
		}
		if !added {
			break
		}
	}
	step := func(rt *rapid.T) {
		c.rt = rt
		for try := 0; try < 4; try++ {
			s := steps[table[rapid.IntRange(0, len(table)-1).Draw(rt, "step")]]
			if s.run(c) {
				break
			}
		}
	}
	rt.Repeat(map[string]func(*rapid.T){"step": step})
	c.rt = rt

	notes := c.m.notes
	has := func(l string) bool { return notes[l] > 0 }
	var labels []string
	flag := func(b bool, l string) {
		if b {
			labels = append(labels, l)
		}
	}
	flag(true, "profile_"+profile)
	for _, l := range []string{
		"rename_over_leaf", "rename_over_empty_directory", "rename_over_one_of_several_names", "rename_refused_type", "rename_refused_nonempty",
		"rename_same_object_noop", "rename_cross_directory", "rename_same_directory", "rename_moved_directory", "rename_into_removed_directory_refused",
		"remove_nonempty_directory_refused", "removed_directory", "removed_one_of_several_names", "removed_open_file", "closed_unlinked_file",
		"op_on_removed_directory", "create_in_removed_directory_refused", "open_create_in_removed_directory_refused", "link_into_removed_directory_refused",
		"putfh_removed_directory_stale", "putfh_removed_leaf_stale", "link_of_unlinked_leaf_refused",
		"hard_link_file", "hard_link_symlink", "hard_link_fifo", "hard_link_socket", "wrote_file_with_several_names", "read_file_with_several_names", "symlink_target_shared",
		"readdir_resumed", "readdir_resumed_after_mutation", "readdir_partial_page", "readdir_toosmall", "readdir_bad_verifier",
		"open_created_unchecked", "open_created_unchecked_trunc", "open_created_guarded", "open_created_exclusive", "open_existing_file", "open_truncated_existing", "open_guarded_exists",
		"bad_name", "created_dir", "created_symlink", "created_fifo", "created_socket",
	} {
		flag(has(l), l)
	}
	flag(c.flags["op_while_open"], "directory_op_while_file_open")
	for _, k := range sortedKeys(notes) {
		if strings.HasPrefix(k, "ret:") || strings.HasPrefix(k, "readdir_page_entries:") {
			rec.LabelN(k, notes[k])
		}
	}
	rec.LabelN("compounds_sent", c.w.compounds)
	rec.LabelN("tree_walks", c.walks)
	hard := has("rename_over_leaf") || has("rename_over_empty_directory") || has("rename_refused_type") || has("rename_refused_nonempty") ||
		has("remove_nonempty_directory_refused") || has("op_on_removed_directory")
	created := has("hard_link_file") || has("hard_link_symlink") || has("hard_link_fifo") || has("hard_link_socket") ||
		has("open_created_unchecked") || has("open_created_unchecked_trunc") || has("open_created_guarded") || has("open_created_exclusive")
	nontrivial := hard && has("readdir_resumed_after_mutation") && created
	rec.Case(c.script, nontrivial, labels...)
}

func TestC13NFSFrontEndModel(t *testing.T) {
	rec := simkit.NewRecorder(t, "C13", "nfs40_front_end_model", "NFSv4.0 (NewNFS40Program): "+nfRule)
	rapid.Check(t, func(rt *rapid.T) { nfRunCase(rt, rec, false) })
}

func TestC13NFS41FrontEndModel(t *testing.T) {
	rec := simkit.NewRecorder(t, "C13", "nfs41_front_end_model", "NFSv4.1 (NewNFS41Program, every COMPOUND inside a session): "+nfRule)
	rapid.Check(t, func(rt *rapid.T) { nfRunCase(rt, rec, true) })
}

package nfsfront

import (
	"bytes"
	"encoding/binary"
	"encoding/hex"
	"fmt"
	"sort"
	"strings"

	"github.com/buildbarn/bb-remote-execution/pkg/filesystem/virtual"
	nfsv4 "github.com/buildbarn/go-xdr/pkg/protocols/nfsv4"
)

// The reference model: a deliberately naive POSIX-style tree plus the
// little an NFS client remembers (file handles, file IDs, READDIR cookies,
// change attributes). It shares no code with /repo; the two link count
// constants below are configuration of the tree under test, not logic.

type status = nfsv4.Nfsstat4

const (
	sOK           = nfsv4.NFS4_OK
	sNoEnt        = nfsv4.NFS4ERR_NOENT
	sExist        = nfsv4.NFS4ERR_EXIST
	sNotDir       = nfsv4.NFS4ERR_NOTDIR
	sIsDir        = nfsv4.NFS4ERR_ISDIR
	sNotEmpty     = nfsv4.NFS4ERR_NOTEMPTY
	sInval        = nfsv4.NFS4ERR_INVAL
	sBadName      = nfsv4.NFS4ERR_BADNAME
	sStale        = nfsv4.NFS4ERR_STALE
	sSymlink      = nfsv4.NFS4ERR_SYMLINK
	sNoFH         = nfsv4.NFS4ERR_NOFILEHANDLE
	sRestoreFH    = nfsv4.NFS4ERR_RESTOREFH
	sPerm         = nfsv4.NFS4ERR_PERM
	sBadType      = nfsv4.NFS4ERR_BADTYPE
	sNotSupp      = nfsv4.NFS4ERR_NOTSUPP
	sWrongType    = nfsv4.NFS4ERR_WRONG_TYPE
	sTooSmall     = nfsv4.NFS4ERR_TOOSMALL
	sNotSame      = nfsv4.NFS4ERR_NOT_SAME
	dirLinkCount  = uint32(virtual.ImplicitDirectoryLinkCount)
	linkLinkCount = uint32(virtual.StatelessLeafLinkCount)
)

// opSpec is one operation of a generated COMPOUND: script step, input of
// the request builder and input of the reference model.
type opSpec struct {
	Op     string `json:"op"`
	FH     string `json:"fh,omitempty"`   // PUTFH: hex file handle (taken from an earlier reply)
	Node   int    `json:"node,omitempty"` // PUTFH: reference tree node the handle was handed out for
	Name   string `json:"name,omitempty"`
	Name2  string `json:"name2,omitempty"`
	Empty  bool   `json:"empty,omitempty"`  // the (first) name is the empty string
	Empty2 bool   `json:"empty2,omitempty"` // the second name is the empty string
	Kind   string `json:"kind,omitempty"`   // CREATE: dir, symlink, fifo, socket, blk
	Target string `json:"target,omitempty"`
	How    string `json:"how,omitempty"` // OPEN: nocreate, unchecked, unchecked_trunc, guarded, exclusive
	Access uint32 `json:"acc,omitempty"`

	Cookie   uint64 `json:"cookie,omitempty"`
	After    int    `json:"after,omitempty"`  // READDIR: attach number of the entry the cookie was returned for
	Issued   int    `json:"issued,omitempty"` // READDIR: attach counter when the cookie was returned
	TokDir   int    `json:"tokdir,omitempty"` // READDIR: directory the cookie was returned for
	Mut      int    `json:"mut,omitempty"`    // READDIR: number of attach/detach events of that directory when the cookie was returned
	Verf     string `json:"verf,omitempty"`   // READDIR: "", "bad", "zero"
	Dircount uint32 `json:"dircount,omitempty"`
	Maxcount uint32 `json:"maxcount,omitempty"`
	Attrs    string `json:"attrs,omitempty"` // READDIR, GETATTR: none, id, full

	Sid   string `json:"sid,omitempty"` // READ, WRITE: anon, open
	Off   uint64 `json:"off,omitempty"`
	Data  string `json:"data,omitempty"`
	Count uint32 `json:"count,omitempty"`

	Out string `json:"out,omitempty"`
}

func (o *opSpec) String() string {
	var parts []string
	add := func(k string, v any) { parts = append(parts, fmt.Sprintf("%s=%v", k, v)) }
	if o.FH != "" {
		add("fh", fmt.Sprintf("n%d:%s", o.Node, o.FH))
	}
	if o.Name != "" || o.Empty {
		add("name", fmt.Sprintf("%q", o.Name))
	}
	if o.Name2 != "" || o.Empty2 {
		add("name2", fmt.Sprintf("%q", o.Name2))
	}
	if o.Kind != "" {
		add("kind", o.Kind)
	}
	if o.Target != "" {
		add("target", o.Target)
	}
	if o.How != "" {
		add("how", o.How)
		add("acc", o.Access)
	}
	if o.Op == "READDIR" {
		add("cookie", o.Cookie)
		if o.Cookie != 0 {
			add("of", fmt.Sprintf("n%d@%d/%d", o.TokDir, o.After, o.Issued))
		}
		if o.Verf != "" {
			add("verf", o.Verf)
		}
		add("dircount", o.Dircount)
		add("maxcount", o.Maxcount)
	}
	if o.Attrs != "" {
		add("attrs", o.Attrs)
	}
	if o.Sid != "" {
		add("sid", o.Sid)
		add("off", o.Off)
		if o.Op == "WRITE" {
			add("data", fmt.Sprintf("%q", o.Data))
		} else {
			add("count", o.Count)
		}
	}
	s := o.Op
	if len(parts) > 0 {
		s += "(" + strings.Join(parts, " ") + ")"
	}
	if o.Out != "" {
		s += "=>" + o.Out
	}
	return s
}

func opsString(ops []*opSpec) string {
	var parts []string
	for _, o := range ops {
		parts = append(parts, o.String())
	}
	return strings.Join(parts, "; ")
}

type mEnt struct {
	seq    int // global attach number, strictly increasing
	name   string
	child  int
	cookie uint64 // as reported by READDIR; 0 = not seen yet
}

type mNode struct {
	id   int
	kind string // dir, file, symlink, fifo, socket

	// Directories.
	ents    []*mEnt // attach order
	deleted bool
	parent  int
	muts    int // attach + detach events so far

	// Leaves.
	nlink   int
	content []byte
	target  string

	// What the client learned.
	fh          string
	fileid      uint64
	fileidKnown bool
	change      uint64
	changeKnown bool
	bumped      bool // leaves: modified since the change attribute was last seen
}

func (n *mNode) isDir() bool { return n.kind == "dir" }

// cookieTok is a READDIR cookie the client holds.
type cookieTok struct {
	Dir    int
	Cookie uint64
	After  int
	Issued int
	Mut    int
}

type model struct {
	v41     bool
	nodes   map[int]*mNode
	nextID  int
	nextSeq int
	root    int
	byFH    map[string]int
	byFID   map[uint64]int
	symLive map[string]int // symlink target -> node that currently has names

	// Open state (at most one open file at a time).
	open       int
	openAccess uint32
	linger     int // NFSv4.0: file whose CLOSE is the open-owner's last transaction

	verf      [8]byte
	verfKnown bool

	// Per COMPOUND.
	cur, saved int
	dry        bool
	excluded   string

	// Outputs of a real (non-dry) execution, shared with the engine.
	notes  map[string]int
	tokens *[]cookieTok
}

func newModel(v41 bool) *model {
	m := &model{v41: v41, nodes: map[int]*mNode{}, nextSeq: 1, byFH: map[string]int{}, byFID: map[uint64]int{}, symLive: map[string]int{}, notes: map[string]int{}, tokens: &[]cookieTok{}}
	m.root = m.newNode("dir").id
	return m
}

func (m *model) newNode(kind string) *mNode {
	m.nextID++
	n := &mNode{id: m.nextID, kind: kind}
	if kind != "dir" {
		n.nlink = 1
	}
	m.nodes[n.id] = n
	return n
}

// clone makes a deep copy for the dry run that decides whether the
// generator refuses a COMPOUND.
func (m *model) clone() *model {
	c := *m
	c.nodes = make(map[int]*mNode, len(m.nodes))
	for id, n := range m.nodes {
		nn := *n
		nn.ents = make([]*mEnt, len(n.ents))
		for i, e := range n.ents {
			ee := *e
			nn.ents[i] = &ee
		}
		nn.content = append([]byte(nil), n.content...)
		c.nodes[id] = &nn
	}
	c.byFH = make(map[string]int, len(m.byFH))
	for k, v := range m.byFH {
		c.byFH[k] = v
	}
	c.byFID = make(map[uint64]int, len(m.byFID))
	for k, v := range m.byFID {
		c.byFID[k] = v
	}
	c.symLive = make(map[string]int, len(m.symLive))
	for k, v := range m.symLive {
		c.symLive[k] = v
	}
	c.dry = true
	c.notes = map[string]int{}
	c.tokens = &[]cookieTok{}
	return &c
}

func (m *model) note(l string) {
	if !m.dry {
		m.notes[l]++
	}
}

func (m *model) lookup(d *mNode, name string) *mEnt {
	for _, e := range d.ents {
		if e.name == name {
			return e
		}
	}
	return nil
}

func (m *model) attach(d *mNode, name string, child *mNode) *mEnt {
	if d.deleted || m.lookup(d, name) != nil {
		panic("nfsfront model: attach to a removed directory or over an existing name")
	}
	e := &mEnt{seq: m.nextSeq, name: name, child: child.id}
	m.nextSeq++
	d.ents = append(d.ents, e)
	d.muts++
	if child.isDir() {
		child.parent = d.id
	}
	return e
}

func (m *model) detach(d *mNode, e *mEnt) {
	for i, x := range d.ents {
		if x == e {
			d.ents = append(d.ents[:i:i], d.ents[i+1:]...)
			d.muts++
			if c := m.nodes[e.child]; c.isDir() && c.parent == d.id {
				c.parent = 0
			}
			return
		}
	}
	panic("nfsfront model: detach of an entry that is not attached")
}

func (m *model) unlink(n *mNode) {
	if n.nlink <= 0 {
		panic("nfsfront model: unlink of a leaf without names")
	}
	n.nlink--
	n.bumped = true
	if n.kind == "symlink" && n.nlink == 0 && m.symLive[n.target] == n.id {
		delete(m.symLive, n.target)
	}
}

func (m *model) isAncestorOrSelf(anc, d *mNode) bool {
	for x := d; x != nil; x = m.nodes[x.parent] {
		if x == anc {
			return true
		}
	}
	return false
}

// leafAlive: the leaf object can still be opened / linked.
func (m *model) leafAlive(n *mNode) bool {
	return n.nlink > 0 || (n.kind == "file" && m.open == n.id)
}

func (m *model) liveDirs() int {
	k := 0
	for _, n := range m.nodes {
		if n.isDir() && !n.deleted && m.reachable(n) {
			k++
		}
	}
	return k
}

func (m *model) reachable(d *mNode) bool {
	for x := d; x != nil; x = m.nodes[x.parent] {
		if x.id == m.root {
			return true
		}
	}
	return false
}

func (m *model) depthOf(d *mNode) int {
	k := 0
	for x := d; x != nil && x.id != m.root; x = m.nodes[x.parent] {
		k++
	}
	return k
}

func (m *model) maxDepth() int {
	k := 0
	for _, n := range m.nodes {
		if n.isDir() && !n.deleted && m.reachable(n) {
			if d := m.depthOf(n); d > k {
				k = d
			}
		}
	}
	return k
}

func (m *model) totalEntries() int {
	k := 0
	for _, n := range m.nodes {
		if n.isDir() && m.reachable(n) {
			k += len(n.ents)
		}
	}
	return k
}

// sortedNodeIDs: deterministic iteration.
func (m *model) sortedNodeIDs() []int {
	ids := make([]int, 0, len(m.nodes))
	for id := range m.nodes {
		ids = append(ids, id)
	}
	sort.Ints(ids)
	return ids
}

// pathTo returns the names leading from the root to d, or false.
func (m *model) pathTo(n *mNode) ([]string, bool) {
	var find func(d *mNode, depth int) ([]string, bool)
	find = func(d *mNode, depth int) ([]string, bool) {
		if depth > 8 {
			return nil, false
		}
		for _, e := range d.ents {
			if e.child == n.id {
				return []string{e.name}, true
			}
		}
		for _, e := range d.ents {
			if c := m.nodes[e.child]; c.isDir() {
				if p, ok := find(c, depth+1); ok {
					return append([]string{e.name}, p...), true
				}
			}
		}
		return nil, false
	}
	if n.id == m.root {
		return nil, true
	}
	return find(m.nodes[m.root], 0)
}

// ---------------------------------------------------------------- predictions

type pred struct {
	accept []status
	ok     func(r nfsv4.NfsResop4) string
	why    string
}

func one(s status, why string) pred { return pred{accept: []status{s}, why: why} }

func nameStatus(name string) status {
	if name == "" {
		return sInval
	}
	if name == "." || name == ".." || strings.ContainsAny(name, "/\x00") {
		return sBadName
	}
	return sOK
}

func (m *model) dirOf(id int) (*mNode, status) {
	if id == 0 {
		return nil, sNoFH
	}
	n := m.nodes[id]
	if !n.isDir() {
		return nil, sNotDir
	}
	return n, sOK
}

func (m *model) dirOrSymlink(id int) (*mNode, status) {
	if id == 0 {
		return nil, sNoFH
	}
	n := m.nodes[id]
	if n.kind == "symlink" {
		return nil, sSymlink
	}
	if !n.isDir() {
		return nil, sNotDir
	}
	return n, sOK
}

// learnFH records / verifies the file handle of a node.
func (m *model) learnFH(n *mNode, fh []byte) string {
	h := hex.EncodeToString(fh)
	if n.fh != "" {
		if n.fh != h {
			return fmt.Sprintf("file handle of n%d (%s) is %s, earlier replies said %s: handles must be stable", n.id, n.kind, h, n.fh)
		}
		return ""
	}
	if other, ok := m.byFH[h]; ok && other != n.id {
		o := m.nodes[other]
		if !(o.kind == "symlink" && n.kind == "symlink" && o.target == n.target) {
			return fmt.Sprintf("file handle %s of n%d (%s) was handed out before for the different object n%d (%s)", h, n.id, n.kind, o.id, o.kind)
		}
	}
	n.fh = h
	m.byFH[h] = n.id
	return ""
}

const (
	bitType   = uint32(1) << nfsv4.FATTR4_TYPE
	bitChange = uint32(1) << nfsv4.FATTR4_CHANGE
	bitSize   = uint32(1) << nfsv4.FATTR4_SIZE
	bitFH     = uint32(1) << nfsv4.FATTR4_FILEHANDLE
	bitFileID = uint32(1) << nfsv4.FATTR4_FILEID
	bitNlink  = uint32(1) << (nfsv4.FATTR4_NUMLINKS - 32)
)

func attrBitmap(which string) []uint32 {
	switch which {
	case "none":
		return []uint32{}
	case "id":
		return []uint32{bitType | bitFileID}
	case "full":
		return []uint32{bitType | bitChange | bitSize | bitFH | bitFileID, bitNlink}
	}
	panic("nfsfront: unknown attribute set " + which)
}

func attrValBytes(which string) int {
	switch which {
	case "none":
		return 0
	case "id":
		return 12
	default:
		return 4 + 8 + 8 + 12 + 8 + 4
	}
}

// entrySize is the XDR size of one READDIR entry with a name of the given
// length and the given attribute set (all file handles are 8 bytes long).
func entrySize(name, attrs string) uint32 {
	e := nfsv4.Entry4{Cookie: 3, Name: name, Attrs: nfsv4.Fattr4{Attrmask: attrBitmap(attrs), AttrVals: make([]byte, attrValBytes(attrs))}}
	return uint32(e.GetEncodedSizeBytes())
}

func dirNeed(name string) uint32 { return uint32(4 + (len(name)+3)/4*4 + 8) }

var typeOfKind = map[string]nfsv4.NfsFtype4{
	"dir": nfsv4.NF4DIR, "file": nfsv4.NF4REG, "symlink": nfsv4.NF4LNK, "fifo": nfsv4.NF4FIFO, "socket": nfsv4.NF4SOCK,
}

// checkAttrs decodes a fattr4 that was requested with attribute set
// `which` and compares it with node n.
func (m *model) checkAttrs(n *mNode, f *nfsv4.Fattr4, which, where string) string {
	want := attrBitmap(which)
	if len(f.Attrmask) != len(want) {
		return fmt.Sprintf("%s: returned attribute bitmap %v, requested %v", where, f.Attrmask, want)
	}
	for i := range want {
		if f.Attrmask[i] != want[i] {
			return fmt.Sprintf("%s: returned attribute bitmap %v, requested %v (all requested attributes are announced as supported)", where, f.Attrmask, want)
		}
	}
	vals := f.AttrVals
	short := fmt.Sprintf("%s: attribute values (%d bytes) are shorter than the bitmap %v announces", where, len(f.AttrVals), f.Attrmask)
	u32 := func() (uint32, bool) {
		if len(vals) < 4 {
			return 0, false
		}
		v := binary.BigEndian.Uint32(vals)
		vals = vals[4:]
		return v, true
	}
	u64 := func() (uint64, bool) {
		if len(vals) < 8 {
			return 0, false
		}
		v := binary.BigEndian.Uint64(vals)
		vals = vals[8:]
		return v, true
	}
	if which == "none" {
		if len(vals) != 0 {
			return fmt.Sprintf("%s: %d bytes of attribute values for an empty bitmap", where, len(vals))
		}
		return ""
	}
	// Values come in attribute number order: type, change, size,
	// filehandle, fileid, numlinks.
	ty, ok := u32()
	if !ok {
		return short
	}
	if nfsv4.NfsFtype4(ty) != typeOfKind[n.kind] {
		return fmt.Sprintf("%s: type %d, the reference tree has a %s (n%d)", where, ty, n.kind, n.id)
	}
	var change, size uint64
	var fh []byte
	if which == "full" {
		if change, ok = u64(); !ok {
			return short
		}
		if size, ok = u64(); !ok {
			return short
		}
		l, ok := u32()
		padded := (int(l) + 3) / 4 * 4
		if !ok || l > 128 || len(vals) < padded {
			return short
		}
		fh, vals = vals[:l], vals[padded:]
	}
	fileid, ok := u64()
	if !ok {
		return short
	}
	if n.fileidKnown {
		if fileid != n.fileid {
			return fmt.Sprintf("%s: fileid %#x, earlier replies said %#x for the same object n%d (%s)", where, fileid, n.fileid, n.id, n.kind)
		}
	} else {
		if other, ok := m.byFID[fileid]; ok && other != n.id {
			o := m.nodes[other]
			if !(o.kind == "symlink" && n.kind == "symlink" && o.target == n.target) {
				return fmt.Sprintf("%s: fileid %#x of n%d (%s) is also the fileid of the different object n%d (%s)", where, fileid, n.id, n.kind, o.id, o.kind)
			}
		}
		n.fileid, n.fileidKnown = fileid, true
		m.byFID[fileid] = n.id
	}
	if which != "full" {
		if len(vals) != 0 {
			return fmt.Sprintf("%s: %d trailing bytes of attribute values", where, len(vals))
		}
		return ""
	}
	nlink, ok := u32()
	if !ok {
		return short
	}
	if len(vals) != 0 {
		return fmt.Sprintf("%s: %d trailing bytes of attribute values", where, len(vals))
	}
	if f := m.learnFH(n, fh); f != "" {
		return where + ": filehandle attribute: " + f
	}
	var wantLinks uint32
	switch n.kind {
	case "dir":
		wantLinks = dirLinkCount
	case "symlink":
		wantLinks = linkLinkCount
	default:
		wantLinks = uint32(n.nlink)
	}
	if nlink != wantLinks {
		return fmt.Sprintf("%s: numlinks %d, the reference tree has %d name(s) for n%d (%s; directories report %d, symlinks %d)", where, nlink, n.nlink, n.id, n.kind, dirLinkCount, linkLinkCount)
	}
	alive := n.isDir() || m.leafAlive(n)
	if alive {
		var wantSize uint64
		switch n.kind {
		case "file":
			wantSize = uint64(len(n.content))
		case "symlink":
			wantSize = uint64(len(n.target))
		}
		if size != wantSize {
			return fmt.Sprintf("%s: size %d, the reference tree has %d for n%d (%s)", where, size, wantSize, n.id, n.kind)
		}
	}
	// Change attribute.
	if n.isDir() {
		if n.changeKnown && change != n.change {
			return fmt.Sprintf("%s: change attribute of directory n%d is %d, but it was %d after its last modification (change_info / GETATTR) and its entry set has not changed since", where, n.id, change, n.change)
		}
		n.change, n.changeKnown = change, true
	} else {
		if n.changeKnown {
			if change < n.change {
				return fmt.Sprintf("%s: change attribute of n%d (%s) went back from %d to %d", where, n.id, n.kind, n.change, change)
			}
			if n.bumped && change == n.change && n.kind != "symlink" {
				return fmt.Sprintf("%s: change attribute of n%d (%s) is still %d although it was written / linked / unlinked since", where, n.id, n.kind, change)
			}
		}
		n.change, n.changeKnown, n.bumped = change, true, false
	}
	return ""
}

// cinfo checks a change_info4 of directory d and brings the remembered
// change attribute up to date. changed: the operation changed d's entry set.
func (m *model) cinfo(d *mNode, ci *nfsv4.ChangeInfo4, changed bool, what string) string {
	if ci == nil {
		return ""
	}
	if !ci.Atomic {
		return fmt.Sprintf("%s: change_info4.atomic is false (the directory code documents every mutation as atomic)", what)
	}
	if d.changeKnown && ci.Before != d.change {
		return fmt.Sprintf("%s: change_info4.before=%d, but the change attribute of directory n%d was last seen as %d and its entry set has not changed since", what, ci.Before, d.id, d.change)
	}
	if changed && ci.After <= ci.Before {
		return fmt.Sprintf("%s: change_info4 before=%d after=%d although the entry set of directory n%d changed: the change counter must strictly increase with every modification", what, ci.Before, ci.After, d.id)
	}
	if !changed && ci.After != ci.Before {
		return fmt.Sprintf("%s: change_info4 before=%d after=%d although the entry set of directory n%d did not change", what, ci.Before, ci.After, d.id)
	}
	d.change, d.changeKnown = ci.After, true
	return ""
}

func opNum(op string) nfsv4.NfsOpnum4 {
	switch op {
	case "PUTROOTFH":
		return nfsv4.OP_PUTROOTFH
	case "PUTFH":
		return nfsv4.OP_PUTFH
	case "GETFH":
		return nfsv4.OP_GETFH
	case "SAVEFH":
		return nfsv4.OP_SAVEFH
	case "RESTOREFH":
		return nfsv4.OP_RESTOREFH
	case "LOOKUP":
		return nfsv4.OP_LOOKUP
	case "LOOKUPP":
		return nfsv4.OP_LOOKUPP
	case "CREATE":
		return nfsv4.OP_CREATE
	case "REMOVE":
		return nfsv4.OP_REMOVE
	case "RENAME":
		return nfsv4.OP_RENAME
	case "LINK":
		return nfsv4.OP_LINK
	case "READDIR":
		return nfsv4.OP_READDIR
	case "READLINK":
		return nfsv4.OP_READLINK
	case "GETATTR":
		return nfsv4.OP_GETATTR
	case "READ":
		return nfsv4.OP_READ
	case "WRITE":
		return nfsv4.OP_WRITE
	case "OPEN":
		return nfsv4.OP_OPEN
	case "OPEN_CONFIRM":
		return nfsv4.OP_OPEN_CONFIRM
	case "CLOSE":
		return nfsv4.OP_CLOSE
	}
	panic("nfsfront: unknown operation " + op)
}

func names(ss []status) string {
	var parts []string
	for _, s := range ss {
		parts = append(parts, statusName(s))
	}
	return strings.Join(parts, "|")
}

// exec runs one COMPOUND through the reference tree. res == nil: dry run
// (every operation takes the first acceptable status, nothing is learned).
// Otherwise every result is compared; the return value is "" or the
// description of the first disagreement.
func (m *model) exec(ops []*opSpec, res *nfsv4.Compound4res) string {
	m.cur, m.saved = 0, 0
	for i, op := range ops {
		if op.Op == "OPEN" && !m.v41 {
			// Every NFSv4.0 OPEN starts a new open-owner transaction,
			// which drops the state retained for replaying the last CLOSE.
			m.linger = 0
		}
		p := m.predict(op)
		if m.excluded != "" {
			return ""
		}
		got := p.accept[0]
		var r nfsv4.NfsResop4
		if res != nil {
			if i >= len(res.Resarray) {
				return fmt.Sprintf("operation #%d %s has no result although every earlier operation succeeded (reply %s)", i, op.Op, describeReply(res))
			}
			r = res.Resarray[i]
			if r.GetResop() != opNum(op.Op) {
				return fmt.Sprintf("result #%d is for operation %d, sent %s", i, r.GetResop(), op.Op)
			}
			got = resStatus(r)
			op.Out = statusName(got)
			acceptable := false
			for _, a := range p.accept {
				if a == got {
					acceptable = true
				}
			}
			if !acceptable {
				why := ""
				if p.why != "" {
					why = " (" + strings.TrimSpace(p.why) + ")"
				}
				return fmt.Sprintf("operation #%d %s answered %s, the reference tree expects %s%s", i, op.String(), statusName(got), names(p.accept), why)
			}
			m.note("ret:" + op.Op + ":" + statusName(got))
		}
		if got != sOK {
			if res != nil && (len(res.Resarray) != i+1 || res.Status != got) {
				return fmt.Sprintf("operation #%d %s failed with %s but the reply has %d results and compound status %s", i, op.Op, statusName(got), len(res.Resarray), statusName(res.Status))
			}
			return ""
		}
		if p.ok != nil {
			if f := p.ok(r); f != "" {
				return fmt.Sprintf("operation #%d %s: %s", i, op.String(), f)
			}
			if m.excluded != "" {
				return ""
			}
		}
	}
	if res != nil && (len(res.Resarray) != len(ops) || res.Status != sOK) {
		return fmt.Sprintf("every operation succeeded but the reply has %d results for %d operations and compound status %s", len(res.Resarray), len(ops), statusName(res.Status))
	}
	return ""
}

func (m *model) opName(op *opSpec, second bool) string {
	if second {
		if op.Empty2 {
			return ""
		}
		return op.Name2
	}
	if op.Empty {
		return ""
	}
	return op.Name
}

func (m *model) predict(op *opSpec) pred {
	switch op.Op {
	case "PUTROOTFH":
		return pred{accept: []status{sOK}, ok: func(nfsv4.NfsResop4) string { m.cur = m.root; return "" }}
	case "PUTFH":
		return m.pPutFH(op)
	case "GETFH":
		if m.cur == 0 {
			return one(sNoFH, "no current file handle")
		}
		return pred{accept: []status{sOK}, ok: func(r nfsv4.NfsResop4) string {
			if r == nil {
				return ""
			}
			okRes, isOK := r.(*nfsv4.NfsResop4_OP_GETFH).Opgetfh.(*nfsv4.Getfh4res_NFS4_OK)
			if !isOK {
				return "status OK without the OK arm"
			}
			return m.learnFH(m.nodes[m.cur], okRes.Resok4.Object)
		}}
	case "SAVEFH":
		if m.cur == 0 {
			return one(sNoFH, "no current file handle")
		}
		return pred{accept: []status{sOK}, ok: func(nfsv4.NfsResop4) string { m.saved = m.cur; return "" }}
	case "RESTOREFH":
		if m.saved == 0 {
			return one(sRestoreFH, "no saved file handle")
		}
		return pred{accept: []status{sOK}, ok: func(nfsv4.NfsResop4) string { m.cur = m.saved; return "" }}
	case "LOOKUP":
		return m.pLookup(op)
	case "LOOKUPP":
		return m.pLookupp(op)
	case "CREATE":
		return m.pCreate(op)
	case "REMOVE":
		return m.pRemove(op)
	case "RENAME":
		return m.pRename(op)
	case "LINK":
		return m.pLink(op)
	case "READDIR":
		return m.pReaddir(op)
	case "READLINK":
		return m.pReadlink(op)
	case "GETATTR":
		if m.cur == 0 {
			return one(sNoFH, "no current file handle")
		}
		return pred{accept: []status{sOK}, ok: func(r nfsv4.NfsResop4) string {
			if r == nil {
				return ""
			}
			okRes, isOK := r.(*nfsv4.NfsResop4_OP_GETATTR).Opgetattr.(*nfsv4.Getattr4res_NFS4_OK)
			if !isOK {
				return "status OK without the OK arm"
			}
			return m.checkAttrs(m.nodes[m.cur], &okRes.Resok4.ObjAttributes, op.Attrs, "GETATTR")
		}}
	case "READ":
		return m.pRead(op)
	case "WRITE":
		return m.pWrite(op)
	case "OPEN":
		return m.pOpen(op)
	case "OPEN_CONFIRM":
		return pred{accept: []status{sOK}, why: "the harness follows the open-owner protocol"}
	case "CLOSE":
		return pred{accept: []status{sOK}, why: "the harness follows the open-owner protocol", ok: func(nfsv4.NfsResop4) string {
			if !m.v41 {
				m.linger = m.open
			}
			n := m.nodes[m.open]
			m.open = 0
			if n != nil && n.nlink == 0 {
				m.note("closed_unlinked_file")
			}
			return ""
		}}
	}
	panic("nfsfront: unknown operation " + op.Op)
}

func (m *model) pPutFH(op *opSpec) pred {
	id, ok := m.byFH[op.FH]
	if !ok {
		panic("nfsfront: PUTFH with a handle no reply ever contained: " + op.FH)
	}
	n := m.nodes[id]
	set := func(nfsv4.NfsResop4) string { m.cur = id; return "" }
	switch {
	case n.isDir():
		if n.deleted {
			m.note("putfh_removed_directory_stale")
			return one(sStale, fmt.Sprintf("directory n%d has been removed", n.id))
		}
	case n.kind == "symlink":
		if live, ok := m.symLive[n.target]; ok {
			id = live
		} else {
			m.note("putfh_removed_leaf_stale")
			return one(sStale, fmt.Sprintf("no symlink with target %q has a name any more", n.target))
		}
	default:
		if !m.leafAlive(n) {
			if m.linger == n.id {
				// RFC 7530 9.1.9 / the program's comments: the state of the
				// open-owner's last CLOSE is retained for replay until the
				// open-owner's next transaction, which keeps the handle
				// resolvable. Open state is C18's subject: both accepted.
				return pred{accept: []status{sOK, sStale}, ok: set, why: "unlinked file whose CLOSE is the last transaction of its open-owner"}
			}
			m.note("putfh_removed_leaf_stale")
			return one(sStale, fmt.Sprintf("%s n%d has no name and is not open", n.kind, n.id))
		}
	}
	return pred{accept: []status{sOK}, ok: set}
}

func (m *model) pLookup(op *opSpec) pred {
	d, st := m.dirOrSymlink(m.cur)
	if st != sOK {
		return one(st, "current file handle is not a directory")
	}
	name := m.opName(op, false)
	if st := nameStatus(name); st != sOK {
		m.note("bad_name")
		return one(st, "invalid name")
	}
	e := m.lookup(d, name)
	if e == nil {
		if d.deleted {
			m.note("op_on_removed_directory")
		}
		return one(sNoEnt, fmt.Sprintf("directory n%d has no entry %q", d.id, name))
	}
	return pred{accept: []status{sOK}, ok: func(nfsv4.NfsResop4) string { m.cur = e.child; return "" }}
}

func (m *model) pLookupp(op *opSpec) pred {
	d, st := m.dirOrSymlink(m.cur)
	if st != sOK {
		return one(st, "current file handle is not a directory")
	}
	// The programs document that LOOKUPP is not implemented (always
	// NFS4ERR_NOENT); the RFCs want the parent for a non-root directory.
	p := pred{accept: []status{sNoEnt}, why: "LOOKUPP is documented as unimplemented; the parent would also be right"}
	if d.id != m.root && !d.deleted && d.parent != 0 {
		parent := d.parent
		p.accept = append(p.accept, sOK)
		p.ok = func(nfsv4.NfsResop4) string { m.cur = parent; return "" }
	}
	return p
}

func (m *model) pCreate(op *opSpec) pred {
	d, st := m.dirOf(m.cur)
	if st != sOK {
		return one(st, "current file handle is not a directory")
	}
	name := m.opName(op, false)
	if st := nameStatus(name); st != sOK {
		m.note("bad_name")
		return one(st, "invalid name")
	}
	var errs []status
	why := ""
	if d.deleted {
		errs = append(errs, sNoEnt)
		why = fmt.Sprintf("directory n%d has been removed: it accepts no new entries", d.id)
		m.note("op_on_removed_directory")
		m.note("create_in_removed_directory_refused")
	} else if m.lookup(d, name) != nil {
		errs = append(errs, sExist)
		why = fmt.Sprintf("directory n%d already has an entry %q", d.id, name)
	}
	if op.Kind == "blk" {
		// Device nodes are refused; which error wins when the name is
		// also taken is not specified.
		errs = append(errs, sPerm, sBadType, sNotSupp)
		why += " device nodes cannot be created"
	}
	if len(errs) > 0 {
		return pred{accept: errs, why: why}
	}
	return pred{accept: []status{sOK}, ok: func(r nfsv4.NfsResop4) string {
		var child *mNode
		if op.Kind == "symlink" {
			if live, ok := m.symLive[op.Target]; ok {
				child = m.nodes[live]
				child.nlink++
				child.bumped = true
				m.note("symlink_target_shared")
			} else {
				child = m.newNode("symlink")
				child.target = op.Target
				m.symLive[op.Target] = child.id
			}
		} else {
			child = m.newNode(op.Kind)
		}
		m.attach(d, name, child)
		m.cur = child.id
		m.note("created_" + op.Kind)
		if r == nil {
			return ""
		}
		okRes, isOK := r.(*nfsv4.NfsResop4_OP_CREATE).Opcreate.(*nfsv4.Create4res_NFS4_OK)
		if !isOK {
			return "status OK without the OK arm"
		}
		return m.cinfo(d, &okRes.Resok4.Cinfo, true, "CREATE")
	}}
}

func (m *model) pRemove(op *opSpec) pred {
	d, st := m.dirOf(m.cur)
	if st != sOK {
		return one(st, "current file handle is not a directory")
	}
	name := m.opName(op, false)
	if st := nameStatus(name); st != sOK {
		m.note("bad_name")
		return one(st, "invalid name")
	}
	e := m.lookup(d, name)
	if e == nil {
		if d.deleted {
			m.note("op_on_removed_directory")
		}
		return one(sNoEnt, fmt.Sprintf("directory n%d has no entry %q", d.id, name))
	}
	child := m.nodes[e.child]
	if child.isDir() && len(child.ents) > 0 {
		m.note("remove_nonempty_directory_refused")
		return one(sNotEmpty, fmt.Sprintf("directory n%d (%q) has %d entries", child.id, name, len(child.ents)))
	}
	return pred{accept: []status{sOK}, ok: func(r nfsv4.NfsResop4) string {
		m.detach(d, e)
		if child.isDir() {
			child.deleted = true
			m.note("removed_directory")
		} else {
			m.unlink(child)
			if child.nlink > 0 {
				m.note("removed_one_of_several_names")
			}
			if child.nlink == 0 && m.open == child.id {
				m.note("removed_open_file")
			}
		}
		if r == nil {
			return ""
		}
		okRes, isOK := r.(*nfsv4.NfsResop4_OP_REMOVE).Opremove.(*nfsv4.Remove4res_NFS4_OK)
		if !isOK {
			return "status OK without the OK arm"
		}
		return m.cinfo(d, &okRes.Resok4.Cinfo, true, "REMOVE")
	}}
}

func (m *model) pRename(op *opSpec) pred {
	dOld, st := m.dirOf(m.saved)
	if st != sOK {
		return one(st, "saved file handle is not a directory")
	}
	oldName := m.opName(op, false)
	if st := nameStatus(oldName); st != sOK {
		m.note("bad_name")
		return one(st, "invalid old name")
	}
	dNew, st := m.dirOf(m.cur)
	if st != sOK {
		return one(st, "current file handle is not a directory")
	}
	newName := m.opName(op, true)
	if st := nameStatus(newName); st != sOK {
		m.note("bad_name")
		// The programs answer BADNAME for every invalid new name; RFC
		// 7530 16.24.4 wants INVAL for a zero-length one.
		return pred{accept: []status{sBadName, st}, why: "invalid new name"}
	}
	if dOld.deleted || dNew.deleted {
		m.note("op_on_removed_directory")
	}
	eOld := m.lookup(dOld, oldName)
	eNew := m.lookup(dNew, newName)
	// RFC 7530 16.24.4 folds "incompatible" and "target directory not
	// empty" into NFS4ERR_EXIST; the tree answers the POSIX code. Both
	// are accepted, the POSIX one is what the property names.
	if eNew != nil {
		if eOld == nil {
			return one(sNoEnt, fmt.Sprintf("source directory n%d has no entry %q", dOld.id, oldName))
		}
		oldChild, newChild := m.nodes[eOld.child], m.nodes[eNew.child]
		if newChild.isDir() {
			if !oldChild.isDir() {
				m.note("rename_refused_type")
				return pred{accept: []status{sIsDir, sExist}, why: "non-directory onto a directory"}
			}
			if newChild != oldChild && len(newChild.ents) > 0 {
				m.note("rename_refused_nonempty")
				return pred{accept: []status{sNotEmpty, sExist}, why: fmt.Sprintf("target directory n%d is not empty", newChild.id)}
			}
		} else if oldChild.isDir() {
			m.note("rename_refused_type")
			return pred{accept: []status{sNotDir, sExist}, why: "directory onto a non-directory"}
		}
		if oldChild == newChild {
			return pred{accept: []status{sOK}, ok: func(r nfsv4.NfsResop4) string {
				m.note("rename_same_object_noop")
				return m.renameCinfo(r, dOld, dNew, false, false)
			}}
		}
		if oldChild.isDir() && m.isAncestorOrSelf(oldChild, dNew) {
			m.excluded = "RENAME of a directory into its own subtree (clients refuse this before calling the server; the code carries a TODO for the missing check)"
			return pred{accept: []status{sOK}}
		}
		return pred{accept: []status{sOK}, ok: func(r nfsv4.NfsResop4) string {
			m.detach(dOld, eOld)
			m.detach(dNew, eNew)
			if newChild.isDir() {
				newChild.deleted = true
				m.note("rename_over_empty_directory")
			} else {
				m.unlink(newChild)
				m.note("rename_over_leaf")
				if newChild.nlink > 0 {
					m.note("rename_over_one_of_several_names")
				}
			}
			m.attach(dNew, newName, oldChild)
			if dOld != dNew {
				m.note("rename_cross_directory")
			}
			return m.renameCinfo(r, dOld, dNew, true, true)
		}}
	}
	if dNew.deleted {
		m.note("rename_into_removed_directory_refused")
		return one(sNoEnt, fmt.Sprintf("target directory n%d has been removed: it accepts no new entries", dNew.id))
	}
	if eOld == nil {
		return one(sNoEnt, fmt.Sprintf("source directory n%d has no entry %q", dOld.id, oldName))
	}
	oldChild := m.nodes[eOld.child]
	if oldChild.isDir() && m.isAncestorOrSelf(oldChild, dNew) {
		m.excluded = "RENAME of a directory into its own subtree (clients refuse this before calling the server; the code carries a TODO for the missing check)"
		return pred{accept: []status{sOK}}
	}
	return pred{accept: []status{sOK}, ok: func(r nfsv4.NfsResop4) string {
		m.detach(dOld, eOld)
		m.attach(dNew, newName, oldChild)
		if dOld != dNew {
			m.note("rename_cross_directory")
		} else {
			m.note("rename_same_directory")
		}
		if oldChild.isDir() {
			m.note("rename_moved_directory")
		}
		return m.renameCinfo(r, dOld, dNew, true, true)
	}}
}

func (m *model) renameCinfo(r nfsv4.NfsResop4, dOld, dNew *mNode, oldChanged, newChanged bool) string {
	if r == nil {
		return ""
	}
	okRes, isOK := r.(*nfsv4.NfsResop4_OP_RENAME).Oprename.(*nfsv4.Rename4res_NFS4_OK)
	if !isOK {
		return "status OK without the OK arm"
	}
	src, dst := okRes.Resok4.SourceCinfo, okRes.Resok4.TargetCinfo
	if dOld == dNew {
		if f := m.cinfo(dOld, &src, oldChanged, "RENAME source_cinfo"); f != "" {
			return f
		}
		if src != dst {
			return fmt.Sprintf("RENAME within one directory: source_cinfo %+v differs from target_cinfo %+v", src, dst)
		}
		return ""
	}
	if f := m.cinfo(dOld, &src, oldChanged, "RENAME source_cinfo"); f != "" {
		return f
	}
	return m.cinfo(dNew, &dst, newChanged, "RENAME target_cinfo")
}

func (m *model) pLink(op *opSpec) pred {
	if m.saved == 0 {
		return one(sNoFH, "no saved file handle")
	}
	leaf := m.nodes[m.saved]
	if leaf.isDir() {
		return one(sIsDir, "saved file handle is a directory")
	}
	d, st := m.dirOf(m.cur)
	if st != sOK {
		return one(st, "current file handle is not a directory")
	}
	name := m.opName(op, false)
	if st := nameStatus(name); st != sOK {
		m.note("bad_name")
		return one(st, "invalid name")
	}
	var errs []status
	why := ""
	if d.deleted {
		errs = append(errs, sNoEnt)
		why = fmt.Sprintf("directory n%d has been removed: it accepts no new entries", d.id)
		m.note("op_on_removed_directory")
		m.note("link_into_removed_directory_refused")
	} else if m.lookup(d, name) != nil {
		errs = append(errs, sExist)
		why = fmt.Sprintf("directory n%d already has an entry %q", d.id, name)
	}
	if leaf.nlink == 0 {
		// Also for an unlinked file that is still open: once the last
		// name is gone the handle allocator refuses new links.
		errs = append(errs, sStale)
		why += " the source has no name any more"
		m.note("link_of_unlinked_leaf_refused")
	}
	if len(errs) > 0 {
		return pred{accept: errs, why: why}
	}
	return pred{accept: []status{sOK}, ok: func(r nfsv4.NfsResop4) string {
		leaf.nlink++
		leaf.bumped = true
		m.attach(d, name, leaf)
		m.note("hard_link_" + leaf.kind)
		if r == nil {
			return ""
		}
		okRes, isOK := r.(*nfsv4.NfsResop4_OP_LINK).Oplink.(*nfsv4.Link4res_NFS4_OK)
		if !isOK {
			return "status OK without the OK arm"
		}
		return m.cinfo(d, &okRes.Resok4.Cinfo, true, "LINK")
	}}
}

func (m *model) pReadlink(op *opSpec) pred {
	if m.cur == 0 {
		return one(sNoFH, "no current file handle")
	}
	n := m.nodes[m.cur]
	if n.kind != "symlink" {
		// RFC 7530: INVAL; RFC 8881: WRONG_TYPE (INVAL for compatibility).
		return pred{accept: []status{sInval, sWrongType}, why: "not a symlink"}
	}
	return pred{accept: []status{sOK}, ok: func(r nfsv4.NfsResop4) string {
		if r == nil {
			return ""
		}
		okRes, isOK := r.(*nfsv4.NfsResop4_OP_READLINK).Opreadlink.(*nfsv4.Readlink4res_NFS4_OK)
		if !isOK {
			return "status OK without the OK arm"
		}
		if string(okRes.Resok4.Link) != n.target {
			return fmt.Sprintf("READLINK returned %q, the symlink n%d was created with target %q", okRes.Resok4.Link, n.id, n.target)
		}
		return ""
	}}
}

func (m *model) ioTarget(op *opSpec) (*mNode, *pred) {
	if m.cur == 0 {
		p := one(sNoFH, "no current file handle")
		return nil, &p
	}
	n := m.nodes[m.cur]
	if n.isDir() {
		p := one(sIsDir, "current file handle is a directory")
		return nil, &p
	}
	if n.kind != "file" {
		// "the NFSv4 specification requires that NFS4ERR_SYMLINK is
		// returned for all irregular files" (placeholder_file.go); the
		// RFCs also know INVAL / WRONG_TYPE for FIFOs and sockets.
		p := pred{accept: []status{sSymlink, sInval, sWrongType}, why: "not a regular file"}
		if n.kind == "symlink" {
			p.accept = []status{sSymlink, sInval}
		}
		return nil, &p
	}
	if op.Sid == "open" {
		if m.open != n.id {
			panic("nfsfront: I/O with the open state ID on a file that is not the open one")
		}
		return n, nil
	}
	if !m.leafAlive(n) {
		p := one(sStale, fmt.Sprintf("file n%d has no name and is not open", n.id))
		return nil, &p
	}
	return n, nil
}

func (m *model) pRead(op *opSpec) pred {
	n, p := m.ioTarget(op)
	if p != nil {
		return *p
	}
	return pred{accept: []status{sOK}, ok: func(r nfsv4.NfsResop4) string {
		if r == nil {
			return ""
		}
		okRes, isOK := r.(*nfsv4.NfsResop4_OP_READ).Opread.(*nfsv4.Read4res_NFS4_OK)
		if !isOK {
			return "status OK without the OK arm"
		}
		var want []byte
		if op.Off < uint64(len(n.content)) {
			want = n.content[op.Off:]
			if uint64(len(want)) > uint64(op.Count) {
				want = want[:op.Count]
			}
		}
		wantEOF := op.Off+uint64(op.Count) >= uint64(len(n.content))
		if !bytes.Equal(okRes.Resok4.Data, want) {
			return fmt.Sprintf("READ(off=%d count=%d) of file n%d returned %q, the reference tree has %q (all names of a file share one content)", op.Off, op.Count, n.id, okRes.Resok4.Data, want)
		}
		if okRes.Resok4.Eof != wantEOF {
			return fmt.Sprintf("READ(off=%d count=%d) of file n%d of size %d returned eof=%v", op.Off, op.Count, n.id, len(n.content), okRes.Resok4.Eof)
		}
		if n.nlink > 1 {
			m.note("read_file_with_several_names")
		}
		return ""
	}}
}

func (m *model) pWrite(op *opSpec) pred {
	n, p := m.ioTarget(op)
	if p != nil {
		return *p
	}
	return pred{accept: []status{sOK}, ok: func(r nfsv4.NfsResop4) string {
		if len(op.Data) > 0 {
			// (A write of nothing does not extend the file.)
			if end := int(op.Off) + len(op.Data); end > len(n.content) {
				n.content = append(n.content, make([]byte, end-len(n.content))...)
			}
			copy(n.content[op.Off:], op.Data)
			n.bumped = true
		}
		if n.nlink > 1 {
			m.note("wrote_file_with_several_names")
		}
		if r == nil {
			return ""
		}
		okRes, isOK := r.(*nfsv4.NfsResop4_OP_WRITE).Opwrite.(*nfsv4.Write4res_NFS4_OK)
		if !isOK {
			return "status OK without the OK arm"
		}
		if int(okRes.Resok4.Count) != len(op.Data) {
			return fmt.Sprintf("WRITE of %d bytes reported count %d", len(op.Data), okRes.Resok4.Count)
		}
		return ""
	}}
}

func (m *model) pOpen(op *opSpec) pred {
	if m.open != 0 {
		panic("nfsfront: OPEN while another file is open")
	}
	if m.v41 && op.How == "exclusive" {
		return one(sInval, "the NFSv4.1 program documents EXCLUSIVE4 as not implemented")
	}
	d, st := m.dirOf(m.cur)
	if st != sOK {
		return one(st, "current file handle is not a directory")
	}
	name := m.opName(op, false)
	if st := nameStatus(name); st != sOK {
		m.note("bad_name")
		return one(st, "invalid name")
	}
	create := op.How != "nocreate"
	allowExisting := op.How == "nocreate" || op.How == "unchecked" || op.How == "unchecked_trunc"
	if e := m.lookup(d, name); e != nil {
		child := m.nodes[e.child]
		if !allowExisting {
			m.note("open_guarded_exists")
			return one(sExist, fmt.Sprintf("directory n%d already has an entry %q", d.id, name))
		}
		if child.isDir() {
			return one(sIsDir, "entry is a directory")
		}
		if child.kind != "file" {
			p := pred{accept: []status{sSymlink, sInval, sWrongType}, why: "entry is not a regular file"}
			if child.kind == "symlink" {
				p.accept = []status{sSymlink}
			}
			return p
		}
		return pred{accept: []status{sOK}, ok: func(r nfsv4.NfsResop4) string {
			if op.How == "unchecked_trunc" {
				child.content = nil
				child.bumped = true
				m.note("open_truncated_existing")
			}
			m.note("open_existing_file")
			return m.opened(op, r, d, child, false)
		}}
	}
	if d.deleted || !create {
		if d.deleted {
			m.note("op_on_removed_directory")
			if create {
				m.note("open_create_in_removed_directory_refused")
			}
		}
		return one(sNoEnt, fmt.Sprintf("directory n%d has no entry %q (removed=%v, create=%v)", d.id, name, d.deleted, create))
	}
	return pred{accept: []status{sOK}, ok: func(r nfsv4.NfsResop4) string {
		child := m.newNode("file")
		m.attach(d, name, child)
		m.note("open_created_" + op.How)
		return m.opened(op, r, d, child, true)
	}}
}

func (m *model) opened(op *opSpec, r nfsv4.NfsResop4, d, child *mNode, created bool) string {
	m.cur = child.id
	m.open = child.id
	m.openAccess = op.Access
	if m.linger == child.id {
		m.linger = 0
	}
	if r == nil {
		return ""
	}
	okRes, isOK := r.(*nfsv4.NfsResop4_OP_OPEN).Opopen.(*nfsv4.Open4res_NFS4_OK)
	if !isOK {
		return "status OK without the OK arm"
	}
	return m.cinfo(d, &okRes.Resok4.Cinfo, created, "OPEN")
}

func (m *model) pReaddir(op *opSpec) pred {
	d, st := m.dirOf(m.cur)
	if st != sOK {
		return one(st, "current file handle is not a directory")
	}
	if op.Cookie != 0 && op.Verf == "bad" {
		m.note("readdir_bad_verifier")
		return one(sNotSame, "cookie verifier is not the one the server returned")
	}
	if op.Cookie != 0 && op.Verf == "zero" && !m.v41 {
		m.note("readdir_bad_verifier")
		return one(sNotSame, "cookie verifier is not the one the server returned")
	}
	after, issued := 0, m.nextSeq
	if op.Cookie != 0 {
		if op.TokDir != d.id {
			panic("nfsfront: READDIR cookie of another directory")
		}
		after, issued = op.After, op.Issued
	}
	// later: entries attached after the cookie position, in attach order.
	// must: those of them that already existed when the cookie was issued
	// ("existed throughout the listing"): they have to be reported.
	var later []*mEnt
	for _, e := range d.ents {
		if e.seq > after {
			later = append(later, e)
		}
	}
	isMust := func(e *mEnt) bool { return e.seq < issued }
	var accept []status
	why := ""
	if len(later) > 0 {
		first := later[0]
		if op.Maxcount < 16+entrySize(first.name, op.Attrs) {
			accept = []status{sTooSmall}
			why = fmt.Sprintf("maxcount %d does not fit the first entry %q", op.Maxcount, first.name)
			if !isMust(first) {
				accept = append(accept, sOK)
			}
		} else if op.Dircount != 0 && op.Dircount < dirNeed(first.name) {
			accept = []status{sTooSmall, sOK}
			why = fmt.Sprintf("dircount %d (a hint) does not fit the first entry %q", op.Dircount, first.name)
		}
	}
	if len(accept) == 0 {
		accept = []status{sOK}
	} else {
		m.note("readdir_toosmall")
	}
	return pred{accept: accept, why: why, ok: func(r nfsv4.NfsResop4) string {
		if r == nil {
			return ""
		}
		okRes, isOK := r.(*nfsv4.NfsResop4_OP_READDIR).Opreaddir.(*nfsv4.Readdir4res_NFS4_OK)
		if !isOK {
			return "status OK without the OK arm"
		}
		resok := &okRes.Resok4
		if m.verfKnown && resok.Cookieverf != m.verf {
			return fmt.Sprintf("cookie verifier %x differs from the one returned earlier %x", resok.Cookieverf, m.verf)
		}
		m.verf, m.verfKnown = resok.Cookieverf, true
		if size := resok.GetEncodedSizeBytes(); uint32(size) > op.Maxcount {
			return fmt.Sprintf("READDIR4resok is %d bytes long, maxcount was %d", size, op.Maxcount)
		}
		byName := map[string]*mEnt{}
		for _, e := range later {
			byName[e.name] = e
		}
		reported := map[int]bool{}
		lastSeq, lastCookie := after, op.Cookie
		n := 0
		var listing []string
		for ent := resok.Reply.Entries; ent != nil; ent = ent.Nextentry {
			n++
			listing = append(listing, fmt.Sprintf("%s@%d", ent.Name, ent.Cookie))
			where := fmt.Sprintf("READDIR(cookie=%d) of directory n%d, entry %q", op.Cookie, d.id, ent.Name)
			e, ok := byName[ent.Name]
			if !ok {
				if x := m.lookup(d, ent.Name); x != nil {
					return fmt.Sprintf("%s: this entry lies at or before the position of the cookie (it was attached as #%d, the cookie belongs to #%d): a resumed listing must not report it again", where, x.seq, after)
				}
				return fmt.Sprintf("%s: the directory has no such entry (current entries: %s)", where, m.entNames(d))
			}
			if e.seq <= lastSeq || reported[e.seq] {
				return fmt.Sprintf("%s: reported out of order or twice (page: %v)", where, listing)
			}
			if ent.Cookie <= lastCookie || ent.Cookie <= 2 {
				return fmt.Sprintf("%s: cookie %d is not greater than the previous cookie %d (cookies must strictly increase and 0-2 are reserved)", where, ent.Cookie, lastCookie)
			}
			if e.cookie != 0 && e.cookie != ent.Cookie {
				return fmt.Sprintf("%s: cookie %d, an earlier listing reported cookie %d for the same entry", where, ent.Cookie, e.cookie)
			}
			// Every must-entry between the previous reported one and
			// this one has been skipped.
			for _, x := range later {
				if x.seq > lastSeq && x.seq < e.seq && isMust(x) {
					return fmt.Sprintf("%s: entry %q (attached as #%d) existed during the whole listing but was skipped (page: %v, cookie position #%d)", where, x.name, x.seq, listing, after)
				}
			}
			e.cookie = ent.Cookie
			reported[e.seq] = true
			lastSeq, lastCookie = e.seq, ent.Cookie
			if f := m.checkAttrs(m.nodes[e.child], &ent.Attrs, op.Attrs, where); f != "" {
				return f
			}
			if !m.dry {
				*m.tokens = append(*m.tokens, cookieTok{Dir: d.id, Cookie: ent.Cookie, After: e.seq, Issued: m.nextSeq, Mut: d.muts})
			}
		}
		if n == 0 && !resok.Reply.Eof {
			return "READDIR returned no entry and eof=false (NFS4ERR_TOOSMALL is the answer when not even one entry fits)"
		}
		if resok.Reply.Eof {
			for _, x := range later {
				if x.seq > lastSeq && isMust(x) {
					return fmt.Sprintf("READDIR(cookie=%d) of directory n%d said eof, but entry %q (attached as #%d) existed during the whole listing and was never reported (page: %v, cookie position #%d)", op.Cookie, d.id, x.name, x.seq, listing, after)
				}
			}
		}
		if op.Cookie != 0 {
			m.note("readdir_resumed")
			if op.Mut != d.muts {
				m.note("readdir_resumed_after_mutation")
			}
		}
		if !resok.Reply.Eof {
			m.note("readdir_partial_page")
		}
		m.note(fmt.Sprintf("readdir_page_entries:%s", bucket(n)))
		return ""
	}}
}

func bucket(n int) string {
	switch {
	case n <= 3:
		return fmt.Sprint(n)
	case n <= 7:
		return "4-7"
	default:
		return "8+"
	}
}

func (m *model) entNames(d *mNode) string {
	var parts []string
	for _, e := range d.ents {
		parts = append(parts, fmt.Sprintf("%s#%d", e.name, e.seq))
	}
	return "[" + strings.Join(parts, " ") + "]"
}

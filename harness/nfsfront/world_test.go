// Package nfsfront drives the real in-memory prepopulated directory of
// bb-remote-execution through the real NFSv4.0 and NFSv4.1 programs
// (pkg/filesystem/virtual/nfsv4) with generated COMPOUND requests and
// compares every reply, and the complete tree re-read through NFS after
// every COMPOUND, with a naive POSIX-style reference tree. Property C13,
// observation point "NFSv4 COMPOUND front end".
package nfsfront

import (
	"bytes"
	"context"
	"encoding/binary"
	"fmt"
	"io"
	"sort"
	"time"

	"github.com/buildbarn/bb-remote-execution/pkg/filesystem/pool"
	"github.com/buildbarn/bb-remote-execution/pkg/filesystem/virtual"
	nfsv4srv "github.com/buildbarn/bb-remote-execution/pkg/filesystem/virtual/nfsv4"
	"github.com/buildbarn/bb-storage/pkg/clock"
	"github.com/buildbarn/bb-storage/pkg/filesystem"
	"github.com/buildbarn/bb-storage/pkg/filesystem/path"
	nfsv4 "github.com/buildbarn/go-xdr/pkg/protocols/nfsv4"
)

// ---------------------------------------------------------------- clock

// nfClock never moves: leases never expire within a case, so no client or
// open-owner state is reclaimed behind the harness' back.
type nfClock struct{ now time.Time }

var _ clock.Clock = (*nfClock)(nil)

func (c *nfClock) Now() time.Time { return c.now }

func (c *nfClock) NewContextWithTimeout(parent context.Context, timeout time.Duration) (context.Context, context.CancelFunc) {
	panic("nfsfront: clock.NewContextWithTimeout is not expected to be used")
}

func (c *nfClock) NewTimer(d time.Duration) (clock.Timer, <-chan time.Time) {
	panic("nfsfront: clock.NewTimer is not expected to be used")
}

func (c *nfClock) NewTicker(d time.Duration) (clock.Ticker, <-chan time.Time) {
	panic("nfsfront: clock.NewTicker is not expected to be used")
}

// ---------------------------------------------------------------- rng

// nfRNG is a deterministic generator: Uint64 is a bijection of a counter
// (splitmix64 finaliser), so file handles, client IDs and state IDs never
// collide within a case.
type nfRNG struct {
	ctr  uint64
	salt uint64
}

func nfMix(x uint64) uint64 {
	x += 0x9E3779B97F4A7C15
	x = (x ^ (x >> 30)) * 0xBF58476D1CE4E5B9
	x = (x ^ (x >> 27)) * 0x94D049BB133111EB
	return x ^ (x >> 31)
}

func (r *nfRNG) Uint64() uint64 {
	r.ctr++
	return nfMix(r.ctr ^ r.salt)
}
func (r *nfRNG) Uint32() uint32       { return uint32(r.Uint64() >> 32) }
func (r *nfRNG) Float64() float64     { return float64(r.Uint64()>>11) / (1 << 53) }
func (r *nfRNG) Int64N(n int64) int64 { return int64(r.Uint64() % uint64(n)) }
func (r *nfRNG) IntN(n int) int       { return int(r.Uint64() % uint64(n)) }
func (r *nfRNG) Read(p []byte) (int, error) {
	for i := 0; i < len(p); i += 8 {
		v := r.Uint64()
		for j := 0; j < 8 && i+j < len(p); j++ {
			p[i+j] = byte(v >> (8 * j))
		}
	}
	return len(p), nil
}

func (r *nfRNG) Shuffle(n int, swap func(i, j int)) {
	for i := n - 1; i > 0; i-- {
		swap(i, r.IntN(i+1))
	}
}

// ---------------------------------------------------------------- error logger

type nfErrorLogger struct{ msgs []string }

func (l *nfErrorLogger) Log(err error) { l.msgs = append(l.msgs, err.Error()) }

// ---------------------------------------------------------------- file pool

// nfMemPool is a trivially correct pool.FilePool: every file is a byte
// slice. (The block device backed pool is C15's subject.)
type nfMemPool struct {
	opened int
	closed int
}

func (p *nfMemPool) NewFile(holeSource pool.HoleSource, size uint64) (filesystem.FileReadWriter, error) {
	p.opened++
	return &nfMemFile{pool: p, data: make([]byte, size)}, nil
}

type nfMemFile struct {
	pool   *nfMemPool
	data   []byte
	closed bool
}

func (f *nfMemFile) check() {
	if f.closed {
		panic("nfsfront: pool file used after Close")
	}
}

func (f *nfMemFile) Close() error {
	f.check()
	f.closed = true
	f.pool.closed++
	return nil
}

func (f *nfMemFile) ReadAt(p []byte, off int64) (int, error) {
	f.check()
	if off >= int64(len(f.data)) {
		return 0, io.EOF
	}
	n := copy(p, f.data[off:])
	if n < len(p) {
		return n, io.EOF
	}
	return n, nil
}

func (f *nfMemFile) WriteAt(p []byte, off int64) (int, error) {
	f.check()
	if end := off + int64(len(p)); end > int64(len(f.data)) {
		f.data = append(f.data, make([]byte, end-int64(len(f.data)))...)
	}
	copy(f.data[off:], p)
	return len(p), nil
}

func (f *nfMemFile) Truncate(size int64) error {
	f.check()
	if size <= int64(len(f.data)) {
		f.data = f.data[:size:size]
	} else {
		f.data = append(f.data, make([]byte, size-int64(len(f.data)))...)
	}
	return nil
}

func (f *nfMemFile) Sync() error { f.check(); return nil }

func (f *nfMemFile) Len() (int64, error) { f.check(); return int64(len(f.data)), nil }

func (f *nfMemFile) GetNextRegionOffset(offset int64, regionType filesystem.RegionType) (int64, error) {
	f.check()
	if offset >= int64(len(f.data)) {
		return 0, io.EOF
	}
	if regionType == filesystem.Data {
		return offset, nil
	}
	return int64(len(f.data)), nil
}

// ---------------------------------------------------------------- world

var (
	nfRebootVerifier = nfsv4.Verifier4{0x11, 0x22, 0x33, 0x44, 0x55, 0x66, 0x77, 0x88}
	nfStateIDPrefix  = [4]byte{0xc1, 0x3f, 0x00, 0x0d}
)

const nfLeaseTime = 1000 * time.Second

// nfWorld is everything real one case is wired to, plus the protocol
// state of the single client (client ID, session, open-owner).
type nfWorld struct {
	v41     bool
	clock   *nfClock
	logger  *nfErrorLogger
	pool    *nfMemPool
	alloc   *virtual.NFSStatefulHandleAllocator
	root    virtual.PrepopulatedDirectory
	opened  *nfsv4srv.OpenedFilesPool
	program nfsv4.Nfs4Program

	// Client state.
	clientID  uint64
	sessionID [nfsv4.NFS4_SESSIONID_SIZE]byte
	slotSeq   uint32
	ownerSeq  uint32 // NFSv4.0: the sequence ID of the next open-owner transaction
	confirmed bool   // NFSv4.0: the open-owner has been confirmed

	compounds int
}

func newNfWorld(v41 bool) *nfWorld {
	w := &nfWorld{
		v41:    v41,
		clock:  &nfClock{now: time.Unix(1_000_000, 0)},
		logger: &nfErrorLogger{},
		pool:   &nfMemPool{},
	}
	w.alloc = virtual.NewNFSHandleAllocator(&nfRNG{salt: 0x1111})
	setter := func(requested virtual.AttributesMask, attributes *virtual.Attributes) {}
	files := virtual.NewHandleAllocatingFileAllocator(
		virtual.NewPoolBackedFileAllocator(w.pool, w.logger, setter, virtual.NoNamedAttributesFactory),
		w.alloc)
	links := virtual.NewHandleAllocatingSymlinkFactory(
		virtual.NewBaseSymlinkFactory(setter),
		w.alloc.New(),
		path.UNIXFormat)
	w.root = virtual.NewInMemoryPrepopulatedDirectory(
		files, links, w.logger, w.alloc, sort.Sort,
		func(string) bool { return false },
		w.clock, virtual.CaseSensitiveComponentNormalizer, setter, virtual.NoNamedAttributesFactory)
	w.opened = nfsv4srv.NewOpenedFilesPool(w.alloc.ResolveHandle)
	if v41 {
		w.program = nfsv4srv.NewNFS41Program(
			w.root, w.opened,
			nfsv4.ServerOwner4{SoMinorId: 1, SoMajorId: []byte("verif")},
			[]byte("scope"),
			&nfsv4.ChannelAttrs4{
				CaMaxrequestsize:        1 << 20,
				CaMaxresponsesize:       1 << 20,
				CaMaxresponsesizeCached: 1 << 16,
				CaMaxoperations:         64,
				CaMaxrequests:           4,
			},
			&nfRNG{salt: 0x2222},
			nfRebootVerifier,
			w.clock,
			nfLeaseTime, nfLeaseTime,
			path.UNIXFormat,
			nil)
	} else {
		w.program = nfsv4srv.NewNFS40Program(
			w.root, w.opened,
			&nfRNG{salt: 0x2222},
			nfRebootVerifier,
			nfStateIDPrefix,
			w.clock,
			nfLeaseTime, nfLeaseTime,
			path.UNIXFormat,
			nil)
	}
	w.setUpClient()
	return w
}

// raw sends one COMPOUND exactly as given.
func (w *nfWorld) raw(minor uint32, tag string, ops []nfsv4.NfsArgop4) *nfsv4.Compound4res {
	w.compounds++
	res, err := w.program.NfsV4Nfsproc4Compound(context.Background(), &nfsv4.Compound4args{Tag: tag, Minorversion: minor, Argarray: ops})
	if err != nil {
		panic(fmt.Sprintf("nfsfront: COMPOUND returned a Go error: %v", err))
	}
	if res.Tag != tag {
		panic(fmt.Sprintf("nfsfront: COMPOUND reply tag %q, sent %q", res.Tag, tag))
	}
	return res
}

// setUpClient obtains a confirmed client ID (and, for NFSv4.1, a session)
// the way the protocol prescribes.
func (w *nfWorld) setUpClient() {
	if !w.v41 {
		res := w.raw(0, "setclientid", []nfsv4.NfsArgop4{&nfsv4.NfsArgop4_OP_SETCLIENTID{Opsetclientid: nfsv4.Setclientid4args{
			Client:        nfsv4.NfsClientId4{Verifier: nfsv4.Verifier4{9, 9, 9}, Id: []byte("nfsfront-client")},
			Callback:      nfsv4.CbClient4{CbProgram: 0x40000000, CbLocation: nfsv4.Clientaddr4{NaRNetid: "tcp", NaRAddr: "127.0.0.1.3.232"}},
			CallbackIdent: 1,
		}}})
		ok, isOK := res.Resarray[0].(*nfsv4.NfsResop4_OP_SETCLIENTID).Opsetclientid.(*nfsv4.Setclientid4res_NFS4_OK)
		if !isOK {
			panic("nfsfront: SETCLIENTID failed: " + statusName(res.Status))
		}
		w.clientID = ok.Resok4.Clientid
		res = w.raw(0, "setclientid_confirm", []nfsv4.NfsArgop4{&nfsv4.NfsArgop4_OP_SETCLIENTID_CONFIRM{OpsetclientidConfirm: nfsv4.SetclientidConfirm4args{
			Clientid: w.clientID, SetclientidConfirm: ok.Resok4.SetclientidConfirm,
		}}})
		if res.Status != nfsv4.NFS4_OK {
			panic("nfsfront: SETCLIENTID_CONFIRM failed: " + statusName(res.Status))
		}
		w.ownerSeq = 1
		return
	}
	res := w.raw(1, "exchange_id", []nfsv4.NfsArgop4{&nfsv4.NfsArgop4_OP_EXCHANGE_ID{OpexchangeId: nfsv4.ExchangeId4args{
		EiaClientowner:  nfsv4.ClientOwner4{CoVerifier: nfsv4.Verifier4{9, 9, 9}, CoOwnerid: []byte("nfsfront-client")},
		EiaStateProtect: &nfsv4.StateProtect4A_SP4_NONE{},
	}}})
	eok, isOK := res.Resarray[0].(*nfsv4.NfsResop4_OP_EXCHANGE_ID).OpexchangeId.(*nfsv4.ExchangeId4res_NFS4_OK)
	if !isOK {
		panic("nfsfront: EXCHANGE_ID failed: " + statusName(res.Status))
	}
	w.clientID = eok.EirResok4.EirClientid
	res = w.raw(1, "create_session", []nfsv4.NfsArgop4{&nfsv4.NfsArgop4_OP_CREATE_SESSION{OpcreateSession: nfsv4.CreateSession4args{
		CsaClientid: w.clientID,
		CsaSequence: eok.EirResok4.EirSequenceid,
		CsaForeChanAttrs: nfsv4.ChannelAttrs4{
			CaMaxrequestsize: 1 << 20, CaMaxresponsesize: 1 << 20, CaMaxresponsesizeCached: 1 << 16, CaMaxoperations: 64, CaMaxrequests: 4,
		},
		CsaBackChanAttrs: nfsv4.ChannelAttrs4{CaMaxrequestsize: 4096, CaMaxresponsesize: 4096, CaMaxoperations: 2, CaMaxrequests: 1},
	}}})
	cok, isOK := res.Resarray[0].(*nfsv4.NfsResop4_OP_CREATE_SESSION).OpcreateSession.(*nfsv4.CreateSession4res_NFS4_OK)
	if !isOK {
		panic("nfsfront: CREATE_SESSION failed: " + statusName(res.Status))
	}
	w.sessionID = cok.CsrResok4.CsrSessionid
	w.slotSeq = 0
	res = w.send("reclaim_complete", []nfsv4.NfsArgop4{&nfsv4.NfsArgop4_OP_RECLAIM_COMPLETE{OpreclaimComplete: nfsv4.ReclaimComplete4args{RcaOneFs: false}}})
	if res.Status != nfsv4.NFS4_OK {
		panic("nfsfront: RECLAIM_COMPLETE failed: " + statusName(res.Status))
	}
}

// send issues the operations as one COMPOUND of the world's minor version.
// For NFSv4.1 a SEQUENCE operation on slot 0 with the next sequence ID is
// put in front and its (successful) result is stripped from the reply.
func (w *nfWorld) send(tag string, ops []nfsv4.NfsArgop4) *nfsv4.Compound4res {
	if !w.v41 {
		return w.raw(0, tag, ops)
	}
	w.slotSeq++
	all := append([]nfsv4.NfsArgop4{&nfsv4.NfsArgop4_OP_SEQUENCE{Opsequence: nfsv4.Sequence4args{
		SaSessionid: w.sessionID, SaSequenceid: w.slotSeq, SaSlotid: 0, SaHighestSlotid: 0, SaCachethis: false,
	}}}, ops...)
	res := w.raw(1, tag, all)
	if len(res.Resarray) == 0 {
		panic("nfsfront: NFSv4.1 reply without a SEQUENCE result")
	}
	seq, isSeq := res.Resarray[0].(*nfsv4.NfsResop4_OP_SEQUENCE)
	if !isSeq {
		panic(fmt.Sprintf("nfsfront: first result of an NFSv4.1 reply is %T", res.Resarray[0]))
	}
	if _, isOK := seq.Opsequence.(*nfsv4.Sequence4res_NFS4_OK); !isOK {
		panic("nfsfront: SEQUENCE failed: " + statusName(res.Status))
	}
	return &nfsv4.Compound4res{Status: res.Status, Tag: res.Tag, Resarray: res.Resarray[1:]}
}

// ---------------------------------------------------------------- XDR helpers

func encodeXDR(w io.WriterTo) []byte {
	b := bytes.NewBuffer(nil)
	if _, err := w.WriteTo(b); err != nil {
		panic(fmt.Sprintf("nfsfront: XDR encoding failed: %v", err))
	}
	return b.Bytes()
}

// resStatus extracts the status of one result operation. Every
// nfs_resop4 arm starts with the operation number followed by the status.
func resStatus(r nfsv4.NfsResop4) nfsv4.Nfsstat4 {
	b := encodeXDR(r)
	if len(b) < 8 {
		panic(fmt.Sprintf("nfsfront: result operation %T encodes to %d bytes", r, len(b)))
	}
	return nfsv4.Nfsstat4(binary.BigEndian.Uint32(b[4:8]))
}

func statusName(s nfsv4.Nfsstat4) string {
	if n, ok := nfsv4.Nfsstat4_name[s]; ok {
		if len(n) > 8 && n[:8] == "NFS4ERR_" {
			return n[8:]
		}
		if n == "NFS4_OK" {
			return "OK"
		}
		return n
	}
	return fmt.Sprintf("status(%d)", int32(s))
}

func describeReply(res *nfsv4.Compound4res) string {
	s := ""
	for i, r := range res.Resarray {
		if i > 0 {
			s += ","
		}
		s += statusName(resStatus(r))
	}
	return "[" + s + "]"
}

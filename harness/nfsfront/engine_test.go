package nfsfront

import (
	"encoding/hex"
	"encoding/json"
	"fmt"
	"sort"
	"strings"

	nfsv4 "github.com/buildbarn/go-xdr/pkg/protocols/nfsv4"
	"pgregory.net/rapid"

	"verif/harness/internal/simkit"
)

// scriptStep is one generated COMPOUND of the case (the tree walks that
// follow every COMPOUND are derived from the state and not part of it).
type scriptStep struct {
	N    int       `json:"n"`
	Note string    `json:"note,omitempty"`
	Ops  []*opSpec `json:"ops"`
}

type nfCase struct {
	rt  *rapid.T
	rec *simkit.Recorder
	w   *nfWorld
	m   *model

	profile  string
	names    []string
	maxDirs  int
	maxDepth int
	maxEnts  int

	script  []*scriptStep
	stepNo  int
	tokens  []cookieTok
	tokSeen int

	// Open state of the client.
	openSid nfsv4.Stateid4

	flags  map[string]bool
	walks  int
	inWalk bool
}

func (c *nfCase) scriptText() string {
	var b strings.Builder
	for _, s := range c.script {
		fmt.Fprintf(&b, "  #%d %s: %s\n", s.N, s.Note, opsString(s.Ops))
	}
	return b.String()
}

func (c *nfCase) fail(format string, a ...any) {
	minor := 0
	if c.w.v41 {
		minor = 1
	}
	j, _ := json.Marshal(c.script)
	c.rt.Fatalf("C13 through NFSv4.%d (profile %s): %s\nreference tree: %s\nscript so far:\n%sscript=%s",
		minor, c.profile, fmt.Sprintf(format, a...), c.treeText(), c.scriptText(), j)
}

// treeText renders the reference tree.
func (c *nfCase) treeText() string {
	var render func(d *mNode, depth int) string
	render = func(d *mNode, depth int) string {
		if depth > 6 {
			return "{...}"
		}
		var parts []string
		for _, e := range d.ents {
			n := c.m.nodes[e.child]
			switch n.kind {
			case "dir":
				parts = append(parts, fmt.Sprintf("%s#%d=n%d%s", e.name, e.seq, n.id, render(n, depth+1)))
			case "file":
				parts = append(parts, fmt.Sprintf("%s#%d=n%d:file(links=%d,%q)", e.name, e.seq, n.id, n.nlink, n.content))
			case "symlink":
				parts = append(parts, fmt.Sprintf("%s#%d=n%d:symlink(%q)", e.name, e.seq, n.id, n.target))
			default:
				parts = append(parts, fmt.Sprintf("%s#%d=n%d:%s(links=%d)", e.name, e.seq, n.id, n.kind, n.nlink))
			}
		}
		return "{" + strings.Join(parts, " ") + "}"
	}
	return "n1" + render(c.m.nodes[c.m.root], 0)
}

// ---------------------------------------------------------------- request building

func (c *nfCase) wireName(o *opSpec, second bool) string { return c.m.opName(o, second) }

func emptyFattr() nfsv4.Fattr4 { return nfsv4.Fattr4{Attrmask: nfsv4.Bitmap4{}, AttrVals: []byte{}} }

func sizeZeroFattr() nfsv4.Fattr4 {
	return nfsv4.Fattr4{Attrmask: nfsv4.Bitmap4{1 << nfsv4.FATTR4_SIZE}, AttrVals: make([]byte, 8)}
}

var anonStateid = nfsv4.Stateid4{}

func (c *nfCase) build(o *opSpec) nfsv4.NfsArgop4 {
	switch o.Op {
	case "PUTROOTFH":
		return &nfsv4.NfsArgop4_OP_PUTROOTFH{}
	case "PUTFH":
		b, err := hex.DecodeString(o.FH)
		if err != nil {
			panic(err)
		}
		return &nfsv4.NfsArgop4_OP_PUTFH{Opputfh: nfsv4.Putfh4args{Object: b}}
	case "GETFH":
		return &nfsv4.NfsArgop4_OP_GETFH{}
	case "SAVEFH":
		return &nfsv4.NfsArgop4_OP_SAVEFH{}
	case "RESTOREFH":
		return &nfsv4.NfsArgop4_OP_RESTOREFH{}
	case "LOOKUP":
		return &nfsv4.NfsArgop4_OP_LOOKUP{Oplookup: nfsv4.Lookup4args{Objname: c.wireName(o, false)}}
	case "LOOKUPP":
		return &nfsv4.NfsArgop4_OP_LOOKUPP{}
	case "CREATE":
		var ty nfsv4.Createtype4
		switch o.Kind {
		case "dir":
			ty = &nfsv4.Createtype4_NF4DIR{}
		case "symlink":
			ty = &nfsv4.Createtype4_NF4LNK{Linkdata: []byte(o.Target)}
		case "fifo":
			ty = &nfsv4.Createtype4_NF4FIFO{}
		case "socket":
			ty = &nfsv4.Createtype4_NF4SOCK{}
		case "blk":
			ty = &nfsv4.Createtype4_NF4BLK{Devdata: nfsv4.Specdata4{Specdata1: 8, Specdata2: 1}}
		default:
			panic("nfsfront: unknown CREATE kind " + o.Kind)
		}
		return &nfsv4.NfsArgop4_OP_CREATE{Opcreate: nfsv4.Create4args{Objtype: ty, Objname: c.wireName(o, false), Createattrs: emptyFattr()}}
	case "REMOVE":
		return &nfsv4.NfsArgop4_OP_REMOVE{Opremove: nfsv4.Remove4args{Target: c.wireName(o, false)}}
	case "RENAME":
		return &nfsv4.NfsArgop4_OP_RENAME{Oprename: nfsv4.Rename4args{Oldname: c.wireName(o, false), Newname: c.wireName(o, true)}}
	case "LINK":
		return &nfsv4.NfsArgop4_OP_LINK{Oplink: nfsv4.Link4args{Newname: c.wireName(o, false)}}
	case "READDIR":
		verf := c.m.verf
		switch o.Verf {
		case "bad":
			verf = [8]byte{0xba, 0xd0, 0xba, 0xd0, 1, 2, 3, 4}
		case "zero":
			verf = [8]byte{}
		}
		if o.Cookie == 0 {
			verf = [8]byte{}
		}
		return &nfsv4.NfsArgop4_OP_READDIR{Opreaddir: nfsv4.Readdir4args{
			Cookie: o.Cookie, Cookieverf: verf, Dircount: o.Dircount, Maxcount: o.Maxcount, AttrRequest: attrBitmap(o.Attrs),
		}}
	case "READLINK":
		return &nfsv4.NfsArgop4_OP_READLINK{}
	case "GETATTR":
		return &nfsv4.NfsArgop4_OP_GETATTR{Opgetattr: nfsv4.Getattr4args{AttrRequest: attrBitmap(o.Attrs)}}
	case "READ":
		return &nfsv4.NfsArgop4_OP_READ{Opread: nfsv4.Read4args{Stateid: c.stateid(o.Sid), Offset: o.Off, Count: o.Count}}
	case "WRITE":
		return &nfsv4.NfsArgop4_OP_WRITE{Opwrite: nfsv4.Write4args{Stateid: c.stateid(o.Sid), Offset: o.Off, Stable: nfsv4.FILE_SYNC4, Data: []byte(o.Data)}}
	case "OPEN":
		var how nfsv4.Openflag4
		switch o.How {
		case "nocreate":
			how = &nfsv4.Openflag4_default{Opentype: nfsv4.OPEN4_NOCREATE}
		case "unchecked":
			how = &nfsv4.Openflag4_OPEN4_CREATE{How: &nfsv4.Createhow4_UNCHECKED4{Createattrs: emptyFattr()}}
		case "unchecked_trunc":
			how = &nfsv4.Openflag4_OPEN4_CREATE{How: &nfsv4.Createhow4_UNCHECKED4{Createattrs: sizeZeroFattr()}}
		case "guarded":
			how = &nfsv4.Openflag4_OPEN4_CREATE{How: &nfsv4.Createhow4_GUARDED4{Createattrs: emptyFattr()}}
		case "exclusive":
			how = &nfsv4.Openflag4_OPEN4_CREATE{How: &nfsv4.Createhow4_EXCLUSIVE4{Createverf: [8]byte{1, 2, 3, 4, 5, 6, 7, byte(c.stepNo)}}}
		default:
			panic("nfsfront: unknown OPEN how " + o.How)
		}
		return &nfsv4.NfsArgop4_OP_OPEN{Opopen: nfsv4.Open4args{
			Seqid:       c.w.ownerSeq,
			ShareAccess: o.Access,
			ShareDeny:   nfsv4.OPEN4_SHARE_DENY_NONE,
			Owner:       nfsv4.OpenOwner4{Clientid: c.w.clientID, Owner: []byte("owner")},
			Openhow:     how,
			Claim:       &nfsv4.OpenClaim4_CLAIM_NULL{File: c.wireName(o, false)},
		}}
	case "OPEN_CONFIRM":
		return &nfsv4.NfsArgop4_OP_OPEN_CONFIRM{OpopenConfirm: nfsv4.OpenConfirm4args{OpenStateid: c.openSid, Seqid: c.w.ownerSeq}}
	case "CLOSE":
		return &nfsv4.NfsArgop4_OP_CLOSE{Opclose: nfsv4.Close4args{Seqid: c.w.ownerSeq, OpenStateid: c.openSid}}
	}
	panic("nfsfront: unknown operation " + o.Op)
}

func (c *nfCase) stateid(which string) nfsv4.Stateid4 {
	if which == "open" {
		return c.openSid
	}
	return anonStateid
}

// seqidAdvances: RFC 7530 section 9.1.7.
func seqidAdvances(st status) bool {
	switch st {
	case nfsv4.NFS4ERR_STALE_CLIENTID, nfsv4.NFS4ERR_STALE_STATEID, nfsv4.NFS4ERR_BAD_STATEID,
		nfsv4.NFS4ERR_BAD_SEQID, nfsv4.NFS4ERR_BADXDR, nfsv4.NFS4ERR_RESOURCE,
		nfsv4.NFS4ERR_NOFILEHANDLE, nfsv4.NFS4ERR_MOVED:
		return false
	}
	return true
}

// learnOwnerState keeps the client's open-owner bookkeeping (sequence ID,
// state ID, confirmation) in step with the replies.
func (c *nfCase) learnOwnerState(ops []*opSpec, res *nfsv4.Compound4res) (needConfirm bool) {
	for i, o := range ops {
		if i >= len(res.Resarray) {
			break
		}
		r := res.Resarray[i]
		st := resStatus(r)
		switch o.Op {
		case "OPEN":
			if !c.w.v41 && seqidAdvances(st) {
				c.w.ownerSeq++
			}
			if okRes, isOK := r.(*nfsv4.NfsResop4_OP_OPEN).Opopen.(*nfsv4.Open4res_NFS4_OK); isOK {
				c.openSid = okRes.Resok4.Stateid
				if okRes.Resok4.Rflags&nfsv4.OPEN4_RESULT_CONFIRM != 0 {
					needConfirm = true
				}
			}
		case "OPEN_CONFIRM":
			if seqidAdvances(st) {
				c.w.ownerSeq++
			}
			if okRes, isOK := r.(*nfsv4.NfsResop4_OP_OPEN_CONFIRM).OpopenConfirm.(*nfsv4.OpenConfirm4res_NFS4_OK); isOK {
				c.openSid = okRes.Resok4.OpenStateid
			}
		case "CLOSE":
			if !c.w.v41 && seqidAdvances(st) {
				c.w.ownerSeq++
			}
		}
	}
	return needConfirm
}

// ---------------------------------------------------------------- running a COMPOUND

// acceptable runs the COMPOUND through a copy of the reference tree and
// tells whether the generator refuses it (returns the reason).
func (c *nfCase) refused(ops []*opSpec) string {
	dry := c.m.clone()
	dry.exec(ops, nil)
	if dry.excluded != "" {
		return dry.excluded
	}
	if n := dry.liveDirs(); n > c.maxDirs && n > c.m.liveDirs() {
		return fmt.Sprintf("size bound: the case already has %d live directories", c.maxDirs)
	}
	if d := dry.maxDepth(); d > c.maxDepth && d > c.m.maxDepth() {
		return fmt.Sprintf("size bound: directory depth is limited to %d", c.maxDepth)
	}
	if n := dry.totalEntries(); n > c.maxEnts && n > c.m.totalEntries() {
		return fmt.Sprintf("size bound: the tree is limited to %d entries", c.maxEnts)
	}
	return ""
}

// send transmits the operations, compares the reply with the reference
// tree and (for generated COMPOUNDs) re-reads the complete tree.
func (c *nfCase) send(note string, ops []*opSpec) (res *nfsv4.Compound4res, needConfirm bool) {
	args := make([]nfsv4.NfsArgop4, len(ops))
	for i, o := range ops {
		args[i] = c.build(o)
	}
	if !c.inWalk {
		c.stepNo++
		c.script = append(c.script, &scriptStep{N: c.stepNo, Note: note, Ops: ops})
	}
	res = c.w.send(note, args)
	needConfirm = c.learnOwnerState(ops, res)
	if f := c.m.exec(ops, res); f != "" {
		if c.inWalk {
			c.fail("while re-reading the tree after COMPOUND #%d (%s): %s\n  walk COMPOUND: %s\n  reply: %s", c.stepNo, note, f, opsString(ops), describeReply(res))
		}
		c.fail("COMPOUND #%d (%s): %s\n  reply: %s", c.stepNo, note, f, describeReply(res))
	}
	if c.m.excluded != "" {
		// Cannot happen unless the server deviated at a point where two
		// answers are acceptable; the case ends without a verdict.
		c.rec.Exclude("after a real reply: " + c.m.excluded)
		c.rt.Skip("excluded situation reached in the real run")
	}
	c.takeTokens()
	if len(c.w.logger.msgs) > 0 {
		c.fail("COMPOUND #%d (%s): the tree logged an error: %s", c.stepNo, note, c.w.logger.msgs[0])
	}
	if !c.inWalk {
		c.walk()
	}
	return res, needConfirm
}

// takeTokens moves the READDIR cookies the last reply contained into the
// client's bounded cookie store.
func (c *nfCase) takeTokens() {
	for _, t := range *c.m.tokens {
		c.tokSeen++
		if c.inWalk && c.tokSeen%3 != 0 {
			// The walk lists everything after every COMPOUND; keeping a
			// third of its cookies is plenty.
			continue
		}
		if len(c.tokens) < 24 {
			c.tokens = append(c.tokens, t)
		} else {
			c.tokens[(c.tokSeen*7)%len(c.tokens)] = t
		}
	}
	*c.m.tokens = (*c.m.tokens)[:0]
}

// run: a generated COMPOUND. Returns false if the generator refused it.
func (c *nfCase) run(note string, ops []*opSpec) bool {
	if why := c.refused(ops); why != "" {
		c.rec.Exclude(why)
		return false
	}
	c.send(note, ops)
	return true
}

// ---------------------------------------------------------------- the tree walk (oracle 2)

func op(name string) *opSpec { return &opSpec{Op: name} }

func putFH(n *mNode) *opSpec { return &opSpec{Op: "PUTFH", FH: n.fh, Node: n.id} }

func getAttr(which string) *opSpec { return &opSpec{Op: "GETATTR", Attrs: which} }

func lookupOp(name string) *opSpec {
	if name == "" {
		return &opSpec{Op: "LOOKUP", Empty: true}
	}
	return &opSpec{Op: "LOOKUP", Name: name}
}

// walk re-reads the complete tree through NFS: every directory is listed
// with paginated READDIR, every entry is looked up, its handle, attributes,
// symlink target or file content are fetched, and every handle of a
// removed object is probed. All comparisons happen in the reference
// tree's operation handlers; here only the listings are accumulated.
func (c *nfCase) walk() {
	c.inWalk = true
	defer func() { c.inWalk = false }()
	c.walks++
	page := rapid.IntRange(1, 17).Draw(c.rt, "walk_page_entries")
	attrs := rapid.SampledFrom([]string{"full", "full", "id", "none"}).Draw(c.rt, "walk_readdir_attrs")
	c.send("walk: root", []*opSpec{op("PUTROOTFH"), op("GETFH"), getAttr("full"), op("LOOKUPP")})
	root := c.m.nodes[c.m.root]
	if root.fh == "" {
		c.fail("the root directory has no file handle after PUTROOTFH, GETFH")
	}
	visited := map[int]bool{}
	var visit func(d *mNode, depth int)
	visit = func(d *mNode, depth int) {
		if visited[d.id] || depth > 8 {
			c.fail("the reference tree has a directory cycle at n%d", d.id)
		}
		visited[d.id] = true
		// Paginated listing from the start, no mutation in between: the
		// union of the pages must be exactly the entry set.
		var seen []string
		cookie := uint64(0)
		after, mut := 0, d.muts
		for pages := 0; ; pages++ {
			if pages > 64 {
				c.fail("listing of directory n%d does not end after 64 pages", d.id)
			}
			nameLen := 1
			if len(d.ents) > 0 {
				nameLen = len(d.ents[0].name)
			}
			max := 16 + uint32(page)*entrySize(strings.Repeat("x", nameLen), attrs)
			rd := &opSpec{Op: "READDIR", Cookie: cookie, After: after, Issued: c.m.nextSeq, TokDir: d.id, Mut: mut, Maxcount: max, Attrs: attrs}
			res, _ := c.send("walk: list", []*opSpec{putFH(d), rd})
			okRes, isOK := res.Resarray[1].(*nfsv4.NfsResop4_OP_READDIR).Opreaddir.(*nfsv4.Readdir4res_NFS4_OK)
			if !isOK {
				c.fail("listing directory n%d during the walk: %s", d.id, describeReply(res))
			}
			for ent := okRes.Resok4.Reply.Entries; ent != nil; ent = ent.Nextentry {
				seen = append(seen, ent.Name)
				cookie = ent.Cookie
				after = c.m.lookup(d, ent.Name).seq
			}
			if okRes.Resok4.Reply.Eof {
				break
			}
		}
		var want []string
		for _, e := range d.ents {
			want = append(want, e.name)
		}
		if strings.Join(seen, ",") != strings.Join(want, ",") {
			c.fail("after COMPOUND #%d the complete listing of directory n%d is %v, the reference tree has %v", c.stepNo, d.id, seen, want)
		}
		for _, e := range d.ents {
			n := c.m.nodes[e.child]
			ops := []*opSpec{putFH(d), lookupOp(e.name), op("GETFH"), getAttr("full")}
			switch n.kind {
			case "symlink":
				ops = append(ops, op("READLINK"))
			case "file":
				ops = append(ops, &opSpec{Op: "READ", Sid: "anon", Off: 0, Count: 256})
			}
			c.send("walk: entry", ops)
			if n.isDir() {
				visit(n, depth+1)
			}
		}
	}
	visit(root, 0)
	// Handles of removed objects must be stale (most recent ones).
	probed := 0
	ids := c.m.sortedNodeIDs()
	for i := len(ids) - 1; i >= 0 && probed < 4; i-- {
		n := c.m.nodes[ids[i]]
		if n.fh == "" {
			continue
		}
		dead := (n.isDir() && n.deleted) || (!n.isDir() && n.nlink == 0)
		if !dead {
			continue
		}
		if n.kind == "symlink" {
			if _, live := c.m.symLive[n.target]; live {
				continue
			}
		}
		probed++
		c.send("walk: probe handle of removed object", []*opSpec{putFH(n), op("GETFH")})
	}
	// Pool accounting: every regular file with a name (or open) holds one
	// backing file, nothing else does.
	alive := 0
	for _, id := range ids {
		n := c.m.nodes[id]
		if n.kind == "file" && c.m.leafAlive(n) {
			alive++
		}
	}
	if got := c.w.pool.opened - c.w.pool.closed; got != alive {
		c.fail("after COMPOUND #%d %d backing files are allocated, the reference tree has %d regular files with a name or an open", c.stepNo, got, alive)
	}
}

// ---------------------------------------------------------------- generators

func (c *nfCase) draw(label string, lo, hi int) int {
	return rapid.IntRange(lo, hi).Draw(c.rt, label)
}

// uniform draws from [0, n) without rapid's preference for small values
// (which is wanted for names, where it produces collisions, but not for
// choosing between classes of requests). The draw 0, which shrinking
// moves towards, maps to 0.
func (c *nfCase) uniform(label string, n int) int {
	x := rapid.Uint32().Draw(c.rt, label)
	if x == 0 {
		return 0
	}
	return int(nfMix(uint64(x)) % uint64(n))
}

// chance is true with the given percentage (false for the minimal draw).
func (c *nfCase) chance(label string, percent int) bool {
	return 99-c.uniform(label, 100) < percent
}

func pick[T any](c *nfCase, label string, xs []T) T {
	return xs[rapid.IntRange(0, len(xs)-1).Draw(c.rt, label)]
}

// liveDirNodes: directories reachable from the root, in id order.
func (c *nfCase) liveDirNodes() []*mNode {
	var out []*mNode
	for _, id := range c.m.sortedNodeIDs() {
		n := c.m.nodes[id]
		if n.isDir() && !n.deleted && c.m.reachable(n) {
			out = append(out, n)
		}
	}
	return out
}

func (c *nfCase) nodesWhere(f func(n *mNode) bool) []*mNode {
	var out []*mNode
	for _, id := range c.m.sortedNodeIDs() {
		n := c.m.nodes[id]
		if n.fh != "" && f(n) {
			out = append(out, n)
		}
	}
	return out
}

// addr returns operations that make n the current file handle: PUTFH with
// its handle, or PUTROOTFH and a LOOKUP chain.
func (c *nfCase) addr(n *mNode) []*opSpec {
	path, reachable := c.m.pathTo(n)
	if reachable && (n.fh == "" || c.chance("addr_by_path", 40)) {
		ops := []*opSpec{op("PUTROOTFH")}
		for _, name := range path {
			ops = append(ops, lookupOp(name))
		}
		return ops
	}
	if n.fh == "" {
		panic("nfsfront: node without handle and without path")
	}
	return []*opSpec{putFH(n)}
}

// pickDir chooses the directory an operation is aimed at: mostly a live
// directory, sometimes a removed one (stale handle), a leaf, or nothing.
func (c *nfCase) pickDir() []*opSpec {
	k := 99 - c.uniform("dir_class", 100)
	switch {
	case k < 5:
		if dead := c.nodesWhere(func(n *mNode) bool { return n.isDir() && n.deleted }); len(dead) > 0 {
			return []*opSpec{putFH(pick(c, "dead_dir", dead))}
		}
	case k < 10:
		if leaves := c.nodesWhere(func(n *mNode) bool { return !n.isDir() && n.nlink > 0 }); len(leaves) > 0 {
			return c.addr(pick(c, "leaf_as_dir", leaves))
		}
	case k < 12:
		return nil
	}
	return c.addr(c.pickLiveDir())
}

func (c *nfCase) pickLiveDir() *mNode {
	dirs := c.liveDirNodes()
	if c.profile == "wide" && c.chance("wide_root", 70) {
		return dirs[0]
	}
	return pick(c, "dir", dirs)
}

func (c *nfCase) anyName() string { return pick(c, "name", c.names) }

// nameIn prefers (with the given percentage) a name that exists in d.
func (c *nfCase) nameIn(d *mNode, percentExisting int) string {
	if d != nil && len(d.ents) > 0 && c.chance("existing_name", percentExisting) {
		return pick(c, "entry", d.ents).name
	}
	return c.anyName()
}

// setName stores a possibly invalid name in the first or second slot.
func setName(o *opSpec, second bool, name string) {
	if second {
		o.Name2, o.Empty2 = name, name == ""
	} else {
		o.Name, o.Empty = name, name == ""
	}
}

var badNames = []string{"", ".", "..", "a/b"}

func (c *nfCase) maybeBad(name string) string {
	if c.chance("bad_name", 4) {
		return pick(c, "which_bad_name", badNames)
	}
	return name
}

// lastDir: the directory an address sequence ends at according to the
// reference tree (nil if it does not end at a directory).
func (c *nfCase) endOf(ops []*opSpec) *mNode {
	dry := c.m.clone()
	dry.exec(ops, nil)
	if dry.cur == 0 {
		return nil
	}
	return c.m.nodes[dry.cur]
}

func (c *nfCase) dirEndOf(ops []*opSpec) *mNode {
	if n := c.endOf(ops); n != nil && n.isDir() {
		return n
	}
	return nil
}

var symlinkTargets = []string{"t", "u", "d/e"}

func (c *nfCase) createOp(d *mNode, kindWeights string) *opSpec {
	kinds := []string{"dir", "dir", "symlink", "symlink", "fifo", "socket", "blk"}
	if kindWeights == "nodir" {
		kinds = []string{"symlink", "symlink", "fifo", "socket"}
	}
	o := &opSpec{Op: "CREATE", Kind: pick(c, "kind", kinds)}
	if o.Kind == "blk" && !c.chance("really_blk", 30) {
		o.Kind = "fifo"
	}
	if o.Kind == "symlink" {
		o.Target = pick(c, "target", symlinkTargets)
	}
	setName(o, false, c.maybeBad(c.nameIn(d, 25)))
	return o
}

func (c *nfCase) readdirOp(d *mNode) *opSpec {
	o := &opSpec{Op: "READDIR", Attrs: pick(c, "readdir_attrs", []string{"full", "id", "none", "full"})}
	nameLen := len(c.names[0])
	n := 0
	if d != nil {
		n = len(d.ents)
		var toks []cookieTok
		for _, t := range c.tokens {
			if t.Dir == d.id {
				toks = append(toks, t)
			}
		}
		if len(toks) > 0 && c.chance("resume", 75) {
			t := pick(c, "token", toks)
			o.Cookie, o.After, o.Issued, o.TokDir, o.Mut = t.Cookie, t.After, t.Issued, t.Dir, t.Mut
			if c.chance("verf", 6) {
				o.Verf = pick(c, "which_verf", []string{"bad", "zero"})
			}
		}
	}
	es := entrySize(strings.Repeat("x", nameLen), o.Attrs)
	switch k := 99 - c.uniform("page_class", 100); {
	case k < 4:
		o.Maxcount = uint32(c.draw("tiny_maxcount", 16, 16+int(es)-1))
	case k < 10:
		o.Maxcount = 1 << 16
	default:
		per := c.draw("page_entries", 1, n+1)
		o.Maxcount = 16 + uint32(per)*es + uint32(c.draw("slack", 0, int(es)-1))
	}
	if c.chance("dircount", 20) {
		o.Dircount = uint32(c.draw("dircount_entries", 0, n+1))*dirNeed(strings.Repeat("x", nameLen)) + uint32(c.draw("dircount_slack", 0, 11))
	}
	return o
}

type weighted struct {
	name   string
	weight int
	run    func(c *nfCase) bool
}

func (c *nfCase) steps() []weighted {
	return []weighted{
		{"readdir", 16, (*nfCase).stepReaddir},
		{"rename", 16, (*nfCase).stepRename},
		{"create", 12, (*nfCase).stepCreate},
		{"remove", 12, (*nfCase).stepRemove},
		{"open", 10, (*nfCase).stepOpen},
		{"link", 8, (*nfCase).stepLink},
		{"removed_dir_probe", 6, (*nfCase).stepRemovedDirProbe},
		{"lookup", 5, (*nfCase).stepLookup},
		{"io_anon", 5, (*nfCase).stepAnonIO},
		{"mkdir_populate", 4, (*nfCase).stepMkdirPopulate},
		{"soup", 4, (*nfCase).stepSoup},
		{"readlink_getattr", 3, (*nfCase).stepInspect},
	}
}

func (c *nfCase) stepReaddir() bool {
	addr := c.pickDir()
	d := c.dirEndOf(addr)
	ops := append(addr, c.readdirOp(d))
	if c.chance("readdir_twice", 15) {
		// A second page from the start in the same COMPOUND.
		ops = append(ops, c.readdirOp(nil))
	}
	return c.run("readdir", ops)
}

func (c *nfCase) stepCreate() bool {
	addr := c.pickDir()
	d := c.dirEndOf(addr)
	ops := append(addr, c.createOp(d, ""))
	if c.chance("create_then_inspect", 50) {
		ops = append(ops, op("GETFH"), getAttr("full"))
	}
	return c.run("create", ops)
}

func (c *nfCase) stepMkdirPopulate() bool {
	addr := c.pickDir()
	d := c.dirEndOf(addr)
	mk := &opSpec{Op: "CREATE", Kind: "dir"}
	setName(mk, false, c.nameIn(d, 10))
	ops := append(addr, mk, op("SAVEFH"))
	for i, n := 0, c.draw("populate", 1, 3); i < n; i++ {
		if i > 0 {
			ops = append(ops, op("RESTOREFH"))
		}
		ops = append(ops, c.createOp(nil, ""))
	}
	return c.run("mkdir_populate", ops)
}

func (c *nfCase) stepRemove() bool {
	addr := c.pickDir()
	d := c.dirEndOf(addr)
	rm := &opSpec{Op: "REMOVE"}
	setName(rm, false, c.maybeBad(c.nameIn(d, 85)))
	ops := append(addr, rm)
	if c.chance("remove_then_list", 20) {
		ops = append(ops, c.readdirOp(nil))
	}
	return c.run("remove", ops)
}

func (c *nfCase) stepRename() bool {
	var ops []*opSpec
	src := c.pickDir()
	dSrc := c.dirEndOf(src)
	ops = append(ops, src...)
	ops = append(ops, op("SAVEFH"))
	dDst := dSrc
	if !c.chance("rename_same_dir", 45) {
		dst := c.pickDir()
		if dst == nil {
			dst = []*opSpec{op("PUTROOTFH")}
		}
		dDst = c.dirEndOf(dst)
		ops = append(ops, dst...)
	}
	if src == nil {
		ops = []*opSpec{op("PUTROOTFH")} // RENAME without a saved handle
	}
	rn := &opSpec{Op: "RENAME"}
	setName(rn, false, c.maybeBad(c.nameIn(dSrc, 85)))
	setName(rn, true, c.maybeBad(c.nameIn(dDst, 55)))
	ops = append(ops, rn)
	return c.run("rename", ops)
}

func (c *nfCase) stepLink() bool {
	var srcAddr []*opSpec
	k := 99 - c.uniform("link_source_class", 100)
	leaves := c.nodesWhere(func(n *mNode) bool { return !n.isDir() && n.nlink > 0 })
	files := c.nodesWhere(func(n *mNode) bool { return n.kind == "file" && n.nlink > 0 })
	switch {
	case k < 8:
		srcAddr = c.addr(c.pickLiveDir()) // a directory: ISDIR
	case k < 14:
		if dead := c.nodesWhere(func(n *mNode) bool { return !n.isDir() && n.nlink == 0 }); len(dead) > 0 {
			srcAddr = []*opSpec{putFH(pick(c, "dead_leaf", dead))}
		}
	case k < 60 && len(files) > 0:
		srcAddr = c.addr(pick(c, "link_file", files))
	}
	if srcAddr == nil {
		if len(leaves) == 0 {
			return false
		}
		srcAddr = c.addr(pick(c, "link_leaf", leaves))
	}
	dst := c.pickDir()
	d := c.dirEndOf(dst)
	ln := &opSpec{Op: "LINK"}
	setName(ln, false, c.maybeBad(c.nameIn(d, 20)))
	ops := append(srcAddr, op("SAVEFH"))
	ops = append(ops, dst...)
	ops = append(ops, ln)
	if c.chance("link_then_inspect", 50) {
		ops = append(ops, op("RESTOREFH"), getAttr("full"))
	}
	return c.run("link", ops)
}

// stepRemovedDirProbe: oracle (4). A handle of a directory is saved, the
// directory is removed, and then an operation that would add an entry (or
// merely looks) is tried through the saved handle, all in one COMPOUND.
// (With two handle registers only the removed directory itself can be the
// RENAME source and target; LINK into it cannot be expressed.)
func (c *nfCase) stepRemovedDirProbe() bool {
	var cands, empty []*mNode
	for _, d := range c.liveDirNodes() {
		if d.id != c.m.root {
			cands = append(cands, d)
			if len(d.ents) == 0 {
				empty = append(empty, d)
			}
		}
	}
	if len(cands) == 0 {
		return false
	}
	if len(empty) > 0 && c.chance("empty_victim", 85) {
		cands = empty
	}
	victim := pick(c, "victim", cands)
	parent := c.m.nodes[victim.parent]
	var victimName string
	for _, e := range parent.ents {
		if e.child == victim.id {
			victimName = e.name
		}
	}
	ops := append(c.addr(victim), op("SAVEFH"))
	ops = append(ops, c.addr(parent)...)
	ops = append(ops, &opSpec{Op: "REMOVE", Name: victimName}, op("RESTOREFH"))
	switch c.uniform("probe", 6) {
	case 0, 1:
		ops = append(ops, c.createOp(nil, ""))
	case 2:
		ops = append(ops, &opSpec{Op: "OPEN", How: pick(c, "how", []string{"unchecked", "guarded"}), Access: nfsv4.OPEN4_SHARE_ACCESS_BOTH, Name: c.anyName()})
	case 3:
		ops = append(ops, c.readdirOp(nil), lookupOp(c.anyName()))
	case 4:
		rn := &opSpec{Op: "RENAME"}
		setName(rn, false, c.anyName())
		setName(rn, true, c.anyName())
		ops = append(ops, rn)
	case 5:
		ops = append(ops, getAttr("full"), op("GETFH"), op("LOOKUPP"))
	}
	return c.run("removed_dir_probe", ops)
}

func (c *nfCase) stepLookup() bool {
	ops := []*opSpec{op("PUTROOTFH")}
	d := c.m.nodes[c.m.root]
	for i, n := 0, c.draw("lookup_depth", 1, 4); i < n; i++ {
		name := c.maybeBad(c.nameIn(d, 80))
		ops = append(ops, lookupOp(name))
		d = c.dirEndOf(ops)
		if d == nil {
			break
		}
	}
	ops = append(ops, op("GETFH"), getAttr(pick(c, "attrs", []string{"full", "id", "none"})))
	if c.chance("lookupp", 30) {
		ops = append(ops, op("LOOKUPP"), op("GETFH"))
	}
	return c.run("lookup", ops)
}

func (c *nfCase) stepInspect() bool {
	all := c.nodesWhere(func(n *mNode) bool { return true })
	n := pick(c, "inspect", all)
	var ops []*opSpec
	if n.isDir() && n.deleted || !n.isDir() && n.nlink == 0 {
		ops = []*opSpec{putFH(n)}
	} else {
		ops = c.addr(n)
	}
	ops = append(ops, pick(c, "inspect_op", [][]*opSpec{
		{op("READLINK")},
		{getAttr("full"), op("READLINK")},
		{op("LOOKUPP")},
		{op("GETFH"), getAttr("id")},
	})...)
	return c.run("inspect", ops)
}

func (c *nfCase) stepAnonIO() bool {
	files := c.nodesWhere(func(n *mNode) bool { return n.kind == "file" })
	if len(files) == 0 {
		return false
	}
	f := pick(c, "io_file", files)
	var ops []*opSpec
	if f.nlink == 0 {
		ops = []*opSpec{putFH(f)}
	} else {
		ops = c.addr(f)
	}
	if c.chance("anon_write", 60) {
		ops = append(ops, &opSpec{Op: "WRITE", Sid: "anon", Off: uint64(c.draw("off", 0, 6)), Data: pick(c, "data", []string{"x", "hello", "NFS!", ""})})
	}
	ops = append(ops, &opSpec{Op: "READ", Sid: "anon", Off: uint64(c.draw("roff", 0, 4)), Count: uint32(c.draw("rcount", 0, 16))}, getAttr("full"))
	return c.run("io_anon", ops)
}

// stepSoup: a short random operation sequence (exercises NOFILEHANDLE,
// RESTOREFH without SAVEFH, operations on leaves, ...).
func (c *nfCase) stepSoup() bool {
	var ops []*opSpec
	all := c.nodesWhere(func(n *mNode) bool { return true })
	for i, n := 0, c.draw("soup_len", 1, 6); i < n; i++ {
		switch c.uniform("soup_op", 14) {
		case 0:
			ops = append(ops, op("PUTROOTFH"))
		case 1:
			ops = append(ops, putFH(pick(c, "soup_fh", all)))
		case 2:
			ops = append(ops, op("GETFH"))
		case 3:
			ops = append(ops, op("SAVEFH"))
		case 4:
			ops = append(ops, op("RESTOREFH"))
		case 5:
			ops = append(ops, lookupOp(c.maybeBad(c.nameIn(c.dirEndOf(ops), 70))))
		case 6:
			ops = append(ops, op("LOOKUPP"))
		case 7:
			ops = append(ops, c.createOp(c.dirEndOf(ops), ""))
		case 8:
			rm := &opSpec{Op: "REMOVE"}
			setName(rm, false, c.maybeBad(c.nameIn(c.dirEndOf(ops), 70)))
			ops = append(ops, rm)
		case 9:
			rn := &opSpec{Op: "RENAME"}
			setName(rn, false, c.maybeBad(c.anyName()))
			setName(rn, true, c.maybeBad(c.nameIn(c.dirEndOf(ops), 50)))
			ops = append(ops, rn)
		case 10:
			ln := &opSpec{Op: "LINK"}
			setName(ln, false, c.maybeBad(c.anyName()))
			ops = append(ops, ln)
		case 11:
			ops = append(ops, c.readdirOp(nil))
		case 12:
			ops = append(ops, op("READLINK"))
		case 13:
			ops = append(ops, getAttr(pick(c, "attrs", []string{"full", "id", "none"})))
		}
	}
	return c.run("soup", ops)
}

// stepOpen: OPEN (all create modes) to create or open a regular file,
// optional WRITE and READ with the open state ID, optionally one
// directory operation while the file is open, CLOSE. The open-owner
// protocol is followed: OPEN_CONFIRM when asked for, sequence IDs advance
// as RFC 7530 9.1.7 says, and for NFSv4.0 the open-owner's next
// transaction (an OPEN of a name that never exists) follows the CLOSE so
// that no closed state lingers.
func (c *nfCase) stepOpen() bool {
	if c.m.open != 0 {
		panic("nfsfront: open step while a file is open")
	}
	addr := c.pickDir()
	d := c.dirEndOf(addr)
	how := pick(c, "how", []string{"unchecked", "guarded", "nocreate", "unchecked_trunc", "exclusive", "unchecked"})
	access := pick(c, "access", []uint32{nfsv4.OPEN4_SHARE_ACCESS_BOTH, nfsv4.OPEN4_SHARE_ACCESS_BOTH, nfsv4.OPEN4_SHARE_ACCESS_READ, nfsv4.OPEN4_SHARE_ACCESS_WRITE})
	o := &opSpec{Op: "OPEN", How: how, Access: access}
	pct := 30
	if how == "nocreate" || how == "unchecked_trunc" {
		pct = 85
	}
	setName(o, false, c.maybeBad(c.nameIn(d, pct)))
	if addr == nil {
		// OPEN without a file handle would not advance the open-owner's
		// sequence ID; keep to requests with a current file handle.
		addr = []*opSpec{op("PUTROOTFH")}
	}
	ops := append(addr, o, op("GETFH"), getAttr("full"))
	if why := c.refused(ops); why != "" {
		c.rec.Exclude(why)
		return false
	}
	_, needConfirm := c.send("open", ops)
	if c.m.open == 0 {
		c.flushOwner()
		return true
	}
	file := c.m.nodes[c.m.open]
	if needConfirm {
		if c.w.v41 {
			c.fail("NFSv4.1 OPEN asked for OPEN_CONFIRM")
		}
		c.send("open_confirm", []*opSpec{putFH(file), op("OPEN_CONFIRM")})
		c.w.confirmed = true
	}
	canWrite := access&nfsv4.OPEN4_SHARE_ACCESS_WRITE != 0
	canRead := access&nfsv4.OPEN4_SHARE_ACCESS_READ != 0
	if canWrite && c.chance("open_write", 70) {
		c.send("write", []*opSpec{putFH(file), {Op: "WRITE", Sid: "open", Off: uint64(c.draw("off", 0, 6)), Data: pick(c, "data", []string{"abc", "0123456789", "Z"})}, getAttr("full")})
	}
	if c.chance("op_while_open", 25) {
		// One directory operation while the file is open, preferably on
		// the open file's own names.
		c.flags["op_while_open"] = true
		for try := 0; try < 3; try++ {
			var done bool
			switch c.uniform("while_open", 3) {
			case 0:
				done = c.stepRemove()
			case 1:
				done = c.stepRename()
			case 2:
				done = c.stepLink()
			}
			if done {
				break
			}
		}
	}
	if canRead && c.chance("open_read", 70) {
		c.send("read", []*opSpec{putFH(file), {Op: "READ", Sid: "open", Off: uint64(c.draw("roff", 0, 4)), Count: uint32(c.draw("rcount", 1, 32))}})
	}
	c.send("close", []*opSpec{putFH(file), op("CLOSE")})
	c.flushOwner()
	return true
}

// flushOwner: NFSv4.0 keeps the state of an open-owner's last CLOSE for
// replay until the open-owner's next transaction. The client makes that
// next transaction right away (OPEN without create of a name that never
// exists), so that afterwards a file without names is really gone.
func (c *nfCase) flushOwner() {
	if c.w.v41 || c.m.linger == 0 {
		return
	}
	c.send("open-owner's next transaction", []*opSpec{op("PUTROOTFH"), {Op: "OPEN", How: "nocreate", Access: nfsv4.OPEN4_SHARE_ACCESS_READ, Name: "never-exists"}})
}

// ---------------------------------------------------------------- case set-up

func newNfCase(rt *rapid.T, rec *simkit.Recorder, v41 bool, profile string) *nfCase {
	c := &nfCase{rt: rt, rec: rec, w: newNfWorld(v41), m: newModel(v41), profile: profile, flags: map[string]bool{}}
	switch profile {
	case "wide":
		for i := 0; i < 16; i++ {
			c.names = append(c.names, fmt.Sprintf("w%02d", i))
		}
		c.maxDirs, c.maxDepth, c.maxEnts = 8, 2, 26
	default:
		c.names = []string{"a", "b", "c", "d", "e"}
		c.maxDirs, c.maxDepth, c.maxEnts = 6, 3, 14
	}
	c.inWalk = true
	c.send("initial look at the root", []*opSpec{op("PUTROOTFH"), op("GETFH"), getAttr("full")})
	c.inWalk = false
	return c
}

// populateWide fills the root directory with 12-16 entries of all kinds.
func (c *nfCase) populateWide() {
	n := c.draw("wide_entries", 12, 16)
	perm := rapid.Permutation(c.names).Draw(c.rt, "wide_names")
	ops := []*opSpec{op("PUTROOTFH"), op("SAVEFH")}
	var fileNames []string
	for i := 0; i < n; i++ {
		kind := pick(c, "wide_kind", []string{"dir", "symlink", "fifo", "socket", "file", "file", "symlink", "dir"})
		if kind == "file" {
			fileNames = append(fileNames, perm[i])
			continue
		}
		o := &opSpec{Op: "CREATE", Kind: kind, Name: perm[i]}
		if kind == "symlink" {
			o.Target = pick(c, "target", symlinkTargets)
		}
		if len(ops) > 2 {
			ops = append(ops, op("RESTOREFH"))
		}
		ops = append(ops, o)
		if len(ops) >= 14 {
			c.send("populate", ops)
			ops = []*opSpec{op("PUTROOTFH"), op("SAVEFH")}
		}
	}
	if len(ops) > 2 {
		c.send("populate", ops)
	}
	for _, name := range fileNames {
		_, needConfirm := c.send("populate: open", []*opSpec{op("PUTROOTFH"), {Op: "OPEN", How: "guarded", Access: nfsv4.OPEN4_SHARE_ACCESS_BOTH, Name: name}, op("GETFH")})
		file := c.m.nodes[c.m.open]
		if needConfirm {
			c.send("populate: open_confirm", []*opSpec{putFH(file), op("OPEN_CONFIRM")})
		}
		c.send("populate: close", []*opSpec{putFH(file), op("CLOSE")})
		c.flushOwner()
	}
}

func sortedKeys(m map[string]int) []string {
	keys := make([]string, 0, len(m))
	for k := range m {
		keys = append(keys, k)
	}
	sort.Strings(keys)
	return keys
}

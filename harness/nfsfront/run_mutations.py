#!/usr/bin/env python3
"""Development aid (sensitivity trials for the nfsfront package only).

  run_mutations.py <scratch worktree of /repo> [--only name] [--scale S]

Applies each textual mutation of mutations.json to the scratch worktree (never to
/repo), runs the C13 NFS part through the driver against it, reverts, and appends
the outcome to mutation_results.jsonl next to this file.
"""
import json, os, re, subprocess, sys, time

here = os.path.dirname(os.path.abspath(__file__))
wt = sys.argv[1]
only, scale = None, "1"
args = sys.argv[2:]
while args:
    a = args.pop(0)
    if a == "--only":
        only = args.pop(0)
    elif a == "--scale":
        scale = args.pop(0)
assert os.path.abspath(wt) != "/repo"
for m in json.load(open(os.path.join(here, "mutations.json"))):
    if only and m["name"] != only:
        continue
    path = os.path.join(wt, m["file"])
    src = open(path).read()
    if src.count(m["old"]) != 1:
        print("SKIP %s: pattern occurs %d times" % (m["name"], src.count(m["old"])))
        continue
    open(path, "w").write(src.replace(m["old"], m["new"]))
    try:
        t0 = time.time()
        env = dict(os.environ, VERIF_REPO=wt, VERIF_ALL_PARTS="1")
        p = subprocess.run(["/verif/check", "C13", "--only", m["test"], "--scale", scale],
                           env=env, capture_output=True, text=True)
        first, after = "", ""
        import glob
        tag = re.sub(r"[^A-Za-z0-9]+", "_", os.path.abspath(wt)).strip("_")
        logs = sorted(glob.glob("/verif/.work/alt-%s/C13/%s.*.log" % (tag, m["test"])))
        for text in [open(l, errors="replace").read() for l in logs] + [p.stdout]:
            for l in text.splitlines():
                mm = re.search(r"\[rapid\] (?:failed|panic) after (\d+) tests: (.*)", l)
                if mm and (not first or int(mm.group(1)) < int(after)):
                    after, first = mm.group(1), mm.group(2).strip()[:330]
        rec = {"mutation": m["name"], "test": m["test"], "rc": p.returncode, "caught": p.returncode == 1,
               "after_cases": after, "wall_s": round(time.time() - t0, 1), "first": first}
        if p.returncode not in (0, 1):
            rec["tail"] = p.stdout[-600:]
        print(json.dumps(rec), flush=True)
        with open(os.path.join(here, "mutation_results.jsonl"), "a") as f:
            f.write(json.dumps(rec) + "\n")
    finally:
        open(path, "w").write(src)

package filepool

// C15 on devices larger than 4 GiB: sector numbers are 32 bit, device
// offsets are not. The other sub-checks use devices of at most a few
// kilobytes, where an offset computed in 32 bits cannot be told from a
// correct one. Here the device is sparse (only the pages written are
// kept) and a harness-owned sector allocator places the files on both
// sides of every multiple of 2^32 bytes the device has, so that sectors
// whose offsets differ by a multiple of 2^32 are in use at the same time.

import (
	"fmt"
	"io"
	"testing"

	"github.com/buildbarn/bb-remote-execution/pkg/filesystem/pool"
	"google.golang.org/grpc/codes"
	"google.golang.org/grpc/status"
	"pgregory.net/rapid"

	"verif/harness/internal/simkit"
)

// sparseDevice keeps the bytes written in pages of 4 KiB; everything else
// reads as 0xa5 (never as zero: a hole must come from the pool, not from
// the device).
type sparseDevice struct {
	size int64
	// Pages that were written: nil = all zeros (the pool pads new
	// sectors with zeros, which must stay cheap), otherwise the bytes.
	pages map[int64]*[sparsePage]byte
	outOf []string
}

const sparsePage = 4096

func allZero(b []byte) bool {
	for _, x := range b {
		if x != 0 {
			return false
		}
	}
	return true
}

func (d *sparseDevice) ReadAt(b []byte, off int64) (int, error) {
	if off < 0 || off+int64(len(b)) > d.size {
		d.outOf = append(d.outOf, fmt.Sprintf("ReadAt(%d bytes at %d) outside the device of %d bytes", len(b), off, d.size))
		return 0, io.EOF
	}
	for done := 0; done < len(b); {
		o := off + int64(done)
		pi, po := o/sparsePage, int(o%sparsePage)
		n := sparsePage - po
		if n > len(b)-done {
			n = len(b) - done
		}
		chunk := b[done : done+n]
		if p, written := d.pages[pi]; !written {
			for i := range chunk {
				chunk[i] = 0xa5
			}
		} else if p == nil {
			for i := range chunk {
				chunk[i] = 0
			}
		} else {
			copy(chunk, p[po:po+n])
		}
		done += n
	}
	return len(b), nil
}

func (d *sparseDevice) WriteAt(b []byte, off int64) (int, error) {
	if off < 0 || off+int64(len(b)) > d.size {
		d.outOf = append(d.outOf, fmt.Sprintf("WriteAt(%d bytes at %d) outside the device of %d bytes", len(b), off, d.size))
		return 0, io.ErrShortWrite
	}
	for done := 0; done < len(b); {
		o := off + int64(done)
		pi, po := o/sparsePage, int(o%sparsePage)
		n := sparsePage - po
		if n > len(b)-done {
			n = len(b) - done
		}
		chunk := b[done : done+n]
		p, written := d.pages[pi]
		if n == sparsePage && allZero(chunk) {
			d.pages[pi] = nil
		} else {
			if p == nil {
				p = new([sparsePage]byte)
				if !written {
					for i := range p {
						p[i] = 0xa5
					}
				}
				d.pages[pi] = p
			}
			copy(p[po:po+n], chunk)
		}
		done += n
	}
	return len(b), nil
}

func (d *sparseDevice) Sync() error  { return nil }
func (d *sparseDevice) Close() error { return nil }

// placingAllocator hands out the sector numbers the case prescribes, one
// sector at a time (the interface allows returning fewer sectors than
// asked for), and checks that nothing is freed twice or while unowned.
type placingAllocator struct {
	next     []uint32
	owned    map[uint32]bool
	problems []string
}

func (a *placingAllocator) AllocateContiguous(maximum int) (uint32, int, error) {
	if len(a.next) == 0 {
		return 0, 0, status.Error(codes.ResourceExhausted, "no sectors left in the placement script")
	}
	s := a.next[0]
	a.next = a.next[1:]
	if a.owned[s] {
		a.problems = append(a.problems, fmt.Sprintf("harness: sector %d placed twice", s))
	}
	a.owned[s] = true
	return s, 1, nil
}

func (a *placingAllocator) FreeContiguous(first uint32, count int) {
	for i := 0; i < count; i++ {
		a.FreeList([]uint32{first + uint32(i)})
	}
}

func (a *placingAllocator) FreeList(sectors []uint32) {
	for _, s := range sectors {
		if s == 0 {
			continue
		}
		if !a.owned[s] {
			a.problems = append(a.problems, fmt.Sprintf("sector %d freed although it is not handed out", s))
		}
		delete(a.owned, s)
	}
}

type largeFile struct {
	Sectors []uint32 `json:"sectors"` // the sectors the file's first, second, ... data sector land on
	Length  int      `json:"length"`  // bytes written per write
	Offset  int      `json:"offset"`  // offset within each sector of the write
}

type largeCase struct {
	SectorSizeLog2 int         `json:"sector_size_log2"`
	Sectors        uint32      `json:"sectors"`
	Files          []largeFile `json:"files"`
}

func TestC15LargeDeviceOffsets(t *testing.T) {
	rec := simkit.NewRecorder(t, "C15", "large-device-offsets",
		"block-device-backed pool on a sparse device of 4 GiB .. 1 TiB (sector sizes 2^9 .. 2^24 bytes, up to 2^32-1 sectors) with a harness-owned sector allocator that places the data sectors of 2-6 files at drawn sector numbers: next to multiples of 2^32 bytes (sector k*2^32/size and its neighbours), at the last sector of the device, at sectors whose byte offsets are congruent modulo 2^32 to sectors of other files, and anywhere. Every file writes a distinct pattern into each of its 1-3 sectors; afterwards every file is read back and closed. Oracle: every file reads what was written to it and zeros elsewhere, whatever the other files did (files are independent); no access leaves the device; every sector is given back exactly once at Close. Non-trivial: two live files own sectors whose byte offsets differ by a non-zero multiple of 2^32; distinct by script hash")
	rapid.Check(t, func(rt *rapid.T) {
		c := largeCase{SectorSizeLog2: rapid.SampledFrom([]int{9, 12, 16, 20, 24}).Draw(rt, "sectorSizeLog2")}
		sectorSize := int64(1) << c.SectorSizeLog2
		perWrap := uint64(1<<32) / uint64(sectorSize) // sectors per 2^32 bytes
		wraps := uint64(rapid.IntRange(1, 4).Draw(rt, "wraps"))
		total := perWrap*wraps + uint64(rapid.IntRange(2, 40).Draw(rt, "extraSectors"))
		if rapid.IntRange(0, 4).Draw(rt, "hugeDevice") == 0 || total > 1<<32-1 {
			total = 1<<32 - 1
		}
		c.Sectors = uint32(total)
		dev := &sparseDevice{size: int64(total) * sectorSize, pages: map[int64]*[sparsePage]byte{}}
		alloc := &placingAllocator{owned: map[uint32]bool{}}
		fp := pool.NewBlockDeviceBackedFilePool(dev, alloc, int(sectorSize))

		taken := map[uint32]bool{}
		var all []uint32
		drawSector := func() uint32 {
			for attempt := 0; ; attempt++ {
				var s uint64
				switch rapid.IntRange(0, 5).Draw(rt, "placement") {
				case 0: // next to a multiple of 2^32 bytes (sector numbers start at 1: sector n covers bytes (n-1)*size ...)
					k := uint64(rapid.IntRange(1, int(total/perWrap)).Draw(rt, "wrap"))
					s = k*perWrap + 1 + uint64(rapid.IntRange(0, 3).Draw(rt, "after")) - uint64(rapid.IntRange(0, 3).Draw(rt, "before"))
				case 1, 2: // congruent to a sector that is already taken
					if len(all) == 0 {
						s = uint64(rapid.IntRange(1, 8).Draw(rt, "low"))
					} else {
						base := uint64(all[rapid.IntRange(0, len(all)-1).Draw(rt, "other")])
						k := uint64(rapid.IntRange(1, int(total/perWrap)).Draw(rt, "wraps"))
						if rapid.Bool().Draw(rt, "down") && base > k*perWrap {
							s = base - k*perWrap
						} else {
							s = base + k*perWrap
						}
					}
				case 3:
					s = total - uint64(rapid.IntRange(0, 2).Draw(rt, "fromEnd"))
				case 4:
					s = uint64(rapid.IntRange(1, 8).Draw(rt, "low"))
				default:
					s = uint64(rapid.Uint32Range(1, uint32(total)).Draw(rt, "anywhere"))
				}
				if s >= 1 && s <= total && !taken[uint32(s)] {
					taken[uint32(s)] = true
					all = append(all, uint32(s))
					return uint32(s)
				}
				if attempt > 20 {
					for x := uint32(1); ; x++ {
						if !taken[x] {
							taken[x] = true
							all = append(all, x)
							return x
						}
					}
				}
			}
		}
		nFiles := rapid.IntRange(2, 6).Draw(rt, "files")
		for i := 0; i < nFiles; i++ {
			lf := largeFile{Length: rapid.IntRange(1, 64).Draw(rt, "length"), Offset: rapid.IntRange(0, 400).Draw(rt, "offset")}
			for j, n := 0, rapid.IntRange(1, 3).Draw(rt, "dataSectors"); j < n; j++ {
				lf.Sectors = append(lf.Sectors, drawSector())
			}
			c.Files = append(c.Files, lf)
		}

		pattern := func(i, j, n int) []byte {
			b := make([]byte, n)
			for k := range b {
				b[k] = byte(31*i + 7*j + 3*k + 1)
			}
			return b
		}
		type handle interface {
			io.ReaderAt
			io.WriterAt
			Close() error
		}
		var handles []handle
		// Create the files and write their sectors in an interleaved
		// order, so that all of them are live at the same time.
		for range c.Files {
			f, err := fp.NewFile(pool.ZeroHoleSource, 0)
			if err != nil {
				rt.Fatalf("NewFile failed: %v; script=%+v", err, c)
			}
			handles = append(handles, f)
		}
		for j := 0; j < 3; j++ {
			for i, lf := range c.Files {
				if j >= len(lf.Sectors) {
					continue
				}
				alloc.next = []uint32{lf.Sectors[j]}
				off := int64(j)*sectorSize + int64(lf.Offset%int(sectorSize))
				n := lf.Length
				if int64(lf.Offset%int(sectorSize))+int64(n) > sectorSize {
					n = int(sectorSize) - lf.Offset%int(sectorSize)
				}
				if _, err := handles[i].WriteAt(pattern(i, j, n), off); err != nil {
					rt.Fatalf("file #%d: write into its data sector %d (device sector %d) failed: %v; script=%+v", i, j, lf.Sectors[j], err, c)
				}
				if len(alloc.next) != 0 {
					rt.Fatalf("harness: file #%d did not ask for a sector for its data sector %d; script=%+v", i, j, c)
				}
			}
		}
		for i, lf := range c.Files {
			for j := range lf.Sectors {
				po := lf.Offset % int(sectorSize)
				n := lf.Length
				if int64(po)+int64(n) > sectorSize {
					n = int(sectorSize) - po
				}
				start := int64(j)*sectorSize + int64(po)
				lead := int64(4)
				if int64(po) < lead {
					lead = int64(po)
				}
				buf := make([]byte, int(lead)+n)
				if _, err := handles[i].ReadAt(buf, start-lead); err != nil && err != io.EOF {
					rt.Fatalf("file #%d: ReadAt failed: %v; script=%+v", i, err, c)
				}
				want := append(make([]byte, lead), pattern(i, j, n)...)
				for k := range buf {
					if buf[k] != want[k] {
						rt.Fatalf("file #%d, data sector %d (device sector %d of %d, sector size 2^%d): byte %d reads %#x, expected %#x: another file's data or a wrong device offset; script=%+v", i, j, lf.Sectors[j], c.Sectors, c.SectorSizeLog2, start-lead+int64(k), buf[k], want[k], c)
					}
				}
			}
		}
		if len(dev.outOf) > 0 {
			rt.Fatalf("accesses outside the device: %v; script=%+v", dev.outOf, c)
		}
		for i, h := range handles {
			if err := h.Close(); err != nil {
				rt.Fatalf("file #%d: Close failed: %v; script=%+v", i, err, c)
			}
		}
		if len(alloc.owned) != 0 || len(alloc.problems) > 0 {
			rt.Fatalf("after closing every file %d sectors are still handed out; problems: %v; script=%+v", len(alloc.owned), alloc.problems, c)
		}
		aliased := false
		for i := range all {
			for j := range all {
				if i < j && all[i] != all[j] && (uint64(all[i])*uint64(sectorSize))%(1<<32) == (uint64(all[j])*uint64(sectorSize))%(1<<32) {
					aliased = true
				}
			}
		}
		labels := []string{fmt.Sprintf("sector_size_2^%d", c.SectorSizeLog2)}
		if aliased {
			labels = append(labels, "sectors_a_multiple_of_2^32_bytes_apart")
		}
		if c.Sectors == 1<<32-1 {
			labels = append(labels, "device_with_2^32-1_sectors")
		}
		rec.Case(c, aliased, labels...)
	})
}

package filepool

import (
	"bytes"
	"encoding/json"
	"fmt"
	"runtime"
	"runtime/debug"
	"strings"
	"sync"
	"sync/atomic"
	"testing"
	"time"

	"github.com/buildbarn/bb-remote-execution/pkg/filesystem/pool"
	"github.com/buildbarn/bb-storage/pkg/filesystem"

	"google.golang.org/grpc/codes"
	"google.golang.org/grpc/status"
	"pgregory.net/rapid"

	"verif/harness/internal/simkit"
)

// The concurrent check: several goroutines use DIFFERENT files of ONE
// pool at the same time. File handles are documented as not thread-safe,
// so every file belongs to exactly one goroutine; what is shared is the
// sector allocator (a mutex) and the quota counters (atomics).
//
// This test intentionally does not use testing/synctest: the point is
// real parallelism on the shared state, under the race detector. Every
// oracle is therefore independent of the schedule:
//
//   - variant "ample" (files, bytes and sectors exactly sufficient for
//     everything all goroutines can hold at once): no operation may fail,
//     and every file equals the model of its goroutine after every step;
//   - variant "tight" (at least one of the three is insufficient): an
//     operation may be refused with the documented error for a resource
//     that is tight (InvalidArgument from the quota layer, nothing done;
//     ResourceExhausted from the allocator, WriteAt reports the bytes it
//     did write), never otherwise; the file is then what the reported
//     result says, compared byte for byte after every step;
//   - at every instant (observed below the quota layer, and in the spy
//     allocator) the files and bytes let through stay within the limits
//     and no sector is in two hands;
//   - after the goroutines are done: sectors handed out == data sectors
//     of all models, quota charged == files and bytes of all models
//     (exact probe), then everything is closed and the whole capacity
//     must be obtainable again (engine.finish).

type cconfig struct {
	config
	Variant      string `json:"variant"` // ample | tight
	Goroutines   int    `json:"goroutines"`
	Slots        int    `json:"slots"`       // files per goroutine
	FileSectors  int    `json:"fileSectors"` // no file grows beyond this many sectors
	TightFiles   bool   `json:"tightFiles,omitempty"`
	TightBytes   bool   `json:"tightBytes,omitempty"`
	TightSectors bool   `json:"tightSectors,omitempty"`
}

func (c cconfig) fileLimit() int64 { return int64(c.FileSectors) * int64(c.SS) }

type cscript struct {
	Cfg     cconfig  `json:"cfg"`
	Scripts [][]step `json:"scripts"` // one per goroutine; F is the goroutine's own slot
}

func (s cscript) String() string {
	b, _ := json.Marshal(s)
	return string(b)
}

func drawCConfig(rt *rapid.T) cconfig {
	c := cconfig{
		Goroutines:  rapid.IntRange(2, 4).Draw(rt, "goroutines"),
		Slots:       rapid.IntRange(1, 2).Draw(rt, "slots"),
		FileSectors: rapid.IntRange(2, 9).Draw(rt, "fileSectors"),
	}
	c.SS = rapid.SampledFrom([]int{1, 2, 3, 4, 8, 16, 512}).Draw(rt, "sectorSize")
	c.EOFAtEnd = rapid.Bool().Draw(rt, "deviceEOFAtEnd")
	files := c.Goroutines * c.Slots
	sectors := files * c.FileSectors
	c.MaxFiles = files
	c.MaxBytes = uint64(files) * uint64(c.fileLimit())
	c.Sectors = sectors + rapid.SampledFrom([]int{0, 0, 1, 7, 60}).Draw(rt, "spareSectors")
	c.Variant = "ample"
	if rapid.Bool().Draw(rt, "tight") {
		c.Variant = "tight"
		which := rapid.IntRange(1, 7).Draw(rt, "tightWhich")
		if which&1 != 0 && files > 1 {
			c.TightFiles = true
			c.MaxFiles = rapid.IntRange(1, files-1).Draw(rt, "maxFiles")
		}
		if which&2 != 0 {
			c.TightBytes = true
			hi := int(c.MaxBytes) - 1
			if rapid.Bool().Draw(rt, "verySmallQuota") && hi > 2*c.SS {
				hi = 2 * c.SS
			}
			c.MaxBytes = uint64(rapid.IntRange(1, hi).Draw(rt, "maxBytes"))
		}
		if which&4 != 0 || !(c.TightFiles || c.TightBytes) {
			c.TightSectors = true
			c.Sectors = rapid.IntRange(1, sectors-1).Draw(rt, "sectors")
		}
	}
	return c
}

// cgen draws the script of one goroutine against an optimistic model
// (every operation succeeds), so that offsets fall near the interesting
// places. At run time the script is executed against whatever state the
// files really have: every step is valid in every state (all offsets lie
// within the per-file limit; a step on a closed slot, or a "new" on an
// open one, is skipped).
type cgen struct {
	c     cconfig
	id    int
	sizes []int64 // optimistic size per slot, -1 = closed
	tag   int
}

func (g *cgen) nextTag() int {
	g.tag++
	return g.tag*4 + g.id
}

func (g *cgen) pos(rt *rapid.T, anchor, hi int64, label string) int64 {
	ss := int64(g.c.SS)
	switch rapid.IntRange(0, 3).Draw(rt, label+"Kind") {
	case 0:
		return clamp(anchor+int64(rapid.IntRange(-2, 2).Draw(rt, label+"Near")), 0, hi)
	case 1:
		idx := int64(rapid.IntRange(0, g.c.FileSectors).Draw(rt, label+"Sector"))
		return clamp(idx*ss+int64(rapid.IntRange(-1, 1).Draw(rt, label+"Edge")), 0, hi)
	default:
		return rapid.Int64Range(0, hi).Draw(rt, label)
	}
}

func (g *cgen) draw(rt *rapid.T) step {
	lim := g.c.fileLimit()
	var open, closed []int
	for i, s := range g.sizes {
		if s < 0 {
			closed = append(closed, i)
		} else {
			open = append(open, i)
		}
	}
	k := rapid.IntRange(0, 19).Draw(rt, "op")
	if len(open) == 0 || (len(closed) > 0 && k < 3) {
		if len(closed) == 0 {
			k = 5
		} else {
			st := step{Op: "new", F: closed[rapid.IntRange(0, len(closed)-1).Draw(rt, "slot")]}
			if rapid.Bool().Draw(rt, "sized") {
				st.Off = g.pos(rt, 0, lim, "initialSize")
			}
			if rapid.Bool().Draw(rt, "modelHoleSource") {
				hs := &hsSpec{Len: st.Off, Tag: g.nextTag()}
				if hs.Len > 0 && rapid.Bool().Draw(rt, "holeSourceHasHole") {
					hs.HoleA = rapid.Int64Range(0, hs.Len-1).Draw(rt, "holeA")
					hs.HoleB = rapid.Int64Range(hs.HoleA, hs.Len).Draw(rt, "holeB")
				}
				st.HS = hs
			}
			g.sizes[st.F] = st.Off
			return st
		}
	}
	f := open[rapid.IntRange(0, len(open)-1).Draw(rt, "file")]
	size := g.sizes[f]
	switch {
	case k < 9: // write
		st := step{Op: "write", F: f, Tag: g.nextTag()}
		st.Off = g.pos(rt, size, lim-1, "off")
		maxLen := int(lim - st.Off)
		switch rapid.IntRange(0, 3).Draw(rt, "lenKind") {
		case 0:
			st.Len = rapid.IntRange(1, g.c.SS).Draw(rt, "len")
		case 1:
			st.Len = rapid.IntRange(1, 3*g.c.SS).Draw(rt, "len")
		default:
			st.Len = rapid.IntRange(1, maxLen).Draw(rt, "len")
		}
		if st.Len > maxLen {
			st.Len = maxLen
		}
		if end := st.Off + int64(st.Len); end > size {
			g.sizes[f] = end
		}
		return st
	case k < 11: // read
		st := step{Op: "read", F: f}
		st.Off = g.pos(rt, size, lim+2, "off")
		st.Len = rapid.IntRange(0, int(lim)+1).Draw(rt, "len")
		return st
	case k < 14: // truncate
		st := step{Op: "trunc", F: f}
		if rapid.IntRange(0, 5).Draw(rt, "toZero") != 0 {
			st.Off = g.pos(rt, size, lim, "size")
		}
		g.sizes[f] = st.Off
		return st
	case k < 15:
		return step{Op: "seek", F: f, Off: g.pos(rt, size, lim+1, "off"), Region: rapid.SampledFrom([]string{"data", "hole"}).Draw(rt, "region")}
	case k < 17:
		// Grow and shrink back, N times: nothing but quota traffic.
		return step{Op: "churn", F: f, Off: int64(rapid.IntRange(1, int(lim)).Draw(rt, "by")), N: rapid.IntRange(5, 120).Draw(rt, "times")}
	case k < 19:
		// Append and cut off again, N times: allocator and quota traffic.
		return step{Op: "wchurn", F: f, Len: rapid.IntRange(1, 2*g.c.SS).Draw(rt, "len"), Tag: g.nextTag(), N: rapid.IntRange(5, 60).Draw(rt, "times")}
	default:
		g.sizes[f] = -1
		return step{Op: "close", F: f}
	}
}

// cworker is one goroutine with its own files and its own models.
type cworker struct {
	id    int
	c     cconfig
	e     *engine // shared, read-only here: pool, cfg, checkFile
	files []*ofile
	steps []step // executed steps with their results
	fail  error

	begin, end                          time.Time
	ops                                 int
	refusedFiles, refusedBytes, noSpace int
	skipped                             int
}

// refusal judges an InvalidArgument of the quota layer. Only NewFile can
// run into the file count quota; which of the two quotas refused a
// NewFile is visible in the message only.
func (w *cworker) refusal(err error, what string, newFile bool) error {
	switch {
	case newFile && strings.Contains(status.Convert(err).Message(), "count"):
		if !w.c.TightFiles {
			return fmt.Errorf("%s refused (%v) although the file count quota covers every file of every goroutine", what, err)
		}
		w.refusedFiles++
	default:
		if !w.c.TightBytes {
			return fmt.Errorf("%s refused (%v) although the size quota covers every file of every goroutine at its largest", what, err)
		}
		w.refusedBytes++
	}
	return nil
}

func (w *cworker) write(of *ofile, st *step, off int64, length int) error {
	p := pattern(st.Tag, off, length)
	size := of.m.size()
	needed := of.m.neededSectors(off, length)
	n, err := of.f.WriteAt(p, off)
	w.ops++
	st.Res = fmt.Sprintf("%d,%s", n, errText(err))
	if n < 0 || n > len(p) {
		return fmt.Errorf("WriteAt returned n=%d for %d bytes", n, len(p))
	}
	switch {
	case err == nil:
		if n != len(p) {
			return fmt.Errorf("WriteAt of %d bytes at %d returned (%d, nil)", len(p), off, n)
		}
	case status.Code(err) == codes.InvalidArgument:
		if n != 0 {
			return fmt.Errorf("WriteAt refused by the quota layer (%v) reports %d bytes written", err, n)
		}
		if off+int64(length) <= size {
			return fmt.Errorf("WriteAt of %d bytes at %d inside a file of %d bytes was refused: %v", length, off, size, err)
		}
		if e := w.refusal(err, fmt.Sprintf("WriteAt of %d bytes at %d growing a file of %d bytes", length, off, size), false); e != nil {
			return e
		}
	case status.Code(err) == codes.ResourceExhausted:
		if !w.c.TightSectors {
			return fmt.Errorf("WriteAt of %d bytes at %d ran out of sectors (%v) although the device covers every file of every goroutine at its largest", length, off, err)
		}
		if needed == 0 {
			return fmt.Errorf("WriteAt of %d bytes at %d ran out of sectors (%v) although every sector it touches is allocated", length, off, err)
		}
		if n >= len(p) {
			return fmt.Errorf("WriteAt returned (%d, %v) for %d bytes", n, err, len(p))
		}
		w.noSpace++
	default:
		return fmt.Errorf("WriteAt of %d bytes at %d failed with %v; only InvalidArgument (quota) and ResourceExhausted (sectors) are possible without faults", length, off, err)
	}
	if n > 0 {
		of.m.write(p[:n], off)
	}
	if err != nil && status.Code(err) == codes.ResourceExhausted {
		// The write stopped where it needed a new sector.
		stop := off + int64(n)
		if (n != 0 && stop%int64(w.c.SS) != 0) || of.m.isAlloc(stop/int64(w.c.SS)) {
			return fmt.Errorf("WriteAt of %d bytes at %d stopped for lack of sectors after %d bytes, which is not in front of a sector it had to allocate", length, off, n)
		}
	}
	return nil
}

func (w *cworker) truncate(of *ofile, st *step, size int64) error {
	old := of.m.size()
	err := of.f.Truncate(size)
	w.ops++
	st.Res = errText(err)
	if err != nil {
		if status.Code(err) != codes.InvalidArgument || size <= old {
			return fmt.Errorf("Truncate(%d) of a file of %d bytes failed: %v", size, old, err)
		}
		return w.refusal(err, fmt.Sprintf("Truncate(%d) of a file of %d bytes", size, old), false)
	}
	of.m.truncate(size)
	return nil
}

func (w *cworker) apply(st *step) (verr error) {
	defer func() {
		if r := recover(); r != nil {
			verr = fmt.Errorf("panic during %s on slot %d: %v\n%s", st.Op, st.F, r, debug.Stack())
		}
	}()
	of := w.files[st.F]
	if (st.Op == "new") != (of == nil) {
		st.Res = "skipped"
		w.skipped++
		return nil
	}
	lim := w.c.fileLimit()
	switch st.Op {
	case "new":
		var hs pool.HoleSource = pool.ZeroHoleSource
		var fhs *fakeHoleSource
		var content []byte
		var isData []bool
		if st.HS != nil {
			fhs = newFakeHoleSource(st.HS, nil, w.e.prob)
			hs = fhs
			content, isData = st.HS.content()
		}
		f, err := w.e.pool.NewFile(hs, uint64(st.Off))
		w.ops++
		st.Res = errText(err)
		if err != nil {
			if status.Code(err) != codes.InvalidArgument {
				return fmt.Errorf("NewFile(size=%d) failed with %v; only InvalidArgument (quota) is possible without faults", st.Off, err)
			}
			if st.Off == 0 && !w.c.TightFiles {
				return fmt.Errorf("NewFile(size=0) refused (%v) although the file count quota covers every file of every goroutine", err)
			}
			return w.refusal(err, fmt.Sprintf("NewFile(size=%d)", st.Off), true)
		}
		w.files[st.F] = &ofile{f: f, m: newMfile(w.c.SS, st.Off, content, isData), hs: fhs}
		return w.verify()

	case "write":
		if err := w.write(of, st, st.Off, st.Len); err != nil {
			return err
		}

	case "read":
		p := bytes.Repeat([]byte{0xee}, st.Len)
		n, err := of.f.ReadAt(p, st.Off)
		w.ops++
		st.Res = fmt.Sprintf("%d,%s", n, errText(err))
		if n < 0 || n > len(p) {
			return fmt.Errorf("ReadAt returned n=%d for a buffer of %d bytes", n, len(p))
		}
		size := of.m.size()
		if n > 0 {
			if st.Off+int64(n) > size {
				return fmt.Errorf("ReadAt(%d bytes at %d) returned %d bytes, past the file size %d", st.Len, st.Off, n, size)
			}
			if i := firstDiff(p[:n], of.m.data[st.Off:st.Off+int64(n)]); i >= 0 {
				return fmt.Errorf("ReadAt(%d bytes at %d): byte at offset %d is %#x, model says %#x", st.Len, st.Off, st.Off+int64(i), p[i], of.m.data[st.Off+int64(i)])
			}
		}
		if err := checkReadResult(st.Off, st.Len, size, n, err); err != nil {
			return err
		}

	case "trunc":
		if err := w.truncate(of, st, st.Off); err != nil {
			return err
		}

	case "seek":
		rt := filesystem.Data
		if st.Region == "hole" {
			rt = filesystem.Hole
		}
		got, err := of.f.GetNextRegionOffset(st.Off, rt)
		w.ops++
		st.Res = fmt.Sprintf("%d,%s", got, errText(err))
		if err := checkSeek(of.m, st.Off, rt, got, err); err != nil {
			return err
		}

	case "churn":
		var res []string
		for k := 0; k < st.N; k++ {
			size := of.m.size()
			to := size + st.Off
			if to > lim {
				to = lim
			}
			var sub step
			if err := w.truncate(of, &sub, to); err != nil {
				return fmt.Errorf("round %d: %v", k, err)
			}
			res = append(res, sub.Res)
			if err := w.truncate(of, &sub, size); err != nil {
				return fmt.Errorf("round %d: %v", k, err)
			}
		}
		st.Res = summarise(res)

	case "wchurn":
		var res []string
		for k := 0; k < st.N; k++ {
			size := of.m.size()
			off := size
			if off+int64(st.Len) > lim {
				off = lim - int64(st.Len)
			}
			if off < 0 {
				break
			}
			sub := step{Tag: st.Tag + 1024*k}
			if err := w.write(of, &sub, off, st.Len); err != nil {
				return fmt.Errorf("round %d: %v", k, err)
			}
			res = append(res, sub.Res)
			if err := w.truncate(of, &sub, size); err != nil {
				return fmt.Errorf("round %d: %v", k, err)
			}
		}
		st.Res = summarise(res)

	case "close":
		err := of.f.Close()
		w.ops++
		st.Res = errText(err)
		w.files[st.F] = nil
		if err != nil {
			return fmt.Errorf("Close failed: %v", err)
		}
		if of.hs != nil && of.hs.closed != 1 {
			return fmt.Errorf("Close closed the hole source of the file %d times, want exactly once", of.hs.closed)
		}

	default:
		panic("unknown op " + st.Op)
	}
	return w.verify()
}

// summarise compresses the per-round results of a churn step.
func summarise(res []string) string {
	counts := map[string]int{}
	var order []string
	for _, r := range res {
		if counts[r] == 0 {
			order = append(order, r)
		}
		counts[r]++
	}
	var parts []string
	for _, r := range order {
		parts = append(parts, fmt.Sprintf("%dx%s", counts[r], r))
	}
	return strings.Join(parts, " ")
}

// verify compares every file of this goroutine with its model: length,
// every byte, the data/hole map, hole source still open.
func (w *cworker) verify() error {
	for i, of := range w.files {
		if of == nil {
			continue
		}
		if err := w.e.checkFile(i, of, of.m, true); err != nil {
			return err
		}
		if of.hs != nil && of.hs.closed != 0 {
			return fmt.Errorf("slot %d is open, but its hole source has been closed (%d times)", i, of.hs.closed)
		}
	}
	return nil
}

// run executes the script of this goroutine. All goroutines of a case
// meet at one spinning barrier first, so that they start as close to
// each other as the machine allows (a closed channel wakes goroutines one
// by one, and scripts are short). There is no further synchronisation
// between the goroutines besides what the pool itself does: anything more
// would order accesses that the race detector is supposed to see as
// unordered. (Barriers between rounds of steps were tried: on a machine
// that is busy with other work the spinning costs five times the run time
// and does not make the goroutines overlap more often.)
func (w *cworker) run(script []step, arrived *atomic.Int32, goroutines int) {
	arrived.Add(1)
	for spins := 0; int(arrived.Load()) < goroutines; spins++ {
		if spins%1024 == 1023 {
			runtime.Gosched()
		}
	}
	w.begin = time.Now()
	defer func() { w.end = time.Now() }()
	for _, op := range script {
		if w.e.prob.bad.Load() {
			return
		}
		st := op
		err := w.apply(&st)
		w.steps = append(w.steps, st)
		if err != nil {
			w.fail = err
			return
		}
	}
}

const concurrentRule = "2..4 goroutines, each with 1..2 files of its own, run generated scripts (new/write/read/truncate/seek/close, plus 'churn' = N x grow+shrink and 'wchurn' = N x append+cut off) with real parallelism against ONE QuotaEnforcing(BlockDeviceBacked(BitmapSectorAllocator)) pool on an in-memory device, under the race detector; sector sizes {1,2,3,4,8,16,512}, 2..9 sectors per file. Variant ample (files, bytes, sectors exactly sufficient): nothing may fail. Variant tight (file count and/or size quota and/or device too small): a refusal is accepted only with the documented error of a resource that is tight, and leaves the file as the result says. In both: every file of a goroutine is compared with that goroutine's sparse-file model (length, all bytes, data/hole map) after every step; a lock-free spy allocator sees a sector handed out twice or returned twice at the instant it happens; a meter below the quota layer sees more files or bytes let through than the limits at the instant it happens; afterwards sectors handed out == data sectors of all models, quota charged == files/bytes of all models (exact probe), every hole source closed exactly once, and the whole capacity is obtained again. Results do not depend on the schedule; which refusals occur in variant tight does. The goroutines meet at one spinning barrier at the start and are not synchronised with each other afterwards. Non-trivial: the run intervals of at least two goroutines that each made >= 10 pool calls overlapped in time (measured with the monotonic clock, used for labels only; on a machine busy with other work fewer cases overlap); distinct by script hash"

func TestC15FilePoolConcurrent(t *testing.T) {
	rec := simkit.NewRecorder(t, "C15", "filepool-concurrent", concurrentRule)
	maxSteps := 30
	if thoroughTier() {
		maxSteps = 60
	}
	rapid.Check(t, func(rt *rapid.T) {
		c := drawCConfig(rt)
		sc := cscript{Cfg: c}
		for id := 0; id < c.Goroutines; id++ {
			g := &cgen{c: c, id: id, sizes: make([]int64, c.Slots)}
			for i := range g.sizes {
				g.sizes[i] = -1
			}
			n := rapid.IntRange(10, maxSteps).Draw(rt, "steps")
			var steps []step
			for i := 0; i < n; i++ {
				steps = append(steps, g.draw(rt))
			}
			sc.Scripts = append(sc.Scripts, steps)
		}

		e, meter := newConcurrentEngine(c.config)
		workers := make([]*cworker, c.Goroutines)
		var arrived atomic.Int32
		var wg sync.WaitGroup
		for id := range workers {
			w := &cworker{id: id, c: c, e: e, files: make([]*ofile, c.Slots)}
			workers[id] = w
			wg.Add(1)
			go func() {
				defer wg.Done()
				w.run(sc.Scripts[id], &arrived, c.Goroutines)
			}()
		}
		wg.Wait()

		executed := func() string {
			var all [][]step
			for _, w := range workers {
				all = append(all, w.steps)
			}
			b, _ := json.Marshal(all)
			return string(b)
		}
		for _, w := range workers {
			if w.fail != nil {
				rt.Fatalf("goroutine %d, step %d: %v; script=%s; executed=%s", w.id, len(w.steps)-1, w.fail, sc, executed())
			}
		}
		if p := e.prob.get(); p != "" {
			rt.Fatalf("%s; script=%s; executed=%s", p, sc, executed())
		}

		// Quiescent state: sectors, quota charged and meter against the
		// sum of all models.
		var open []*ofile
		dataSectors := 0
		var bytesUsed int64
		for _, w := range workers {
			for _, of := range w.files {
				if of != nil {
					open = append(open, of)
					dataSectors += of.m.dataSectors()
					bytesUsed += of.m.size()
				}
			}
		}
		if got := e.spy.outstandingCount(); got != dataSectors {
			rt.Fatalf("after the goroutines finished %d sectors are handed out (%v), the files hold %d data sectors according to the models; script=%s; executed=%s", got, e.spy.outstandingList(), dataSectors, sc, executed())
		}
		if f, b := meter.files.Load(), meter.bytes.Load(); f != int64(len(open)) || b != bytesUsed {
			rt.Fatalf("harness: meter counts %d files / %d bytes, models have %d / %d; script=%s; executed=%s", f, b, len(open), bytesUsed, sc, executed())
		}
		if err := e.probeQuota(len(open), c.MaxBytes-uint64(bytesUsed), open); err != nil {
			rt.Fatalf("after the goroutines finished: %v; script=%s; executed=%s", err, sc, executed())
		}
		for _, w := range workers {
			if err := w.verify(); err != nil {
				rt.Fatalf("after the goroutines finished: goroutine %d: %v; script=%s; executed=%s", w.id, err, sc, executed())
			}
		}
		for _, of := range open {
			if err := of.f.Close(); err != nil {
				rt.Fatalf("final Close failed: %v; script=%s; executed=%s", err, sc, executed())
			}
			if of.hs != nil && of.hs.closed != 1 {
				rt.Fatalf("final Close closed the hole source %d times, want exactly once; script=%s; executed=%s", of.hs.closed, sc, executed())
			}
		}
		if f, b := meter.files.Load(), meter.bytes.Load(); f != 0 || b != 0 {
			rt.Fatalf("harness: meter counts %d files / %d bytes after closing everything; script=%s", f, b, sc)
		}
		if err := e.finish(); err != nil {
			rt.Fatalf("%v; script=%s; executed=%s", err, sc, executed())
		}

		// Evidence.
		labels := []string{"variant:" + c.Variant, fmt.Sprintf("goroutines=%d", c.Goroutines), fmt.Sprintf("ss=%d", c.SS)}
		if c.TightFiles {
			labels = append(labels, "tight:files")
		}
		if c.TightBytes {
			labels = append(labels, "tight:bytes")
		}
		if c.TightSectors {
			labels = append(labels, "tight:sectors")
		}
		if c.Sectors > 64 {
			labels = append(labels, "device>64-sectors")
		}
		var rf, rb, ns int
		for _, w := range workers {
			rf += w.refusedFiles
			rb += w.refusedBytes
			ns += w.noSpace
		}
		// Goroutines that made at least ten pool calls and were at work at
		// the same time as another such goroutine.
		busyOverlapping := 0
		for i, w := range workers {
			if w.ops < 10 {
				continue
			}
			for j, o := range workers {
				if i != j && o.ops >= 10 && w.begin.Before(o.end) && o.begin.Before(w.end) {
					busyOverlapping++
					break
				}
			}
		}
		if rf > 0 {
			labels = append(labels, "refused:file-count")
		}
		if rb > 0 {
			labels = append(labels, "refused:size-quota")
		}
		if ns > 0 {
			labels = append(labels, "write-cut-short:no-sectors")
		}
		if busyOverlapping >= 2 {
			labels = append(labels, "goroutines-overlapped-in-time")
		}
		if busyOverlapping >= 3 {
			labels = append(labels, "3+-goroutines-overlapped-in-time")
		}
		rec.Case(sc, busyOverlapping >= 2, labels...)
	})
}

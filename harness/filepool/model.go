// Package filepool decides C15: the block-device backed, quota enforcing
// file pool of /repo/pkg/filesystem/pool against a naive sparse-file
// reference model, with fault enumeration and a separate model check of
// the bitmap sector allocator.
package filepool

// mfile is the reference model of one sparse file. It is deliberately
// naive: one byte slice for the contents, one bool per sector for the
// data/hole map, one bool per byte for the hole source's own data map.
// It shares no code with /repo.
type mfile struct {
	ss     int
	data   []byte // len(data) == file size
	alloc  []bool // alloc[i]: sector index i holds written data
	hsData []bool // hsData[x]: the hole source reports byte x as data; len == current hole source length (<= size)
	hsByte []byte // hsByte[x]: what the hole source itself holds at x; same length as hsData
}

// newMfile builds the model of a fresh file of the given size whose
// unwritten parts read as hsContent (zero padded); hsIsData tells which
// bytes of the hole source are data rather than holes.
func newMfile(ss int, size int64, hsContent []byte, hsIsData []bool) *mfile {
	m := &mfile{ss: ss, data: make([]byte, size)}
	copy(m.data, hsContent)
	m.hsData = append([]bool(nil), hsIsData...)
	m.hsByte = append([]byte(nil), hsContent...)
	if int64(len(m.hsData)) > size {
		m.hsData = m.hsData[:size]
	}
	if int64(len(m.hsByte)) > size {
		m.hsByte = m.hsByte[:size]
	}
	return m
}

func (m *mfile) clone() *mfile {
	return &mfile{
		ss:     m.ss,
		data:   append([]byte(nil), m.data...),
		alloc:  append([]bool(nil), m.alloc...),
		hsData: append([]bool(nil), m.hsData...),
		hsByte: append([]byte(nil), m.hsByte...),
	}
}

// holeSourceByte: what a read of byte x is served with when its sector
// is a hole (null bytes past the end of the hole source).
func (m *mfile) holeSourceByte(x int64) byte {
	if x < int64(len(m.hsByte)) {
		return m.hsByte[x]
	}
	return 0
}

func (m *mfile) size() int64 { return int64(len(m.data)) }

func (m *mfile) isAlloc(s int64) bool {
	return s < int64(len(m.alloc)) && m.alloc[s]
}

func (m *mfile) dataSectors() int {
	n := 0
	for _, a := range m.alloc {
		if a {
			n++
		}
	}
	return n
}

// neededSectors is the number of sectors a write of n bytes at off has to
// obtain from the allocator: the sectors it touches that are holes now.
func (m *mfile) neededSectors(off int64, n int) int {
	if n == 0 {
		return 0
	}
	c := 0
	for s := off / int64(m.ss); s <= (off+int64(n)-1)/int64(m.ss); s++ {
		if !m.isAlloc(s) {
			c++
		}
	}
	return c
}

// write applies a write of which the API reported len(p) bytes written.
func (m *mfile) write(p []byte, off int64) {
	if len(p) == 0 {
		return
	}
	end := off + int64(len(p))
	if end > int64(len(m.data)) {
		// The gap between the old size and off lies past the end of
		// the hole source, so it reads as null bytes.
		m.data = append(m.data, make([]byte, end-int64(len(m.data)))...)
	}
	copy(m.data[off:], p)
	last := (end - 1) / int64(m.ss)
	for int64(len(m.alloc)) <= last {
		m.alloc = append(m.alloc, false)
	}
	for s := off / int64(m.ss); s <= last; s++ {
		m.alloc[s] = true
	}
}

func (m *mfile) truncate(size int64) {
	if size >= int64(len(m.data)) {
		m.data = append(m.data, make([]byte, size-int64(len(m.data)))...)
		return
	}
	m.data = m.data[:size]
	// Sectors that lie entirely past the new size are given back.
	first := (size + int64(m.ss) - 1) / int64(m.ss)
	for s := first; s < int64(len(m.alloc)); s++ {
		m.alloc[s] = false
	}
	if int64(len(m.hsData)) > size {
		m.hsData = m.hsData[:size]
	}
	if int64(len(m.hsByte)) > size {
		m.hsByte = m.hsByte[:size]
	}
}

// isData: byte x (< size) belongs to a data region, either because its
// sector was written or because the hole source itself has data there.
func (m *mfile) isData(x int64) bool {
	if m.isAlloc(x / int64(m.ss)) {
		return true
	}
	return x < int64(len(m.hsData)) && m.hsData[x]
}

// nextData is lseek(SEEK_DATA): ok == false means io.EOF.
func (m *mfile) nextData(off int64) (int64, bool) {
	for x := off; x < m.size(); x++ {
		if m.isData(x) {
			return x, true
		}
	}
	return 0, false
}

// nextHole is lseek(SEEK_HOLE) for off < size: there is an implicit
// hole at the end of the file.
func (m *mfile) nextHole(off int64) int64 {
	for x := off; x < m.size(); x++ {
		if !m.isData(x) {
			return x
		}
	}
	return m.size()
}

// pattern returns the n bytes a write with the given tag places at file
// offset off. Bytes are never zero, depend on the absolute position and
// differ between tags (37 and 7 are coprime to 255), so stale, shifted or
// foreign data is distinguishable from both holes and the right data.
func pattern(tag int, off int64, n int) []byte {
	p := make([]byte, n)
	for i := range p {
		p[i] = byte(1 + (int64(tag)*37+(off+int64(i))*7)%255)
	}
	return p
}

package filepool

import (
	"bytes"
	"encoding/json"
	"fmt"
	"io"
	"runtime/debug"

	"github.com/buildbarn/bb-remote-execution/pkg/filesystem/pool"
	"github.com/buildbarn/bb-storage/pkg/filesystem"

	"google.golang.org/grpc/codes"
	"google.golang.org/grpc/status"
)

const maxSlots = 6 // one more than the largest file quota, so an over-quota NewFile always has a slot

type config struct {
	SS       int    `json:"ss"`
	Sectors  int    `json:"sectors"`
	MaxFiles int    `json:"maxFiles"`
	MaxBytes uint64 `json:"maxBytes"`
	EOFAtEnd bool   `json:"eofAtEnd,omitempty"`
}

// idxMax bounds the sector indices (not device sectors) a case touches:
// a single file can be larger than the whole device, so exhaustion and
// sparse layouts are both reachable, while the model stays small.
func (c config) idxMax() int { return c.Sectors + 4 }

// limit is the largest file size/offset+length a case uses.
func (c config) limit() int64 { return int64(c.idxMax()) * int64(c.SS) }

type step struct {
	Op     string  `json:"op"` // new write read trunc seek close
	F      int     `json:"f"`
	Off    int64   `json:"off,omitempty"`
	Len    int     `json:"len,omitempty"`
	Tag    int     `json:"tag,omitempty"`
	N      int     `json:"n,omitempty"`  // concurrent test, churn/wchurn: number of repetitions
	HS     *hsSpec `json:"hs,omitempty"` // new: nil = pool.ZeroHoleSource
	Region string  `json:"region,omitempty"`
	Res    string  `json:"res,omitempty"`
}

type script struct {
	Cfg    config      `json:"cfg"`
	Steps  []step      `json:"steps"`
	Faults []faultSpec `json:"faults,omitempty"` // the second one is numbered in the run that has the first one injected
}

func (s script) String() string {
	b, _ := json.Marshal(s)
	return string(b)
}

type ofile struct {
	f      filesystem.FileReadWriter
	m      *mfile
	gen    int
	shrunk bool // was shrunk while holding data or hole-source bytes in the cut-off part
	hs     *fakeHoleSource
}

type stats struct {
	frag, regrow, exhausted, quotaBytes, quotaFiles bool
	modelHS, hsHole, multi, reuse, partialSector    bool
	faultSurfaced, split                            bool
	truncFailedUntouched, truncFailedHalfDone       bool
	hsClosed                                        bool
}

type engine struct {
	cfg   config
	plan  *faultPlan
	prob  *problems
	dev   *memDevice
	raw   pool.SectorAllocator
	spy   *spyAllocator
	pool  pool.FilePool
	files [maxSlots]*ofile
	gens  int
	// quota model
	open      int
	bytesFree uint64
	st        stats
}

func newEngine(cfg config, plan *faultPlan) *engine {
	e := &engine{cfg: cfg, plan: plan, prob: &problems{}, bytesFree: cfg.MaxBytes}
	e.dev = &memDevice{data: make([]byte, cfg.SS*cfg.Sectors), plan: plan, prob: e.prob, eofAtEnd: cfg.EOFAtEnd}
	// The device starts out full of a byte no pattern write of this case
	// is expected to read back unwritten: stale device contents must
	// never show through a hole.
	for i := range e.dev.data {
		e.dev.data[i] = 0xa5
	}
	e.raw = pool.NewBitmapSectorAllocator(uint32(cfg.Sectors))
	e.spy = newSpy(e.raw, cfg.Sectors, plan, e.prob)
	bd := pool.NewBlockDeviceBackedFilePool(e.dev, e.spy, cfg.SS)
	e.pool = pool.NewQuotaEnforcingFilePool(&faultyPool{base: bd, plan: plan}, uint64(cfg.MaxFiles), cfg.MaxBytes)
	return e
}

// newConcurrentEngine builds the same stack for the concurrent test: the
// fakes get no fault plan (they are called from several goroutines), the
// spy skips its sequential-only statistics, and a meter below the quota
// layer counts what the quota layer lets through.
func newConcurrentEngine(cfg config) (*engine, *quotaMeter) {
	e := &engine{cfg: cfg, plan: noFaults(), prob: &problems{}, bytesFree: cfg.MaxBytes}
	e.dev = &memDevice{data: make([]byte, cfg.SS*cfg.Sectors), prob: e.prob, eofAtEnd: cfg.EOFAtEnd}
	for i := range e.dev.data {
		e.dev.data[i] = 0xa5
	}
	e.raw = pool.NewBitmapSectorAllocator(uint32(cfg.Sectors))
	e.spy = newSpy(e.raw, cfg.Sectors, nil, e.prob)
	e.spy.concurrent = true
	meter := &quotaMeter{maxFiles: int64(cfg.MaxFiles), maxBytes: int64(cfg.MaxBytes), prob: e.prob}
	bd := pool.NewBlockDeviceBackedFilePool(e.dev, e.spy, cfg.SS)
	e.pool = pool.NewQuotaEnforcingFilePool(&faultyPool{base: bd, meter: meter}, uint64(cfg.MaxFiles), cfg.MaxBytes)
	return e, meter
}

func (e *engine) openSlots() []int {
	var l []int
	for i, f := range e.files {
		if f != nil {
			l = append(l, i)
		}
	}
	return l
}

func (e *engine) emptySlots() []int {
	var l []int
	for i, f := range e.files {
		if f == nil {
			l = append(l, i)
		}
	}
	return l
}

func (e *engine) modelDataSectors() int {
	n := 0
	for _, f := range e.files {
		if f != nil {
			n += f.m.dataSectors()
		}
	}
	return n
}

func errText(err error) string {
	if err == nil {
		return "ok"
	}
	if err == io.EOF {
		return "EOF"
	}
	return status.Code(err).String()
}

// apply executes one scripted step against the real pool, compares the
// outcome with the model and then compares every open file with its
// model. A returned error is a property violation.
func (e *engine) apply(st *step) (verr error) {
	defer func() {
		if r := recover(); r != nil {
			verr = fmt.Errorf("panic during %s on file %d: %v\n%s", st.Op, st.F, r, debug.Stack())
		}
	}()
	firedBefore := len(e.plan.fired)
	// failing: the injected fault that fired during this very step and is
	// of a kind that makes the environment fail (the last one, if both
	// faults of a two-fault run hit the same step).
	failing := func() *faultSpec {
		for k := len(e.plan.fired) - 1; k >= firedBefore; k-- {
			if e.plan.fired[k].Kind != "one" {
				return &e.plan.fired[k]
			}
		}
		return nil
	}
	// lenient: such a fault fired; then an error result is legitimate and
	// the model follows what the API reported.
	lenient := func() bool { return failing() != nil }

	var of *ofile
	if st.Op != "new" {
		of = e.files[st.F]
		if of == nil {
			st.Res = "skipped"
			return nil
		}
		e.spy.curOwner = of.gen
	}
	shortBefore := e.spy.short
	callsBefore := e.spy.calls
	reuseBefore := e.spy.reusedXGen

	switch st.Op {
	case "new":
		if e.files[st.F] != nil {
			st.Res = "skipped"
			return nil
		}
		size := uint64(st.Off)
		var hs pool.HoleSource = pool.ZeroHoleSource
		var fhs *fakeHoleSource
		var content []byte
		var isData []bool
		if st.HS != nil {
			fhs = newFakeHoleSource(st.HS, e.plan, e.prob)
			hs = fhs
			content, isData = st.HS.content()
		}
		f, err := e.pool.NewFile(hs, size)
		st.Res = errText(err)
		switch {
		case e.open >= e.cfg.MaxFiles:
			e.st.quotaFiles = true
			if err == nil {
				return fmt.Errorf("NewFile succeeded although %d files are open and the quota is %d files", e.open, e.cfg.MaxFiles)
			}
			if status.Code(err) != codes.InvalidArgument {
				return fmt.Errorf("NewFile beyond the file count quota failed with %v, want InvalidArgument", err)
			}
		case size > e.bytesFree:
			e.st.quotaBytes = true
			if err == nil {
				return fmt.Errorf("NewFile(size=%d) succeeded although only %d bytes of quota remain", size, e.bytesFree)
			}
			if status.Code(err) != codes.InvalidArgument {
				return fmt.Errorf("NewFile beyond the size quota failed with %v, want InvalidArgument", err)
			}
		case err != nil:
			if !lenient() {
				return fmt.Errorf("NewFile(size=%d) failed with %v although %d of %d files are open and %d bytes of quota remain", size, err, e.open, e.cfg.MaxFiles, e.bytesFree)
			}
			e.st.faultSurfaced = true
		default:
			e.gens++
			e.files[st.F] = &ofile{f: f, m: newMfile(e.cfg.SS, int64(size), content, isData), gen: e.gens, hs: fhs}
			e.open++
			e.bytesFree -= size
			if st.HS != nil {
				e.st.modelHS = true
				if st.HS.HoleA < st.HS.HoleB && st.HS.HoleA < st.HS.Len {
					e.st.hsHole = true
				}
			}
		}

	case "write":
		p := pattern(st.Tag, st.Off, st.Len)
		size := of.m.size()
		n, err := of.f.WriteAt(p, st.Off)
		st.Res = fmt.Sprintf("%d,%s", n, errText(err))
		if n < 0 || n > len(p) {
			return fmt.Errorf("WriteAt returned n=%d for %d bytes", n, len(p))
		}
		if st.Off < 0 {
			if n != 0 || err == nil {
				return fmt.Errorf("WriteAt at negative offset returned (%d, %v)", n, err)
			}
			break
		}
		end := st.Off + int64(st.Len)
		var growth uint64
		if end > size {
			growth = uint64(end - size)
		}
		needed := of.m.neededSectors(st.Off, st.Len)
		free := e.cfg.Sectors - e.modelDataSectors()
		exhaustionExpected := false
		switch {
		case st.Len == 0:
			// An empty write changes nothing. (The quota layer may refuse
			// one that lies further past the end than the quota allows.)
			if n != 0 || (err != nil && growth <= e.bytesFree) {
				return fmt.Errorf("empty WriteAt returned (%d, %v)", n, err)
			}
		case growth > e.bytesFree:
			// Documented: the quota layer refuses the whole write.
			e.st.quotaBytes = true
			if n != 0 || err == nil {
				return fmt.Errorf("WriteAt growing the file by %d bytes returned (%d, %v) although only %d bytes of quota remain", growth, n, err, e.bytesFree)
			}
			if status.Code(err) != codes.InvalidArgument {
				return fmt.Errorf("WriteAt beyond the size quota failed with %v, want InvalidArgument", err)
			}
		case err != nil && lenient():
			e.st.faultSurfaced = true
		case needed <= free:
			if n != len(p) || err != nil {
				return fmt.Errorf("WriteAt of %d bytes at %d returned (%d, %v) although it needs %d new sectors and %d of %d are free", len(p), st.Off, n, err, needed, free, e.cfg.Sectors)
			}
		default:
			e.st.exhausted = true
			exhaustionExpected = true
			if err == nil || n >= len(p) {
				return fmt.Errorf("WriteAt of %d bytes at %d returned (%d, %v) although it needs %d new sectors and only %d are free", len(p), st.Off, n, err, needed, free)
			}
		}
		if n > 0 {
			newEnd := st.Off + int64(n)
			if newEnd > size {
				e.bytesFree -= uint64(newEnd - size)
				if of.shrunk {
					e.st.regrow = true
				}
			}
			if st.Off%int64(e.cfg.SS) != 0 || newEnd%int64(e.cfg.SS) != 0 {
				e.st.partialSector = true
			}
			of.m.write(p[:n], st.Off)
		}
		if exhaustionExpected {
			// The write stops early only once every sector is in use.
			if left := e.cfg.Sectors - e.modelDataSectors(); left != 0 {
				return fmt.Errorf("WriteAt stopped after %d of %d bytes with %v although %d sectors should still be free", n, len(p), err, left)
			}
		}

	case "read":
		p := bytes.Repeat([]byte{0xee}, st.Len)
		n, err := of.f.ReadAt(p, st.Off)
		st.Res = fmt.Sprintf("%d,%s", n, errText(err))
		if n < 0 || n > len(p) {
			return fmt.Errorf("ReadAt returned n=%d for a buffer of %d bytes", n, len(p))
		}
		if st.Off < 0 {
			if n != 0 || err == nil || err == io.EOF {
				return fmt.Errorf("ReadAt at negative offset returned (%d, %v)", n, err)
			}
			break
		}
		size := of.m.size()
		if n > 0 {
			if st.Off+int64(n) > size {
				return fmt.Errorf("ReadAt(%d bytes at %d) returned %d bytes, past the file size %d", st.Len, st.Off, n, size)
			}
			if i := firstDiff(p[:n], of.m.data[st.Off:st.Off+int64(n)]); i >= 0 {
				return fmt.Errorf("ReadAt(%d bytes at %d): byte at offset %d is %#x, model says %#x", st.Len, st.Off, st.Off+int64(i), p[i], of.m.data[st.Off+int64(i)])
			}
		}
		if err != nil && err != io.EOF && lenient() {
			e.st.faultSurfaced = true
			break
		}
		if err := checkReadResult(st.Off, st.Len, size, n, err); err != nil {
			return err
		}

	case "trunc":
		size := of.m.size()
		err := of.f.Truncate(st.Off)
		st.Res = errText(err)
		if st.Off < 0 {
			if err == nil {
				return fmt.Errorf("Truncate(%d) succeeded", st.Off)
			}
			break
		}
		switch {
		case st.Off > size && uint64(st.Off-size) > e.bytesFree:
			e.st.quotaBytes = true
			if err == nil {
				return fmt.Errorf("Truncate growing the file by %d bytes succeeded although only %d bytes of quota remain", st.Off-size, e.bytesFree)
			}
			if status.Code(err) != codes.InvalidArgument {
				return fmt.Errorf("Truncate beyond the size quota failed with %v, want InvalidArgument", err)
			}
		case err != nil:
			if !lenient() {
				return fmt.Errorf("Truncate(%d) of a file of %d bytes failed: %v", st.Off, size, err)
			}
			e.st.faultSurfaced = true
			// A failed Truncate must leave the file in one of the
			// states enumerated for the call that failed: length,
			// every byte and the data/hole map are compared, and the
			// matching state becomes the model.
			flt := failing()
			cands, names := e.truncFailureStates(of.m, st.Off, flt)
			matched := -1
			var firstErr error
			e.plan.paused = true
			others := e.modelDataSectors() - of.m.dataSectors()
			for k, c := range cands {
				cerr := e.checkFile(st.F, of, c, true)
				if got, want := e.spy.outstandingCount(), others+c.dataSectors(); cerr == nil && got != want {
					// Same bytes and data/hole map, but a different
					// number of sectors is in use: not this state.
					cerr = fmt.Errorf("%d sectors are handed out (%v), this state needs %d", got, e.spy.outstandingList(), want)
				}
				if cerr == nil {
					matched = k
					break
				}
				if firstErr == nil {
					firstErr = cerr
				}
			}
			e.plan.paused = false
			if matched < 0 {
				return fmt.Errorf("Truncate(%d) of a file of %d bytes failed (%v, injected %s:%s) and left the file in none of the states a failed truncation may leave behind %v; compared with the untouched file: %v", st.Off, size, err, flt.Site, flt.Kind, names, firstErr)
			}
			of.m = cands[matched]
			if names[matched] == "untouched" {
				e.st.truncFailedUntouched = true
			} else {
				e.st.truncFailedHalfDone = true
			}
			st.Res += "/" + names[matched]
		default:
			if st.Off < size {
				e.bytesFree += uint64(size - st.Off)
				if hasContent(of.m, st.Off) {
					of.shrunk = true
				}
			} else if st.Off > size {
				e.bytesFree -= uint64(st.Off - size)
				if of.shrunk {
					e.st.regrow = true
				}
			}
			if st.Off%int64(e.cfg.SS) != 0 {
				e.st.partialSector = true
			}
			of.m.truncate(st.Off)
		}

	case "seek":
		rt := filesystem.Data
		if st.Region == "hole" {
			rt = filesystem.Hole
		}
		got, err := of.f.GetNextRegionOffset(st.Off, rt)
		st.Res = fmt.Sprintf("%d,%s", got, errText(err))
		if st.Off < 0 {
			if err == nil || err == io.EOF {
				return fmt.Errorf("GetNextRegionOffset at negative offset returned (%d, %v)", got, err)
			}
			break
		}
		if err != nil && err != io.EOF && lenient() {
			e.st.faultSurfaced = true
			break
		}
		if err := checkSeek(of.m, st.Off, rt, got, err); err != nil {
			return err
		}

	case "close":
		err := of.f.Close()
		st.Res = errText(err)
		if err != nil {
			if !lenient() {
				return fmt.Errorf("Close failed: %v", err)
			}
			e.st.faultSurfaced = true
		}
		// Whatever Close reports, it has closed the hole source, once.
		if of.hs != nil {
			e.st.hsClosed = true
			if of.hs.closed != 1 {
				return fmt.Errorf("Close of file %d (%s) closed its hole source %d times, want exactly once", st.F, st.Res, of.hs.closed)
			}
		}
		// Whatever Close reports, the file is gone and everything it
		// held must be back in the pool.
		e.open--
		e.bytesFree += uint64(of.m.size())
		e.files[st.F] = nil

	default:
		panic("unknown op " + st.Op)
	}

	if e.spy.short > shortBefore {
		e.st.frag = true
	}
	if st.Op == "write" && e.spy.calls-callsBefore >= 4 {
		e.st.split = true
	}
	if e.spy.reusedXGen > reuseBefore {
		e.st.reuse = true
	}
	withData := 0
	for _, f := range e.files {
		if f != nil && f.m.dataSectors() > 0 {
			withData++
		}
	}
	if withData >= 2 {
		e.st.multi = true
	}
	return e.invariants(st.F)
}

// hasContent: does the part of the file from off on hold anything but
// null bytes (so that a shrink really discards something)?
func hasContent(m *mfile, off int64) bool {
	for _, b := range m.data[off:] {
		if b != 0 {
			return true
		}
	}
	return false
}

func firstDiff(a, b []byte) int {
	if bytes.Equal(a, b) {
		return -1
	}
	for i := range a {
		if i >= len(b) || a[i] != b[i] {
			return i
		}
	}
	return len(a)
}

// checkReadResult validates count and error of a ReadAt against the
// io.ReaderAt contract for a file of the given size.
func checkReadResult(off int64, length int, size int64, n int, err error) error {
	if err != nil && err != io.EOF {
		return fmt.Errorf("ReadAt(%d bytes at %d) of a file of %d bytes failed: %v", length, off, size, err)
	}
	if length == 0 {
		if n != 0 {
			return fmt.Errorf("empty ReadAt returned %d bytes", n)
		}
		return nil
	}
	want := int64(length)
	if off >= size {
		want = 0
	} else if off+want > size {
		want = size - off
	}
	if int64(n) != want {
		return fmt.Errorf("ReadAt(%d bytes at %d) of a file of %d bytes returned %d bytes, want %d", length, off, size, n, want)
	}
	switch {
	case off+int64(length) > size:
		if err != io.EOF {
			return fmt.Errorf("ReadAt(%d bytes at %d) past the end of a file of %d bytes returned error %v, want io.EOF", length, off, size, err)
		}
	case off+int64(length) < size:
		if err != nil {
			return fmt.Errorf("ReadAt(%d bytes at %d) inside a file of %d bytes returned error %v", length, off, size, err)
		}
	}
	// A full read that ends exactly at the end of the file may report
	// either nil or io.EOF (io.ReaderAt).
	return nil
}

func checkSeek(m *mfile, off int64, rt filesystem.RegionType, got int64, err error) error {
	name := "Data"
	if rt == filesystem.Hole {
		name = "Hole"
	}
	if err != nil && err != io.EOF {
		return fmt.Errorf("GetNextRegionOffset(%d, %s) failed: %v", off, name, err)
	}
	if off >= m.size() {
		if err != io.EOF {
			return fmt.Errorf("GetNextRegionOffset(%d, %s) at or past the end of a file of %d bytes returned (%d, %v), want io.EOF", off, name, m.size(), got, err)
		}
		return nil
	}
	if rt == filesystem.Data {
		want, ok := m.nextData(off)
		if !ok {
			if err != io.EOF {
				return fmt.Errorf("GetNextRegionOffset(%d, Data) returned (%d, %v), model has no data from there on (want io.EOF)", off, got, err)
			}
			return nil
		}
		if err != nil || got != want {
			return fmt.Errorf("GetNextRegionOffset(%d, Data) returned (%d, %v), model says %d", off, got, err, want)
		}
		return nil
	}
	want := m.nextHole(off)
	if err != nil || got != want {
		return fmt.Errorf("GetNextRegionOffset(%d, Hole) returned (%d, %v), model says %d", off, got, err, want)
	}
	return nil
}

// invariants runs after every step with fault injection paused: problems
// seen by the fakes, sector conservation, and every open file compared
// with its model (size, all bytes; data/hole map of the touched file).
func (e *engine) invariants(touched int) error {
	e.plan.paused = true
	defer func() { e.plan.paused = false }()
	if p := e.prob.get(); p != "" {
		return fmt.Errorf("%s", p)
	}
	if got, want := e.spy.outstandingCount(), e.modelDataSectors(); got != want {
		return fmt.Errorf("%d sectors are handed out (%v) but the files hold %d data sectors according to the model", got, e.spy.outstandingList(), want)
	}
	for i, of := range e.files {
		if of == nil {
			continue
		}
		if err := e.checkFile(i, of, of.m, i == touched); err != nil {
			return err
		}
		// The hole source lives as long as its file: it is closed by the
		// file's Close, not before the last use.
		if of.hs != nil && of.hs.closed != 0 {
			return fmt.Errorf("file %d is open, but its hole source has been closed (%d times)", i, of.hs.closed)
		}
	}
	if err := e.probeQuota(e.open, e.bytesFree, e.files[:]); err != nil {
		return err
	}
	if p := e.prob.get(); p != "" {
		return fmt.Errorf("%s", p)
	}
	return nil
}

// probeQuota measures, after every step, what the quota layer has
// actually charged, so that a mis-charge is seen when it happens and not
// only when a later operation crosses the limit or at the very end (where
// it may have cancelled out at Close). Nothing here touches a sector, the
// device or a hole source of the case, and everything obtained is given
// back before returning:
//
//   - file count: exactly MaxFiles-open further (empty, zero-hole-source)
//     files can be created, not one more;
//   - bytes, through a scratch file if the file count leaves room for
//     one: Truncate to bytesFree+1 is refused, to bytesFree is granted;
//   - bytes, through every open file of the case: an EMPTY WriteAt at
//     offset size+bytesFree+1 is refused by the quota layer and one at
//     size+bytesFree is granted. The quota layer charges the distance
//     from the file's size to the end of the write before it forwards
//     the write and releases whatever the write did not use afterwards;
//     an empty write uses nothing and is answered (0, nil) by the base
//     file without looking at the offset. This also compares the size
//     the quota layer has on record for each single file with the model.
func (e *engine) probeQuota(open int, bytesFree uint64, files []*ofile) (verr error) {
	var scratch []filesystem.FileReadWriter
	defer func() {
		for _, f := range scratch {
			if err := f.Close(); err != nil && verr == nil {
				verr = fmt.Errorf("quota probe: closing an empty scratch file failed: %v", err)
			}
		}
	}()
	for i := open; i < e.cfg.MaxFiles; i++ {
		f, err := e.pool.NewFile(pool.ZeroHoleSource, 0)
		if err != nil {
			return fmt.Errorf("quota probe: %d files are open and the quota is %d files, but creating file number %d fails: %v", open, e.cfg.MaxFiles, i+1, err)
		}
		scratch = append(scratch, f)
	}
	if f, err := e.pool.NewFile(pool.ZeroHoleSource, 0); err == nil {
		scratch = append(scratch, f)
		return fmt.Errorf("quota probe: %d files are open and the quota is %d files, but %d files can be created", open, e.cfg.MaxFiles, e.cfg.MaxFiles+1)
	} else if status.Code(err) != codes.InvalidArgument {
		return fmt.Errorf("quota probe: NewFile beyond the file count quota failed with %v, want InvalidArgument", err)
	}
	free := int64(bytesFree)
	if len(scratch) > 0 {
		f := scratch[0]
		if err := f.Truncate(free + 1); err == nil {
			return fmt.Errorf("quota probe: %d bytes of the size quota of %d should be left, but a scratch file can be grown to %d bytes", free, e.cfg.MaxBytes, free+1)
		} else if status.Code(err) != codes.InvalidArgument {
			return fmt.Errorf("quota probe: Truncate beyond the size quota failed with %v, want InvalidArgument", err)
		}
		if err := f.Truncate(free); err != nil {
			return fmt.Errorf("quota probe: %d bytes of the size quota of %d should be left, but a scratch file cannot be grown to %d bytes: %v", free, e.cfg.MaxBytes, free, err)
		}
		if err := f.Truncate(0); err != nil {
			return fmt.Errorf("quota probe: Truncate(0) of a scratch file without data failed: %v", err)
		}
	}
	for i, of := range files {
		if of == nil {
			continue
		}
		size := of.m.size()
		if n, err := of.f.WriteAt(nil, size+free+1); n != 0 || status.Code(err) != codes.InvalidArgument {
			return fmt.Errorf("quota probe: %d bytes of the size quota of %d should be left, but an empty write %d bytes past the end of file %d (size %d) returned (%d, %v), want InvalidArgument", free, e.cfg.MaxBytes, free+1, i, size, n, err)
		}
		if n, err := of.f.WriteAt(nil, size+free); n != 0 || err != nil {
			return fmt.Errorf("quota probe: %d bytes of the size quota of %d should be left, but an empty write %d bytes past the end of file %d (size %d) returned (%d, %v)", free, e.cfg.MaxBytes, free, i, size, n, err)
		}
	}
	return nil
}

// truncFailureStates enumerates the states a Truncate(newSize) that
// reported an injected failure may leave the file in, as models. Quota
// and length never change on failure.
//
//   - The device write that zeroes the tail of the new last sector fails:
//     it is the first thing a shrinking truncation does, so the file is
//     untouched - except that an honest short write has zeroed exactly
//     the bytes it reported, all of them past the requested size and
//     inside that one sector. No other byte and no sector may be lost.
//   - The hole source's Truncate fails (the last step): either nothing
//     happened, or everything but that step did - the sectors past the
//     new size are released, the tail of the new last sector is zeroed,
//     the length is still the old one and the cut-off part reads as what
//     the (untruncated) hole source holds there.
func (e *engine) truncFailureStates(m *mfile, newSize int64, flt *faultSpec) ([]*mfile, []string) {
	ss := int64(m.ss)
	old := m.size()
	site := flt.Site
	untouched := m.clone()
	if newSize >= old {
		return []*mfile{untouched}, []string{"untouched"}
	}
	sectorEnd := (newSize/ss + 1) * ss
	tailEnd := sectorEnd
	if tailEnd > old {
		tailEnd = old
	}
	lastIsData := newSize%ss != 0 && m.isAlloc(newSize/ss)
	switch site {
	case "dev.write":
		if flt.Kind == "short" && lastIsData {
			k := (tailEnd - newSize) / 2
			for x := newSize; x < newSize+k; x++ {
				untouched.data[x] = 0
			}
			return []*mfile{untouched}, []string{"untouched-but-reported-bytes-zeroed"}
		}
		return []*mfile{untouched}, []string{"untouched"}
	case "hs.trunc":
		done := m.clone()
		firstFreed := (newSize + ss - 1) / ss
		for s := firstFreed; s < int64(len(done.alloc)); s++ {
			done.alloc[s] = false
		}
		if lastIsData {
			for x := newSize; x < tailEnd; x++ {
				done.data[x] = 0
			}
		}
		for x := firstFreed * ss; x < old; x++ {
			done.data[x] = done.holeSourceByte(x)
		}
		return []*mfile{untouched, done}, []string{"untouched", "all-but-hole-source-truncated"}
	}
	return []*mfile{untouched}, []string{"untouched"}
}

func (e *engine) checkFile(i int, of *ofile, m *mfile, probe bool) error {
	size := m.size()
	l, err := of.f.Len()
	if err != nil || l != size {
		return fmt.Errorf("file %d: Len() = (%d, %v), model size %d", i, l, err, size)
	}
	buf := bytes.Repeat([]byte{0xee}, int(size)+1)
	n, err := of.f.ReadAt(buf, 0)
	if int64(n) != size || err != io.EOF {
		return fmt.Errorf("file %d: reading the whole file (%d bytes + 1) returned (%d, %v)", i, size, n, err)
	}
	if d := firstDiff(buf[:n], m.data); d >= 0 {
		return fmt.Errorf("file %d: byte at offset %d is %#x, model says %#x (sector size %d)", i, d, buf[d], m.data[d], e.cfg.SS)
	}
	if !probe {
		return nil
	}
	// Data/hole map: probe around every sector boundary and the end.
	nextData, nextHole := seekTables(m)
	ss := int64(e.cfg.SS)
	probeAt := func(x int64) error {
		if x < 0 || x > size {
			return nil
		}
		for _, rt := range []filesystem.RegionType{filesystem.Data, filesystem.Hole} {
			got, err := of.f.GetNextRegionOffset(x, rt)
			var werr error
			var want int64
			switch {
			case x >= size:
				werr = io.EOF
			case rt == filesystem.Data:
				want = nextData[x]
				if want < 0 {
					want, werr = 0, io.EOF
				}
			default:
				want = nextHole[x]
			}
			if err != werr || (werr == nil && got != want) {
				return fmt.Errorf("file %d: GetNextRegionOffset(%d, %v) = (%d, %v), model says (%d, %v) (size %d, sector size %d)", i, x, rt, got, err, want, werr, size, ss)
			}
		}
		return nil
	}
	for b := int64(0); b <= size+ss; b += ss {
		for _, x := range []int64{b - 1, b, b + 1} {
			if err := probeAt(x); err != nil {
				return err
			}
		}
	}
	for _, x := range []int64{size - 1, size} {
		if err := probeAt(x); err != nil {
			return err
		}
	}
	return nil
}

// seekTables computes the model's SEEK_DATA / SEEK_HOLE answer for every
// offset below the size in one backward pass (-1 = io.EOF for data).
func seekTables(m *mfile) (nextData, nextHole []int64) {
	size := m.size()
	nextData = make([]int64, size+1)
	nextHole = make([]int64, size+1)
	nextData[size] = -1
	nextHole[size] = size
	for x := size - 1; x >= 0; x-- {
		if m.isData(x) {
			nextData[x] = x
			nextHole[x] = nextHole[x+1]
		} else {
			nextData[x] = nextData[x+1]
			nextHole[x] = x
		}
	}
	return
}

// finish closes every file and then checks that the pool is as good as
// new: no sector handed out, the full file and byte quota obtainable,
// and every sector of the device allocatable again.
func (e *engine) finish() (verr error) {
	defer func() {
		if r := recover(); r != nil {
			verr = fmt.Errorf("panic while closing files / re-obtaining the capacity: %v\n%s", r, debug.Stack())
		}
	}()
	e.plan.paused = true
	for i, of := range e.files {
		if of == nil {
			continue
		}
		e.spy.curOwner = of.gen
		if err := of.f.Close(); err != nil {
			return fmt.Errorf("final Close of file %d failed: %v", i, err)
		}
		if of.hs != nil {
			e.st.hsClosed = true
			if of.hs.closed != 1 {
				return fmt.Errorf("final Close of file %d closed its hole source %d times, want exactly once", i, of.hs.closed)
			}
		}
		e.files[i] = nil
	}
	e.spy.curOwner = -1
	if p := e.prob.get(); p != "" {
		return fmt.Errorf("%s", p)
	}
	if n := e.spy.outstandingCount(); n != 0 {
		return fmt.Errorf("after closing every file %d sectors are still handed out: %v", n, e.spy.outstandingList())
	}

	// File count quota.
	var fs []filesystem.FileReadWriter
	for i := 0; i < e.cfg.MaxFiles; i++ {
		f, err := e.pool.NewFile(pool.ZeroHoleSource, 0)
		if err != nil {
			return fmt.Errorf("after closing every file only %d of the %d files of the quota can be created: %v", i, e.cfg.MaxFiles, err)
		}
		fs = append(fs, f)
	}
	if f, err := e.pool.NewFile(pool.ZeroHoleSource, 0); err == nil {
		f.Close()
		return fmt.Errorf("after closing every file %d files can be created, quota is %d", e.cfg.MaxFiles+1, e.cfg.MaxFiles)
	}
	for _, f := range fs {
		if err := f.Close(); err != nil {
			return fmt.Errorf("closing an empty file failed: %v", err)
		}
	}

	// Byte quota, through both ways of obtaining it.
	f, err := e.pool.NewFile(pool.ZeroHoleSource, e.cfg.MaxBytes)
	if err != nil {
		return fmt.Errorf("after closing every file a file of the full size quota (%d bytes) cannot be created: %v", e.cfg.MaxBytes, err)
	}
	if err := f.Truncate(int64(e.cfg.MaxBytes) + 1); err == nil {
		return fmt.Errorf("after closing every file the size quota (%d bytes) admits %d bytes", e.cfg.MaxBytes, e.cfg.MaxBytes+1)
	}
	if err := f.Close(); err != nil {
		return fmt.Errorf("closing failed: %v", err)
	}
	f, err = e.pool.NewFile(pool.ZeroHoleSource, 0)
	if err != nil {
		return fmt.Errorf("NewFile failed on an empty pool: %v", err)
	}
	if err := f.Truncate(int64(e.cfg.MaxBytes)); err != nil {
		return fmt.Errorf("after closing every file, growing a file to the full size quota (%d bytes) fails: %v", e.cfg.MaxBytes, err)
	}
	if err := f.Truncate(int64(e.cfg.MaxBytes) + 1); err == nil {
		return fmt.Errorf("after closing every file the size quota (%d bytes) admits %d bytes", e.cfg.MaxBytes, e.cfg.MaxBytes+1)
	}
	if err := f.Truncate(0); err != nil {
		return fmt.Errorf("Truncate(0) failed: %v", err)
	}

	// Sectors, through the file API: the whole device fits in one file.
	capBytes := int64(e.cfg.SS) * int64(e.cfg.Sectors)
	if uint64(capBytes) <= e.cfg.MaxBytes {
		p := pattern(251, 0, int(capBytes))
		n, err := f.WriteAt(p, 0)
		if n != len(p) || err != nil {
			return fmt.Errorf("after closing every file, writing the device capacity (%d bytes) into one file returned (%d, %v)", capBytes, n, err)
		}
		buf := make([]byte, capBytes)
		if n, err := f.ReadAt(buf, 0); n != len(buf) || (err != nil && err != io.EOF) || !bytes.Equal(buf, p) {
			return fmt.Errorf("reading back a file filling the whole device returned (%d, %v), equal=%v", n, err, bytes.Equal(buf, p))
		}
		if uint64(capBytes) < e.cfg.MaxBytes {
			if n, err := f.WriteAt([]byte{1}, capBytes); n != 0 || err == nil {
				return fmt.Errorf("writing one byte more than the device holds returned (%d, %v)", n, err)
			}
		}
	}
	if err := f.Close(); err != nil {
		return fmt.Errorf("closing failed: %v", err)
	}
	if p := e.prob.get(); p != "" {
		return fmt.Errorf("%s", p)
	}
	if n := e.spy.outstandingCount(); n != 0 {
		return fmt.Errorf("after the capacity check %d sectors are still handed out: %v", n, e.spy.outstandingList())
	}

	// Sectors, at the allocator itself: exactly cfg.Sectors distinct ones.
	seen := map[uint32]bool{}
	var all []uint32
	for {
		first, n, err := e.raw.AllocateContiguous(e.cfg.Sectors + 1)
		if err != nil {
			break
		}
		if n < 1 {
			return fmt.Errorf("allocator returned %d sectors without error", n)
		}
		for i := 0; i < n; i++ {
			s := first + uint32(i)
			if s < 1 || int(s) > e.cfg.Sectors || seen[s] {
				return fmt.Errorf("after closing every file the allocator hands out sector %d (valid 1..%d, duplicate=%v)", s, e.cfg.Sectors, seen[s])
			}
			seen[s] = true
			all = append(all, s)
		}
		if len(all) > e.cfg.Sectors {
			break
		}
	}
	if len(all) != e.cfg.Sectors {
		return fmt.Errorf("after closing every file the allocator hands out %d sectors, the device has %d", len(all), e.cfg.Sectors)
	}
	e.raw.FreeList(all)
	return nil
}

func (s stats) labels() []string {
	var l []string
	add := func(b bool, n string) {
		if b {
			l = append(l, n)
		}
	}
	add(s.frag, "fragmentation")
	add(s.split, "one-write-in-4+-allocations")
	add(s.regrow, "shrink-then-regrow")
	add(s.exhausted, "sector-exhaustion")
	add(s.quotaBytes, "quota-bytes-refused")
	add(s.quotaFiles, "quota-files-refused")
	add(s.modelHS, "model-hole-source")
	add(s.hsHole, "hole-source-with-hole")
	add(s.multi, "two-files-with-data")
	add(s.reuse, "sector-reused-by-other-file")
	add(s.partialSector, "unaligned")
	add(s.hsClosed, "hole-source-closed-once-checked")
	return l
}

func (s stats) nontrivial() bool { return s.frag || s.regrow || s.exhausted }

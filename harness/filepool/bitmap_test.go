package filepool

import (
	"encoding/json"
	"runtime/debug"
	"sort"
	"testing"

	"github.com/buildbarn/bb-remote-execution/pkg/filesystem/pool"
	"pgregory.net/rapid"

	"verif/harness/internal/simkit"
)

type bstep struct {
	Op      string   `json:"op"` // alloc freeRun freeList
	Max     int      `json:"max,omitempty"`
	First   uint32   `json:"first,omitempty"`
	Count   int      `json:"count,omitempty"`
	Sectors []uint32 `json:"sectors,omitempty"`
	Res     string   `json:"res,omitempty"`
}

type bscript struct {
	N     int     `json:"n"`
	Steps []bstep `json:"steps"`
}

func (s bscript) String() string {
	b, _ := json.Marshal(s)
	return string(b)
}

var bitmapSizes = []int{1, 2, 3, 4, 5, 6, 7, 8, 63, 64, 65, 127, 128, 129, 191, 192, 193}

const bitmapRule = "rapid state machine (AllocateContiguous / FreeContiguous of any handed-out consecutive run / FreeList of any handed-out subset with zeros mixed in) over NewBitmapSectorAllocator(n), n in {1..8,63..65,127..129,191..193}; oracle: set model - a result is a run of 1..max sectors inside 1..n that are all free in the model, an error only when the model has no free sector, frees return exactly the named sectors (observed through later allocations), and after freeing everything exactly n distinct sectors can be allocated again. Non-trivial: a short run was returned while sectors were free (fragmentation), OR an allocation wrapped around to a lower sector, OR a run crossed a 64-sector word boundary; distinct by script hash"

func TestC15BitmapAllocatorModel(t *testing.T) {
	rec := simkit.NewRecorder(t, "C15", "bitmap-allocator", bitmapRule)
	rapid.Check(t, func(rt *rapid.T) {
		n := rapid.SampledFrom(bitmapSizes).Draw(rt, "sectors")
		sa := pool.NewBitmapSectorAllocator(uint32(n))
		used := make([]bool, n+2) // used[s] for sector s in 1..n
		usedCount := 0
		sc := bscript{N: n}
		var short, wrap, cross, exhausted, freeCross bool
		lastFirst := uint32(0)

		guard := func(what string, f func()) {
			defer func() {
				if r := recover(); r != nil {
					rt.Fatalf("panic in %s: %v\n%s; script=%v", what, r, debug.Stack(), sc)
				}
			}()
			f()
		}
		usedList := func() []uint32 {
			var l []uint32
			for s := 1; s <= n; s++ {
				if used[s] {
					l = append(l, uint32(s))
				}
			}
			return l
		}
		alloc := func(max int) {
			var first uint32
			var got int
			var err error
			guard("AllocateContiguous", func() { first, got, err = sa.AllocateContiguous(max) })
			st := bstep{Op: "alloc", Max: max, First: first, Count: got}
			if err != nil {
				st.Res = "err"
			}
			sc.Steps = append(sc.Steps, st)
			if err != nil {
				if usedCount != n {
					rt.Fatalf("AllocateContiguous(%d) failed with %v while %d of %d sectors are free; script=%v", max, err, n-usedCount, n, sc)
				}
				exhausted = true
				return
			}
			if usedCount == n {
				rt.Fatalf("AllocateContiguous(%d) returned sectors %d+%d although none is free; script=%v", max, first, got, sc)
			}
			if got < 1 || got > max {
				rt.Fatalf("AllocateContiguous(%d) returned %d sectors; script=%v", max, got, sc)
			}
			for i := 0; i < got; i++ {
				s := int(first) + i
				if s < 1 || s > n {
					rt.Fatalf("AllocateContiguous(%d) returned sector %d, outside 1..%d; script=%v", max, s, n, sc)
				}
				if used[s] {
					rt.Fatalf("AllocateContiguous(%d) handed out sector %d twice; script=%v", max, s, sc)
				}
				used[s] = true
				usedCount++
			}
			if got < max && usedCount < n {
				short = true
			}
			if first < lastFirst {
				wrap = true
			}
			lastFirst = first
			if (first-1)/64 != (first-1+uint32(got)-1)/64 {
				cross = true
			}
		}

		rt.Repeat(map[string]func(*rapid.T){
			"alloc": func(rt *rapid.T) {
				var max int
				switch rapid.IntRange(0, 3).Draw(rt, "maxKind") {
				case 0:
					max = rapid.IntRange(1, 4).Draw(rt, "max")
				case 1:
					max = rapid.IntRange(1, n+2).Draw(rt, "max")
				case 2:
					max = 64*rapid.IntRange(1, 3).Draw(rt, "words") + rapid.IntRange(-1, 1).Draw(rt, "delta")
				default:
					max = rapid.IntRange(1, 70).Draw(rt, "max")
				}
				alloc(max)
			},
			"freeRun": func(rt *rapid.T) {
				l := usedList()
				if len(l) == 0 {
					alloc(1)
					return
				}
				first := l[rapid.IntRange(0, len(l)-1).Draw(rt, "start")]
				run := 1
				for int(first)+run <= n && used[int(first)+run] {
					run++
				}
				count := rapid.IntRange(1, run).Draw(rt, "count")
				sc.Steps = append(sc.Steps, bstep{Op: "freeRun", First: first, Count: count})
				guard("FreeContiguous", func() { sa.FreeContiguous(first, count) })
				for i := 0; i < count; i++ {
					used[int(first)+i] = false
					usedCount--
				}
				if (first-1)/64 != (first-1+uint32(count)-1)/64 {
					freeCross = true
				}
			},
			"freeList": func(rt *rapid.T) {
				l := usedList()
				if len(l) == 0 {
					alloc(1)
					return
				}
				m := rapid.IntRange(1, len(l)).Draw(rt, "howMany")
				if rapid.Bool().Draw(rt, "few") && m > 4 {
					m = 4
				}
				var list []uint32
				for i := 0; i < m; i++ {
					k := rapid.IntRange(0, len(l)-1).Draw(rt, "pick")
					list = append(list, l[k])
					l = append(l[:k], l[k+1:]...)
					if rapid.IntRange(0, 3).Draw(rt, "zero") == 0 {
						list = append(list, 0)
					}
				}
				sc.Steps = append(sc.Steps, bstep{Op: "freeList", Sectors: list})
				guard("FreeList", func() { sa.FreeList(list) })
				for _, s := range list {
					if s != 0 {
						used[s] = false
						usedCount--
					}
				}
			},
		})

		// Free everything, then the full capacity must be there again.
		if l := usedList(); len(l) > 0 {
			guard("FreeList", func() { sa.FreeList(l) })
			for _, s := range l {
				used[s] = false
			}
			usedCount = 0
		}
		var all []int
		seen := map[uint32]bool{}
		for len(all) <= n {
			var first uint32
			var got int
			var err error
			guard("AllocateContiguous", func() { first, got, err = sa.AllocateContiguous(n + 1) })
			if err != nil {
				break
			}
			if got < 1 {
				rt.Fatalf("AllocateContiguous returned %d sectors without error; script=%v", got, sc)
			}
			for i := 0; i < got; i++ {
				s := first + uint32(i)
				if s < 1 || int(s) > n || seen[s] {
					rt.Fatalf("after freeing everything the allocator hands out sector %d (valid 1..%d, duplicate=%v); script=%v", s, n, seen[s], sc)
				}
				seen[s] = true
				all = append(all, int(s))
			}
		}
		sort.Ints(all)
		if len(all) != n {
			rt.Fatalf("after freeing everything %d sectors can be allocated, want %d (got %v); script=%v", len(all), n, all, sc)
		}

		var labels []string
		add := func(b bool, l string) {
			if b {
				labels = append(labels, l)
			}
		}
		add(short, "short-run-while-free")
		add(wrap, "wrap-around")
		add(cross, "run-crosses-word")
		add(exhausted, "exhausted")
		add(freeCross, "free-run-crosses-word")
		labels = append(labels, sectorClass(n))
		rec.Case(sc, short || wrap || cross, labels...)
	})
}

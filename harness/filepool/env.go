package filepool

import (
	"fmt"
	"io"
	"sync"
	"sync/atomic"

	"github.com/buildbarn/bb-remote-execution/pkg/filesystem/pool"
	"github.com/buildbarn/bb-storage/pkg/filesystem"

	"google.golang.org/grpc/codes"
	"google.golang.org/grpc/status"
)

// faultSpec names one injected fault: the fallible call with the given
// index (in the numbering of the run it is injected into) misbehaves in
// the way named by Kind.
type faultSpec struct {
	Index int    `json:"index"`
	Site  string `json:"site"`
	Kind  string `json:"kind"`
}

// faultPlan numbers every fallible call the pool makes into its
// environment (device I/O, hole source, base pool, allocator) and makes
// the calls whose index is listed in faults misbehave (one fault, or two
// in the two-fault runs). A nil plan injects nothing and counts nothing:
// that is what the fakes get in the concurrent test, where they are
// called from several goroutines.
type faultPlan struct {
	faults []faultSpec
	n      int
	sites  []string    // site of every counted call, by index
	fired  []faultSpec // the faults that have fired so far, in order, with the site they hit
	paused bool        // verification reads of the harness itself are not counted
}

func noFaults() *faultPlan { return &faultPlan{} }

func (p *faultPlan) hit(site string) string {
	if p == nil || p.paused {
		return ""
	}
	idx := p.n
	p.n++
	p.sites = append(p.sites, site)
	for _, f := range p.faults {
		if f.Index == idx {
			p.fired = append(p.fired, faultSpec{Index: idx, Site: site, Kind: f.Kind})
			return f.Kind
		}
	}
	return ""
}

// faultKinds lists, per call site, the ways that call can misbehave.
var faultKinds = map[string][]string{
	"dev.read":  {"err", "short"},
	"dev.write": {"err", "short"},
	"hs.read":   {"err", "short"},
	"hs.seek":   {"err"},
	"hs.trunc":  {"err"},
	"hs.close":  {"err"},
	"base.new":  {"err"},
	// The file the base pool handed to the quota layer refuses the call
	// before doing anything (a base pool other than the block device
	// backed one may fail to grow or shrink a file).
	"base.trunc": {"err"},
	"alloc":      {"exhausted", "one"},
}

func injected(site string) error {
	return status.Errorf(codes.Internal, "injected fault at %s", site)
}

// problems collects violations that the fakes observe themselves (the
// pool touching the environment in a way the property forbids). The
// mutex is taken only when a problem is recorded or the result is read,
// so on the good path it orders nothing between goroutines.
type problems struct {
	mu    sync.Mutex
	first string
	bad   atomic.Bool // set with the first problem; polled by the goroutines of the concurrent test
}

func (p *problems) add(format string, args ...any) {
	p.mu.Lock()
	defer p.mu.Unlock()
	p.bad.Store(true)
	if p.first == "" {
		p.first = fmt.Sprintf(format, args...)
	}
}

func (p *problems) get() string {
	p.mu.Lock()
	defer p.mu.Unlock()
	return p.first
}

// memDevice is a blockdevice.BlockDevice over a byte slice. Like the
// memory-mapped device used in production it takes no lock: it is safe
// for concurrent use as long as concurrent calls touch disjoint byte
// ranges, which is exactly what the pool has to guarantee (a sector is
// owned by one file at a time, and the hand-over of a sector from one
// file to another goes through the allocator's lock). Two goroutines
// touching the same bytes without that ordering is a C15 violation in
// itself (a sector in two files at once), and the race detector, under
// which the concurrent test runs, reports it as such. The device keeps no
// mutable state besides the bytes.
type memDevice struct {
	data     []byte
	plan     *faultPlan // nil in the concurrent test
	prob     *problems
	eofAtEnd bool // io.ReaderAt permits err == io.EOF for a full read that ends at the end of the source
}

func (d *memDevice) inRange(off int64, n int) bool {
	return off >= 0 && off+int64(n) <= int64(len(d.data))
}

func (d *memDevice) ReadAt(p []byte, off int64) (int, error) {
	if !d.inRange(off, len(p)) {
		d.prob.add("device read of %d bytes at %d lies outside the device of %d bytes", len(p), off, len(d.data))
		return 0, status.Error(codes.Internal, "read outside device")
	}
	switch d.plan.hit("dev.read") {
	case "err":
		return 0, injected("dev.read")
	case "short":
		k := len(p) / 2
		copy(p[:k], d.data[off:])
		return k, injected("dev.read")
	}
	copy(p, d.data[off:])
	if d.eofAtEnd && off+int64(len(p)) == int64(len(d.data)) {
		return len(p), io.EOF
	}
	return len(p), nil
}

func (d *memDevice) WriteAt(p []byte, off int64) (int, error) {
	if !d.inRange(off, len(p)) {
		d.prob.add("device write of %d bytes at %d lies outside the device of %d bytes", len(p), off, len(d.data))
		return 0, status.Error(codes.Internal, "write outside device")
	}
	switch d.plan.hit("dev.write") {
	case "err":
		return 0, injected("dev.write")
	case "short":
		k := len(p) / 2
		copy(d.data[off:], p[:k])
		return k, injected("dev.write")
	}
	copy(d.data[off:], p)
	return len(p), nil
}

func (d *memDevice) Sync() error  { return nil }
func (d *memDevice) Close() error { return nil }

// spyAllocator sits between the file pool and the real allocator and
// keeps the set of sectors currently handed out: the history invariant
// "never handed out twice, returned exactly once".
//
// It is safe for concurrent use and deliberately takes no lock of its
// own: holder[s] is compare-and-swapped from "free" to "held" AFTER the
// real allocator handed sector s out and from "held" to "free" BEFORE the
// sector is given back to the real allocator. Every legitimate history
// (given back, then handed out again) therefore passes in any
// interleaving, a sector that the real allocator hands to two callers is
// seen by the second compare-and-swap, and the only ordering the spy
// adds between goroutines is between those that touch the same sector.
// In particular the real allocator's own lock stays contended, and
// visible to the race detector, in the concurrent test.
type spyAllocator struct {
	base    pool.SectorAllocator
	sectors int
	plan    *faultPlan // nil in the concurrent test
	prob    *problems
	holder  []atomic.Int32 // holder[s], s in 1..sectors: 0 = free, owner+2 = handed out to that owner (file generation)

	// The fields below are used by the sequential tests only.
	concurrent bool
	lastOwner  []int // lastOwner[s]: owner+2 that held sector s before it was freed, 0 = never
	curOwner   int
	calls      int
	short      int // returned fewer sectors than asked although more were free
	reusedXGen int // a sector freed by one file generation was handed to another
}

func newSpy(base pool.SectorAllocator, sectors int, plan *faultPlan, prob *problems) *spyAllocator {
	return &spyAllocator{base: base, sectors: sectors, plan: plan, prob: prob, holder: make([]atomic.Int32, sectors+1), lastOwner: make([]int, sectors+1)}
}

func (a *spyAllocator) outstandingCount() int {
	n := 0
	for s := 1; s <= a.sectors; s++ {
		if a.holder[s].Load() != 0 {
			n++
		}
	}
	return n
}

func (a *spyAllocator) outstandingList() []int {
	var l []int
	for s := 1; s <= a.sectors; s++ {
		if a.holder[s].Load() != 0 {
			l = append(l, s)
		}
	}
	return l
}

func (a *spyAllocator) AllocateContiguous(maximum int) (uint32, int, error) {
	if maximum < 1 {
		a.prob.add("AllocateContiguous(%d) called", maximum)
	}
	ask := maximum
	switch a.plan.hit("alloc") {
	case "exhausted":
		return 0, 0, status.Error(codes.ResourceExhausted, "injected: no free sectors")
	case "one":
		ask = 1
	}
	owner := int32(2)
	if !a.concurrent {
		a.calls++
		owner = int32(a.curOwner + 2)
	}
	first, n, err := a.base.AllocateContiguous(ask)
	if err != nil {
		// (Sequential only: under concurrency sectors may be on their
		// way back, released here but not yet in the real allocator.)
		if !a.concurrent {
			if out := a.outstandingCount(); out < a.sectors {
				a.prob.add("allocator reported exhaustion (%v) while only %d of %d sectors are handed out", err, out, a.sectors)
			}
		}
		return first, n, err
	}
	if n < 1 || n > ask {
		a.prob.add("AllocateContiguous(%d) returned %d sectors", ask, n)
		return first, n, err
	}
	for i := 0; i < n; i++ {
		s := first + uint32(i)
		if s < 1 || int(s) > a.sectors {
			a.prob.add("AllocateContiguous(%d) handed out sector %d, device has sectors 1..%d", ask, s, a.sectors)
			continue
		}
		if !a.holder[s].CompareAndSwap(0, owner) {
			a.prob.add("sector %d handed out twice", s)
		}
		if !a.concurrent {
			if prev := a.lastOwner[s]; prev != 0 && prev != int(owner) {
				a.reusedXGen++
			}
		}
	}
	if !a.concurrent && n < maximum && a.outstandingCount() < a.sectors {
		a.short++
	}
	return first, n, nil
}

func (a *spyAllocator) release(s uint32, how string) bool {
	if s < 1 || int(s) > a.sectors {
		a.prob.add("%s returned sector %d, device has sectors 1..%d", how, s, a.sectors)
		return false
	}
	owner := a.holder[s].Load()
	if owner == 0 || !a.holder[s].CompareAndSwap(owner, 0) {
		a.prob.add("%s returned sector %d, which is not handed out (returned twice or never allocated)", how, s)
		return false
	}
	if !a.concurrent {
		a.lastOwner[s] = int(owner)
	}
	return true
}

func (a *spyAllocator) FreeContiguous(first uint32, count int) {
	ok := first != 0 && count >= 1
	if !ok {
		a.prob.add("FreeContiguous(%d, %d) called", first, count)
	}
	for i := 0; i < count; i++ {
		if !a.release(first+uint32(i), "FreeContiguous") {
			ok = false
		}
	}
	if ok {
		// A bad free is recorded as a violation; it is not forwarded,
		// because the real allocator answers it with a panic.
		a.base.FreeContiguous(first, count)
	}
}

func (a *spyAllocator) FreeList(sectors []uint32) {
	ok := true
	for _, s := range sectors {
		if s != 0 && !a.release(s, "FreeList") {
			ok = false
		}
	}
	if ok {
		a.base.FreeList(sectors)
	}
}

// faultyPool is the base pool as seen by the quota layer; its NewFile
// can be made to fail, and with a meter it keeps count of what the quota
// layer has let through.
type faultyPool struct {
	base  pool.FilePool
	plan  *faultPlan // nil in the concurrent test
	meter *quotaMeter
}

func (fp *faultyPool) NewFile(hs pool.HoleSource, size uint64) (filesystem.FileReadWriter, error) {
	if fp.plan.hit("base.new") != "" {
		return nil, injected("base.new")
	}
	f, err := fp.base.NewFile(hs, size)
	if err == nil && fp.plan != nil {
		f = &faultyBaseFile{FileReadWriter: f, plan: fp.plan}
	}
	if err != nil || fp.meter == nil {
		return f, err
	}
	fp.meter.add(&fp.meter.files, 1, fp.meter.maxFiles, "files")
	fp.meter.add(&fp.meter.bytes, int64(size), fp.meter.maxBytes, "bytes")
	return &meteredFile{FileReadWriter: f, meter: fp.meter, size: int64(size)}, nil
}

// faultyBaseFile is a file of the base pool as the quota layer sees it.
type faultyBaseFile struct {
	filesystem.FileReadWriter
	plan *faultPlan
}

func (f *faultyBaseFile) Truncate(size int64) error {
	if f.plan.hit("base.trunc") != "" {
		return injected("base.trunc")
	}
	return f.FileReadWriter.Truncate(size)
}

// quotaMeter counts, below the quota layer, the files that exist and the
// sum of their sizes. The quota layer charges before it lets an
// operation through and releases only after the base file has shrunk or
// is closed, so at every instant and in every interleaving
// (files, bytes) <= (what is charged) <= (the limits). A count above a
// limit means the quota layer granted more than it has.
type quotaMeter struct {
	maxFiles, maxBytes int64
	files, bytes       atomic.Int64
	prob               *problems
}

func (m *quotaMeter) add(c *atomic.Int64, delta, limit int64, what string) {
	if v := c.Add(delta); v > limit {
		m.prob.add("the quota layer let through %d %s in total, the limit is %d", v, what, limit)
	} else if v < 0 {
		m.prob.add("harness: %s count below zero (%d)", what, v)
	}
}

type meteredFile struct {
	filesystem.FileReadWriter
	meter *quotaMeter
	size  int64
}

func (f *meteredFile) resize() {
	l, err := f.FileReadWriter.Len()
	if err != nil {
		f.meter.prob.add("Len() of a base file failed: %v", err)
		return
	}
	if l != f.size {
		f.meter.add(&f.meter.bytes, l-f.size, f.meter.maxBytes, "bytes")
		f.size = l
	}
}

func (f *meteredFile) Truncate(size int64) error {
	err := f.FileReadWriter.Truncate(size)
	f.resize()
	return err
}

func (f *meteredFile) WriteAt(p []byte, off int64) (int, error) {
	n, err := f.FileReadWriter.WriteAt(p, off)
	f.resize()
	return n, err
}

func (f *meteredFile) Close() error {
	err := f.FileReadWriter.Close()
	f.meter.add(&f.meter.bytes, -f.size, f.meter.maxBytes, "bytes")
	f.meter.add(&f.meter.files, -1, f.meter.maxFiles, "files")
	return err
}

// hsSpec describes a non-default hole source: Len bytes of pattern data
// (tag Tag) with one hole [HoleA, HoleB) of null bytes inside.
type hsSpec struct {
	Len   int64 `json:"len"`
	HoleA int64 `json:"holeA"`
	HoleB int64 `json:"holeB"`
	Tag   int   `json:"tag"`
}

func (s *hsSpec) content() ([]byte, []bool) {
	c := pattern(s.Tag, 0, int(s.Len))
	d := make([]bool, s.Len)
	for i := range d {
		d[i] = true
	}
	for x := s.HoleA; x < s.HoleB && x < s.Len; x++ {
		c[x] = 0
		d[x] = false
	}
	return c, d
}

// fakeHoleSource implements pool.HoleSource as documented: reads never
// return io.EOF, bytes past the end are null, Truncate removes data at
// the end, GetNextRegionOffset behaves like a FileReader's. It counts
// its Close calls and reports a second Close and any use after Close
// itself; that it is closed exactly once, by the Close of its file and
// not earlier, is checked by the engine.
type fakeHoleSource struct {
	content []byte
	isData  []bool
	plan    *faultPlan // nil in the concurrent test
	prob    *problems
	closed  int
}

func (h *fakeHoleSource) live(what string) {
	if h.closed > 0 {
		h.prob.add("hole source: %s after it was closed", what)
	}
}

func newFakeHoleSource(s *hsSpec, plan *faultPlan, prob *problems) *fakeHoleSource {
	c, d := s.content()
	return &fakeHoleSource{content: c, isData: d, plan: plan, prob: prob}
}

func (h *fakeHoleSource) ReadAt(p []byte, off int64) (int, error) {
	h.live("ReadAt")
	if off < 0 {
		h.prob.add("hole source read at negative offset %d", off)
		return 0, status.Error(codes.InvalidArgument, "negative offset")
	}
	switch h.plan.hit("hs.read") {
	case "err":
		return 0, injected("hs.read")
	case "short":
		// io.ReaderAt: fewer bytes than asked for come with a non-nil
		// error (and HoleSource: never io.EOF); the bytes delivered are
		// the right ones. A short count with a nil error is outside the
		// contract and not generated.
		p = p[:len(p)/2]
		for i := range p {
			if x := off + int64(i); x < int64(len(h.content)) {
				p[i] = h.content[x]
			} else {
				p[i] = 0
			}
		}
		return len(p), injected("hs.read")
	}
	for i := range p {
		x := off + int64(i)
		if x < int64(len(h.content)) {
			p[i] = h.content[x]
		} else {
			p[i] = 0
		}
	}
	return len(p), nil
}

func (h *fakeHoleSource) Truncate(size int64) error {
	h.live("Truncate")
	if size < 0 {
		h.prob.add("hole source truncated to negative size %d", size)
		return status.Error(codes.InvalidArgument, "negative size")
	}
	if h.plan.hit("hs.trunc") != "" {
		return injected("hs.trunc")
	}
	if size < int64(len(h.content)) {
		h.content = h.content[:size]
		h.isData = h.isData[:size]
	}
	return nil
}

func (h *fakeHoleSource) GetNextRegionOffset(off int64, regionType filesystem.RegionType) (int64, error) {
	h.live("GetNextRegionOffset")
	if off < 0 {
		h.prob.add("hole source seek at negative offset %d", off)
		return 0, status.Error(codes.InvalidArgument, "negative offset")
	}
	if h.plan.hit("hs.seek") != "" {
		return 0, injected("hs.seek")
	}
	n := int64(len(h.content))
	if off >= n {
		return 0, io.EOF
	}
	switch regionType {
	case filesystem.Data:
		for x := off; x < n; x++ {
			if h.isData[x] {
				return x, nil
			}
		}
		return 0, io.EOF
	case filesystem.Hole:
		for x := off; x < n; x++ {
			if !h.isData[x] {
				return x, nil
			}
		}
		return n, nil
	}
	panic("unknown region type")
}

func (h *fakeHoleSource) Close() error {
	h.closed++
	if h.closed > 1 {
		h.prob.add("hole source closed %d times", h.closed)
	}
	if h.plan.hit("hs.close") != "" {
		return injected("hs.close")
	}
	return nil
}

package filepool

import (
	"fmt"
	"io"
	"sort"

	"github.com/buildbarn/bb-remote-execution/pkg/filesystem/pool"
	"github.com/buildbarn/bb-storage/pkg/filesystem"

	"google.golang.org/grpc/codes"
	"google.golang.org/grpc/status"
)

// faultPlan numbers every fallible call the pool makes into its
// environment (device I/O, hole source, base pool, allocator) and makes
// exactly the call with index failAt misbehave in the way named by kind.
type faultPlan struct {
	failAt int // -1: never
	kind   string
	n      int
	sites  []string // site of every counted call, by index
	fired  bool
	paused bool // verification reads of the harness itself are not counted
}

func noFaults() *faultPlan { return &faultPlan{failAt: -1} }

func (p *faultPlan) hit(site string) string {
	if p.paused {
		return ""
	}
	idx := p.n
	p.n++
	p.sites = append(p.sites, site)
	if idx == p.failAt {
		p.fired = true
		return p.kind
	}
	return ""
}

// faultKinds lists, per call site, the ways that call can misbehave.
var faultKinds = map[string][]string{
	"dev.read":  {"err", "short"},
	"dev.write": {"err", "short"},
	"hs.read":   {"err"},
	"hs.seek":   {"err"},
	"hs.trunc":  {"err"},
	"hs.close":  {"err"},
	"base.new":  {"err"},
	"alloc":     {"exhausted", "one"},
}

func injected(site string) error {
	return status.Errorf(codes.Internal, "injected fault at %s", site)
}

// problems collects violations that the fakes observe themselves (the
// pool touching the environment in a way the property forbids).
type problems struct {
	first string
}

func (p *problems) add(format string, args ...any) {
	if p.first == "" {
		p.first = fmt.Sprintf(format, args...)
	}
}

// memDevice is a blockdevice.BlockDevice over a byte slice.
type memDevice struct {
	data     []byte
	plan     *faultPlan
	prob     *problems
	eofAtEnd bool // io.ReaderAt permits err == io.EOF for a full read that ends at the end of the source
	reads    int
	writes   int
}

func (d *memDevice) inRange(off int64, n int) bool {
	return off >= 0 && off+int64(n) <= int64(len(d.data))
}

func (d *memDevice) ReadAt(p []byte, off int64) (int, error) {
	d.reads++
	if !d.inRange(off, len(p)) {
		d.prob.add("device read of %d bytes at %d lies outside the device of %d bytes", len(p), off, len(d.data))
		return 0, status.Error(codes.Internal, "read outside device")
	}
	switch d.plan.hit("dev.read") {
	case "err":
		return 0, injected("dev.read")
	case "short":
		k := len(p) / 2
		copy(p[:k], d.data[off:])
		return k, injected("dev.read")
	}
	copy(p, d.data[off:])
	if d.eofAtEnd && off+int64(len(p)) == int64(len(d.data)) {
		return len(p), io.EOF
	}
	return len(p), nil
}

func (d *memDevice) WriteAt(p []byte, off int64) (int, error) {
	d.writes++
	if !d.inRange(off, len(p)) {
		d.prob.add("device write of %d bytes at %d lies outside the device of %d bytes", len(p), off, len(d.data))
		return 0, status.Error(codes.Internal, "write outside device")
	}
	switch d.plan.hit("dev.write") {
	case "err":
		return 0, injected("dev.write")
	case "short":
		k := len(p) / 2
		copy(d.data[off:], p[:k])
		return k, injected("dev.write")
	}
	copy(d.data[off:], p)
	return len(p), nil
}

func (d *memDevice) Sync() error  { return nil }
func (d *memDevice) Close() error { return nil }

// spyAllocator sits between the file pool and the real allocator and
// keeps the set of sectors currently handed out: the history invariant
// "never handed out twice, returned exactly once".
type spyAllocator struct {
	base        pool.SectorAllocator
	sectors     int
	plan        *faultPlan
	prob        *problems
	outstanding map[uint32]int // sector -> owner (file generation) it was handed to
	lastOwner   map[uint32]int // sector -> owner that held it before it was freed
	curOwner    int
	// statistics of the current case
	calls      int
	short      int // returned fewer sectors than asked although more were free
	reusedXGen int // a sector freed by one file generation was handed to another
}

func newSpy(base pool.SectorAllocator, sectors int, plan *faultPlan, prob *problems) *spyAllocator {
	return &spyAllocator{base: base, sectors: sectors, plan: plan, prob: prob, outstanding: map[uint32]int{}, lastOwner: map[uint32]int{}}
}

func (a *spyAllocator) AllocateContiguous(maximum int) (uint32, int, error) {
	a.calls++
	if maximum < 1 {
		a.prob.add("AllocateContiguous(%d) called", maximum)
	}
	ask := maximum
	switch a.plan.hit("alloc") {
	case "exhausted":
		return 0, 0, status.Error(codes.ResourceExhausted, "injected: no free sectors")
	case "one":
		ask = 1
	}
	first, n, err := a.base.AllocateContiguous(ask)
	if err != nil {
		if len(a.outstanding) < a.sectors {
			a.prob.add("allocator reported exhaustion (%v) while only %d of %d sectors are handed out", err, len(a.outstanding), a.sectors)
		}
		return first, n, err
	}
	if n < 1 || n > ask {
		a.prob.add("AllocateContiguous(%d) returned %d sectors", ask, n)
		return first, n, err
	}
	for i := 0; i < n; i++ {
		s := first + uint32(i)
		if s < 1 || int(s) > a.sectors {
			a.prob.add("AllocateContiguous(%d) handed out sector %d, device has sectors 1..%d", ask, s, a.sectors)
			continue
		}
		if _, dup := a.outstanding[s]; dup {
			a.prob.add("sector %d handed out twice", s)
		}
		if prev, ok := a.lastOwner[s]; ok && prev != a.curOwner {
			a.reusedXGen++
		}
		a.outstanding[s] = a.curOwner
	}
	if n < maximum && len(a.outstanding) < a.sectors {
		a.short++
	}
	return first, n, nil
}

func (a *spyAllocator) release(s uint32, how string) bool {
	owner, ok := a.outstanding[s]
	if !ok {
		a.prob.add("%s returned sector %d, which is not handed out (returned twice or never allocated)", how, s)
		return false
	}
	delete(a.outstanding, s)
	a.lastOwner[s] = owner
	return true
}

func (a *spyAllocator) FreeContiguous(first uint32, count int) {
	ok := first != 0 && count >= 1
	if !ok {
		a.prob.add("FreeContiguous(%d, %d) called", first, count)
	}
	for i := 0; i < count; i++ {
		if !a.release(first+uint32(i), "FreeContiguous") {
			ok = false
		}
	}
	if ok {
		// A bad free is recorded as a violation; it is not forwarded,
		// because the real allocator answers it with a panic.
		a.base.FreeContiguous(first, count)
	}
}

func (a *spyAllocator) FreeList(sectors []uint32) {
	ok := true
	for _, s := range sectors {
		if s != 0 && !a.release(s, "FreeList") {
			ok = false
		}
	}
	if ok {
		a.base.FreeList(sectors)
	}
}

func (a *spyAllocator) outstandingList() []int {
	l := make([]int, 0, len(a.outstanding))
	for s := range a.outstanding {
		l = append(l, int(s))
	}
	sort.Ints(l)
	return l
}

// faultyPool is the base pool as seen by the quota layer; its NewFile
// can be made to fail.
type faultyPool struct {
	base pool.FilePool
	plan *faultPlan
}

func (fp *faultyPool) NewFile(hs pool.HoleSource, size uint64) (filesystem.FileReadWriter, error) {
	if fp.plan.hit("base.new") != "" {
		return nil, injected("base.new")
	}
	return fp.base.NewFile(hs, size)
}

// hsSpec describes a non-default hole source: Len bytes of pattern data
// (tag Tag) with one hole [HoleA, HoleB) of null bytes inside.
type hsSpec struct {
	Len   int64 `json:"len"`
	HoleA int64 `json:"holeA"`
	HoleB int64 `json:"holeB"`
	Tag   int   `json:"tag"`
}

func (s *hsSpec) content() ([]byte, []bool) {
	c := pattern(s.Tag, 0, int(s.Len))
	d := make([]bool, s.Len)
	for i := range d {
		d[i] = true
	}
	for x := s.HoleA; x < s.HoleB && x < s.Len; x++ {
		c[x] = 0
		d[x] = false
	}
	return c, d
}

// fakeHoleSource implements pool.HoleSource as documented: reads never
// return io.EOF, bytes past the end are null, Truncate removes data at
// the end, GetNextRegionOffset behaves like a FileReader's.
type fakeHoleSource struct {
	content []byte
	isData  []bool
	plan    *faultPlan
	prob    *problems
	closed  int
}

func newFakeHoleSource(s *hsSpec, plan *faultPlan, prob *problems) *fakeHoleSource {
	c, d := s.content()
	return &fakeHoleSource{content: c, isData: d, plan: plan, prob: prob}
}

func (h *fakeHoleSource) ReadAt(p []byte, off int64) (int, error) {
	if off < 0 {
		h.prob.add("hole source read at negative offset %d", off)
		return 0, status.Error(codes.InvalidArgument, "negative offset")
	}
	if h.plan.hit("hs.read") != "" {
		return 0, injected("hs.read")
	}
	for i := range p {
		x := off + int64(i)
		if x < int64(len(h.content)) {
			p[i] = h.content[x]
		} else {
			p[i] = 0
		}
	}
	return len(p), nil
}

func (h *fakeHoleSource) Truncate(size int64) error {
	if size < 0 {
		h.prob.add("hole source truncated to negative size %d", size)
		return status.Error(codes.InvalidArgument, "negative size")
	}
	if h.plan.hit("hs.trunc") != "" {
		return injected("hs.trunc")
	}
	if size < int64(len(h.content)) {
		h.content = h.content[:size]
		h.isData = h.isData[:size]
	}
	return nil
}

func (h *fakeHoleSource) GetNextRegionOffset(off int64, regionType filesystem.RegionType) (int64, error) {
	if off < 0 {
		h.prob.add("hole source seek at negative offset %d", off)
		return 0, status.Error(codes.InvalidArgument, "negative offset")
	}
	if h.plan.hit("hs.seek") != "" {
		return 0, injected("hs.seek")
	}
	n := int64(len(h.content))
	if off >= n {
		return 0, io.EOF
	}
	switch regionType {
	case filesystem.Data:
		for x := off; x < n; x++ {
			if h.isData[x] {
				return x, nil
			}
		}
		return 0, io.EOF
	case filesystem.Hole:
		for x := off; x < n; x++ {
			if !h.isData[x] {
				return x, nil
			}
		}
		return n, nil
	}
	panic("unknown region type")
}

func (h *fakeHoleSource) Close() error {
	h.closed++
	if h.plan.hit("hs.close") != "" {
		return injected("hs.close")
	}
	return nil
}

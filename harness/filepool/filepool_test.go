package filepool

import (
	"fmt"
	"os"
	"testing"

	"pgregory.net/rapid"

	"verif/harness/internal/simkit"
)

var (
	sectorSizes  = []int{1, 2, 3, 4, 8, 16, 512}
	sectorCounts = []int{1, 2, 3, 4, 5, 6, 7, 8, 63, 64, 65, 127, 128, 129}
)

func drawConfig(rt *rapid.T) config {
	cfg := config{
		SS:       rapid.SampledFrom(sectorSizes).Draw(rt, "sectorSize"),
		Sectors:  rapid.SampledFrom(sectorCounts).Draw(rt, "sectorCount"),
		MaxFiles: rapid.IntRange(1, 5).Draw(rt, "maxFiles"),
		EOFAtEnd: rapid.Bool().Draw(rt, "deviceEOFAtEnd"),
	}
	capBytes := uint64(cfg.SS * cfg.Sectors)
	switch rapid.IntRange(0, 9).Draw(rt, "quotaKind") {
	case 0:
		cfg.MaxBytes = uint64(rapid.IntRange(1, 3*cfg.SS).Draw(rt, "maxBytes"))
	case 1:
		cfg.MaxBytes = capBytes/2 + 1
	case 2:
		cfg.MaxBytes = capBytes
	case 3:
		cfg.MaxBytes = 2*capBytes + uint64(cfg.SS)
	default:
		// Ample: the size quota never refuses anything in this case.
		cfg.MaxBytes = uint64(maxSlots) * uint64(cfg.limit())
	}
	return cfg
}

// gen draws steps that depend on the current state of an engine.
type gen struct {
	e   *engine
	tag int
}

func (g *gen) nextTag() int {
	g.tag++
	return g.tag
}

func clamp(x, lo, hi int64) int64 {
	if x < lo {
		return lo
	}
	if x > hi {
		return hi
	}
	return x
}

// drawPos draws an offset in [0, hi]: near the given anchor (usually the
// file size), or a sector index plus an offset within the sector.
func (g *gen) drawPos(rt *rapid.T, anchor, hi int64, label string) int64 {
	ss := int64(g.e.cfg.SS)
	switch rapid.IntRange(0, 4).Draw(rt, label+"Kind") {
	case 0:
		return clamp(anchor+int64(rapid.IntRange(-2, 2).Draw(rt, label+"Near")), 0, hi)
	case 1:
		// A sector boundary, one before or one after.
		idx := int64(rapid.IntRange(0, g.e.cfg.idxMax()).Draw(rt, label+"Sector"))
		return clamp(idx*ss+int64(rapid.IntRange(-1, 1).Draw(rt, label+"Edge")), 0, hi)
	default:
		idx := int64(rapid.IntRange(0, g.e.cfg.idxMax()-1).Draw(rt, label+"Sector"))
		return clamp(idx*ss+int64(rapid.IntRange(0, g.e.cfg.SS-1).Draw(rt, label+"Within")), 0, hi)
	}
}

func (g *gen) drawLen(rt *rapid.T, label string) int {
	ss := g.e.cfg.SS
	switch rapid.IntRange(0, 7).Draw(rt, label+"Kind") {
	case 0, 1, 2:
		return rapid.IntRange(1, ss).Draw(rt, label)
	case 3, 4, 5:
		return rapid.IntRange(1, 4*ss).Draw(rt, label)
	case 6:
		return rapid.IntRange(1, (g.e.cfg.Sectors+2)*ss).Draw(rt, label)
	default:
		return rapid.IntRange(0, 1).Draw(rt, label)
	}
}

func (g *gen) pickOpen(rt *rapid.T) (int, bool) {
	open := g.e.openSlots()
	if len(open) == 0 {
		return 0, false
	}
	return open[rapid.IntRange(0, len(open)-1).Draw(rt, "file")], true
}

func (g *gen) drawNew(rt *rapid.T) step {
	empty := g.e.emptySlots()
	st := step{Op: "new", F: empty[rapid.IntRange(0, len(empty)-1).Draw(rt, "slot")]}
	if rapid.Bool().Draw(rt, "sized") {
		st.Off = g.drawPos(rt, 0, g.e.cfg.limit(), "initialSize")
	}
	if rapid.Bool().Draw(rt, "modelHoleSource") {
		hs := &hsSpec{Len: st.Off, Tag: g.nextTag()}
		if rapid.IntRange(0, 3).Draw(rt, "holeSourceShorter") == 0 {
			hs.Len = int64(rapid.Int64Range(0, st.Off).Draw(rt, "holeSourceLen"))
		}
		if hs.Len > 0 && rapid.Bool().Draw(rt, "holeSourceHasHole") {
			hs.HoleA = rapid.Int64Range(0, hs.Len-1).Draw(rt, "holeA")
			hs.HoleB = rapid.Int64Range(hs.HoleA, hs.Len).Draw(rt, "holeB")
		}
		st.HS = hs
	}
	return st
}

func (g *gen) drawWrite(rt *rapid.T, nearEOF bool) step {
	f, ok := g.pickOpen(rt)
	if !ok {
		return g.drawNew(rt)
	}
	size := g.e.files[f].m.size()
	lim := g.e.cfg.limit()
	st := step{Op: "write", F: f, Tag: g.nextTag()}
	if rapid.IntRange(0, 39).Draw(rt, "negative") == 0 {
		st.Off, st.Len = -1, 1
		return st
	}
	if nearEOF {
		st.Off = clamp(size+int64(rapid.IntRange(-g.e.cfg.SS, g.e.cfg.SS).Draw(rt, "offFromEOF")), 0, lim-1)
	} else {
		st.Off = g.drawPos(rt, size, lim-1, "off")
	}
	st.Len = g.drawLen(rt, "len")
	if int64(st.Len) > lim-st.Off {
		st.Len = int(lim - st.Off)
	}
	return st
}

func (g *gen) drawRead(rt *rapid.T) step {
	f, ok := g.pickOpen(rt)
	if !ok {
		return g.drawNew(rt)
	}
	st := step{Op: "read", F: f}
	if rapid.IntRange(0, 39).Draw(rt, "negative") == 0 {
		st.Off, st.Len = -1, 1
		return st
	}
	if size := g.e.files[f].m.size(); size > 0 && rapid.Bool().Draw(rt, "inside") {
		// A range inside the file, so that data, holes and the
		// boundaries between fragments are actually read.
		st.Off = rapid.Int64Range(0, size-1).Draw(rt, "offInside")
		st.Len = int(rapid.Int64Range(1, size-st.Off+1).Draw(rt, "lenInside"))
		return st
	}
	st.Off = g.drawPos(rt, g.e.files[f].m.size(), g.e.cfg.limit()+2, "off")
	st.Len = g.drawLen(rt, "len")
	return st
}

func (g *gen) drawTrunc(rt *rapid.T) step {
	f, ok := g.pickOpen(rt)
	if !ok {
		return g.drawNew(rt)
	}
	st := step{Op: "trunc", F: f}
	switch rapid.IntRange(0, 19).Draw(rt, "truncKind") {
	case 0:
		st.Off = -1
	case 1, 2:
		st.Off = 0
	default:
		st.Off = g.drawPos(rt, g.e.files[f].m.size(), g.e.cfg.limit(), "size")
	}
	return st
}

func (g *gen) drawSeek(rt *rapid.T) step {
	f, ok := g.pickOpen(rt)
	if !ok {
		return g.drawNew(rt)
	}
	st := step{Op: "seek", F: f, Region: rapid.SampledFrom([]string{"data", "hole"}).Draw(rt, "region")}
	if rapid.IntRange(0, 39).Draw(rt, "negative") == 0 {
		st.Off = -1
		return st
	}
	if size := g.e.files[f].m.size(); size > 0 && rapid.Bool().Draw(rt, "inside") {
		st.Off = rapid.Int64Range(0, size-1).Draw(rt, "offInside")
		return st
	}
	st.Off = g.drawPos(rt, g.e.files[f].m.size(), g.e.cfg.limit()+2, "off")
	return st
}

func (g *gen) drawClose(rt *rapid.T) step {
	f, ok := g.pickOpen(rt)
	if !ok {
		return g.drawNew(rt)
	}
	return step{Op: "close", F: f}
}

// drawStep draws one step with fixed weights (used where rapid's Repeat,
// which picks rules uniformly, is not used).
func (g *gen) drawStep(rt *rapid.T) step {
	switch k := rapid.IntRange(0, 19).Draw(rt, "op"); {
	case k < 2:
		return g.drawNew(rt)
	case k < 6:
		return g.drawWrite(rt, false)
	case k < 8:
		return g.drawWrite(rt, true)
	case k < 12:
		return g.drawRead(rt)
	case k < 15:
		return g.drawTrunc(rt)
	case k < 19:
		return g.drawSeek(rt)
	default:
		return g.drawClose(rt)
	}
}

const modelRule = "rapid state machine (rules new/write/writeNearEOF/interleavedAppends/read/truncate/seek/close) over QuotaEnforcing(BlockDeviceBacked(BitmapSectorAllocator)) on an in-memory device; sector sizes {1,2,3,4,8,16,512}, sector counts {1..8,63..65,127..129}, up to 5 files, zero and patterned hole sources; oracle: naive sparse-file model (bytes, EOF, partial writes, sector-granular data/hole map, quota arithmetic, sectors handed out == data sectors of the model) compared for every open file after every step, then everything closed and the full capacity re-obtained. Non-trivial: the allocator returned a short run while sectors were free (fragmentation), OR a file that lost content by shrinking grew again, OR a write was cut short by sector exhaustion; distinct by script hash"

func TestC15FilePoolModel(t *testing.T) {
	rec := simkit.NewRecorder(t, "C15", "filepool-model", modelRule)
	rapid.Check(t, func(rt *rapid.T) {
		cfg := drawConfig(rt)
		g := &gen{e: newEngine(cfg, noFaults())}
		sc := script{Cfg: cfg}
		do := func(st step) {
			err := g.e.apply(&st)
			sc.Steps = append(sc.Steps, st)
			if err != nil {
				rt.Fatalf("%v; script=%s", err, sc)
			}
		}
		rt.Repeat(map[string]func(*rapid.T){
			"new": func(rt *rapid.T) {
				if g.e.open >= cfg.MaxFiles && rapid.IntRange(0, 3).Draw(rt, "overQuota") != 0 {
					// Mostly use the turn for something that makes progress.
					do(g.drawWrite(rt, false))
					return
				}
				do(g.drawNew(rt))
			},
			"write":    func(rt *rapid.T) { do(g.drawWrite(rt, false)) },
			"writeEOF": func(rt *rapid.T) { do(g.drawWrite(rt, true)) },
			"read":     func(rt *rapid.T) { do(g.drawRead(rt)) },
			"trunc":    func(rt *rapid.T) { do(g.drawTrunc(rt)) },
			"seek":     func(rt *rapid.T) { do(g.drawSeek(rt)) },
			"interleave": func(rt *rapid.T) {
				// Two files grow in turns, one sector at a time, so their
				// sectors alternate on the device; closing or shrinking
				// one of them leaves maximally fragmented free space for
				// whatever is written next.
				open := g.e.openSlots()
				if len(open) < 2 {
					do(g.drawNew(rt))
					return
				}
				i := rapid.IntRange(0, len(open)-1).Draw(rt, "fileA")
				j := rapid.IntRange(0, len(open)-2).Draw(rt, "fileB")
				if j >= i {
					j++
				}
				rounds := rapid.IntRange(2, 6).Draw(rt, "rounds")
				for r := 0; r < rounds; r++ {
					for _, f := range []int{open[i], open[j]} {
						off := g.e.files[f].m.size()
						if off+int64(cfg.SS) > cfg.limit() {
							continue
						}
						do(step{Op: "write", F: f, Off: off, Len: cfg.SS, Tag: g.nextTag()})
					}
				}
				switch rapid.IntRange(0, 2).Draw(rt, "then") {
				case 0:
					do(step{Op: "close", F: open[j]})
				case 1:
					do(step{Op: "trunc", F: open[j], Off: 0})
				}
				if rapid.Bool().Draw(rt, "thenFill") {
					// Use up (nearly) all free sectors in one write: the
					// allocator has to wrap around into the gaps.
					f := open[i]
					off := g.e.files[f].m.size()
					free := cfg.Sectors - g.e.modelDataSectors() - rapid.IntRange(0, 2).Draw(rt, "spare")
					n := int64(free) * int64(cfg.SS)
					if n > cfg.limit()-off {
						n = cfg.limit() - off
					}
					if n > 0 {
						do(step{Op: "write", F: f, Off: off, Len: int(n), Tag: g.nextTag()})
					}
				}
			},
			"close": func(rt *rapid.T) {
				if rapid.Bool().Draw(rt, "closeAfterAll") {
					do(g.drawClose(rt))
				} else {
					do(g.drawWrite(rt, false))
				}
			},
		})
		if err := g.e.finish(); err != nil {
			rt.Fatalf("%v; script=%s", err, sc)
		}
		labels := append(g.e.st.labels(), fmt.Sprintf("ss=%d", cfg.SS), sectorClass(cfg.Sectors))
		rec.Case(sc, g.e.st.nontrivial(), labels...)
	})
}

func sectorClass(n int) string {
	switch {
	case n <= 8:
		return "sectors<=8"
	case n <= 65:
		return "sectors~64"
	default:
		return "sectors~128"
	}
}

const faultRule = "fault enumeration inside generated scenarios: a scenario of 1..20 steps (thorough tier: a third of them 21..40 steps; same generator and oracle as filepool-model, including the per-step quota probe and the hole-source-closed-exactly-once check) is run fault-free while numbering every fallible call the pool makes (device ReadAt/WriteAt, hole source ReadAt/GetNextRegionOffset/Truncate/Close, base-pool NewFile under the quota layer, AllocateContiguous), then re-run once per (call index x fault kind: error, short transfer with the error io.ReaderAt/io.WriterAt require - also from the hole source -, injected exhaustion, one-sector allocation). Two-fault runs: for drawn single-fault runs a second fault is injected at a drawn later call of THAT run (half of them within the next three calls), 2 pairs per scenario in the quick tier and up to 12 in the thorough tier. During a faulted step an error result is accepted and the model follows the reported counts; a failed Truncate must leave the file in one of the enumerated permissible states (untouched, or - only when the hole source's Truncate is what failed - everything done except that), compared byte for byte; every other step is checked exactly; after each run everything is closed and the full capacity (sectors, file quota, byte quota) must be obtainable again. One evaluation = one (scenario, fault set) run. Non-trivial: an injected fault surfaced as an error of the API call; distinct by hash of scenario+faults"

func thoroughTier() bool { return os.Getenv("VERIF_TIER") == "thorough" }

// runFaulted replays the steps of a scenario on a fresh pool with the
// given faults injected and checks every step and the final capacity.
func runFaulted(cfg config, steps []step, faults []faultSpec) (*engine, script, error) {
	plan := &faultPlan{faults: faults}
	e := newEngine(cfg, plan)
	fsc := script{Cfg: cfg, Faults: faults}
	for _, op := range steps {
		st := op
		st.Res = ""
		err := e.apply(&st)
		fsc.Steps = append(fsc.Steps, st)
		if err != nil {
			return e, fsc, err
		}
	}
	if len(plan.fired) != len(faults) {
		return e, fsc, fmt.Errorf("harness: %d of the faults %+v fired on replay (%+v)", len(plan.fired), faults, plan.fired)
	}
	for k, f := range faults {
		if plan.fired[k].Index != f.Index || plan.fired[k].Site != f.Site {
			return e, fsc, fmt.Errorf("harness: fault %+v hit %+v on replay", f, plan.fired[k])
		}
	}
	if err := e.finish(); err != nil {
		return e, fsc, err
	}
	return e, fsc, nil
}

func faultLabels(e *engine, faults []faultSpec) []string {
	var labels []string
	if len(faults) == 1 {
		labels = append(labels, faults[0].Site+":"+faults[0].Kind)
	} else {
		labels = append(labels, "two-faults", "second:"+faults[1].Site+":"+faults[1].Kind)
	}
	if e.st.faultSurfaced {
		labels = append(labels, "fault-surfaced")
	}
	if e.st.truncFailedUntouched {
		labels = append(labels, "truncate-failed:file-untouched")
	}
	if e.st.truncFailedHalfDone {
		labels = append(labels, "truncate-failed:hole-source-not-truncated")
	}
	if e.st.hsClosed {
		labels = append(labels, "hole-source-closed-once-checked")
	}
	return labels
}

func TestC15FilePoolFaults(t *testing.T) {
	rec := simkit.NewRecorder(t, "C15", "filepool-faults", faultRule)
	maxPairs := 2
	if thoroughTier() {
		maxPairs = 12
	}
	rapid.Check(t, func(rt *rapid.T) {
		cfg := drawConfig(rt)
		g := &gen{e: newEngine(cfg, noFaults())}
		sc := script{Cfg: cfg}
		n := rapid.IntRange(1, 20).Draw(rt, "steps")
		if thoroughTier() && rapid.IntRange(0, 2).Draw(rt, "long") == 0 {
			n += 20
		}
		for i := 0; i < n; i++ {
			var st step
			if i == 0 {
				st = g.drawNew(rt)
			} else {
				st = g.drawStep(rt)
			}
			err := g.e.apply(&st)
			sc.Steps = append(sc.Steps, st)
			if err != nil {
				rt.Fatalf("fault-free run: %v; script=%s", err, sc)
			}
		}
		sites := append([]string(nil), g.e.plan.sites...)
		if err := g.e.finish(); err != nil {
			rt.Fatalf("fault-free run: %v; script=%s", err, sc)
		}
		rec.Case(sc, false, "fault-free-run")

		// Every single fault. The calls each faulted run makes are kept:
		// a second fault is numbered in the run that has the first one.
		type single struct {
			f     faultSpec
			sites []string
		}
		var singles []single
		for idx, site := range sites {
			for _, kind := range faultKinds[site] {
				f := faultSpec{Index: idx, Site: site, Kind: kind}
				e, fsc, err := runFaulted(cfg, sc.Steps, []faultSpec{f})
				if err != nil {
					rt.Fatalf("%v; script=%s", err, fsc)
				}
				rec.Case(fsc, e.st.faultSurfaced, faultLabels(e, fsc.Faults)...)
				singles = append(singles, single{f: f, sites: e.plan.sites})
			}
		}

		// Some pairs of faults: a first one after which the run still
		// makes fallible calls, and one of those calls.
		var eligible []single
		for _, s := range singles {
			if len(s.sites)-1-s.f.Index >= 1 {
				eligible = append(eligible, s)
			}
		}
		if len(eligible) == 0 {
			rec.Label("two-faults:no-call-after-any-first-fault")
			return
		}
		pairs := maxPairs
		if pairs > len(eligible) {
			pairs = len(eligible)
		}
		for k := 0; k < pairs; k++ {
			first := eligible[rapid.IntRange(0, len(eligible)-1).Draw(rt, "firstFault")]
			later := len(first.sites) - 1 - first.f.Index // calls made after the first fault
			d := rapid.IntRange(1, later).Draw(rt, "secondFaultDistance")
			if later > 3 && rapid.Bool().Draw(rt, "secondFaultNear") {
				d = 1 + d%3
			}
			idx2 := first.f.Index + d
			site2 := first.sites[idx2]
			second := faultSpec{Index: idx2, Site: site2, Kind: rapid.SampledFrom(faultKinds[site2]).Draw(rt, "secondFaultKind")}
			e, fsc, err := runFaulted(cfg, sc.Steps, []faultSpec{first.f, second})
			if err != nil {
				rt.Fatalf("%v; script=%s", err, fsc)
			}
			rec.Case(fsc, e.st.faultSurfaced, faultLabels(e, fsc.Faults)...)
		}
	})
}

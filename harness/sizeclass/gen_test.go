// Package sizeclass decides C07(b) (well-formed size-class choices) and
// C07(c) (no lost Initial Size Class Cache statistics).
package sizeclass

import (
	"fmt"
	"math"
	"sort"
	"strings"
	"time"

	"github.com/buildbarn/bb-storage/pkg/proto/iscc"
	"pgregory.net/rapid"

	"google.golang.org/protobuf/proto"
	"google.golang.org/protobuf/types/known/durationpb"
	"google.golang.org/protobuf/types/known/emptypb"
	"google.golang.org/protobuf/types/known/timestamppb"
)

// step is one executed step of a generated case. Arg and Res are short
// human-readable renderings of the concrete values.
type step struct {
	Op  string `json:"op"`
	Arg string `json:"arg,omitempty"`
	Res string `json:"res,omitempty"`
}

const probTolerance = 1e-9

// A small pool of durations, so that ties between samples are common.
var durationPool = []time.Duration{
	0, 1, time.Millisecond, 500 * time.Millisecond, time.Second, 2 * time.Second,
	5 * time.Second, 10 * time.Second, 30 * time.Second, time.Minute,
	5 * time.Minute, 30 * time.Minute, time.Hour, 2 * time.Hour,
}

// genSizeClasses draws 1-6 strictly increasing positive size classes.
func genSizeClasses(rt *rapid.T) []uint32 {
	n := rapid.IntRange(1, 6).Draw(rt, "nSizeClasses")
	seen := map[uint32]bool{}
	var out []uint32
	for len(out) < n {
		var v uint32
		switch rapid.IntRange(0, 9).Draw(rt, "sizeClassKind") {
		case 0:
			v = rapid.Uint32Range(1, math.MaxUint32).Draw(rt, "sizeClass")
		case 1:
			v = uint32(1) << rapid.IntRange(0, 31).Draw(rt, "sizeClassShift")
		default:
			v = rapid.Uint32Range(1, 16).Draw(rt, "sizeClass")
		}
		if !seen[v] {
			seen[v] = true
			out = append(out, v)
		}
	}
	sort.Slice(out, func(i, j int) bool { return out[i] < out[j] })
	return out
}

// genSmallerVariant returns a list with the same largest size class but a
// (possibly) different set of smaller ones: the scheduler only ever adds
// or removes size classes below the predeclared maximum.
func genSmallerVariant(rt *rapid.T, classes []uint32) []uint32 {
	largest := classes[len(classes)-1]
	seen := map[uint32]bool{largest: true}
	out := []uint32{largest}
	for _, c := range classes[:len(classes)-1] {
		if rapid.IntRange(0, 3).Draw(rt, "keepClass") != 0 {
			seen[c] = true
			out = append(out, c)
		}
	}
	for i := rapid.IntRange(0, 2).Draw(rt, "extraClasses"); i > 0 && len(out) < 6 && largest > 1; i-- {
		hi := largest - 1
		if hi > 20 && rapid.Bool().Draw(rt, "extraSmall") {
			hi = 20
		}
		v := rapid.Uint32Range(1, hi).Draw(rt, "extraClass")
		if !seen[v] {
			seen[v] = true
			out = append(out, v)
		}
	}
	sort.Slice(out, func(i, j int) bool { return out[i] < out[j] })
	return out
}

// genStoredDuration draws a Duration message as it may be found in a
// stored stats message: mostly ordinary, sometimes extreme or invalid.
func genStoredDuration(rt *rapid.T) *durationpb.Duration {
	k := rapid.IntRange(0, 23).Draw(rt, "durKind")
	switch {
	case k < 14:
		return durationpb.New(rapid.SampledFrom(durationPool).Draw(rt, "dur"))
	case k < 19:
		return durationpb.New(time.Duration(rapid.Int64Range(0, int64(3*time.Hour)).Draw(rt, "dur")))
	case k == 19:
		return durationpb.New(-time.Duration(rapid.Int64Range(1, int64(time.Hour)).Draw(rt, "negDur")))
	case k == 20:
		return &durationpb.Duration{Seconds: rapid.Int64().Draw(rt, "rawSeconds"), Nanos: rapid.Int32().Draw(rt, "rawNanos")}
	case k == 21:
		return durationpb.New(time.Duration(math.MaxInt64))
	case k == 22:
		return durationpb.New(time.Duration(math.MinInt64))
	default:
		return &durationpb.Duration{}
	}
}

// genReportedDuration draws an execution duration as a worker may report it.
func genReportedDuration(rt *rapid.T) time.Duration {
	k := rapid.IntRange(0, 19).Draw(rt, "reportedKind")
	switch {
	case k < 11:
		return rapid.SampledFrom(durationPool).Draw(rt, "reported")
	case k < 17:
		return time.Duration(rapid.Int64Range(0, int64(3*time.Hour)).Draw(rt, "reported"))
	case k == 17:
		return -time.Duration(rapid.Int64Range(1, int64(time.Hour)).Draw(rt, "reportedNeg"))
	case k == 18:
		return time.Duration(math.MaxInt64)
	default:
		return time.Duration(rapid.Int64().Draw(rt, "reportedAny"))
	}
}

func genProbability(rt *rapid.T) (float64, string) {
	k := rapid.IntRange(0, 23).Draw(rt, "probKind")
	switch {
	case k < 7:
		return 0, ""
	case k < 14:
		return rapid.Float64Range(0, 1).Draw(rt, "prob"), ""
	case k < 16:
		return 1 - rapid.Float64Range(0, 1e-3).Draw(rt, "probNearOne"), "stored:prob-near-1"
	case k == 16:
		return math.NaN(), "stored:prob-nan"
	case k == 17:
		return math.Inf(1), "stored:prob-inf"
	case k == 18:
		return math.Inf(-1), "stored:prob-inf"
	case k == 19:
		return -rapid.Float64Range(0, 10).Draw(rt, "probNeg"), "stored:prob-out-of-range"
	case k == 20:
		return 1 + rapid.Float64Range(0, 10).Draw(rt, "probBig"), "stored:prob-out-of-range"
	case k == 21:
		return 1, "stored:prob-out-of-range"
	case k == 22:
		return 5e-324, "stored:prob-tiny"
	default:
		return rapid.Float64().Draw(rt, "probAny"), "stored:prob-any"
	}
}

func genPreviousExecution(rt *rapid.T) *iscc.PreviousExecution {
	k := rapid.IntRange(0, 20).Draw(rt, "outcomeKind")
	switch {
	case k < 10:
		return &iscc.PreviousExecution{Outcome: &iscc.PreviousExecution_Succeeded{Succeeded: genStoredDuration(rt)}}
	case k < 15:
		return &iscc.PreviousExecution{Outcome: &iscc.PreviousExecution_TimedOut{TimedOut: genStoredDuration(rt)}}
	case k < 20:
		return &iscc.PreviousExecution{Outcome: &iscc.PreviousExecution_Failed{Failed: &emptypb.Empty{}}}
	default:
		return &iscc.PreviousExecution{}
	}
}

// genStats draws a stored PreviousExecutionStats message and passes it
// through the wire format, so that only messages a real cache can return
// are produced. The second result lists the labels of the special values
// that were used.
func genStats(rt *rapid.T, classes []uint32, now time.Time) (*iscc.PreviousExecutionStats, []string) {
	var labels []string
	if rapid.IntRange(0, 7).Draw(rt, "statsEmpty") == 0 {
		return &iscc.PreviousExecutionStats{}, []string{"stored:empty"}
	}
	st := &iscc.PreviousExecutionStats{SizeClasses: map[uint32]*iscc.PerSizeClassStats{}}
	largest := classes[len(classes)-1]
	inList := map[uint32]bool{}
	for _, c := range classes {
		inList[c] = true
	}
	candidates := append([]uint32{}, classes...)
	for _, c := range []uint32{0, 3, 7, largest + 1, math.MaxUint32} {
		if !inList[c] {
			candidates = append(candidates, c)
		}
	}
	if len(classes) >= 3 && rapid.IntRange(0, 3).Draw(rt, "tieredStats") == 0 {
		return genTieredStats(rt, classes), []string{"stored:tiered"}
	}
	maxSamples := rapid.SampledFrom([]int{2, 4, 8, 12}).Draw(rt, "maxSamples")
	// The PageRank computation proper only runs when the largest size
	// class has a success and no smaller one lacks samples: make every
	// listed size class have samples in half of the cases.
	rich := rapid.Bool().Draw(rt, "everyClassHasSamples")
	for _, c := range candidates {
		limit := 2
		if !inList[c] {
			limit = 7
		}
		if rapid.IntRange(0, 9).Draw(rt, "bucketPresent") < limit && !(rich && inList[c]) {
			continue
		}
		if !inList[c] {
			labels = append(labels, "stored:class-outside-list")
		}
		b := &iscc.PerSizeClassStats{}
		minSamples := 0
		if rich && inList[c] {
			minSamples = 1
		}
		for i := rapid.IntRange(minSamples, maxSamples).Draw(rt, "nSamples"); i > 0; i-- {
			b.PreviousExecutions = append(b.PreviousExecutions, genPreviousExecution(rt))
		}
		var l string
		b.InitialPageRankProbability, l = genProbability(rt)
		if l != "" {
			labels = append(labels, l)
		}
		st.SizeClasses[c] = b
	}
	// Most of the interesting code only runs once the action succeeded
	// on the largest size class.
	if rapid.IntRange(0, 9).Draw(rt, "largestSucceeded") < 7 || rich {
		b := st.SizeClasses[largest]
		if b == nil {
			b = &iscc.PerSizeClassStats{}
			st.SizeClasses[largest] = b
		}
		b.PreviousExecutions = append(b.PreviousExecutions, &iscc.PreviousExecution{
			Outcome: &iscc.PreviousExecution_Succeeded{Succeeded: genStoredDuration(rt)},
		})
	}
	switch rapid.IntRange(0, 9).Draw(rt, "lastSeenFailureKind") {
	case 0:
		st.LastSeenFailure = timestamppb.New(now.Add(-time.Duration(rapid.Int64Range(0, int64(2*time.Hour)).Draw(rt, "failureAge"))))
		labels = append(labels, "stored:recent-failure")
	case 1:
		st.LastSeenFailure = timestamppb.New(now.Add(-time.Duration(rapid.Int64Range(int64(20*time.Hour), int64(100*time.Hour)).Draw(rt, "failureAge"))))
		labels = append(labels, "stored:old-failure")
	case 2:
		st.LastSeenFailure = &timestamppb.Timestamp{Seconds: rapid.Int64().Draw(rt, "rawTsSeconds"), Nanos: rapid.Int32().Draw(rt, "rawTsNanos")}
		labels = append(labels, "stored:raw-failure-timestamp")
	case 3:
		st.LastSeenFailure = timestamppb.New(now.Add(time.Duration(rapid.Int64Range(0, int64(100*time.Hour)).Draw(rt, "failureInFuture"))))
		labels = append(labels, "stored:future-failure")
	}
	b, err := proto.Marshal(st)
	if err != nil {
		panic(err)
	}
	out := &iscc.PreviousExecutionStats{}
	if err := proto.Unmarshal(b, out); err != nil {
		panic(err)
	}
	return out, labels
}

var tierDurations = []time.Duration{
	time.Millisecond, 40 * time.Millisecond, 2 * time.Second, 90 * time.Second, 20 * time.Minute, 3 * time.Hour,
}

// genTieredStats draws statistics in which every listed size class has
// many identical samples: all successes of one of six widely spaced
// durations, or all failures. The pairwise IsFaster probabilities are
// then close to 0 or 1, which makes the PageRank chain mix slowly; the
// stored probabilities are individually valid but need not sum to one
// (which also happens by itself when size classes are added later and
// get the default of 0.5).
func genTieredStats(rt *rapid.T, classes []uint32) *iscc.PreviousExecutionStats {
	st := &iscc.PreviousExecutionStats{SizeClasses: map[uint32]*iscc.PerSizeClassStats{}}
	samples := rapid.SampledFrom([]int{6, 12, 32, 64}).Draw(rt, "tierSamples")
	for i, c := range classes {
		b := &iscc.PerSizeClassStats{}
		tier := rapid.IntRange(0, len(tierDurations)).Draw(rt, "tier")
		if i == len(classes)-1 && tier == len(tierDurations) {
			tier = rapid.IntRange(0, len(tierDurations)-1).Draw(rt, "largestTier")
		}
		for j := 0; j < samples; j++ {
			if tier == len(tierDurations) {
				b.PreviousExecutions = append(b.PreviousExecutions, &iscc.PreviousExecution{Outcome: &iscc.PreviousExecution_Failed{Failed: &emptypb.Empty{}}})
			} else {
				b.PreviousExecutions = append(b.PreviousExecutions, &iscc.PreviousExecution{Outcome: &iscc.PreviousExecution_Succeeded{Succeeded: durationpb.New(tierDurations[tier])}})
			}
		}
		switch rapid.IntRange(0, 3).Draw(rt, "tierProbKind") {
		case 0:
			// absent: the calculator starts from 0.5
		case 1:
			b.InitialPageRankProbability = 0.999
		default:
			b.InitialPageRankProbability = rapid.Float64Range(0, 1).Draw(rt, "tierProb")
		}
		st.SizeClasses[c] = b
	}
	return st
}

// outcomeMix reports whether the buckets of the listed size classes hold
// successes and failures/timeouts.
func outcomeMix(sizeClasses map[uint32]*iscc.PerSizeClassStats, classes []uint32) (successes, failures bool) {
	for _, c := range classes {
		b := sizeClasses[c]
		if b == nil {
			continue
		}
		for _, e := range b.PreviousExecutions {
			switch e.Outcome.(type) {
			case *iscc.PreviousExecution_Succeeded:
				successes = true
			case *iscc.PreviousExecution_Failed, *iscc.PreviousExecution_TimedOut:
				failures = true
			}
		}
	}
	return
}

func largestHasSuccess(sizeClasses map[uint32]*iscc.PerSizeClassStats, classes []uint32) bool {
	b := sizeClasses[classes[len(classes)-1]]
	if b == nil {
		return false
	}
	for _, e := range b.PreviousExecutions {
		if _, ok := e.Outcome.(*iscc.PreviousExecution_Succeeded); ok {
			return true
		}
	}
	return false
}

func renderStats(st *iscc.PreviousExecutionStats) string {
	keys := make([]uint32, 0, len(st.GetSizeClasses()))
	for k := range st.GetSizeClasses() {
		keys = append(keys, k)
	}
	sort.Slice(keys, func(i, j int) bool { return keys[i] < keys[j] })
	s := "{"
	for _, k := range keys {
		b := st.SizeClasses[k]
		s += fmt.Sprintf("%d:[", k)
		// Runs of identical samples are rendered as "S(..)x12".
		prev, run := "", 0
		flush := func() {
			if run == 0 {
				return
			}
			if !strings.HasSuffix(s, "[") {
				s += " "
			}
			s += prev
			if run > 1 {
				s += fmt.Sprintf("x%d", run)
			}
		}
		for _, e := range b.GetPreviousExecutions() {
			if r := renderExecution(e); r == prev {
				run++
			} else {
				flush()
				prev, run = r, 1
			}
		}
		flush()
		s += fmt.Sprintf("]p=%v ", b.GetInitialPageRankProbability())
	}
	if st.GetLastSeenFailure() != nil {
		s += fmt.Sprintf("lsf=%d.%09d", st.LastSeenFailure.Seconds, st.LastSeenFailure.Nanos)
	}
	return s + "}"
}

func renderExecution(e *iscc.PreviousExecution) string {
	switch o := e.GetOutcome().(type) {
	case *iscc.PreviousExecution_Succeeded:
		return fmt.Sprintf("S(%ds,%dns)", o.Succeeded.GetSeconds(), o.Succeeded.GetNanos())
	case *iscc.PreviousExecution_TimedOut:
		return fmt.Sprintf("T(%ds,%dns)", o.TimedOut.GetSeconds(), o.TimedOut.GetNanos())
	case *iscc.PreviousExecution_Failed:
		return "F"
	}
	return "-"
}

package sizeclass

import (
	"context"
	"fmt"
	"reflect"
	"runtime/debug"
	"sort"
	"strings"
	"sync"
	"testing"
	"testing/synctest"

	remoteexecution "github.com/bazelbuild/remote-apis/build/bazel/remote/execution/v2"
	re_blobstore "github.com/buildbarn/bb-remote-execution/pkg/blobstore"
	"github.com/buildbarn/bb-storage/pkg/blobstore/buffer"
	"github.com/buildbarn/bb-storage/pkg/blobstore/slicing"
	"github.com/buildbarn/bb-storage/pkg/digest"
	"github.com/buildbarn/bb-storage/pkg/proto/iscc"
	"pgregory.net/rapid"

	"google.golang.org/grpc/codes"
	"google.golang.org/grpc/status"
	"google.golang.org/protobuf/types/known/durationpb"

	"verif/harness/internal/simkit"
)

// ---------------------------------------------------------------------
// Fake Initial Size Class Cache whose Get and Put park until the harness
// completes them.

type callIDKey struct{}

type opResult struct {
	ok      bool
	present bool    // for reads: whether a message is stored
	tokens  []int64 // for reads: its tokens
}

type parkedOp struct {
	id     int
	call   int
	kind   string // "read" or "write"
	digest string
	tokens []int64 // content of a write
	ch     chan opResult
}

func (o *parkedOp) sortKey() string {
	return fmt.Sprintf("%08d/%s/%s/%v", o.call, o.kind, o.digest, o.tokens)
}

type fakeISCC struct {
	mu     sync.Mutex
	fresh  []*parkedOp // parked, not yet numbered by the harness
	broken []string    // complaints raised on storage goroutines
}

func tokensOf(m *iscc.PreviousExecutionStats) []int64 {
	var out []int64
	for _, e := range m.GetSizeClasses()[1].GetPreviousExecutions() {
		if s, ok := e.Outcome.(*iscc.PreviousExecution_Succeeded); ok {
			out = append(out, s.Succeeded.GetSeconds())
		}
	}
	return out
}

func messageOf(tokens []int64) *iscc.PreviousExecutionStats {
	m := &iscc.PreviousExecutionStats{SizeClasses: map[uint32]*iscc.PerSizeClassStats{1: {}}}
	for _, t := range tokens {
		appendToken(m, t)
	}
	return m
}

func appendToken(m *iscc.PreviousExecutionStats, token int64) {
	if m.SizeClasses == nil {
		m.SizeClasses = map[uint32]*iscc.PerSizeClassStats{}
	}
	b := m.SizeClasses[1]
	if b == nil {
		b = &iscc.PerSizeClassStats{}
		m.SizeClasses[1] = b
	}
	b.PreviousExecutions = append(b.PreviousExecutions, &iscc.PreviousExecution{
		Outcome: &iscc.PreviousExecution_Succeeded{Succeeded: &durationpb.Duration{Seconds: token}},
	})
}

func (f *fakeISCC) park(ctx context.Context, kind string, d digest.Digest, tokens []int64) opResult {
	call, _ := ctx.Value(callIDKey{}).(int)
	op := &parkedOp{call: call, kind: kind, digest: digestName(d), tokens: tokens, ch: make(chan opResult, 1)}
	f.mu.Lock()
	f.fresh = append(f.fresh, op)
	f.mu.Unlock()
	return <-op.ch
}

func (f *fakeISCC) complain(format string, args ...any) {
	f.mu.Lock()
	f.broken = append(f.broken, fmt.Sprintf(format, args...))
	f.mu.Unlock()
}

func (f *fakeISCC) Get(ctx context.Context, d digest.Digest) buffer.Buffer {
	res := f.park(ctx, "read", d, nil)
	switch {
	case !res.ok:
		return buffer.NewBufferFromError(status.Error(codes.Internal, "injected read failure"))
	case !res.present:
		return buffer.NewBufferFromError(status.Error(codes.NotFound, "no such message"))
	}
	return buffer.NewProtoBufferFromProto(messageOf(res.tokens), buffer.UserProvided)
}

func (f *fakeISCC) Put(ctx context.Context, d digest.Digest, b buffer.Buffer) error {
	m, err := b.ToProto(&iscc.PreviousExecutionStats{}, 1<<20)
	if err != nil {
		f.complain("Put(%s) received an unreadable message: %v", digestName(d), err)
		return err
	}
	res := f.park(ctx, "write", d, tokensOf(m.(*iscc.PreviousExecutionStats)))
	if !res.ok {
		return status.Error(codes.Internal, "injected write failure")
	}
	return nil
}

func (f *fakeISCC) GetFromComposite(ctx context.Context, parentDigest, childDigest digest.Digest, slicer slicing.BlobSlicer) buffer.Buffer {
	f.complain("GetFromComposite called")
	return buffer.NewBufferFromError(status.Error(codes.Unimplemented, "not used"))
}

func (f *fakeISCC) FindMissing(ctx context.Context, digests digest.Set) (digest.Set, error) {
	f.complain("FindMissing called")
	return digest.EmptySet, status.Error(codes.Unimplemented, "not used")
}

func (f *fakeISCC) GetCapabilities(ctx context.Context, instanceName digest.InstanceName) (*remoteexecution.ServerCapabilities, error) {
	f.complain("GetCapabilities called")
	return nil, status.Error(codes.Unimplemented, "not used")
}

var persistenceDigests = map[string]digest.Digest{}
var persistenceDigestNames = map[string]string{}

func init() {
	for i, name := range []string{"A", "B", "C", "drain"} {
		d := digest.MustNewDigest("verif", remoteexecution.DigestFunction_SHA256, strings.Repeat(fmt.Sprintf("%02x", 0xa0+i), 32), int64(100+i))
		persistenceDigests[name] = d
		persistenceDigestNames[d.GetKey(digest.KeyWithInstance)] = name
	}
}

func digestName(d digest.Digest) string {
	if n, ok := persistenceDigestNames[d.GetKey(digest.KeyWithInstance)]; ok {
		return n
	}
	return d.String()
}

// ---------------------------------------------------------------------
// The case

type statsHandle = re_blobstore.MutableProtoHandle[*iscc.PreviousExecutionStats]

type getOutcome struct {
	handle   statsHandle
	err      error
	panicked any
}

type getCall struct {
	id         int
	digest     string
	result     chan getOutcome
	done       bool
	issuedRead bool
	writes     int
}

type holding struct {
	call   int
	digest string
	handle statsHandle
	object int // number of the handle object
}

type pCase struct {
	rt      *rapid.T
	script  []step
	labels  map[string]bool
	digests []string

	iscc     *fakeISCC
	store    re_blobstore.MutableProtoStore[*iscc.PreviousExecutionStats]
	stored   map[string][]int64 // contents of the fake cache
	present  map[string]bool
	applied  map[string][]int64 // tokens applied through handles, in order
	dirtied  map[string]bool
	tainted  map[string]bool // overlapping first reads: only the weak oracle applies
	writes   map[string]int  // writes issued per digest
	parked   []*parkedOp
	nextOp   int
	calls    []*getCall
	holdings []*holding
	objects  []statsHandle
	token    int64

	draining    bool
	nontrivial  bool
	maxUpdates  int
	abortReason string
}

// pViolation is what a failed oracle panics with inside the bubble; it is
// turned into rt.Fatalf outside of it.
type pViolation struct{ msg string }

func (c *pCase) failf(format string, args ...any) {
	panic(pViolation{msg: fmt.Sprintf("C07(c) %s; script=%+v", fmt.Sprintf(format, args...), c.script)})
}

func (c *pCase) label(l string) { c.labels[l] = true }

func (c *pCase) add(op, arg, res string) { c.script = append(c.script, step{Op: op, Arg: arg, Res: res}) }

// settle waits until every goroutine is parked again, then numbers the
// newly parked storage operations deterministically and collects the Get
// calls that returned.
func (c *pCase) settle() {
	synctest.Wait()
	c.iscc.mu.Lock()
	fresh := c.iscc.fresh
	c.iscc.fresh = nil
	broken := c.iscc.broken
	c.iscc.mu.Unlock()
	if len(broken) > 0 {
		c.failf("fake ISCC misuse: %v", broken)
	}
	sort.Slice(fresh, func(i, j int) bool { return fresh[i].sortKey() < fresh[j].sortKey() })
	for _, op := range fresh {
		op.id = c.nextOp
		c.nextOp++
		c.parked = append(c.parked, op)
		call := c.calls[op.call]
		if op.kind == "write" {
			if !c.draining {
				c.label("write-before-drain")
			}
			call.writes++
			c.writes[op.digest]++
			if !c.dirtied[op.digest] {
				c.failf("a message for %s is written to the cache although no handle of it was ever released dirty (write park#%d)", op.digest, op.id)
			}
			continue
		}
		// A first read of this digest overlapping another one: the
		// second reader may legitimately see a stale message.
		for _, other := range c.calls {
			if other != call && !other.done && other.digest == op.digest && other.issuedRead {
				c.tainted[op.digest] = true
				c.label("overlapping-first-reads")
			}
		}
		call.issuedRead = true
	}
	for _, call := range c.calls {
		if call.done {
			continue
		}
		select {
		case out := <-call.result:
			call.done = true
			switch {
			case out.panicked != nil:
				c.add("returned", fmt.Sprintf("call=%d", call.id), fmt.Sprintf("PANIC %v", out.panicked))
				c.abortReason = fmt.Sprintf("Get(%s) panicked: %v", call.digest, out.panicked)
			case out.err != nil:
				c.add("returned", fmt.Sprintf("call=%d", call.id), "error "+status.Code(out.err).String())
				c.label("get-failed")
			default:
				obj := -1
				for i, o := range c.objects {
					if o == out.handle {
						obj = i
					}
				}
				if obj < 0 {
					obj = len(c.objects)
					c.objects = append(c.objects, out.handle)
				} else {
					c.label("handle-shared")
					if c.writeInFlight(call.digest) {
						c.label("handle-reused-during-write")
					}
				}
				c.holdings = append(c.holdings, &holding{call: call.id, digest: call.digest, handle: out.handle, object: obj})
				c.add("returned", fmt.Sprintf("call=%d", call.id), fmt.Sprintf("handle object#%d", obj))
			}
		default:
		}
	}
	if c.abortReason != "" {
		c.failf("%s", c.abortReason)
	}
	if n := c.pendingCalls(); n > 0 && len(c.parked) == 0 {
		c.failf("%d Get call(s) neither returned nor wait for a storage operation", n)
	}
}

func (c *pCase) pendingCalls() int {
	n := 0
	for _, call := range c.calls {
		if !call.done {
			n++
		}
	}
	return n
}

func (c *pCase) startGet(name string) *getCall {
	call := &getCall{id: len(c.calls), digest: name, result: make(chan getOutcome, 1)}
	c.calls = append(c.calls, call)
	ctx := context.WithValue(context.Background(), callIDKey{}, call.id)
	d := persistenceDigests[name]
	store := c.store
	go func() {
		var out getOutcome
		defer func() {
			if r := recover(); r != nil {
				out = getOutcome{panicked: r}
			}
			call.result <- out
		}()
		out.handle, out.err = store.Get(ctx, d)
	}()
	c.add("get", fmt.Sprintf("call=%d digest=%s", call.id, name), "")
	c.settle()
	return call
}

func (c *pCase) complete(idx int, ok bool) {
	op := c.parked[idx]
	c.parked = append(c.parked[:idx], c.parked[idx+1:]...)
	res := opResult{ok: ok}
	outcome := "error"
	if ok {
		outcome = "ok"
		if op.kind == "write" {
			c.stored[op.digest] = append([]int64{}, op.tokens...)
			c.present[op.digest] = true
		} else {
			res.present = c.present[op.digest]
			res.tokens = append([]int64{}, c.stored[op.digest]...)
			if !res.present {
				outcome = "not-found"
			}
		}
	} else {
		c.label(op.kind + "-failed")
	}
	detail := ""
	if op.kind == "write" {
		detail = fmt.Sprintf(" content=%v", op.tokens)
	} else if ok && res.present {
		detail = fmt.Sprintf(" content=%v", res.tokens)
	}
	c.add("complete", fmt.Sprintf("park#%d %s(%s) of call=%d%s", op.id, op.kind, op.digest, op.call, detail), outcome)
	op.ch <- res
	c.settle()
}

func (c *pCase) firstReadPending(name string) bool {
	for _, call := range c.calls {
		if !call.done && call.digest == name && call.issuedRead {
			return true
		}
	}
	return false
}

func (c *pCase) writeInFlight(name string) bool {
	for _, op := range c.parked {
		if op.kind == "write" && op.digest == name {
			return true
		}
	}
	return false
}

func (c *pCase) release(idx int, dirty bool) {
	h := c.holdings[idx]
	c.holdings = append(c.holdings[:idx], c.holdings[idx+1:]...)
	if !dirty {
		h.handle.Release(false)
		c.add("release", fmt.Sprintf("holding of call=%d digest=%s object#%d", h.call, h.digest, h.object), "clean")
		c.settle()
		return
	}
	c.token++
	appendToken(h.handle.GetMutableProto(), c.token)
	c.applied[h.digest] = append(c.applied[h.digest], c.token)
	c.dirtied[h.digest] = true
	if n := len(c.applied[h.digest]); n > c.maxUpdates {
		c.maxUpdates = n
	}
	inFlight := c.writeInFlight(h.digest)
	if inFlight {
		c.nontrivial = true
		c.label("dirty-release-during-write")
	}
	h.handle.Release(true)
	c.add("release", fmt.Sprintf("holding of call=%d digest=%s object#%d token=%d writeInFlight=%v", h.call, h.digest, h.object, c.token, inFlight), "dirty")
	c.settle()
}

func newPCase(rt *rapid.T) *pCase {
	return &pCase{
		rt: rt, labels: map[string]bool{},
		stored: map[string][]int64{}, present: map[string]bool{}, applied: map[string][]int64{},
		dirtied: map[string]bool{}, tainted: map[string]bool{}, writes: map[string]int{},
	}
}

func (c *pCase) newStore() {
	c.iscc = &fakeISCC{}
	c.store = re_blobstore.NewBlobAccessMutableProtoStore[iscc.PreviousExecutionStats](c.iscc, 1<<20)
}

func (c *pCase) run() {
	rt := c.rt
	c.newStore()
	// A queued handle is only written by a Get for another digest, so one
	// digest alone is the rare case.
	c.digests = []string{"A", "B", "C"}[:rapid.SampledFrom([]int{2, 3, 2, 3, 2, 1}).Draw(rt, "nDigests")]
	for _, d := range c.digests {
		if rapid.IntRange(0, 3).Draw(rt, "prepopulated") == 0 {
			n := rapid.IntRange(0, 2).Draw(rt, "initialTokens")
			for i := 0; i < n; i++ {
				c.token++
				c.stored[d] = append(c.stored[d], c.token)
			}
			c.present[d] = true
			c.applied[d] = append([]int64{}, c.stored[d]...)
			c.add("stored", d, fmt.Sprint(c.stored[d]))
			c.label("prepopulated")
		}
	}

	busyDigests := func() []string {
		var busy []string
		for _, d := range c.digests {
			if c.writeInFlight(d) {
				busy = append(busy, d)
			}
		}
		return busy
	}
	// pickDigest prefers digests with a write in flight: that is where the
	// interesting interleavings are. Two overlapping first reads of one
	// digest only allow the weak oracle for it, so they are explored, but
	// rarely.
	pickDigest := func(busyOnly bool) (string, bool) {
		if busy := busyDigests(); len(busy) > 0 && (busyOnly || rapid.IntRange(0, 2).Draw(rt, "preferBusy") != 0) {
			return busy[rapid.IntRange(0, len(busy)-1).Draw(rt, "busyDigest")], true
		} else if busyOnly {
			return "", false
		}
		d := c.digests[rapid.IntRange(0, len(c.digests)-1).Draw(rt, "digest")]
		if c.firstReadPending(d) && rapid.IntRange(0, 15).Draw(rt, "allowOverlap") != 0 {
			for _, other := range c.digests {
				if !c.firstReadPending(other) {
					return other, true
				}
			}
			return "", false
		}
		return d, true
	}
	canGet := func() bool { return c.pendingCalls() < 4 && len(c.holdings) < 5 }
	// Every rule falls back to another applicable one instead of being
	// skipped: in the idle state only "get" applies, and rapid gives up on
	// a case after too many skipped draws.
	var fallback func()
	doGet := func(busyOnly bool) {
		if !canGet() {
			fallback()
			return
		}
		d, ok := pickDigest(busyOnly)
		if !ok {
			// Every digest is being read for the first time (so
			// something is parked), or none has a write in flight.
			if len(c.parked) > 0 {
				c.complete(rapid.IntRange(0, len(c.parked)-1).Draw(rt, "park"), true)
			} else {
				c.startGet(c.digests[rapid.IntRange(0, len(c.digests)-1).Draw(rt, "digest")])
			}
			return
		}
		c.startGet(d)
	}
	doComplete := func(kind string, ok bool) {
		var idxs []int
		for i, op := range c.parked {
			if kind == "" || op.kind == kind {
				idxs = append(idxs, i)
			}
		}
		if len(idxs) == 0 {
			fallback()
			return
		}
		c.complete(idxs[rapid.IntRange(0, len(idxs)-1).Draw(rt, "park")], ok)
	}
	holdingsOf := func(d string) int {
		n := 0
		for _, h := range c.holdings {
			if h.digest == d {
				n++
			}
		}
		return n
	}
	doRelease := func(busyOnly, dirty bool) {
		var idxs []int
		for i, h := range c.holdings {
			if !busyOnly || c.writeInFlight(h.digest) {
				idxs = append(idxs, i)
			}
		}
		// Prefer the last holding of a digest: only then the handle is
		// queued for writing.
		var sole []int
		for _, i := range idxs {
			if holdingsOf(c.holdings[i].digest) == 1 {
				sole = append(sole, i)
			}
		}
		if len(sole) > 0 && rapid.IntRange(0, 3).Draw(rt, "preferSoleHolding") != 0 {
			idxs = sole
		}
		if len(idxs) == 0 {
			if busyOnly && canGet() {
				doGet(true) // set the situation up instead
			} else {
				fallback()
			}
			return
		}
		c.release(idxs[rapid.IntRange(0, len(idxs)-1).Draw(rt, "holding")], dirty)
	}
	fallback = func() {
		switch {
		case canGet():
			doGet(false)
		case len(c.parked) > 0:
			doComplete("", true)
		default:
			doRelease(false, true)
		}
	}

	rt.Repeat(map[string]func(*rapid.T){
		"get":                     func(*rapid.T) { doGet(false) },
		"getDuringWrite":          func(*rapid.T) { doGet(true) },
		"releaseDirty":            func(*rapid.T) { doRelease(false, true) },
		"releaseDirtyDuringWrite": func(*rapid.T) { doRelease(true, true) },
		"releaseClean": func(*rapid.T) {
			if rapid.IntRange(0, 1).Draw(rt, "reallyClean") != 0 {
				fallback()
				return
			}
			doRelease(false, false)
		},
		"completeOK":      func(*rapid.T) { doComplete("", true) },
		"completeReadOK":  func(*rapid.T) { doComplete("read", true) },
		"completeError": func(*rapid.T) {
			if rapid.IntRange(0, 2).Draw(rt, "reallyFail") != 0 {
				fallback()
				return
			}
			doComplete("", false)
		},
	})

	c.drainAndCheck()
	switch {
	case c.maxUpdates >= 3:
		c.label("updates>=3")
	case c.maxUpdates >= 1:
		c.label("updates:1-2")
	default:
		c.label("updates:0")
	}
}

// drainAndCheck ends a case. Storage is healthy from here on: every
// outstanding call finishes, every handle is handed back, then Get is
// called on an unrelated digest until nothing is written any more (that is
// what pumps the write-back queue). Finally the contents of the cache are
// compared with the updates that were applied.
func (c *pCase) drainAndCheck() {
	c.add("drain", "", "")
	c.draining = true
	for len(c.parked) > 0 {
		c.complete(0, true)
	}
	if n := c.pendingCalls(); n != 0 {
		c.failf("%d Get call(s) did not return although no storage operation is outstanding", n)
	}
	for len(c.holdings) > 0 {
		c.release(0, false)
	}
	limit := 4*len(c.objects) + 8
	for round := 0; ; round++ {
		if round >= limit {
			c.failf("the write-back queue did not drain after %d further Get calls with healthy storage", round)
		}
		call := c.startGet("drain")
		for len(c.parked) > 0 {
			c.complete(0, true)
		}
		if !call.done {
			c.failf("a Get call did not return although no storage operation is outstanding")
		}
		for len(c.holdings) > 0 {
			c.release(0, false)
		}
		if call.writes == 0 {
			break
		}
	}

	// Oracle: what the cache finally holds, for every digest touched.
	seen := map[string]bool{}
	var digests []string
	for _, d := range c.digests {
		seen[d] = true
		digests = append(digests, d)
	}
	for d := range c.applied {
		if !seen[d] {
			digests = append(digests, d)
		}
	}
	sort.Strings(digests)
	for _, d := range digests {
		got, want := c.stored[d], c.applied[d]
		if !c.dirtied[d] {
			continue // no write was allowed at all (checked when parked)
		}
		if c.tainted[d] {
			c.label("weak-oracle-used")
			// A reader that overlapped another first reader may have
			// started from an older message. Still: nothing foreign,
			// order kept, and the latest update is not lost.
			j := 0
			for _, t := range got {
				for j < len(want) && want[j] != t {
					j++
				}
				if j == len(want) {
					c.failf("cache holds %v for %s, which is not an ordered selection of the applied updates %v", got, d, want)
				}
				j++
			}
			if len(want) > 0 && (len(got) == 0 || got[len(got)-1] != want[len(want)-1]) {
				c.failf("the latest update %d of %s is missing from the cache, which holds %v (applied: %v)", want[len(want)-1], d, got, want)
			}
			continue
		}
		if fmt.Sprint(got) != fmt.Sprint(want) {
			c.failf("after draining, the cache holds %v for %s, but the updates applied were %v: an update was lost or overwritten by an older message", got, d, want)
		}
	}
}

// runInBubble runs body inside a synctest bubble. Failures are carried
// out of the bubble and raised outside of it: oracle violations through
// rt.Fatalf, rapid's own control-flow panics (exhausted bit stream while
// shrinking, ...) unchanged, anything else as a failure that carries the
// stack of the original panic. The three are raised on different lines,
// because rapid's shrinker tells failures apart by their traceback. When
// body fails, parked goroutines are left behind on purpose; the resulting
// deadlock report of synctest is dropped in favour of the original failure.
func runInBubble(t *testing.T, rt *rapid.T, script func() []step, body func()) {
	var raw any
	var stack []byte
	panicked := false
	func() {
		defer func() {
			if r := recover(); r != nil && !panicked {
				raw, panicked, stack = r, true, debug.Stack()
			}
		}()
		synctest.Test(t, func(*testing.T) {
			defer func() {
				if r := recover(); r != nil {
					raw, panicked, stack = r, true, debug.Stack()
				}
			}()
			body()
		})
	}()
	if !panicked {
		return
	}
	if v, ok := raw.(pViolation); ok {
		rt.Fatalf("%s", v.msg)
	}
	if typ := reflect.TypeOf(raw); typ != nil && (typ.PkgPath() == "pgregory.net/rapid" || (typ.Kind() == reflect.Pointer && typ.Elem().PkgPath() == "pgregory.net/rapid")) {
		panic(raw)
	}
	rt.Fatalf("C07(c) panic: %v; script=%+v\n%s", raw, script(), stack)
}

func TestC07StatsPersistence(t *testing.T) {
	rec := simkit.NewRecorder(t, "C07", "persistence",
		"real BlobAccessMutableProtoStore over a fake ISCC whose Get/Put park inside a synctest bubble; rapid state machine over 1-3 digests: get(digest) in its own goroutine, "+
			"append-unique-token+Release(dirty), Release(clean), complete(parked read/write, ok|error); handle methods are called serially (documented global lock), only storage "+
			"operations overlap. After a drain phase with healthy storage (all calls finish, all handles released, further Gets pump the write-back queue until nothing is written) the "+
			"cache must hold exactly the applied tokens in order for every digest (ordered selection ending in the latest token where two first reads of the digest overlapped), nothing "+
			"is ever written for a digest without a dirty release, every Get returns, nothing panics. NON-TRIVIAL: a dirty release happened while a write of the same digest was in "+
			"flight; distinct by script hash")
	// Register the store's metrics outside of any bubble.
	re_blobstore.NewBlobAccessMutableProtoStore[iscc.PreviousExecutionStats](&fakeISCC{}, 1)
	rapid.Check(t, func(rt *rapid.T) {
		c := newPCase(rt)
		runInBubble(t, rt, func() []step { return c.script }, c.run)
		labels := make([]string, 0, len(c.labels))
		for l := range c.labels {
			labels = append(labels, l)
		}
		sort.Strings(labels)
		rec.Case(c.script, c.nontrivial, labels...)
	})
}

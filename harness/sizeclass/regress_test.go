package sizeclass

import (
	"fmt"
	"runtime/debug"
	"testing"
	"testing/synctest"
	"time"

	"github.com/buildbarn/bb-remote-execution/pkg/scheduler/initialsizeclass"
	"github.com/buildbarn/bb-storage/pkg/proto/iscc"

	"google.golang.org/protobuf/types/known/durationpb"
	"google.golang.org/protobuf/types/known/emptypb"

	"verif/harness/internal/simkit"
)

// Deterministic regression tests for the defects found by this package
// (see FINDINGS.md): explicit scripts, no generated values. They use the
// same executor and the same oracle as TestC07StatsPersistence and
// TestC07ChoicesWellFormed.

// runScripted executes an explicit persistence script inside a bubble and
// ends it with the usual drain phase and cache oracle.
func runScripted(t *testing.T, name string, body func(c *pCase)) {
	rec := simkit.NewRecorder(t, "C07", name, "one explicit script (no generated values), replayed through the executor and oracle of the persistence sub-check")
	c := newPCase(nil)
	var raw any
	var stack []byte
	panicked := false
	func() {
		defer func() {
			if r := recover(); r != nil && !panicked {
				raw, panicked, stack = r, true, debug.Stack()
			}
		}()
		synctest.Test(t, func(*testing.T) {
			defer func() {
				if r := recover(); r != nil {
					raw, panicked, stack = r, true, debug.Stack()
				}
			}()
			c.newStore()
			body(c)
			c.drainAndCheck()
		})
	}()
	if panicked {
		if v, ok := raw.(pViolation); ok {
			t.Fatalf("%s", v.msg)
		}
		t.Fatalf("C07(c) panic: %v; script=%+v\n%s", raw, c.script, stack)
	}
	t.Logf("script=%+v; cache=%v applied=%v", c.script, c.stored, c.applied)
	rec.Case(c.script, c.nontrivial, "regression-script")
}

// completeIfParked completes the first parked operation of that kind and
// digest, if there is one.
func (c *pCase) completeIfParked(kind, digest string) bool {
	for i, op := range c.parked {
		if op.kind == kind && op.digest == digest {
			c.complete(i, true)
			return true
		}
	}
	return false
}

func (c *pCase) mustComplete(kind, digest string) {
	if !c.completeIfParked(kind, digest) {
		c.failf("regression script no longer applies: no %s(%s) is parked", kind, digest)
	}
}

// releaseCall hands back the handle that the given Get call returned.
func (c *pCase) releaseCall(call *getCall, dirty bool) {
	for i, h := range c.holdings {
		if h.call == call.id {
			c.release(i, dirty)
			return
		}
	}
	c.failf("regression script no longer applies: Get call %d (digest %s) has not returned a handle", call.id, call.digest)
}

// F1: a dirty release made while a write of the handle is in flight was
// not told apart from the version being written (currentVersion =
// writtenVersion + 1) and got lost.
func TestC07RegressF1DirtyReleaseDuringWrite(t *testing.T) {
	runScripted(t, "regress-F1", func(c *pCase) {
		g0 := c.startGet("B")
		c.mustComplete("read", "B")
		c.releaseCall(g0, true) // update 1; handle queued
		g1 := c.startGet("A")   // takes the handle of B from the queue: write(B)[1] parked
		g2 := c.startGet("B")   // handle still known: returns at once
		c.releaseCall(g2, true) // update 2 while write(B)[1] is in flight
		g3 := c.startGet("B")
		c.mustComplete("write", "B")
		c.mustComplete("read", "A")
		c.releaseCall(g1, false)
		c.releaseCall(g3, false) // last holder; the handle must still count as dirty
	})
}

// F2: a handle released (clean) while its write was in flight was queued
// a second time, dropped from the map while still queued, and the
// completion of its second write removed another, live handle of the same
// digest from the map; two handles then diverged.
func TestC07RegressF2RequeuedWhileBeingWritten(t *testing.T) {
	runScripted(t, "regress-F2", func(c *pCase) {
		g0 := c.startGet("C")
		c.mustComplete("read", "C")
		c.releaseCall(g0, true) // update 1; handle queued
		g1 := c.startGet("B")   // write(C)[1] (W1) and read(B) parked
		g2 := c.startGet("C")
		c.releaseCall(g2, false) // clean re-release while W1 is in flight
		c.mustComplete("write", "C")
		c.mustComplete("read", "B")
		g3 := c.startGet("A") // defective code: writes the handle of C a second time (W2)
		g4 := c.startGet("C")
		c.completeIfParked("read", "C")
		c.completeIfParked("write", "C") // W2, if any: must not disturb g4's handle
		g5 := c.startGet("C")            // must share g4's handle
		c.completeIfParked("read", "C")
		c.releaseCall(g4, true) // update 2
		c.releaseCall(g5, true) // update 3
		c.mustComplete("read", "A")
		c.releaseCall(g1, false)
		c.releaseCall(g3, false)
	})
}

// F2, second consequence: the two writes of one handle completing in the
// opposite order must not leave the older message in the cache.
func TestC07RegressF2WritesOutOfOrder(t *testing.T) {
	runScripted(t, "regress-F2b", func(c *pCase) {
		g0 := c.startGet("C")
		c.mustComplete("read", "C")
		c.releaseCall(g0, true) // update 1
		g1 := c.startGet("B")   // W1 = write(C)[1] parked
		g2 := c.startGet("C")
		c.releaseCall(g2, true) // update 2 while W1 is in flight
		g3 := c.startGet("A")   // defective code: W2 = write(C)[1 2] parked next to W1
		// Complete the newest write first, then the older one.
		for i := len(c.parked) - 1; i >= 0; i-- {
			if op := c.parked[i]; op.kind == "write" && op.digest == "C" && len(op.tokens) == 2 {
				c.complete(i, true)
				break
			}
		}
		c.mustComplete("write", "C")
		c.mustComplete("read", "B")
		c.mustComplete("read", "A")
		c.releaseCall(g1, false)
		c.releaseCall(g3, false)
	})
}

func succeeded(d time.Duration, n int) []*iscc.PreviousExecution {
	var out []*iscc.PreviousExecution
	for i := 0; i < n; i++ {
		out = append(out, &iscc.PreviousExecution{Outcome: &iscc.PreviousExecution_Succeeded{Succeeded: durationpb.New(d)}})
	}
	return out
}

func failed(n int) []*iscc.PreviousExecution {
	var out []*iscc.PreviousExecution
	for i := 0; i < n; i++ {
		out = append(out, &iscc.PreviousExecution{Outcome: &iscc.PreviousExecution_Failed{Failed: &emptypb.Empty{}}})
	}
	return out
}

// F3: restored PageRank probabilities that do not form a distribution
// (absent ones count as 0.5) made the first entry start negative; power
// iteration could stop with a negative probability or a sum above one.
func TestC07RegressF3PageRankStartVector(t *testing.T) {
	rec := simkit.NewRecorder(t, "C07", "regress-F3", "explicit stored statistics and parameters (no generated values), checked with the well-formedness oracle of the calculator mode")
	type input struct {
		name     string
		maxError float64
		classes  []uint32
		original time.Duration
		stats    map[uint32]*iscc.PerSizeClassStats
	}
	many := func(d time.Duration, p float64) *iscc.PerSizeClassStats {
		return &iscc.PerSizeClassStats{PreviousExecutions: succeeded(d, 400), InitialPageRankProbability: p}
	}
	inputs := []input{
		{
			name: "negative-probability", maxError: 0.1, classes: []uint32{1, 2, 3, 4, 5}, original: 0,
			stats: map[uint32]*iscc.PerSizeClassStats{
				1: {PreviousExecutions: succeeded(time.Millisecond, 32)},
				2: {PreviousExecutions: succeeded(time.Millisecond, 32), InitialPageRankProbability: 0.999},
				3: {PreviousExecutions: succeeded(time.Millisecond, 32), InitialPageRankProbability: 0.999},
				4: {PreviousExecutions: succeeded(time.Millisecond, 32), InitialPageRankProbability: 0.999},
				5: {PreviousExecutions: succeeded(time.Millisecond, 32), InitialPageRankProbability: 0.999},
			},
		},
		{
			name: "sum-above-one", maxError: 0.1, classes: []uint32{1, 2, 3, 4, 5, 8}, original: 1<<63 - 1,
			stats: map[uint32]*iscc.PerSizeClassStats{
				1: {PreviousExecutions: succeeded(2*time.Second, 12)},
				2: {PreviousExecutions: succeeded(time.Millisecond, 12), InitialPageRankProbability: 0.999},
				3: {PreviousExecutions: succeeded(40*time.Millisecond, 12)},
				4: {PreviousExecutions: succeeded(40*time.Millisecond, 12)},
				5: {PreviousExecutions: failed(12)},
				8: {PreviousExecutions: succeeded(2*time.Second, 12)},
			},
		},
		{
			// Strict convergence error, many samples, all restored
			// probabilities valid or absent.
			name: "many-samples", maxError: 0.01, classes: []uint32{1, 3, 7, 10, 11, 12}, original: time.Hour,
			stats: map[uint32]*iscc.PerSizeClassStats{
				1: many(90*time.Second, 0), 3: many(time.Millisecond, 0.999), 7: many(90*time.Second, 0.999),
				10: many(90*time.Second, 0.999), 11: many(90*time.Second, 0.999), 12: many(90*time.Second, 0.999),
			},
		},
	}
	for _, in := range inputs {
		calc := initialsizeclass.NewPageRankStrategyCalculator(0, 0, 1, in.maxError)
		script := []step{{Op: "getStrategies", Arg: fmt.Sprintf("%s classes=%v original=%s err=%v stats=%s", in.name, in.classes, in.original, in.maxError,
			renderStats(&iscc.PreviousExecutionStats{SizeClasses: in.stats}))}}
		strategies := calc.GetStrategies(in.stats, in.classes, in.original)
		script[0].Res = fmt.Sprintf("%+v", strategies)
		checkStrategies(func(format string, args ...any) {
			t.Fatalf("C07(b) %s; script=%+v", fmt.Sprintf(format, args...), script)
		}, strategies, len(in.classes), in.original)
		rec.Case(script, true, "regression-script")
	}
}

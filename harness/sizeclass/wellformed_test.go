package sizeclass

import (
	"context"
	"fmt"
	"math"
	"sort"
	"strings"
	"testing"
	"time"

	remoteexecution "github.com/bazelbuild/remote-apis/build/bazel/remote/execution/v2"
	re_blobstore "github.com/buildbarn/bb-remote-execution/pkg/blobstore"
	"github.com/buildbarn/bb-remote-execution/pkg/scheduler/initialsizeclass"
	"github.com/buildbarn/bb-storage/pkg/blobstore"
	"github.com/buildbarn/bb-storage/pkg/clock"
	"github.com/buildbarn/bb-storage/pkg/digest"
	"github.com/buildbarn/bb-storage/pkg/proto/iscc"
	"github.com/prometheus/client_golang/prometheus"
	dto "github.com/prometheus/client_model/go"
	"pgregory.net/rapid"

	"google.golang.org/grpc/codes"
	"google.golang.org/grpc/status"
	"google.golang.org/protobuf/proto"
	"google.golang.org/protobuf/types/known/durationpb"
	"google.golang.org/protobuf/types/known/emptypb"
	"google.golang.org/protobuf/types/known/timestamppb"

	"verif/harness/internal/simkit"
)

var wfDigestFunction = digest.MustNewFunction("verif", remoteexecution.DigestFunction_SHA256)

// ---------------------------------------------------------------------
// Fakes

// fakeClock only supports Now(); the analyzer uses nothing else.
type fakeClock struct{ now time.Time }

func (c *fakeClock) Now() time.Time { return c.now }
func (c *fakeClock) NewContextWithTimeout(context.Context, time.Duration) (context.Context, context.CancelFunc) {
	panic("fakeClock: NewContextWithTimeout is not used by the code under test")
}
func (c *fakeClock) NewTimer(time.Duration) (clock.Timer, <-chan time.Time) {
	panic("fakeClock: NewTimer is not used by the code under test")
}
func (c *fakeClock) NewTicker(time.Duration) (clock.Ticker, <-chan time.Time) {
	panic("fakeClock: NewTicker is not used by the code under test")
}

// fakeRNG hands out floats in [0, 1) drawn from rapid.
type fakeRNG struct {
	rt    *rapid.T
	last  float64
	calls int
}

func (g *fakeRNG) Float64() float64 {
	g.calls++
	var r float64
	switch rapid.IntRange(0, 9).Draw(g.rt, "rKind") {
	case 0:
		r = 0
	case 1:
		r = math.Nextafter(1, 0)
	default:
		r = rapid.Float64Range(0, 1).Draw(g.rt, "r")
	}
	if r >= 1 {
		r = math.Nextafter(1, 0)
	}
	g.last = r
	return r
}
func (g *fakeRNG) Int64N(int64) int64     { panic("fakeRNG: unused") }
func (g *fakeRNG) IntN(int) int           { panic("fakeRNG: unused") }
func (g *fakeRNG) Read([]byte) (int, error) { panic("fakeRNG: unused") }
func (g *fakeRNG) Shuffle(int, func(int, int)) { panic("fakeRNG: unused") }
func (g *fakeRNG) Uint32() uint32         { panic("fakeRNG: unused") }
func (g *fakeRNG) Uint64() uint64         { panic("fakeRNG: unused") }

// fakeStatsStore is a MutableProtoStore with one shared message per
// digest and handles that count their releases.
type fakeStatsStore struct {
	c        *wfCase
	msgs     map[string]*iscc.PreviousExecutionStats
	failNext bool
	handles  []*fakeStatsHandle
}

func (s *fakeStatsStore) Get(ctx context.Context, d digest.Digest) (re_blobstore.MutableProtoHandle[*iscc.PreviousExecutionStats], error) {
	if s.failNext {
		s.failNext = false
		return nil, status.Error(codes.Internal, "ISCC unavailable")
	}
	k := d.GetKey(digest.KeyWithInstance)
	m, ok := s.msgs[k]
	if !ok {
		m = &iscc.PreviousExecutionStats{}
		s.msgs[k] = m
	}
	h := &fakeStatsHandle{c: s.c, id: len(s.handles), key: k, msg: m}
	s.handles = append(s.handles, h)
	return h, nil
}

type fakeStatsHandle struct {
	c        *wfCase
	id       int
	key      string
	msg      *iscc.PreviousExecutionStats
	releases int
	dirty    bool
}

func (h *fakeStatsHandle) GetMutableProto() *iscc.PreviousExecutionStats {
	if h.releases > 0 {
		h.c.failf("GetMutableProto called on stats handle #%d after it was released", h.id)
	}
	return h.msg
}

func (h *fakeStatsHandle) Release(isDirty bool) {
	h.releases++
	if h.releases > 1 {
		h.c.failf("stats handle #%d released %d times", h.id, h.releases)
	}
	h.dirty = isDirty
}

// ---------------------------------------------------------------------
// Model of the statistics of one action

type statsModel struct {
	buckets map[uint32][]*iscc.PreviousExecution
	lsf     *timestamppb.Timestamp
}

func newStatsModel(st *iscc.PreviousExecutionStats) *statsModel {
	m := &statsModel{buckets: map[uint32][]*iscc.PreviousExecution{}}
	for k, b := range st.GetSizeClasses() {
		for _, e := range b.GetPreviousExecutions() {
			m.buckets[k] = append(m.buckets[k], proto.Clone(e).(*iscc.PreviousExecution))
		}
	}
	if st.GetLastSeenFailure() != nil {
		m.lsf = proto.Clone(st.LastSeenFailure).(*timestamppb.Timestamp)
	}
	return m
}

func (m *statsModel) add(class uint32, e *iscc.PreviousExecution, historySize int) (trimmed bool) {
	l := append(m.buckets[class], e)
	if len(l) > historySize {
		l = l[len(l)-historySize:]
		trimmed = true
	}
	m.buckets[class] = l
	return
}

func (m *statsModel) asMap() map[uint32]*iscc.PerSizeClassStats {
	out := map[uint32]*iscc.PerSizeClassStats{}
	for k, l := range m.buckets {
		out[k] = &iscc.PerSizeClassStats{PreviousExecutions: l}
	}
	return out
}

// ---------------------------------------------------------------------
// The case

type wfAction struct {
	touched     bool // a Selector/Learner of this action was called since the last comparison
	commandHash string
	key         string
	model       *statsModel
}

type failedAttempt struct {
	class    uint32
	timeout  time.Duration
	timedOut bool
}

type wfChain struct {
	id       int
	action   *wfAction
	own      time.Duration
	handle   *fakeStatsHandle
	selector initialsizeclass.Selector
	learner  initialsizeclass.Learner
	// Current attempt.
	class      uint32
	timeout    time.Duration
	background bool
	retry      bool
	pending    *failedAttempt
	changed    bool
	done       bool
}

type wfCase struct {
	rt       *rapid.T
	script   []step
	labels   map[string]bool
	classes  []uint32
	largest  uint32
	history  int
	fcd      time.Duration
	clock    *fakeClock
	def, max time.Duration
	fallback bool
	calcKind string
	analyzer initialsizeclass.Analyzer
	store    *fakeStatsStore
	rng      *fakeRNG
	actions  []*wfAction
	chains   []*wfChain
	nextID   int
	mixed    bool
}

func (c *wfCase) failf(format string, args ...any) {
	c.rt.Helper()
	c.rt.Fatalf("C07(b) %s; script=%+v", fmt.Sprintf(format, args...), c.script)
}

func (c *wfCase) label(l string) { c.labels[l] = true }

func (c *wfCase) add(op, arg, res string) { c.script = append(c.script, step{Op: op, Arg: arg, Res: res}) }

type calcParams struct {
	kind       string
	minTimeout time.Duration
	exponent   float64
	multiplier float64
	maxError   float64
}

func (p calcParams) String() string {
	if p.kind != "pagerank" {
		return p.kind
	}
	return fmt.Sprintf("pagerank(min=%s exp=%v mult=%v err=%v)", p.minTimeout, p.exponent, p.multiplier, p.maxError)
}

func genCalcParams(rt *rapid.T) calcParams {
	if rapid.IntRange(0, 4).Draw(rt, "calcKind") == 0 {
		return calcParams{kind: "smallest"}
	}
	p := calcParams{kind: "pagerank"}
	p.minTimeout = rapid.SampledFrom([]time.Duration{0, time.Millisecond, time.Second, 5 * time.Second, 10 * time.Second, time.Minute, time.Hour}).Draw(rt, "minimumExecutionTimeout")
	switch rapid.IntRange(0, 5).Draw(rt, "exponentKind") {
	case 0:
		p.exponent = 0
	case 1:
		p.exponent = 1
	default:
		p.exponent = rapid.Float64Range(0, 1).Draw(rt, "exponent")
	}
	switch rapid.IntRange(0, 5).Draw(rt, "multiplierKind") {
	case 0:
		p.multiplier = 1
	case 1:
		p.multiplier = 1.5
	default:
		p.multiplier = rapid.Float64Range(1, 4).Draw(rt, "multiplier")
	}
	p.maxError = rapid.SampledFrom([]float64{0.1, 0.05, 0.01, 0.002, 0.001, 1e-4, 1e-6}).Draw(rt, "maximumConvergenceError")
	return p
}

func (p calcParams) build() initialsizeclass.StrategyCalculator {
	if p.kind != "pagerank" {
		return initialsizeclass.SmallestSizeClassStrategyCalculator
	}
	return initialsizeclass.NewPageRankStrategyCalculator(p.minTimeout, p.exponent, p.multiplier, p.maxError)
}

// pageRankIterations reads how many power iterations the PageRank
// calculator has performed so far (its Prometheus histogram is the only
// place where this is visible): number of computations and their sum.
func pageRankIterations() (uint64, float64) {
	if iterationsHistogram == nil {
		return 0, 0
	}
	var m dto.Metric
	if err := iterationsHistogram.Write(&m); err != nil {
		return 0, 0
	}
	return m.GetHistogram().GetSampleCount(), m.GetHistogram().GetSampleSum()
}

// iterationsHistogram is the calculator's own (unexported) histogram,
// obtained from the default registry by trying to register a histogram
// with the same name.
var iterationsHistogram prometheus.Metric

func findIterationsHistogram() {
	initialsizeclass.NewPageRankStrategyCalculator(0, 0, 1, 0.1) // registers the histogram
	err := prometheus.Register(prometheus.NewHistogram(prometheus.HistogramOpts{
		Namespace: "buildbarn",
		Subsystem: "builder",
		Name:      "page_rank_strategy_calculator_convergence_iterations",
		Help:      "Number of iterations matrix multiplication was performed until convergence.",
		Buckets:   prometheus.ExponentialBuckets(1.0, 2.0, 11),
	}))
	if are, ok := err.(prometheus.AlreadyRegisteredError); ok {
		if m, ok := are.ExistingCollector.(prometheus.Metric); ok {
			iterationsHistogram = m
		}
	}
}

func (c *wfCase) labelIterations(countBefore uint64, sumBefore float64) {
	count, sum := pageRankIterations()
	if count == countBefore {
		return
	}
	c.label("pagerank:power-iteration-ran")
	switch it := sum - sumBefore; {
	case it > 64:
		c.label("pagerank:iterations>64")
	case it > 16:
		c.label("pagerank:iterations>16")
	case it > 4:
		c.label("pagerank:iterations>4")
	}
}

// ---------------------------------------------------------------------
// Well-formedness of one choice

func (c *wfCase) checkChoice(what string, index int, classes []uint32, timeout, own time.Duration) {
	if index < 0 || index >= len(classes) {
		c.failf("%s chose size class index %d, but only %d size classes %v exist", what, index, len(classes), classes)
	}
	if timeout < 0 || timeout > own {
		c.failf("%s returned timeout %s (%d ns), outside [0, %s] (the action's own timeout)", what, timeout, timeout, own)
	}
}

func checkStrategies(failf func(string, ...any), strategies []initialsizeclass.Strategy, n int, original time.Duration) {
	if n <= 1 && len(strategies) != 0 {
		failf("GetStrategies returned %d strategies for %d size class(es)", len(strategies), n)
	}
	if len(strategies) > n {
		failf("GetStrategies returned %d strategies for %d size classes: index %d names no size class", len(strategies), n, len(strategies)-1)
	}
	sum := 0.0
	for i, s := range strategies {
		p := s.Probability
		if math.IsNaN(p) || p < -probTolerance || p > 1+probTolerance {
			failf("strategy %d has probability %v outside [0, 1]; strategies=%+v", i, p, strategies)
		}
		sum += p
		if s.ForegroundExecutionTimeout < 0 || s.ForegroundExecutionTimeout > original {
			failf("strategy %d has foreground timeout %s outside [0, %s]; strategies=%+v", i, s.ForegroundExecutionTimeout, original, strategies)
		}
	}
	if sum > 1+probTolerance {
		failf("probabilities sum to %v > 1; strategies=%+v", sum, strategies)
	}
}

// ---------------------------------------------------------------------
// Mode "protocol": Analyze -> Select -> Succeeded|Failed|Abandoned

func (c *wfCase) compareStats() {
	for i, a := range c.actions {
		if !a.touched {
			continue
		}
		a.touched = false
		actual := c.store.msgs[a.key]
		keySet := map[uint32]bool{}
		for k := range a.model.buckets {
			keySet[k] = true
		}
		for k := range actual.GetSizeClasses() {
			keySet[k] = true
		}
		keys := make([]uint32, 0, len(keySet))
		for k := range keySet {
			keys = append(keys, k)
		}
		sort.Slice(keys, func(i, j int) bool { return keys[i] < keys[j] })
		for _, k := range keys {
			var got []*iscc.PreviousExecution
			if b := actual.GetSizeClasses()[k]; b != nil {
				got = b.PreviousExecutions
			}
			want := a.model.buckets[k]
			same := len(got) == len(want)
			for j := 0; same && j < len(got); j++ {
				same = proto.Equal(got[j], want[j])
			}
			if !same {
				var g, w []string
				for _, e := range got {
					g = append(g, renderExecution(e))
				}
				for _, e := range want {
					w = append(w, renderExecution(e))
				}
				c.failf("recorded stats of action %d, size class %d are %v, but the reported outcomes give %v (history size %d)", i, k, g, w, c.history)
			}
		}
		if !proto.Equal(a.model.lsf, actual.GetLastSeenFailure()) {
			c.failf("last_seen_failure of action %d is %v, expected %v", i, actual.GetLastSeenFailure(), a.model.lsf)
		}
	}
}

func (c *wfCase) checkHandles() {
	for _, ch := range c.chains {
		if ch.handle == nil {
			continue
		}
		if ch.done && ch.handle.releases != 1 {
			c.failf("chain %d ended, but its stats handle was released %d times", ch.id, ch.handle.releases)
		}
		if !ch.done && ch.handle.releases != 0 {
			c.failf("chain %d is still active, but its stats handle was already released", ch.id)
		}
		if ch.done && ch.changed && !ch.handle.dirty {
			c.failf("chain %d recorded statistics, but released its stats handle as clean: the update is never written", ch.id)
		}
	}
}

func (c *wfCase) pick(label string, pred func(*wfChain) bool) *wfChain {
	var cands []*wfChain
	for _, ch := range c.chains {
		if !ch.done && pred(ch) {
			cands = append(cands, ch)
		}
	}
	if len(cands) == 0 {
		c.rt.Skip("no chain in the right state")
	}
	ch := cands[rapid.IntRange(0, len(cands)-1).Draw(c.rt, label)]
	ch.action.touched = true
	return ch
}

func (c *wfCase) opAnalyze() {
	open := 0
	for _, ch := range c.chains {
		if !ch.done {
			open++
		}
	}
	if open >= 3 || len(c.chains) >= 12 {
		c.rt.Skip("enough chains")
	}
	ai := rapid.IntRange(0, len(c.actions)-1).Draw(c.rt, "action")
	a := c.actions[ai]
	a.touched = true
	action := &remoteexecution.Action{
		CommandDigest:   &remoteexecution.Digest{Hash: a.commandHash, SizeBytes: 123},
		InputRootDigest: &remoteexecution.Digest{Hash: a.commandHash, SizeBytes: int64(rapid.IntRange(0, 5).Draw(c.rt, "inputRoot"))},
	}
	own := c.def
	expectInvalid := false
	desc := "absent"
	switch k := rapid.IntRange(0, 11).Draw(c.rt, "timeoutKind"); {
	case k < 2:
	case k < 8:
		own = time.Duration(rapid.Int64Range(0, int64(c.max)).Draw(c.rt, "timeout"))
		action.Timeout = durationpb.New(own)
		desc = own.String()
	case k == 8:
		own = c.max
		if rapid.Bool().Draw(c.rt, "timeoutZero") {
			own = 0
		}
		action.Timeout = durationpb.New(own)
		desc = own.String()
	case k == 9:
		d := -time.Duration(rapid.Int64Range(1, int64(time.Hour)).Draw(c.rt, "negativeTimeout"))
		action.Timeout = durationpb.New(d)
		desc = d.String()
		expectInvalid = true
	case k == 10:
		if c.max == math.MaxInt64 {
			// No representable timeout exceeds the maximum.
			own = c.max
			action.Timeout = durationpb.New(own)
			desc = own.String()
			break
		}
		d := c.max + 1
		if extra := int64(math.MaxInt64) - int64(d); extra > 0 {
			d += time.Duration(rapid.Int64Range(0, extra).Draw(c.rt, "excessTimeout"))
		}
		action.Timeout = durationpb.New(d)
		desc = d.String()
		expectInvalid = true
	default:
		action.Timeout = rapid.SampledFrom([]*durationpb.Duration{
			{Seconds: 315576000001}, {Seconds: -315576000001}, {Seconds: 1, Nanos: -1}, {Seconds: -1, Nanos: 1}, {Nanos: 1000000000},
		}).Draw(c.rt, "invalidTimeout")
		desc = fmt.Sprintf("raw(%d,%d)", action.Timeout.Seconds, action.Timeout.Nanos)
		expectInvalid = true
	}
	storeFails := !c.fallback && !expectInvalid && rapid.IntRange(0, 19).Draw(c.rt, "storeFails") == 0
	c.store.failNext = storeFails
	handlesBefore := len(c.store.handles)
	selector, err := c.analyzer.Analyze(context.Background(), wfDigestFunction, action)
	c.store.failNext = false
	id := c.nextID
	c.nextID++
	res := "ok"
	if err != nil {
		res = "error " + status.Code(err).String()
	}
	c.add("analyze", fmt.Sprintf("chain=%d action=%d timeout=%s storeFails=%v", id, ai, desc, storeFails), res)
	switch {
	case expectInvalid:
		c.label("analyze:invalid-timeout")
		if err == nil {
			c.failf("Analyze accepted an action with timeout %s outside [0, %s]", desc, c.max)
		}
		if status.Code(err) != codes.InvalidArgument {
			c.failf("Analyze rejected timeout %s with %v, expected INVALID_ARGUMENT", desc, err)
		}
	case storeFails:
		c.label("analyze:store-failure")
		if err == nil {
			c.failf("Analyze succeeded although reading the stats failed")
		}
	default:
		if err != nil {
			c.failf("Analyze failed on a valid action: %v", err)
		}
	}
	if err != nil {
		if selector != nil {
			c.failf("Analyze returned both a selector and an error")
		}
		if len(c.store.handles) != handlesBefore {
			c.failf("Analyze failed but left a stats handle behind")
		}
		return
	}
	if selector == nil {
		c.failf("Analyze returned neither a selector nor an error")
	}
	ch := &wfChain{id: id, action: a, own: own, selector: selector}
	if !c.fallback {
		if len(c.store.handles) != handlesBefore+1 {
			c.failf("Analyze obtained %d stats handles, expected 1", len(c.store.handles)-handlesBefore)
		}
		ch.handle = c.store.handles[handlesBefore]
		if ch.handle.key != a.key {
			c.failf("Analyze read stats of %s, expected the reduced action digest %s", ch.handle.key, a.key)
		}
	}
	c.chains = append(c.chains, ch)
}

func (c *wfCase) opSelect() {
	ch := c.pick("chain", func(ch *wfChain) bool { return ch.selector != nil })
	classes := append([]uint32{}, c.classes...)
	n := len(classes)
	model := ch.action.model

	// What the documentation lets us predict.
	mustLargest, consultsStrategies := false, false
	if !c.fallback {
		cutoff := c.clock.now.Add(-c.fcd)
		if model.lsf == nil || model.lsf.CheckValid() != nil {
			consultsStrategies = true
		} else if t := model.lsf.AsTime(); t.After(cutoff) {
			mustLargest = true
		} else if t.Before(cutoff) {
			consultsStrategies = true
		}
		succ, fail := outcomeMix(model.asMap(), classes)
		if n >= 2 && succ && fail {
			c.mixed = true
		}
	}

	calls := c.rng.calls
	var itCount uint64
	var itSum float64
	if c.calcKind == "pagerank" {
		itCount, itSum = pageRankIterations()
	}
	index, expected, timeout, learner := ch.selector.Select(classes)
	if c.calcKind == "pagerank" {
		c.labelIterations(itCount, itSum)
	}
	r := "-"
	if c.rng.calls != calls {
		r = fmt.Sprint(c.rng.last)
	}
	c.add("select", fmt.Sprintf("chain=%d classes=%v r=%s", ch.id, classes, r), fmt.Sprintf("index=%d expected=%s timeout=%s", index, expected, timeout))
	if fmt.Sprint(classes) != fmt.Sprint(c.classes) {
		c.failf("Select modified the list of size classes")
	}
	c.checkChoice("Select", index, classes, timeout, ch.own)
	if learner == nil {
		c.failf("Select returned no learner")
	}
	if c.fallback {
		if index != 0 || timeout != ch.own {
			c.failf("FallbackAnalyzer chose index %d timeout %s; documented: smallest size class, the action's timeout %s", index, timeout, ch.own)
		}
	} else {
		if mustLargest {
			c.label("select:recent-failure-forces-largest")
			if index != n-1 || timeout != ch.own {
				c.failf("action failed %s ago (failure cache duration %s), but Select chose index %d timeout %s instead of the largest size class with the original timeout %s",
					c.clock.now.Sub(model.lsf.AsTime()), c.fcd, index, timeout, ch.own)
			}
		}
		if consultsStrategies && c.calcKind == "smallest" && n > 1 {
			if index != 0 || timeout != ch.own {
				c.failf("SmallestSizeClassStrategyCalculator in use, but Select chose index %d timeout %s (expected 0, %s)", index, timeout, ch.own)
			}
		}
	}
	switch {
	case n == 1:
		c.label("select:single-class")
	case index == n-1:
		c.label("select:largest")
	default:
		c.label("select:smaller")
	}
	ch.selector = nil
	ch.learner = learner
	ch.class, ch.timeout = classes[index], timeout
}

func (c *wfCase) opAbandonSelector() {
	ch := c.pick("chain", func(ch *wfChain) bool { return ch.selector != nil })
	if rapid.IntRange(0, 3).Draw(c.rt, "reallyAbandon") != 0 {
		return // abandon less often than the other steps
	}
	ch.selector.Abandoned()
	c.add("abandonSelector", fmt.Sprintf("chain=%d", ch.id), "")
	ch.selector = nil
	ch.done = true
	c.label("selector-abandoned")
}

func (c *wfCase) failureExecution(f *failedAttempt) *iscc.PreviousExecution {
	if f.timedOut {
		return &iscc.PreviousExecution{Outcome: &iscc.PreviousExecution_TimedOut{TimedOut: durationpb.New(f.timeout)}}
	}
	return &iscc.PreviousExecution{Outcome: &iscc.PreviousExecution_Failed{Failed: &emptypb.Empty{}}}
}

func (c *wfCase) record(ch *wfChain, class uint32, e *iscc.PreviousExecution) {
	if ch.handle == nil {
		return
	}
	if ch.action.model.add(class, e, c.history) {
		c.label("history-trimmed")
	}
	ch.changed = true
}

func (c *wfCase) opSucceeded() {
	ch := c.pick("chain", func(ch *wfChain) bool { return ch.learner != nil })
	d := genReportedDuration(c.rt)
	classes := append([]uint32{}, c.classes...)
	index, expected, timeout, next := ch.learner.Succeeded(d, classes)
	res := "final"
	if next != nil {
		res = fmt.Sprintf("background index=%d expected=%s timeout=%s", index, expected, timeout)
	}
	c.add("succeeded", fmt.Sprintf("chain=%d duration=%d classes=%v", ch.id, d, classes), res)
	if fmt.Sprint(classes) != fmt.Sprint(c.classes) {
		c.failf("Succeeded modified the list of size classes")
	}
	if ch.pending != nil {
		c.record(ch, ch.pending.class, c.failureExecution(ch.pending))
		ch.pending = nil
		c.label("retry-succeeded")
	}
	c.record(ch, ch.class, &iscc.PreviousExecution{Outcome: &iscc.PreviousExecution_Succeeded{Succeeded: durationpb.New(d)}})
	if ch.background {
		c.label("background-succeeded")
	}
	ch.learner = next
	if next == nil {
		ch.done = true
		return
	}
	if c.fallback {
		c.failf("FallbackAnalyzer requested a background run")
	}
	if ch.background {
		c.failf("a background learning run requested yet another background run")
	}
	c.label("background-requested")
	c.checkChoice("Succeeded (background run)", index, classes, timeout, ch.own)
	ch.class, ch.timeout = classes[index], timeout
	ch.background, ch.retry = true, false
}

func (c *wfCase) opFailed() {
	ch := c.pick("chain", func(ch *wfChain) bool { return ch.learner != nil })
	timedOut := rapid.Bool().Draw(c.rt, "timedOut")
	expected, timeout, next := ch.learner.Failed(timedOut)
	res := "final"
	if next != nil {
		res = fmt.Sprintf("retry expected=%s timeout=%s", expected, timeout)
	}
	c.add("failed", fmt.Sprintf("chain=%d timedOut=%v", ch.id, timedOut), res)
	this := &failedAttempt{class: ch.class, timeout: ch.timeout, timedOut: timedOut}
	ch.learner = next
	if next != nil {
		if ch.retry {
			c.failf("a failure on the retry attempt requested another retry (documented: retried once on the largest size class)")
		}
		if ch.background {
			c.failf("a failed background learning run requested a retry")
		}
		if timeout < 0 || timeout > ch.own {
			c.failf("Failed returned retry timeout %s outside [0, %s]", timeout, ch.own)
		}
		if c.fallback && (ch.class == c.largest || timeout != ch.own) {
			c.failf("FallbackAnalyzer requested a retry after a failure on size class %d (largest %d) with timeout %s (own %s)", ch.class, c.largest, timeout, ch.own)
		}
		if ch.class == c.largest {
			c.label("retry-after-failure-on-largest")
		}
		c.label("retry-requested")
		ch.pending = this
		ch.class, ch.timeout, ch.retry = c.largest, timeout, true
		return
	}
	ch.done = true
	if c.fallback && this.class != c.largest && !ch.retry {
		c.failf("FallbackAnalyzer did not request a retry on the largest size class after a failure on the smallest")
	}
	if ch.handle == nil {
		return
	}
	if ch.background {
		c.record(ch, this.class, c.failureExecution(this))
		c.label("background-failed")
		return
	}
	if ch.pending != nil {
		c.label("retry-failed")
	}
	ch.pending = nil
	ch.action.model.lsf = timestamppb.New(c.clock.now)
	ch.changed = true
	c.label("failure-on-largest-recorded")
}

func (c *wfCase) opAbandonLearner() {
	ch := c.pick("chain", func(ch *wfChain) bool { return ch.learner != nil })
	if rapid.IntRange(0, 3).Draw(c.rt, "reallyAbandon") != 0 {
		return // abandon less often than the other steps
	}
	ch.learner.Abandoned()
	c.add("abandonLearner", fmt.Sprintf("chain=%d", ch.id), "")
	if ch.background {
		c.label("background-abandoned")
	}
	ch.learner = nil
	ch.done = true
}

func (c *wfCase) runProtocol() {
	rt := c.rt
	c.classes = genSizeClasses(rt)
	c.largest = c.classes[len(c.classes)-1]
	c.history = rapid.SampledFrom([]int{1, 2, 3, 5, 8, 32}).Draw(rt, "historySize")
	c.fcd = rapid.SampledFrom([]time.Duration{0, time.Hour, 24 * time.Hour}).Draw(rt, "failureCacheDuration")
	c.clock = &fakeClock{now: time.Unix(1700000000, 0).UTC()}
	c.def = rapid.SampledFrom([]time.Duration{time.Second, time.Minute, 30 * time.Minute, time.Hour}).Draw(rt, "defaultTimeout")
	c.max = c.def + rapid.SampledFrom([]time.Duration{0, time.Minute, time.Hour, 10 * time.Hour}).Draw(rt, "maximumTimeoutExtra")
	if rapid.IntRange(0, 19).Draw(rt, "maxTimeoutHuge") == 0 {
		c.max = math.MaxInt64
	}
	extractor := initialsizeclass.NewActionTimeoutExtractor(c.def, c.max)
	c.rng = &fakeRNG{rt: rt}
	c.store = &fakeStatsStore{c: c, msgs: map[string]*iscc.PreviousExecutionStats{}}
	var params calcParams
	if c.fallback {
		c.calcKind = "fallback"
		c.analyzer = initialsizeclass.NewFallbackAnalyzer(extractor)
	} else {
		params = genCalcParams(rt)
		c.calcKind = params.kind
		c.analyzer = initialsizeclass.NewFeedbackDrivenAnalyzer(c.store, c.rng, c.clock, extractor, c.fcd, params.build(), c.history)
	}
	c.label("analyzer:" + c.calcKind)
	c.add("config", fmt.Sprintf("classes=%v history=%d failureCache=%s default=%s max=%s calc=%s", c.classes, c.history, c.fcd, c.def, c.max, params), "")
	nActions := rapid.IntRange(1, 2).Draw(rt, "nActions")
	for i := 0; i < nActions; i++ {
		a := &wfAction{commandHash: strings.Repeat(fmt.Sprintf("%02x", i+1), 32)}
		d, err := blobstore.GetReducedActionDigest(wfDigestFunction, &remoteexecution.Action{
			CommandDigest: &remoteexecution.Digest{Hash: a.commandHash, SizeBytes: 123},
		})
		if err != nil {
			panic(err)
		}
		a.key = d.GetKey(digest.KeyWithInstance)
		st := &iscc.PreviousExecutionStats{}
		if !c.fallback {
			var labels []string
			st, labels = genStats(rt, c.classes, c.clock.now)
			for _, l := range labels {
				c.label(l)
			}
			c.add("stored", fmt.Sprintf("action=%d", i), renderStats(st))
		}
		c.store.msgs[a.key] = st
		a.model = newStatsModel(st)
		a.touched = true
		c.actions = append(c.actions, a)
	}

	rt.Repeat(map[string]func(*rapid.T){
		"analyze":         func(*rapid.T) { c.opAnalyze() },
		"select":          func(*rapid.T) { c.opSelect() },
		"abandonSelector": func(*rapid.T) { c.opAbandonSelector() },
		"succeeded": func(*rapid.T) { c.opSucceeded() },
		"failed":    func(*rapid.T) { c.opFailed() },
		"abandonLearner": func(*rapid.T) { c.opAbandonLearner() },
		"advance": func(*rapid.T) {
			d := rapid.SampledFrom([]time.Duration{time.Second, 30 * time.Minute, time.Hour, 25 * time.Hour}).Draw(rt, "advance")
			c.clock.now = c.clock.now.Add(d)
			c.add("advance", d.String(), "")
		},
		"resize": func(*rapid.T) {
			c.classes = genSmallerVariant(rt, c.classes)
			c.add("resize", fmt.Sprint(c.classes), "")
			c.label("size-classes-changed")
		},
		"": func(*rapid.T) {
			c.compareStats()
			c.checkHandles()
		},
	})

	// Every request ends: abandon what is still open.
	for _, ch := range c.chains {
		if ch.done {
			continue
		}
		if ch.selector != nil {
			ch.selector.Abandoned()
		} else {
			ch.learner.Abandoned()
		}
		ch.action.touched = true
		c.add("finalAbandon", fmt.Sprintf("chain=%d", ch.id), "")
		ch.selector, ch.learner, ch.done = nil, nil, true
	}
	for _, a := range c.actions {
		a.touched = true
	}
	c.compareStats()
	c.checkHandles()
	if len(c.chains) == 0 {
		c.label("no-chain")
	}
}

// ---------------------------------------------------------------------
// Mode "calculator": GetStrategies / GetBackgroundExecutionTimeout directly

func (c *wfCase) runCalculator() {
	rt := c.rt
	classes := genSizeClasses(rt)
	params := genCalcParams(rt)
	calc := params.build()
	c.label("calculator:" + params.kind)
	original := time.Duration(rapid.Int64Range(0, int64(4*time.Hour)).Draw(rt, "originalTimeout"))
	switch rapid.IntRange(0, 9).Draw(rt, "originalKind") {
	case 0:
		original = 0
	case 1:
		original = math.MaxInt64
	case 2:
		original = rapid.SampledFrom(durationPool).Draw(rt, "originalFromPool")
	}
	st, labels := genStats(rt, classes, time.Unix(1700000000, 0))
	for _, l := range labels {
		c.label(l)
	}
	if st.SizeClasses == nil {
		st.SizeClasses = map[uint32]*iscc.PerSizeClassStats{}
	}
	c.add("config", fmt.Sprintf("classes=%v original=%s calc=%s", classes, original, params), "")
	c.add("stored", "", renderStats(st))
	n := len(classes)
	succ, fail := outcomeMix(st.SizeClasses, classes)
	c.mixed = n >= 2 && succ && fail
	for round := 0; round < 2; round++ {
		itCount, itSum := pageRankIterations()
		strategies := calc.GetStrategies(st.SizeClasses, append([]uint32{}, classes...), original)
		c.labelIterations(itCount, itSum)
		c.add("getStrategies", fmt.Sprint(round), fmt.Sprintf("%+v", strategies))
		checkStrategies(c.failf, strategies, n, original)
		if len(strategies) == n && n > 1 {
			c.label("calculator:n-strategies")
		}
		for i, s := range strategies {
			if s.RunInBackground {
				c.label("calculator:background-strategy")
				if i < n-1 && largestHasSuccess(st.SizeClasses, classes) {
					bt := calc.GetBackgroundExecutionTimeout(st.SizeClasses, append([]uint32{}, classes...), i, original)
					c.add("getBackgroundExecutionTimeout", fmt.Sprint(i), bt.String())
					if bt < 0 || bt > original {
						c.failf("GetBackgroundExecutionTimeout(%d) = %s outside [0, %s]", i, bt, original)
					}
				}
			}
		}
	}
}

// ---------------------------------------------------------------------
// Mode "outcomes": Outcomes.IsFaster / GetMedianExecutionTime

type outcomeSet struct {
	successes []time.Duration
	failures  int
}

func genOutcomeSet(rt *rapid.T, label string) outcomeSet {
	var o outcomeSet
	small := rapid.Bool().Draw(rt, label+"SmallDomain")
	for i := rapid.IntRange(0, 12).Draw(rt, label+"Successes"); i > 0; i-- {
		if small {
			o.successes = append(o.successes, time.Duration(rapid.IntRange(0, 4).Draw(rt, label+"Dur"))*time.Second)
		} else {
			o.successes = append(o.successes, rapid.SampledFrom(durationPool).Draw(rt, label+"Dur"))
		}
	}
	o.failures = rapid.IntRange(0, 6).Draw(rt, label+"Failures")
	return o
}

func (o outcomeSet) build() initialsizeclass.Outcomes {
	return initialsizeclass.NewOutcomes(append([]time.Duration{}, o.successes...), o.failures)
}

// referenceIsFaster is the documented scoring, computed pair by pair:
// 2 points for every (a, b) with a faster than b, 1 for a tie, failures
// being slower than every success and tied with each other; plus the
// documented smoothing terms.
func referenceIsFaster(a, b outcomeSet) float64 {
	countA, countB := len(a.successes)+a.failures, len(b.successes)+b.failures
	score := 1 + countB
	for _, x := range a.successes {
		for _, y := range b.successes {
			if x < y {
				score += 2
			} else if x == y {
				score++
			}
		}
		score += 2 * b.failures
	}
	score += a.failures * b.failures
	return float64(score) / float64(2+countA+countB+2*countA*countB)
}

func (c *wfCase) runOutcomes() {
	rt := c.rt
	x, y := genOutcomeSet(rt, "x"), genOutcomeSet(rt, "y")
	if rapid.IntRange(0, 5).Draw(rt, "sameSets") == 0 {
		y = outcomeSet{successes: append([]time.Duration{}, x.successes...), failures: x.failures}
		c.label("outcomes:identical-sets")
	}
	c.add("outcomes", fmt.Sprintf("x=%v+%dF y=%v+%dF", x.successes, x.failures, y.successes, y.failures), "")
	ox, oy := x.build(), y.build()
	xy, yx, xx, yy := ox.IsFaster(oy), oy.IsFaster(ox), ox.IsFaster(ox), oy.IsFaster(oy)
	c.add("isFaster", "", fmt.Sprintf("xy=%v yx=%v xx=%v yy=%v", xy, yx, xx, yy))
	for _, p := range []float64{xy, yx, xx, yy} {
		if math.IsNaN(p) || p <= 0 || p >= 1 {
			c.failf("IsFaster returned %v, outside the documented open range (0, 1)", p)
		}
	}
	if math.Abs(xx-0.5) > 1e-12 || math.Abs(yy-0.5) > 1e-12 {
		c.failf("x.IsFaster(x) = %v, y.IsFaster(y) = %v, documented 0.5", xx, yy)
	}
	if math.Abs(xy+yx-1) > 1e-12 {
		c.failf("x.IsFaster(y) + y.IsFaster(x) = %v + %v = %v, documented 1.0", xy, yx, xy+yx)
	}
	if want := referenceIsFaster(x, y); math.Abs(xy-want) > 1e-12 {
		c.failf("x.IsFaster(y) = %v, documented pairwise scoring gives %v", xy, want)
	}
	for _, o := range []outcomeSet{x, y} {
		m := o.build().GetMedianExecutionTime()
		s := append([]time.Duration{}, o.successes...)
		sort.Slice(s, func(i, j int) bool { return s[i] < s[j] })
		switch {
		case len(s) == 0:
			if m != nil {
				c.failf("median of no successes is %v, documented nil", *m)
			}
		case m == nil:
			c.failf("median of %v is nil", s)
		default:
			want := s[len(s)/2]
			if len(s)%2 == 0 {
				want = (s[len(s)/2-1] + want) / 2
			}
			if *m != want {
				c.failf("median of %v is %s, expected %s", s, *m, want)
			}
		}
	}
	if len(x.successes) > 0 && len(y.successes) > 0 {
		c.label("outcomes:both-have-successes")
	}
	if x.failures > 0 && y.failures > 0 {
		c.label("outcomes:both-have-failures")
	}
	c.mixed = len(x.successes)+len(y.successes) > 0 && x.failures+y.failures > 0
}

// ---------------------------------------------------------------------
// Mode "extractor": ActionTimeoutExtractor directly

func (c *wfCase) runExtractor() {
	rt := c.rt
	def := time.Duration(rapid.Int64Range(0, int64(2*time.Hour)).Draw(rt, "default"))
	max := def + time.Duration(rapid.Int64Range(0, int64(10*time.Hour)).Draw(rt, "maxExtra"))
	e := initialsizeclass.NewActionTimeoutExtractor(def, max)
	var ts *durationpb.Duration
	switch rapid.IntRange(0, 5).Draw(rt, "timeoutKind") {
	case 0:
	case 1:
		ts = &durationpb.Duration{Seconds: rapid.Int64().Draw(rt, "seconds"), Nanos: rapid.Int32().Draw(rt, "nanos")}
	case 2:
		ts = durationpb.New(time.Duration(rapid.Int64().Draw(rt, "anyDuration")))
	case 3:
		ts = durationpb.New(max + time.Duration(rapid.Int64Range(-2, 2).Draw(rt, "aroundMax")))
	case 4:
		ts = durationpb.New(time.Duration(rapid.Int64Range(-2, 2).Draw(rt, "aroundZero")))
	default:
		ts = durationpb.New(time.Duration(rapid.Int64Range(0, int64(max)).Draw(rt, "inRange")))
	}
	got, err := e.ExtractTimeout(&remoteexecution.Action{Timeout: ts})
	c.add("extractTimeout", fmt.Sprintf("default=%s max=%s timeout=%v", def, max, ts), fmt.Sprintf("%s %v", got, err))
	switch {
	case ts == nil:
		c.label("extractor:absent")
		if err != nil || got != def {
			c.failf("absent timeout: got (%s, %v), documented default %s", got, err, def)
		}
	case ts.CheckValid() != nil || ts.AsDuration() < 0 || ts.AsDuration() > max:
		c.label("extractor:rejected")
		if err == nil {
			c.failf("timeout %v outside [0, %s] accepted as %s", ts, max, got)
		}
		if status.Code(err) != codes.InvalidArgument {
			c.failf("timeout %v rejected with %v, expected INVALID_ARGUMENT", ts, err)
		}
	default:
		c.label("extractor:accepted")
		if err != nil || got != ts.AsDuration() {
			c.failf("valid timeout %v: got (%s, %v)", ts, got, err)
		}
		if got < 0 || got > max {
			c.failf("extracted timeout %s outside [0, %s]", got, max)
		}
	}
}

// ---------------------------------------------------------------------

func TestC07ChoicesWellFormed(t *testing.T) {
	rec := simkit.NewRecorder(t, "C07", "wellformed",
		"each case draws one mode: (protocol) a FeedbackDrivenAnalyzer [PageRank or smallest-size-class calculator] or FallbackAnalyzer over a fake stats store, "+
			"fake clock and rapid-fed random numbers, with generated stored PreviousExecutionStats (classes inside/outside the list, mixed outcomes, NaN/Inf/out-of-range "+
			"probabilities, odd durations and timestamps), 1-6 size classes, and a rapid state machine of Analyze/Select/Succeeded/Failed/Abandoned/clock/size-class-list steps "+
			"over up to three interleaved requests; (calculator) GetStrategies/GetBackgroundExecutionTimeout called directly; (outcomes) Outcomes.IsFaster/median against "+
			"the documented pairwise scoring; (extractor) ActionTimeoutExtractor. Oracle: index < len(sizeClasses), 0 <= timeout <= the action's own, every probability in [0,1] "+
			"and sum <= 1 (1e-9), at most n strategies, IsFaster in (0,1), x.IsFaster(x)=0.5, x.IsFaster(y)+y.IsFaster(x)=1, one release per request, and recorded stats equal to a "+
			"model fed with the reported outcomes (right bucket, bounded history). NON-TRIVIAL: at least two size classes (or two outcome sets) holding both successes and "+
			"failures/timeouts; distinct by script hash")
	findIterationsHistogram()
	rapid.Check(t, func(rt *rapid.T) {
		c := &wfCase{rt: rt, labels: map[string]bool{}}
		mode := rapid.SampledFrom([]string{
			"protocol", "protocol", "protocol", "protocol", "protocol", "protocol", "protocol", "protocol",
			"fallback", "calculator", "calculator", "calculator", "calculator", "calculator", "outcomes", "outcomes", "outcomes", "extractor",
		}).Draw(rt, "mode")
		c.add("mode", mode, "")
		switch mode {
		case "protocol":
			c.runProtocol()
		case "fallback":
			c.fallback = true
			c.runProtocol()
		case "calculator":
			c.runCalculator()
		case "outcomes":
			c.runOutcomes()
		case "extractor":
			c.runExtractor()
		}
		labels := []string{"mode:" + mode}
		for l := range c.labels {
			labels = append(labels, l)
		}
		sort.Strings(labels)
		rec.Case(c.script, c.mixed, labels...)
	})
	// Diagnostic: how many power iterations the PageRank calculator needed.
	if iterationsHistogram != nil {
		var m dto.Metric
		if iterationsHistogram.Write(&m) == nil {
			h := m.GetHistogram()
			top := 0.0
			for _, b := range h.GetBucket() {
				if b.GetCumulativeCount() < h.GetSampleCount() {
					top = b.GetUpperBound()
				}
			}
			rec.Note(fmt.Sprintf("power iteration: %d computations, %.0f iterations in total, every one finished; slowest needed more than %.0f iterations", h.GetSampleCount(), h.GetSampleSum(), top))
		}
	}
}

// Package lockpile decides the LockPile part of C14: for every generated
// interleaving (at lock-operation granularity) of threads taking
// overlapping lock sets through re_sync.LockPile, every call terminates,
// the pile holds exactly the requested locks afterwards, and Lock()
// returns true iff it never released a lock the thread already held.
package lockpile

import (
	"fmt"
	"sort"
	"testing"
	"testing/synctest"

	re_sync "github.com/buildbarn/bb-remote-execution/pkg/sync"
	"pgregory.net/rapid"

	"verif/harness/internal/simkit"
)

type failure string

// sched hands out "tokens": every operation on an instrumented lock first
// waits for the harness to let that thread proceed, so the interleaving is
// a generated value.
type sched struct {
	grant []chan bool   // per thread
	abort chan struct{} // closed when the case is over: unwinds every thread
	log   []string
}

type aborted struct{}

type ilock struct {
	s       *sched
	id      int
	held    bool
	owner   int
	changed chan struct{}
}

// threadLock is the view of one instrumented lock by one thread (the
// TryLocker interface has no room for a thread identity).
type threadLock struct {
	l   *ilock
	tid int
	st  *threadState
}

type threadState struct {
	unlocksInCall int
	waiting       bool // waiting for a token
}

func (s *sched) token(tid int, st *threadState) {
	st.waiting = true
	select {
	case <-s.grant[tid]:
	case <-s.abort:
		panic(aborted{})
	}
	st.waiting = false
}

func (t *threadLock) Lock() {
	for {
		t.s().token(t.tid, t.st)
		if !t.l.held {
			t.l.held, t.l.owner = true, t.tid
			t.s().log = append(t.s().log, fmt.Sprintf("t%d lock L%d", t.tid, t.l.id))
			return
		}
		if t.l.owner == t.tid {
			panic(failure(fmt.Sprintf("thread %d blocks on lock L%d, which it already holds (self-deadlock)", t.tid, t.l.id)))
		}
		t.s().log = append(t.s().log, fmt.Sprintf("t%d waits for L%d", t.tid, t.l.id))
		select {
		case <-t.l.changed:
		case <-t.s().abort:
			panic(aborted{})
		}
	}
}

func (t *threadLock) TryLock() bool {
	t.s().token(t.tid, t.st)
	if !t.l.held {
		t.l.held, t.l.owner = true, t.tid
		t.s().log = append(t.s().log, fmt.Sprintf("t%d trylock L%d ok", t.tid, t.l.id))
		return true
	}
	t.s().log = append(t.s().log, fmt.Sprintf("t%d trylock L%d busy", t.tid, t.l.id))
	return false
}

func (t *threadLock) Unlock() {
	t.s().token(t.tid, t.st)
	if !t.l.held || t.l.owner != t.tid {
		panic(failure(fmt.Sprintf("thread %d unlocks lock L%d, which it does not hold (held=%v owner=%d)", t.tid, t.l.id, t.l.held, t.l.owner)))
	}
	t.l.held = false
	t.st.unlocksInCall++
	close(t.l.changed)
	t.l.changed = make(chan struct{})
	t.s().log = append(t.s().log, fmt.Sprintf("t%d unlock L%d", t.tid, t.l.id))
}

func (t *threadLock) s() *sched { return t.l.s }

type op struct {
	Kind  string `json:"kind"` // lock, unlock, unlockAll
	Locks []int  `json:"locks,omitempty"`
}

type script struct {
	NLocks   int    `json:"locks"`
	Threads  [][]op `json:"threads"`
	Schedule []int  `json:"schedule"`
}

func TestC14LockPileSchedules(t *testing.T) {
	rec := simkit.NewRecorder(t, "C14", "lockpile-schedules", "2-4 threads each run a generated script of LockPile.Lock(1-3 of 2-5 locks, also re-locking held ones)/Unlock/UnlockAll over instrumented TryLockers inside testing/synctest; every operation on a lock waits for a token, and the order in which tokens are granted is a generated schedule. Oracle: all threads terminate for every schedule (no state in which every unfinished thread is blocked on a lock); after each Lock() the thread holds exactly the multiset of requested locks; Lock() returns true iff it released none of the locks the thread already held during the call; Unlock only of held locks; no lock held at the end. Non-trivial: some Lock() had to back off (returned false) while >=2 threads contended; distinct by script hash")
	rapid.Check(t, func(rt *rapid.T) {
		nLocks := rapid.IntRange(2, 5).Draw(rt, "locks")
		nThreads := rapid.IntRange(2, 4).Draw(rt, "threads")
		sc := script{NLocks: nLocks}
		for i := 0; i < nThreads; i++ {
			n := rapid.IntRange(1, 6).Draw(rt, "ops")
			var ops []op
			held := map[int]int{}
			for j := 0; j < n; j++ {
				kinds := []string{"lock", "lock", "lock"}
				if len(held) > 0 {
					kinds = append(kinds, "unlock", "unlockAll")
				}
				switch k := rapid.SampledFrom(kinds).Draw(rt, "kind"); k {
				case "lock":
					cnt := rapid.IntRange(1, 3).Draw(rt, "count")
					var ls []int
					for c := 0; c < cnt; c++ {
						l := rapid.IntRange(0, nLocks-1).Draw(rt, "lock")
						ls = append(ls, l)
						held[l]++
					}
					ops = append(ops, op{Kind: "lock", Locks: ls})
				case "unlock":
					keys := make([]int, 0, len(held))
					for l := range held {
						keys = append(keys, l)
					}
					sort.Ints(keys)
					l := rapid.SampledFrom(keys).Draw(rt, "lock")
					held[l]--
					if held[l] == 0 {
						delete(held, l)
					}
					ops = append(ops, op{Kind: "unlock", Locks: []int{l}})
				case "unlockAll":
					held = map[int]int{}
					ops = append(ops, op{Kind: "unlockAll"})
				}
			}
			sc.Threads = append(sc.Threads, ops)
		}
		// The schedule: which ready thread proceeds next (modulo the number ready).
		sc.Schedule = rapid.SliceOfN(rapid.IntRange(0, 11), 0, 400).Draw(rt, "schedule")

		var fail string
		backedOff, contended := false, false
		var log []string
		synctest.Test(t, func(st *testing.T) {
			s := &sched{abort: make(chan struct{})}
			locks := make([]*ilock, nLocks)
			for i := range locks {
				locks[i] = &ilock{s: s, id: i, changed: make(chan struct{})}
			}
			states := make([]*threadState, nThreads)
			done := make([]bool, nThreads)
			fails := make([]string, nThreads)
			for tid := range sc.Threads {
				s.grant = append(s.grant, make(chan bool))
				states[tid] = &threadState{}
			}
			for tid, ops := range sc.Threads {
				tid, ops := tid, ops
				go func() {
					defer func() {
						if r := recover(); r != nil {
							if _, ok := r.(aborted); ok {
								// The case is over.
							} else if f, ok := r.(failure); ok {
								fails[tid] = string(f)
							} else {
								fails[tid] = fmt.Sprintf("panic in thread %d: %v", tid, r)
							}
						}
						done[tid] = true
					}()
					var pile re_sync.LockPile
					views := make([]*threadLock, nLocks)
					for i := range views {
						views[i] = &threadLock{l: locks[i], tid: tid, st: states[tid]}
					}
					model := map[int]int{}
					check := func(what string) {
						for i, l := range locks {
							mine := l.held && l.owner == tid
							if mine != (model[i] > 0) {
								panic(failure(fmt.Sprintf("after %s thread %d holds L%d = %v, but the pile should hold it %d times", what, tid, i, mine, model[i])))
							}
						}
					}
					for _, o := range ops {
						switch o.Kind {
						case "lock":
							args := make([]re_sync.TryLocker, 0, len(o.Locks))
							heldBefore := len(model) > 0
							for _, l := range o.Locks {
								args = append(args, views[l])
								model[l]++
							}
							states[tid].unlocksInCall = 0
							ok := pile.Lock(args...)
							if ok != (states[tid].unlocksInCall == 0) {
								panic(failure(fmt.Sprintf("thread %d: Lock(%v) returned %v, but %d locks were released during the call", tid, o.Locks, ok, states[tid].unlocksInCall)))
							}
							if !ok {
								backedOff = true
								if !heldBefore && len(o.Locks) == 1 {
									panic(failure(fmt.Sprintf("thread %d: Lock(%v) on an empty pile reported that locks were released", tid, o.Locks)))
								}
							}
							check(fmt.Sprintf("Lock(%v)", o.Locks))
						case "unlock":
							l := o.Locks[0]
							pile.Unlock(views[l])
							model[l]--
							if model[l] == 0 {
								delete(model, l)
							}
							check(fmt.Sprintf("Unlock(L%d)", l))
						case "unlockAll":
							pile.UnlockAll()
							model = map[int]int{}
							check("UnlockAll()")
						}
					}
					pile.UnlockAll()
					model = map[int]int{}
					check("final UnlockAll()")
				}()
			}
			pos := 0
			for step := 0; ; step++ {
				synctest.Wait()
				var ready []int
				unfinished := 0
				for tid := range sc.Threads {
					if !done[tid] {
						unfinished++
						if states[tid].waiting {
							ready = append(ready, tid)
						}
					}
				}
				for tid := range sc.Threads {
					if fails[tid] != "" {
						fail = fails[tid]
					}
				}
				if fail != "" || unfinished == 0 {
					break
				}
				if len(ready) == 0 {
					fail = fmt.Sprintf("deadlock: %d threads are unfinished and all of them are blocked on a lock", unfinished)
					break
				}
				if len(ready) >= 2 {
					contended = true
				}
				choice := 0
				if pos < len(sc.Schedule) {
					choice = sc.Schedule[pos]
					pos++
				}
				if step > 5000 {
					fail = "livelock: more than 5000 lock operations without all threads finishing"
					break
				}
				s.grant[ready[choice%len(ready)]] <- true
			}
			log = s.log
			// Unwind the threads that are still blocked so that the bubble can end.
			close(s.abort)
			synctest.Wait()
			if fail == "" {
				for i, l := range locks {
					if l.held {
						fail = fmt.Sprintf("lock L%d is still held by thread %d after all threads finished", i, l.owner)
					}
				}
			}
		})
		_ = log
		if fail != "" {
			if len(log) > 60 {
				log = log[len(log)-60:]
			}
			rt.Fatalf("C14: %s; script=%+v; last lock operations=%v", fail, sc, log)
		}
		labels := []string{}
		if backedOff {
			labels = append(labels, "backed_off")
		}
		if contended {
			labels = append(labels, "contended")
		}
		rec.Case(sc, backedOff && contended, labels...)
	})
}

package poolfile

import (
	"context"
	"fmt"
	"io"
	"sync"
	"sync/atomic"

	remoteexecution "github.com/bazelbuild/remote-apis/build/bazel/remote/execution/v2"
	"github.com/buildbarn/bb-remote-execution/pkg/filesystem/pool"
	"github.com/buildbarn/bb-remote-execution/pkg/filesystem/virtual"
	"github.com/buildbarn/bb-storage/pkg/blobstore/buffer"
	"github.com/buildbarn/bb-storage/pkg/blobstore/slicing"
	"github.com/buildbarn/bb-storage/pkg/digest"
	"github.com/buildbarn/bb-storage/pkg/filesystem"
	"google.golang.org/grpc/codes"
	"google.golang.org/grpc/status"
)

// ---------------------------------------------------------------------
// Instrumented pool file: in-memory bytes, counts Close, flags every call
// made after Close, one-shot I/O faults.
// ---------------------------------------------------------------------

type poolFile struct {
	mu            sync.Mutex
	data          []byte
	closed        int
	useAfterClose []string
	calls         int

	// One-shot faults. armedWrite < 0 means "not armed"; otherwise the
	// number of bytes WriteAt stores before failing.
	armedRead     bool
	armedTruncate bool
	armedWrite    int
	consumed      int // faults consumed since the last arm

	// clock (optional) is the per-case event counter; every WriteAt/Truncate
	// call is stamped with it so that the harness can tell whether a
	// mutation of the pool file ran while a frozen reader / upload was known
	// to hold the file frozen.
	clock *atomic.Int64
	muts  []mutEvent
}

type mutEvent struct {
	seq int64
	op  string
}

// stampMutation is called with mu held by the calls that change the file.
func (f *poolFile) stampMutation(op string) {
	if f.clock != nil {
		f.muts = append(f.muts, mutEvent{seq: f.clock.Add(1), op: op})
	}
}

// mutationsSince returns the mutation events from index i on.
func (f *poolFile) mutationsSince(i int) []mutEvent {
	f.mu.Lock()
	defer f.mu.Unlock()
	if i >= len(f.muts) {
		return nil
	}
	return append([]mutEvent(nil), f.muts[i:]...)
}

func newPoolFile(size uint64) *poolFile {
	return &poolFile{data: make([]byte, size), armedWrite: -1}
}

// touch is called with mu held at the start of every method.
func (f *poolFile) touch(op string) {
	f.calls++
	if f.closed > 0 {
		f.useAfterClose = append(f.useAfterClose, op)
	}
}

func (f *poolFile) ReadAt(p []byte, off int64) (int, error) {
	f.mu.Lock()
	defer f.mu.Unlock()
	f.touch(fmt.Sprintf("ReadAt(%d,%d)", len(p), off))
	if f.armedRead {
		f.armedRead = false
		f.consumed++
		return 0, status.Error(codes.DataLoss, "injected read fault")
	}
	if off < 0 {
		return 0, fmt.Errorf("negative offset")
	}
	if off >= int64(len(f.data)) {
		if len(p) == 0 {
			return 0, nil
		}
		return 0, io.EOF
	}
	n := copy(p, f.data[off:])
	if n < len(p) {
		return n, io.EOF
	}
	return n, nil
}

func (f *poolFile) WriteAt(p []byte, off int64) (int, error) {
	f.mu.Lock()
	defer f.mu.Unlock()
	f.touch(fmt.Sprintf("WriteAt(%d,%d)", len(p), off))
	f.stampMutation(fmt.Sprintf("WriteAt(%d,%d)", len(p), off))
	if off < 0 {
		return 0, fmt.Errorf("negative offset")
	}
	var err error
	if f.armedWrite >= 0 {
		k := f.armedWrite
		f.armedWrite = -1
		f.consumed++
		if k > len(p) {
			k = len(p)
		}
		p = p[:k]
		err = status.Error(codes.ResourceExhausted, "injected write fault")
	}
	if len(p) > 0 {
		if end := int(off) + len(p); end > len(f.data) {
			f.data = append(f.data, make([]byte, end-len(f.data))...)
		}
		copy(f.data[off:], p)
	}
	return len(p), err
}

func (f *poolFile) Truncate(size int64) error {
	f.mu.Lock()
	defer f.mu.Unlock()
	f.touch(fmt.Sprintf("Truncate(%d)", size))
	f.stampMutation(fmt.Sprintf("Truncate(%d)", size))
	if f.armedTruncate {
		f.armedTruncate = false
		f.consumed++
		return status.Error(codes.ResourceExhausted, "injected truncate fault")
	}
	if size < 0 {
		return fmt.Errorf("negative size")
	}
	if int(size) <= len(f.data) {
		f.data = f.data[:size:size]
	} else {
		f.data = append(f.data, make([]byte, int(size)-len(f.data))...)
	}
	return nil
}

// The fake has no holes: everything below the end of file is data.
func (f *poolFile) GetNextRegionOffset(off int64, regionType filesystem.RegionType) (int64, error) {
	f.mu.Lock()
	defer f.mu.Unlock()
	f.touch(fmt.Sprintf("GetNextRegionOffset(%d)", off))
	if off >= int64(len(f.data)) {
		return 0, io.EOF
	}
	if regionType == filesystem.Hole {
		return int64(len(f.data)), nil
	}
	return off, nil
}

func (f *poolFile) Len() (int64, error) {
	f.mu.Lock()
	defer f.mu.Unlock()
	f.touch("Len")
	return int64(len(f.data)), nil
}

func (f *poolFile) Sync() error {
	f.mu.Lock()
	defer f.mu.Unlock()
	f.touch("Sync")
	return nil
}

func (f *poolFile) Close() error {
	f.mu.Lock()
	defer f.mu.Unlock()
	f.touch("Close")
	f.closed++
	return nil
}

func (f *poolFile) snapshot() (data []byte, closed int, uac []string) {
	f.mu.Lock()
	defer f.mu.Unlock()
	return append([]byte(nil), f.data...), f.closed, append([]string(nil), f.useAfterClose...)
}

func (f *poolFile) arm(kind string, k int) {
	f.mu.Lock()
	defer f.mu.Unlock()
	f.consumed = 0
	switch kind {
	case "read":
		f.armedRead = true
	case "write":
		f.armedWrite = k
	case "truncate":
		f.armedTruncate = true
	}
}

// disarm removes any fault still armed and reports how many fired.
func (f *poolFile) disarm() int {
	f.mu.Lock()
	defer f.mu.Unlock()
	f.armedRead = false
	f.armedTruncate = false
	f.armedWrite = -1
	n := f.consumed
	f.consumed = 0
	return n
}

type fakePool struct {
	mu    sync.Mutex
	files []*poolFile
	clock *atomic.Int64 // handed to every file created (may be nil)
}

func (p *fakePool) NewFile(holeSource pool.HoleSource, size uint64) (filesystem.FileReadWriter, error) {
	f := newPoolFile(size)
	f.clock = p.clock
	p.mu.Lock()
	p.files = append(p.files, f)
	p.mu.Unlock()
	return f, nil
}

func (p *fakePool) count() int {
	p.mu.Lock()
	defer p.mu.Unlock()
	return len(p.files)
}

// ---------------------------------------------------------------------
// Fake CAS. One instance per upload; Put can park before reading, halfway
// through reading, or after having consumed the buffer; it can be told to
// fail. It records the bytes it read and checks them against the digest.
// ---------------------------------------------------------------------

type casPlan struct {
	// "none", "before", "mid", "after"; "preclose" (handover sub-check only):
	// after the whole blob was read, before the buffer is closed.
	Park string
	Fail bool
}

type fakeCAS struct {
	plan    casPlan
	release chan struct{}

	mu        sync.Mutex
	putCalls  int
	parked    bool
	gotDigest digest.Digest
	readBytes []byte // everything read from the buffer so far
	complete  bool   // the whole blob was read
	readErr   error
	mismatch  string // non-empty: bytes read do not hash to the digest given
	returned  bool

	// Event stamps (0 = not happened). putSeq: Put was entered, i.e. the
	// upload has frozen the file before this instant. closeSeq: the CAS is
	// about to close/discard the buffer, i.e. the freeze lasts at least
	// until this instant.
	clock    *atomic.Int64
	putSeq   int64
	closeSeq int64
}

func (c *fakeCAS) stampClose() {
	if c.clock != nil {
		c.mu.Lock()
		if c.closeSeq == 0 {
			c.closeSeq = c.clock.Add(1)
		}
		c.mu.Unlock()
	}
}

func (c *fakeCAS) stamps() (putSeq, closeSeq int64) {
	c.mu.Lock()
	defer c.mu.Unlock()
	return c.putSeq, c.closeSeq
}

func newFakeCAS(plan casPlan) *fakeCAS {
	return &fakeCAS{plan: plan, release: make(chan struct{})}
}

func (c *fakeCAS) park() {
	c.mu.Lock()
	c.parked = true
	c.mu.Unlock()
	<-c.release
	c.mu.Lock()
	c.parked = false
	c.mu.Unlock()
}

func (c *fakeCAS) state() (putCalls int, parked bool) {
	c.mu.Lock()
	defer c.mu.Unlock()
	return c.putCalls, c.parked
}

var errInjectedCAS = status.Error(codes.Unavailable, "injected CAS failure")

func (c *fakeCAS) Put(ctx context.Context, d digest.Digest, b buffer.Buffer) error {
	c.mu.Lock()
	c.putCalls++
	c.gotDigest = d
	if c.clock != nil && c.putSeq == 0 {
		c.putSeq = c.clock.Add(1)
	}
	c.mu.Unlock()
	defer func() {
		c.mu.Lock()
		c.returned = true
		c.mu.Unlock()
	}()

	if c.plan.Park == "before" {
		c.park()
	}
	if c.plan.Fail && c.plan.Park != "mid" && c.plan.Park != "after" && c.plan.Park != "preclose" {
		c.stampClose()
		b.Discard()
		return errInjectedCAS
	}

	size, err := b.GetSizeBytes()
	if err != nil {
		c.stampClose()
		b.Discard()
		return err
	}
	r := b.ToReader()
	first := size / 2
	if c.plan.Park != "mid" {
		first = size
	}
	if err := c.readN(r, first); err != nil {
		c.stampClose()
		r.Close()
		return err
	}
	if c.plan.Park == "mid" {
		c.park()
		if c.plan.Fail {
			c.stampClose()
			r.Close()
			return errInjectedCAS
		}
		if err := c.readN(r, size-first); err != nil {
			c.stampClose()
			r.Close()
			return err
		}
	}
	if c.plan.Park == "preclose" {
		c.park()
	}
	c.stampClose()
	r.Close()

	c.mu.Lock()
	c.complete = true
	g := d.GetDigestFunction().NewGenerator(int64(len(c.readBytes)))
	g.Write(c.readBytes)
	if sum := g.Sum(); sum != d {
		c.mismatch = fmt.Sprintf("CAS was given digest %s but the %d bytes it read hash to %s", d, len(c.readBytes), sum)
	}
	c.mu.Unlock()

	if c.plan.Park == "after" {
		c.park()
	}
	if c.plan.Fail {
		return errInjectedCAS
	}
	return nil
}

func (c *fakeCAS) readN(r io.Reader, n int64) error {
	buf := make([]byte, n)
	got, err := io.ReadFull(r, buf)
	c.mu.Lock()
	c.readBytes = append(c.readBytes, buf[:got]...)
	if err != nil {
		c.readErr = err
	}
	c.mu.Unlock()
	return err
}

func (c *fakeCAS) Get(ctx context.Context, d digest.Digest) buffer.Buffer {
	panic("harness: unexpected CAS Get")
}

func (c *fakeCAS) GetFromComposite(ctx context.Context, parentDigest, childDigest digest.Digest, slicer slicing.BlobSlicer) buffer.Buffer {
	panic("harness: unexpected CAS GetFromComposite")
}

func (c *fakeCAS) FindMissing(ctx context.Context, digests digest.Set) (digest.Set, error) {
	panic("harness: unexpected CAS FindMissing")
}

func (c *fakeCAS) GetCapabilities(ctx context.Context, instanceName digest.InstanceName) (*remoteexecution.ServerCapabilities, error) {
	panic("harness: unexpected CAS GetCapabilities")
}

// ---------------------------------------------------------------------
// Small fakes: named attributes, error logger, number generator.
// ---------------------------------------------------------------------

type fakeNamedAttributes struct {
	released atomic.Int32
}

func (na *fakeNamedAttributes) VirtualGetAttributes(requested virtual.AttributesMask, attributes *virtual.Attributes) {
	attributes.SetHasNamedAttributes(false)
	attributes.SetIsInNamedAttributeDirectory(false)
}

func (na *fakeNamedAttributes) VirtualOpenNamedAttributes(ctx context.Context, createDirectory bool, requested virtual.AttributesMask, attributes *virtual.Attributes) (virtual.Directory, virtual.Status) {
	return nil, virtual.StatusErrNoEnt
}

func (na *fakeNamedAttributes) Release() { na.released.Add(1) }

type fakeNamedAttributesFactory struct {
	na *fakeNamedAttributes
}

func (f *fakeNamedAttributesFactory) NewNamedAttributes() virtual.NamedAttributes {
	return f.na
}

type fakeErrorLogger struct {
	mu   sync.Mutex
	errs []string
}

func (l *fakeErrorLogger) Log(err error) {
	l.mu.Lock()
	l.errs = append(l.errs, fmt.Sprint(err))
	l.mu.Unlock()
}

func (l *fakeErrorLogger) count() int {
	l.mu.Lock()
	defer l.mu.Unlock()
	return len(l.errs)
}

// counterGenerator hands out distinct numbers; only Uint64 is used by the
// handle allocators.
type counterGenerator struct {
	n atomic.Uint64
}

func (g *counterGenerator) Float64() float64                   { return 0 }
func (g *counterGenerator) Int64N(n int64) int64               { return 0 }
func (g *counterGenerator) IntN(n int) int                     { return 0 }
func (g *counterGenerator) Read(p []byte) (int, error)         { clear(p); return len(p), nil }
func (g *counterGenerator) Shuffle(n int, swap func(i, j int)) {}
func (g *counterGenerator) Uint32() uint32                     { return uint32(g.Uint64()) }
func (g *counterGenerator) Uint64() uint64                     { return g.n.Add(1) * 0x9E3779B97F4A7C15 }
func (g *counterGenerator) IsThreadSafe()                      {}

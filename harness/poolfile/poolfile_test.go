// Package poolfile decides C16: a pool-backed writable file (virtual
// fileBackedFile, optionally behind the FUSE/NFS link-count decorators)
// lives exactly as long as it is referenced, and uploads report the digest
// of exactly the bytes that were stored.
//
// One rapid case = one fresh file inside a testing/synctest bubble. Every
// call into the file runs in its own goroutine; after every generated
// action the harness waits for quiescence (synctest.Wait) and compares what
// returned / what is still blocked with a small reference model.
package poolfile

import (
	"bytes"
	"context"
	"encoding/hex"
	"encoding/json"
	"fmt"
	"io"
	"os"
	"runtime/debug"
	"sync/atomic"
	"testing"
	"testing/synctest"

	remoteexecution "github.com/bazelbuild/remote-apis/build/bazel/remote/execution/v2"
	"github.com/buildbarn/bb-remote-execution/pkg/filesystem/pool"
	"github.com/buildbarn/bb-remote-execution/pkg/filesystem/virtual"
	bazeloutputservicerev2 "github.com/buildbarn/bb-remote-execution/pkg/proto/bazeloutputservice/rev2"
	"github.com/buildbarn/bb-remote-execution/pkg/proto/outputpathpersistency"
	"github.com/buildbarn/bb-storage/pkg/digest"
	"github.com/buildbarn/bb-storage/pkg/filesystem"
	"github.com/buildbarn/bb-storage/pkg/filesystem/path"
	"google.golang.org/grpc/codes"
	"google.golang.org/grpc/status"
	"pgregory.net/rapid"

	"verif/harness/internal/simkit"
)

const (
	maxSize     = 24 // file sizes stay small: the interesting part is the history
	maxLinks    = 4
	maxOpens    = 4 // per share bit
	maxHolders  = 3 // uploads + frozen readers in flight
	maxPending  = 3 // blocked mutating calls
	ruleText    = "rapid state machine over ONE pool-backed file per case (real NewPoolBackedFileAllocator over an instrumented in-memory pool file; leaf raw or behind the FUSE / NFS stateful handle allocator, drawn per case), run inside testing/synctest: every call is a goroutine, synctest.Wait after every action. Actions: open(R/W/RW, with/without truncate), close(mask), link, unlink, read, write, set-size, chmod, allocate, seek, getattr, upload (fake CAS whose Put returns at once / parks before, halfway or after reading / fails; delay channel closed or open; 3 digest functions), open-frozen + frozen reads + close, close-delay-channel, release-parked-Put, BazelOutputService stat, persistency node, one-shot pool I/O faults, redigest macro (digest request, ONE change of a drawn class: write / short write with error / truncate-shrink / truncate-grow / set-size to the same size / allocate growing / allocate inside / truncating open / chmod, digest request with the same digest function; labels redigest_[samefn_]after_<class> count every class of change seen between two checked digest requests); final drain in a drawn order and probes of the dead file. Oracle: reference model (links + opened share bits + frozen readers/uploads; byte content): pool file closed exactly once and exactly when the model count is 0 and never touched afterwards; contents == model while referenced; dead file: link/open -> ESTALE, upload/open-frozen/stat -> NOT_FOUND; successful upload digest == digest-function(bytes the fake CAS read) == model content at the freeze instant; mutating calls block while any upload/frozen reader holds the file and take effect afterwards (any order of the blocked calls accepted); upload blocks while a writable descriptor is open until it is closed or the delay channel closes; lock free and hook counters == model at every quiescence; no WriteAt/Truncate on the pool file between the instant a holder is known to be frozen (open-frozen returned / CAS Put entered) and the instant its unfreeze is started (event stamps); the code's upload-delay timeouts counter grows exactly by the freezes that the model attributes to a closed delay channel with writers present. NON-TRIVIAL: an upload/frozen-open was in progress while a writable descriptor was open, or the last reference to disappear was an upload / frozen reader. Distinct by script hash"
	statOK      = virtual.StatusOK
	shareRead   = virtual.ShareMaskRead
	shareWrite  = virtual.ShareMaskWrite
	shareRW     = virtual.ShareMaskRead | virtual.ShareMaskWrite
	holderLimit = maxHolders
)

// probeUnreferenced enables the probes of set-size on a file whose last
// reference is gone (finding F1 of this package: fileBackedFile.
// virtualTruncate dereferenced the nil f.file when referenceCount was already
// 0; reachable through FUSE SETATTR racing with unlink; fixed in the pinned
// tree: virtualTruncate now returns StatusErrStale when referenceCount == 0
// and says so in a comment). ON by default since that fix; the environment
// variable VERIF_C16_UNREFERENCED_SETSIZE=0 switches the probes off (then the
// generator refuses set-size on a dead file and counts the refusals). With
// the probes on, (a) the action setsize_unreferenced is generated and must
// return a non-OK status without panicking or touching the pool file, (b) the
// last link/descriptor may be dropped while a set-size is blocked behind an
// upload; that set-size must then fail cleanly.
var probeUnreferenced = os.Getenv("VERIF_C16_UNREFERENCED_SETSIZE") != "0"

// failure is the panic value used to carry an oracle failure out of the
// synctest bubble.
type failure string

type step struct {
	Op  string `json:"op"`
	F   int    `json:"f,omitempty"` // file number (build-directory sub-check only)
	ID  int    `json:"id,omitempty"`
	Off int    `json:"off,omitempty"`
	N   int    `json:"n,omitempty"`
	S   string `json:"s,omitempty"`
	Res string `json:"res,omitempty"`
}

type acall struct {
	done     chan struct{}
	panicVal any
	stack    string
}

func (c *acall) isDone() bool {
	select {
	case <-c.done:
		return true
	default:
		return false
	}
}

// mutator is a call that changes file data and therefore has to wait for
// uploads/frozen readers.
type mutator struct {
	id    int
	kind  string // "write", "setsize", "allocate", "opentrunc"
	off   int
	size  int
	data  []byte
	share virtual.ShareMask
	call  *acall

	n       int
	st      virtual.Status
	outSize uint64
}

const (
	hWaiting        = iota // waiting for writers to close / the delay channel
	hFrozenParked          // upload parked inside CAS Put, still holding the freeze
	hConsumedParked        // upload parked inside CAS Put after the buffer was consumed
	hOpen                  // frozen reader handed out
	hDone
)

type holder struct {
	id          int
	kind        string // "upload" or "frozen"
	state       int
	call        *acall
	delay       chan struct{}
	delayClosed bool
	plan        casPlan
	cas         *fakeCAS
	fnIdx       int
	up          *virtual.ApplyUploadFile
	fr          *virtual.ApplyOpenReadFrozen
	applied     bool
	snapshot    []byte
	froze       bool
	faultHit    bool
	notFound    bool
	checked     bool

	// Frozen readers only: event stamps taken right after the open-frozen
	// call returned a reader, and right before the harness starts closing
	// it (0 = not yet). Uploads use the stamps of their fake CAS.
	fromSeq  atomic.Int64
	untilSeq atomic.Int64
}

// knownFrozen returns the interval of event stamps during which this holder
// is KNOWN to have held the file frozen: from is taken after the freeze
// happened, until (0 = still holding) before the unfreeze was started.
func (h *holder) knownFrozen() (from, until int64) {
	if h.kind == "frozen" {
		return h.fromSeq.Load(), h.untilSeq.Load()
	}
	if h.cas == nil {
		return 0, 0
	}
	return h.cas.stamps()
}

// shared is what all file models of one case have in common.
type shared struct {
	rt     *rapid.T
	rec    *simkit.Recorder
	script []step
	labels map[string]bool
	nextID int
	wrap   string
	fns    []digest.Function

	// clock stamps pool-file mutations and freeze/unfreeze events.
	clock *atomic.Int64
	// wantTimeouts counts the freezes the model attributes to the delay
	// channel having been closed while writers were still present;
	// compared with the code's own "upload delay timeouts" counter.
	wantTimeouts int
	metricsBase  metricsSnapshot
}

// sim is the model of ONE file plus the machinery to drive it.
type sim struct {
	*shared
	tag int // file number stamped into script steps

	pf   *poolFile
	na   *fakeNamedAttributes // nil: named attributes not instrumented
	el   *fakeErrorLogger
	nfs  *virtual.NFSStatefulHandleAllocator
	leaf virtual.Leaf

	// Reference model.
	links, openR, openW, frozen int
	content                     []byte
	dead                        bool
	lastRef                     string
	diedInDrain                 bool
	draining                    bool

	holders []*holder
	pending []*mutator

	digestSeen         bool // some digest was computed for the current or an earlier content
	changedSinceDigest bool
	// Classes of changes applied since the last CHECKED digest request
	// (successful upload or stat with digest) and the digest function of
	// that request: only used for the redigest_* labels.
	sinceDigest  map[string]bool
	lastDigestFn int // 1 + index, 0 = none yet

	mutChecked int       // pool-file mutation events already judged
	gate       *attrGate // nil: default attributes setter never parks
	orphans    []*holder // started by a handover action, not yet in holders
	handover   bool      // handover sub-check: extra actions and CAS plans
}

// noteChange records that a change of the given class went through since
// the last checked digest request.
func (s *sim) noteChange(class string) {
	if !s.digestSeen {
		return
	}
	if s.sinceDigest == nil {
		s.sinceDigest = map[string]bool{}
	}
	s.sinceDigest[class] = true
}

// noteDigestChecked is called when a digest request whose answer the oracle
// compares with the content (successful upload, stat with digest) froze the
// file: one label per class of change since the previous such request.
func (s *sim) noteDigestChecked(fnIdx int) {
	classes := make([]string, 0, len(s.sinceDigest))
	for c := range s.sinceDigest {
		classes = append(classes, c)
	}
	sortStrings(classes)
	for _, c := range classes {
		s.label("redigest_after_" + c)
		if s.lastDigestFn == fnIdx+1 {
			s.label("redigest_samefn_after_" + c)
		}
	}
	s.sinceDigest = nil
	s.lastDigestFn = fnIdx + 1
}

// changeClass names the class of a mutating call relative to the content it
// is applied to.
func changeClass(content []byte, m *mutator) string {
	switch m.kind {
	case "write":
		return "write"
	case "setsize":
		switch {
		case m.size < len(content):
			return "truncate_shrink"
		case m.size > len(content):
			return "truncate_grow"
		}
		return "setsize_same"
	case "allocate":
		if m.off+m.size > len(content) {
			return "allocate_grow"
		}
		return "allocate_noop"
	case "opentrunc":
		if len(content) > 0 {
			return "opentrunc"
		}
		return "opentrunc_empty"
	}
	return m.kind
}

func (s *sim) failf(format string, a ...any) {
	b, _ := json.Marshal(s.script)
	panic(failure(fmt.Sprintf(format, a...) + fmt.Sprintf("; wrap=%s; script=%s", s.wrap, b)))
}

func (s *sim) label(l string) { s.labels[l] = true }

func (s *sim) add(st step) *step {
	st.F = s.tag
	s.script = append(s.script, st)
	return &s.script[len(s.script)-1]
}

func (s *sim) setRes(format string, a ...any) {
	s.script[len(s.script)-1].Res = fmt.Sprintf(format, a...)
}

func (s *sim) spawn(fn func()) *acall {
	c := &acall{done: make(chan struct{})}
	go func() {
		defer close(c.done)
		defer func() {
			if r := recover(); r != nil {
				c.panicVal = r
				c.stack = string(debug.Stack())
			}
		}()
		fn()
	}()
	return c
}

func (s *sim) checkPanic(what string, c *acall) {
	if c.isDone() && c.panicVal != nil {
		s.failf("%s panicked: %v\n%s", what, c.panicVal, c.stack)
	}
}

// sync runs a call that must not block.
func (s *sim) sync(what string, fn func()) {
	c := s.spawn(fn)
	synctest.Wait()
	if !c.isDone() {
		s.failf("%s did not return although nothing it may wait for is outstanding", what)
	}
	s.checkPanic(what, c)
}

func (s *sim) realRefs() int { return s.links + s.openR + s.openW }
func (s *sim) count() int    { return s.realRefs() + s.frozen }

// leafRefs is what fileBackedFile.referenceCount must be: the decorators
// keep the link count to themselves and hold one reference while it is > 0.
func (s *sim) leafRefs() int {
	l := s.links
	if s.wrap != "none" && l > 1 {
		l = 1
	}
	return l + s.openR + s.openW + s.frozen
}

func (s *sim) dropped(kind string) {
	if !s.dead && s.count() == 0 {
		s.dead = true
		s.lastRef = kind
		s.diedInDrain = s.draining
	}
}

func (s *sim) digestOf(fnIdx int, data []byte) digest.Digest {
	g := s.fns[fnIdx].NewGenerator(int64(len(data)))
	g.Write(data)
	return g.Sum()
}

func (s *sim) inFlightHolders() int {
	n := 0
	for _, h := range s.holders {
		if h.state != hDone {
			n++
		}
	}
	return n
}

// pendingNeeds reports whether blocked calls exist that a real front end
// only issues through a reference it keeps until the call returned.
func (s *sim) pendingNeeds() (anyRef, writeBit bool) {
	for _, m := range s.pending {
		switch m.kind {
		case "write", "allocate":
			anyRef, writeBit = true, true
		case "setsize":
			if !probeUnreferenced {
				anyRef = true
			}
		}
	}
	return
}

func (s *sim) noteOverlap() {
	if s.openW == 0 {
		return
	}
	for _, h := range s.holders {
		if h.state == hWaiting || h.state == hFrozenParked || (h.kind == "frozen" && h.state == hOpen) {
			s.label("upload_overlapped_writer")
		}
	}
}

// ---------------------------------------------------------------------
// Model transitions that follow from an action, and comparison of the
// predicted state of every asynchronous call with what actually happened.
// ---------------------------------------------------------------------

func (s *sim) afterFreeze(h *holder) {
	h.froze = true
	h.snapshot = append([]byte(nil), s.content...)
	s.frozen++
	if s.openW > 0 {
		s.label("freeze_with_open_writer")
		s.label("upload_overlapped_writer")
	}
	if h.kind == "frozen" {
		h.state = hOpen
		return
	}
	s.digestSeen = true
	if s.changedSinceDigest {
		s.label("upload_after_change")
		s.changedSinceDigest = false
	}
	if !h.faultHit && !h.plan.Fail {
		s.noteDigestChecked(h.fnIdx)
	}
	if h.faultHit {
		s.frozen--
		h.state = hDone
		s.dropped("upload")
		return
	}
	switch h.plan.Park {
	case "none":
		s.frozen--
		h.state = hDone
		s.dropped("upload")
	case "before", "mid", "preclose":
		h.state = hFrozenParked
	case "after":
		s.frozen--
		h.state = hConsumedParked
		s.dropped("upload")
	}
}

func (s *sim) advance() {
	for changed := true; changed; {
		changed = false
		for _, h := range s.holders {
			if h.state != hWaiting {
				continue
			}
			if s.dead {
				h.state = hDone
				h.notFound = true
				changed = true
				continue
			}
			if s.openW == 0 || h.delayClosed {
				if s.openW > 0 {
					s.label("upload_delay_timeout")
					s.wantTimeouts++
				} else if h.applied {
					s.label("upload_waited_for_writer_close")
				}
				s.afterFreeze(h)
				changed = true
			}
		}
	}
	for _, h := range s.holders {
		h.applied = true
	}
	s.noteOverlap()
	s.verifyHolders()
	if len(s.pending) > 0 {
		if s.frozen == 0 {
			s.resolvePending()
		} else {
			for _, m := range s.pending {
				if m.call.isDone() {
					s.failf("%s#%d returned while %d upload(s)/frozen reader(s) still hold the file frozen: a change issued during an upload must only take effect after the upload finished", m.kind, m.id, s.frozen)
				}
			}
		}
	}
}

func (s *sim) verifyHolders() {
	for _, h := range s.holders {
		name := fmt.Sprintf("%s#%d", h.kind, h.id)
		s.checkPanic(name, h.call)
		done := h.call.isDone()
		putCalls, parked := 0, false
		if h.cas != nil {
			putCalls, parked = h.cas.state()
			h.cas.mu.Lock()
			mm := h.cas.mismatch
			h.cas.mu.Unlock()
			if mm != "" {
				s.failf("%s: %s", name, mm)
			}
		}
		switch h.state {
		case hWaiting:
			if done || putCalls > 0 {
				s.failf("%s went ahead (returned=%v, CAS Put calls=%d) although %d writable descriptor(s) are open and its delay channel is not closed: it must wait", name, done, putCalls, s.openW)
			}
		case hFrozenParked, hConsumedParked:
			if done {
				s.failf("%s returned although its CAS Put is still parked (err=%v)", name, h.up.Err)
			}
			if !parked {
				s.failf("%s should be inside CAS Put by now (writers=%d, delayClosed=%v) but Put calls=%d, parked=%v", name, s.openW, h.delayClosed, putCalls, parked)
			}
		case hOpen:
			if !done {
				s.failf("%s is still waiting although no writable descriptor is open or its delay channel is closed (writers=%d, delayClosed=%v)", name, s.openW, h.delayClosed)
			}
			if !h.checked {
				h.checked = true
				if h.fr.Err != nil || h.fr.Reader == nil {
					s.failf("%s on a referenced file failed: err=%v reader=%v", name, h.fr.Err, h.fr.Reader)
				}
			}
		case hDone:
			if !done {
				s.failf("%s has not returned although nothing it may wait for is outstanding (writers=%d, delayClosed=%v, CAS parked=%v)", name, s.openW, h.delayClosed, parked)
			}
			if !h.checked {
				h.checked = true
				s.checkHolderResult(h, name)
			}
		}
	}
}

func (s *sim) checkHolderResult(h *holder, name string) {
	if h.kind == "frozen" {
		// Reaches hDone without passing hOpen only via notFound;
		// the close path marks checked itself.
		if h.notFound {
			if status.Code(h.fr.Err) != codes.NotFound || h.fr.Reader != nil {
				s.failf("%s on a file without references: want NOT_FOUND and no reader, got err=%v reader=%v", name, h.fr.Err, h.fr.Reader)
			}
			s.label("dead_probe_frozen")
		}
		return
	}
	p := h.up
	switch {
	case h.notFound:
		if status.Code(p.Err) != codes.NotFound || p.Digest != digest.BadDigest {
			s.failf("%s on a file without references: want NOT_FOUND and no digest, got digest=%s err=%v", name, p.Digest, p.Err)
		}
		if putCalls, _ := h.cas.state(); putCalls != 0 {
			s.failf("%s on a file without references called CAS Put", name)
		}
		s.label("dead_probe_upload")
	case h.faultHit:
		if p.Err == nil {
			s.failf("%s succeeded with digest %s although a pool read failed during it", name, p.Digest)
		}
		s.label("upload_read_fault")
	case h.plan.Fail:
		if p.Err == nil {
			s.failf("%s succeeded with digest %s although the CAS rejected the blob", name, p.Digest)
		}
		s.label("upload_cas_failure")
	default:
		if p.Err != nil {
			s.failf("%s failed without any injected fault: %v", name, p.Err)
		}
		want := s.digestOf(h.fnIdx, h.snapshot)
		h.cas.mu.Lock()
		got, complete, stored := h.cas.gotDigest, h.cas.complete, append([]byte(nil), h.cas.readBytes...)
		h.cas.mu.Unlock()
		if !complete {
			s.failf("%s reported success but the CAS never received the complete blob", name)
		}
		if !bytes.Equal(stored, h.snapshot) {
			s.failf("%s stored %x in the CAS, but the file content when the upload froze it was %x", name, stored, h.snapshot)
		}
		if p.Digest != got {
			s.failf("%s reported digest %s but gave the CAS digest %s", name, p.Digest, got)
		}
		if p.Digest != want {
			s.failf("%s reported digest %s; the content at the freeze instant (%x) has digest %s (stale cached digest?)", name, p.Digest, h.snapshot, want)
		}
		s.label("upload_ok")
	}
}

func applyMutator(content []byte, m *mutator) []byte {
	c := append([]byte(nil), content...)
	switch m.kind {
	case "write":
		if end := m.off + len(m.data); end > len(c) {
			c = append(c, make([]byte, end-len(c))...)
		}
		copy(c[m.off:], m.data)
	case "setsize":
		if m.size <= len(c) {
			c = c[:m.size]
		} else {
			c = append(c, make([]byte, m.size-len(c))...)
		}
	case "allocate":
		if end := m.off + m.size; end > len(c) {
			c = append(c, make([]byte, end-len(c))...)
		}
	case "opentrunc":
		c = c[:0]
	}
	return c
}

func permutations(n int) [][]int {
	if n == 0 {
		return [][]int{{}}
	}
	var out [][]int
	var rec func(cur []int, used []bool)
	rec = func(cur []int, used []bool) {
		if len(cur) == n {
			out = append(out, append([]int(nil), cur...))
			return
		}
		for i := 0; i < n; i++ {
			if !used[i] {
				used[i] = true
				rec(append(cur, i), used)
				used[i] = false
			}
		}
	}
	rec(nil, make([]bool, n))
	return out
}

// checkMutatorResult validates the return values of a mutating call that
// ran without an injected fault.
func (s *sim) checkMutatorResult(m *mutator) {
	name := fmt.Sprintf("%s#%d", m.kind, m.id)
	switch m.kind {
	case "write":
		if m.st != statOK || m.n != len(m.data) {
			s.failf("%s returned n=%d status=%d, want n=%d OK", name, m.n, m.st, len(m.data))
		}
	case "setsize":
		if m.st != statOK || m.outSize != uint64(m.size) {
			s.failf("%s returned status=%d size=%d, want OK size=%d", name, m.st, m.outSize, m.size)
		}
	case "allocate":
		if m.st != statOK {
			s.failf("%s returned status=%d, want OK", name, m.st)
		}
	}
}

func (s *sim) resolvePending() {
	var live []*mutator
	for _, m := range s.pending {
		name := fmt.Sprintf("%s#%d", m.kind, m.id)
		if !m.call.isDone() {
			s.failf("%s is still blocked although no upload/frozen reader holds the file any more", name)
		}
		s.checkPanic(name, m.call)
		if m.kind == "opentrunc" {
			if s.dead {
				if m.st != virtual.StatusErrStale {
					s.failf("%s on a file whose last reference went away while it waited returned status=%d, want ESTALE", name, m.st)
				}
				s.label("dead_probe_open")
				continue
			}
			if m.st != statOK {
				s.failf("%s returned status=%d, want OK", name, m.st)
			}
		} else {
			if s.dead && m.kind == "setsize" && probeUnreferenced {
				if m.st == statOK {
					s.failf("%s on a file whose last reference went away while it waited returned OK", name)
				}
				continue
			}
			if s.dead {
				s.failf("harness bug: %s pending on a dead file", name)
			}
			s.checkMutatorResult(m)
		}
		live = append(live, m)
	}
	if len(s.pending) >= 2 {
		s.label("multi_pending")
	}
	s.label("blocked_change_ran_after_unfreeze")
	s.pending = nil
	if len(live) == 0 {
		return
	}
	actual, _, _ := s.pf.snapshot()
	matched := false
	for _, perm := range permutations(len(live)) {
		c := s.content
		for _, i := range perm {
			c = applyMutator(c, live[i])
		}
		if bytes.Equal(c, actual) {
			matched = true
			break
		}
	}
	if !matched {
		s.failf("after the blocked calls ran, the file holds %x; no order of the %d blocked call(s) applied to %x explains that (a change was lost or applied twice)", actual, len(live), s.content)
	}
	if !bytes.Equal(actual, s.content) || len(live) > 0 {
		s.changedSinceDigest = s.digestSeen
	}
	for _, m := range live {
		s.noteChange(changeClass(s.content, m))
	}
	s.content = actual
	for _, m := range live {
		if m.kind == "opentrunc" {
			s.acquire(m.share)
		}
	}
	s.noteOverlap()
}

func (s *sim) acquire(share virtual.ShareMask) {
	if share&shareRead != 0 {
		s.openR++
	}
	if share&shareWrite != 0 {
		s.openW++
	}
}

// ---------------------------------------------------------------------
// Invariants checked at every quiescent point.
// ---------------------------------------------------------------------

// checkFrozenIntervals: no WriteAt/Truncate may reach the pool file while a
// frozen reader or an upload is KNOWN to hold the file frozen (documented:
// "The file's contents are guaranteed to be immutable as long as the file is
// kept open", ApplyOpenReadFrozen; lockMutatingData "waits for any pending
// uploads of the file to complete"). Known = after the open-frozen call
// returned / the CAS Put was entered, and before the harness started closing
// the reader / the fake CAS started closing the buffer. Event stamps come
// from one atomic counter, so the verdict does not depend on the schedule.
func (s *sim) checkFrozenIntervals() {
	if s.clock == nil {
		return
	}
	evs := s.pf.mutationsSince(s.mutChecked)
	s.mutChecked += len(evs)
	for _, ev := range evs {
		for _, h := range s.holders {
			from, until := h.knownFrozen()
			if from != 0 && from < ev.seq && (until == 0 || ev.seq < until) {
				s.failf("pool file %s (event %d) ran while %s#%d held the file frozen (frozen since event %d, until %d; 0 = still held): contents changed under a frozen holder", ev.op, ev.seq, h.kind, h.id, from, until)
			}
		}
	}
}

// checkTimeouts compares the code's own count of "gave up waiting for
// writers because the delay expired" with the model: every freeze that
// happens while a writable descriptor is open must be due to a closed delay
// channel, and vice versa.
func (s *sim) checkTimeouts() {
	if !s.metricsBase.known {
		return
	}
	now := readMetrics(false)
	if got := int(now.timeouts - s.metricsBase.timeouts); got != s.wantTimeouts {
		s.failf("the file's code counted %d upload(s)/frozen open(s) that stopped waiting for writers with a writable descriptor still open (writable_file_upload_delay_timeouts), the model knows %d whose delay channel was closed at that point: an upload went ahead although a writer was open and its delay had not expired (or the reverse)", got, s.wantTimeouts)
	}
}

func (s *sim) check() {
	s.checkFrozenIntervals()
	s.checkTimeouts()
	if free, known := virtual.VerifLeafLockIsFree(s.leaf); !known {
		s.failf("hook does not know the leaf type %T", s.leaf)
	} else if !free {
		s.failf("the file's lock is held at quiescence (a call returned or parked without releasing it)")
	}
	refs, writers, frozen, known := virtual.VerifFileBackedFileState(s.leaf)
	if !known {
		s.failf("hook does not know the leaf type %T", s.leaf)
	}
	if int(refs) != s.leafRefs() || int(writers) != s.openW || int(frozen) != s.frozen {
		s.failf("file counters refs=%d writers=%d frozen=%d; model says refs=%d (links=%d R=%d W=%d frozen=%d) writers=%d frozen=%d", refs, writers, frozen, s.leafRefs(), s.links, s.openR, s.openW, s.frozen, s.openW, s.frozen)
	}
	data, closed, uac := s.pf.snapshot()
	if len(uac) > 0 {
		s.failf("pool file used after Close: %v", uac)
	}
	wantClosed := 0
	if s.dead {
		wantClosed = 1
	}
	if closed != wantClosed {
		s.failf("pool file Close() count is %d, model reference count is %d (links=%d R=%d W=%d frozen=%d) so it must be %d", closed, s.count(), s.links, s.openR, s.openW, s.frozen, wantClosed)
	}
	if s.na != nil {
		if rel := int(s.na.released.Load()); rel != wantClosed {
			s.failf("named attributes released %d times, want %d", rel, wantClosed)
		}
	}
	if !s.dead {
		if !bytes.Equal(data, s.content) {
			s.failf("pool file holds %x, model content is %x", data, s.content)
		}
		if s.realRefs() > 0 {
			var a virtual.Attributes
			mask := virtual.AttributesMaskSizeBytes
			if s.wrap != "none" {
				mask |= virtual.AttributesMaskLinkCount
			}
			s.leaf.VirtualGetAttributes(context.Background(), mask, &a)
			if sz, ok := a.GetSizeBytes(); !ok || sz != uint64(len(s.content)) {
				s.failf("file reports size %d (present=%v), model size is %d", sz, ok, len(s.content))
			}
			if s.wrap != "none" {
				if lc := a.GetLinkCount(); int(lc) != s.links {
					s.failf("file reports link count %d, model has %d", lc, s.links)
				}
			}
		}
	}
	if s.nfs != nil {
		if !s.nfs.VerifNFSHandlePoolLockIsFree() {
			s.failf("NFS handle pool lock held at quiescence")
		}
		_, stateful, _ := s.nfs.VerifNFSHandlePoolCounts()
		want := 0
		if s.links > 0 {
			want = 1
		}
		if stateful != want {
			s.failf("NFS handle pool resolves %d stateful leaves, want %d (links=%d)", stateful, want, s.links)
		}
	}
}

// ---------------------------------------------------------------------
// Actions.
// ---------------------------------------------------------------------

func shareName(m virtual.ShareMask) string {
	switch m {
	case shareRead:
		return "R"
	case shareWrite:
		return "W"
	case shareRW:
		return "RW"
	}
	return "0"
}

func (s *sim) doOpen(share virtual.ShareMask) {
	s.add(step{Op: "open", S: shareName(share)})
	var st virtual.Status
	var a virtual.Attributes
	s.sync("open", func() {
		st = s.leaf.VirtualOpenSelf(context.Background(), share, &virtual.OpenExistingOptions{}, virtual.AttributesMaskSizeBytes, &a)
	})
	if s.dead {
		if st != virtual.StatusErrStale {
			s.failf("open of a file without references returned status=%d, want ESTALE", st)
		}
		s.label("dead_probe_open")
		s.setRes("stale")
		return
	}
	if st != statOK {
		s.failf("open(%s) of a referenced file returned status=%d", shareName(share), st)
	}
	if sz, ok := a.GetSizeBytes(); !ok || sz != uint64(len(s.content)) {
		s.failf("open reported size %d, model size %d", sz, len(s.content))
	}
	s.acquire(share)
	s.setRes("ok")
	s.advance()
}

// issue starts a mutating call and decides from the model whether it has
// to block.
func (s *sim) issue(m *mutator, fault string, faultK int) {
	m.id = s.nextID
	s.nextID++
	arg := ""
	switch m.kind {
	case "write":
		arg = hex.EncodeToString(m.data)
	case "opentrunc":
		arg = shareName(m.share)
	}
	s.add(step{Op: m.kind, ID: m.id, Off: m.off, N: m.size, S: arg + faultTag(fault, faultK)})
	if fault != "" {
		s.pf.arm(fault, faultK)
	}
	ctx := context.Background()
	m.call = s.spawn(func() {
		switch m.kind {
		case "write":
			m.n, m.st = s.leaf.VirtualWrite(ctx, m.data, uint64(m.off))
		case "setsize":
			var in, out virtual.Attributes
			in.SetSizeBytes(uint64(m.size))
			m.st = s.leaf.VirtualSetAttributes(ctx, &in, virtual.AttributesMaskSizeBytes, &out)
			if m.st == statOK {
				m.outSize, _ = out.GetSizeBytes()
			}
		case "allocate":
			m.st = s.leaf.VirtualAllocate(ctx, uint64(m.off), uint64(m.size))
		case "opentrunc":
			var out virtual.Attributes
			m.st = s.leaf.VirtualOpenSelf(ctx, m.share, &virtual.OpenExistingOptions{Truncate: true}, virtual.AttributesMaskSizeBytes, &out)
			if m.st == statOK {
				m.outSize, _ = out.GetSizeBytes()
			}
		}
	})
	synctest.Wait()
	consumed := 0
	if fault != "" {
		consumed = s.pf.disarm()
	}
	name := fmt.Sprintf("%s#%d", m.kind, m.id)
	s.checkPanic(name, m.call)
	if s.frozen > 0 {
		if m.call.isDone() {
			s.failf("%s returned (status=%d) while %d upload(s)/frozen reader(s) hold the file frozen: it must wait until they finished", name, m.st, s.frozen)
		}
		s.pending = append(s.pending, m)
		s.label("change_blocked_by_upload")
		s.setRes("blocked")
		s.advance()
		return
	}
	if !m.call.isDone() {
		s.failf("%s is blocked although no upload/frozen reader holds the file", name)
	}
	// Ran to completion.
	if !s.dead && (s.labels["fault_read"] || s.labels["fault_write"] || s.labels["fault_truncate"] || s.labels["upload_read_fault"] || s.labels["upload_cas_failure"]) {
		s.label("mutation_completed_after_failed_call")
	}
	if m.kind == "opentrunc" && s.dead {
		if m.st != virtual.StatusErrStale {
			s.failf("%s of a file without references returned status=%d, want ESTALE", name, m.st)
		}
		s.label("dead_probe_open")
		s.setRes("stale")
		return
	}
	if consumed > 0 {
		if m.st != virtual.StatusErrIO {
			s.failf("%s returned status=%d although the pool file failed the request, want EIO", name, m.st)
		}
		s.label("fault_" + fault)
		if m.kind == "write" {
			k := faultK
			if k > len(m.data) {
				k = len(m.data)
			}
			if m.n != k {
				s.failf("%s reported %d bytes written, the pool file stored %d before failing", name, m.n, k)
			}
			if k > 0 {
				part := *m
				part.data = m.data[:k]
				s.content = applyMutator(s.content, &part)
				s.changedSinceDigest = s.digestSeen
				if k < len(m.data) {
					s.noteChange("write_partial")
				} else {
					s.noteChange("write")
				}
			}
		}
		s.setRes("eio n=%d", m.n)
		s.advance()
		return
	}
	if m.kind == "opentrunc" {
		if m.st != statOK || m.outSize != 0 {
			s.failf("%s returned status=%d size=%d, want OK size=0", name, m.st, m.outSize)
		}
		s.acquire(m.share)
	} else {
		s.checkMutatorResult(m)
	}
	s.noteChange(changeClass(s.content, m))
	s.content = applyMutator(s.content, m)
	s.changedSinceDigest = s.digestSeen
	s.setRes("ok")
	s.advance()
}

func faultTag(fault string, k int) string {
	if fault == "" {
		return ""
	}
	return fmt.Sprintf("!%s%d", fault, k)
}

func (s *sim) doClose(mask virtual.ShareMask) {
	s.add(step{Op: "close", S: shareName(mask)})
	s.sync("close", func() { s.leaf.VirtualClose(mask) })
	if mask&shareRead != 0 {
		s.openR--
	}
	if mask&shareWrite != 0 {
		s.openW--
	}
	s.dropped("descriptor")
	s.advance()
}

func (s *sim) doLink() {
	s.add(step{Op: "link"})
	var st virtual.Status
	s.sync("link", func() { st = s.leaf.(virtual.LinkableLeaf).Link() })
	wantOK := !s.dead
	if s.wrap != "none" {
		wantOK = s.links > 0
	}
	if wantOK {
		if st != statOK {
			s.failf("link returned status=%d, want OK (links=%d, count=%d)", st, s.links, s.count())
		}
		s.links++
		s.setRes("ok")
	} else {
		if st != virtual.StatusErrStale {
			s.failf("link of a file with links=%d count=%d returned status=%d, want ESTALE", s.links, s.count(), st)
		}
		if s.dead {
			s.label("dead_probe_link")
		}
		s.setRes("stale")
	}
	s.advance()
}

func (s *sim) doUnlink() {
	s.add(step{Op: "unlink"})
	s.sync("unlink", func() { s.leaf.(virtual.LinkableLeaf).Unlink() })
	s.links--
	s.dropped("link")
	s.advance()
}

func (s *sim) doUpload(plan casPlan, preClosed bool, fnIdx int, fault bool) *holder {
	return s.doUploadVia(plan, preClosed, fnIdx, fault, func(h *holder) {
		if !s.leaf.VirtualApply(h.up) {
			panic("VirtualApply(ApplyUploadFile) not handled")
		}
	})
}

// doUploadVia starts an upload through start, which has to fill in
// h.up.Digest and h.up.Err.
func (s *sim) doUploadVia(plan casPlan, preClosed bool, fnIdx int, fault bool, start func(h *holder)) *holder {
	h := &holder{id: s.nextID, kind: "upload", plan: plan, fnIdx: fnIdx, delay: make(chan struct{}), cas: newFakeCAS(plan)}
	h.cas.clock = s.clock
	s.nextID++
	if preClosed {
		close(h.delay)
		h.delayClosed = true
	}
	tag := fmt.Sprintf("park=%s fail=%v delayClosed=%v fn=%d", plan.Park, plan.Fail, preClosed, fnIdx)
	if fault {
		tag += " !read"
		s.pf.arm("read", 0)
	}
	s.add(step{Op: "upload", ID: h.id, S: tag})
	h.up = &virtual.ApplyUploadFile{
		Context:                   context.Background(),
		ContentAddressableStorage: h.cas,
		DigestFunction:            s.fns[fnIdx],
		WritableFileUploadDelay:   h.delay,
	}
	h.call = s.spawn(func() { start(h) })
	synctest.Wait()
	if fault {
		h.faultHit = s.pf.disarm() > 0
	}
	s.holders = append(s.holders, h)
	s.advance()
	s.setHolderRes(h)
	return h
}

func (s *sim) setHolderRes(h *holder) {
	switch h.state {
	case hWaiting:
		s.setRes("waiting")
	case hFrozenParked:
		s.setRes("parked-frozen")
	case hConsumedParked:
		s.setRes("parked-consumed")
	case hOpen:
		s.setRes("open")
	case hDone:
		if h.up != nil {
			s.setRes("done err=%v", h.up.Err != nil)
		} else {
			s.setRes("done")
		}
	}
}

func (s *sim) doOpenFrozen(preClosed bool) *holder {
	h := &holder{id: s.nextID, kind: "frozen", delay: make(chan struct{})}
	s.nextID++
	if preClosed {
		close(h.delay)
		h.delayClosed = true
	}
	s.add(step{Op: "openfrozen", ID: h.id, S: fmt.Sprintf("delayClosed=%v", preClosed)})
	h.fr = &virtual.ApplyOpenReadFrozen{WritableFileDelay: h.delay}
	h.call = s.spawn(func() { s.applyOpenFrozen(h) })
	synctest.Wait()
	s.holders = append(s.holders, h)
	s.advance()
	s.setHolderRes(h)
	return h
}

// applyOpenFrozen is the body of an open-frozen call; it stamps the instant
// from which the reader is known to hold the file frozen.
func (s *sim) applyOpenFrozen(h *holder) {
	if !s.leaf.VirtualApply(h.fr) {
		panic("VirtualApply(ApplyOpenReadFrozen) not handled")
	}
	if h.fr.Reader != nil && s.clock != nil {
		h.fromSeq.Store(s.clock.Add(1))
	}
}

func (s *sim) doCloseDelay(h *holder) {
	s.add(step{Op: "closedelay", ID: h.id})
	close(h.delay)
	h.delayClosed = true
	synctest.Wait()
	s.advance()
	s.setHolderRes(h)
}

func (s *sim) doRelease(h *holder, fault bool) {
	st := step{Op: "release", ID: h.id}
	if fault {
		st.S = "!read"
		s.pf.arm("read", 0)
	}
	s.add(st)
	close(h.cas.release)
	synctest.Wait()
	if fault {
		if s.pf.disarm() > 0 {
			h.faultHit = true
		}
	}
	if h.state == hFrozenParked {
		s.frozen--
		h.state = hDone
		s.dropped("upload")
	} else {
		h.state = hDone
	}
	s.advance()
	s.setHolderRes(h)
}

func (s *sim) doFrozenRead(h *holder, off, n int, fault bool) {
	st := step{Op: "frozenread", ID: h.id, Off: off, N: n}
	if fault {
		st.S = "!read"
		s.pf.arm("read", 0)
	}
	s.add(st)
	buf := make([]byte, n)
	var got int
	var err error
	var l int64
	var lerr error
	s.sync("frozen ReadAt", func() {
		got, err = h.fr.Reader.ReadAt(buf, int64(off))
		l, lerr = h.fr.Reader.Len()
	})
	consumed := 0
	if fault {
		consumed = s.pf.disarm()
	}
	if lerr != nil || l != int64(len(h.snapshot)) {
		s.failf("frozen#%d Len() = %d, %v; content at the freeze instant has %d bytes", h.id, l, lerr, len(h.snapshot))
	}
	if consumed > 0 {
		if err == nil {
			s.failf("frozen#%d ReadAt succeeded although the pool read failed", h.id)
		}
		s.label("fault_read")
		s.setRes("err")
		s.advance()
		return
	}
	want := h.snapshot[off:]
	if len(want) > n {
		want = want[:n]
	}
	if got != len(want) || !bytes.Equal(buf[:got], want) {
		s.failf("frozen#%d ReadAt(off=%d,len=%d) returned %x (n=%d, err=%v); content at the freeze instant gives %x", h.id, off, n, buf[:got], got, err, want)
	}
	if err != nil && !(err == io.EOF && got < n) {
		s.failf("frozen#%d ReadAt(off=%d,len=%d) returned unexpected error %v", h.id, off, n, err)
	}
	s.label("frozen_read")
	s.setRes("ok")
	s.advance()
}

func (s *sim) doFrozenClose(h *holder) {
	s.add(step{Op: "frozenclose", ID: h.id})
	var err error
	if s.clock != nil {
		h.untilSeq.Store(s.clock.Add(1))
	}
	s.sync("frozen Close", func() { err = h.fr.Reader.Close() })
	if err != nil {
		s.failf("frozen#%d Close returned %v", h.id, err)
	}
	s.frozen--
	h.state = hDone
	s.dropped("frozen_reader")
	s.advance()
}

func (s *sim) doRead(off, n int, fault bool) {
	st := step{Op: "read", Off: off, N: n}
	if fault {
		st.S = "!read"
		s.pf.arm("read", 0)
	}
	s.add(st)
	buf := make([]byte, n)
	var got int
	var eof bool
	var vs virtual.Status
	s.sync("read", func() { got, eof, vs = s.leaf.VirtualRead(context.Background(), buf, uint64(off)) })
	consumed := 0
	if fault {
		consumed = s.pf.disarm()
	}
	if consumed > 0 {
		if vs != virtual.StatusErrIO {
			s.failf("read returned status=%d although the pool read failed, want EIO", vs)
		}
		s.label("fault_read")
		s.setRes("eio")
		s.advance()
		return
	}
	var want []byte
	if off < len(s.content) {
		want = s.content[off:]
		if len(want) > n {
			want = want[:n]
		}
	}
	wantEOF := off+n >= len(s.content)
	if vs != statOK || got != len(want) || !bytes.Equal(buf[:got], want) || eof != wantEOF {
		s.failf("read(off=%d,len=%d) returned %x n=%d eof=%v status=%d; model content %x gives %x eof=%v", off, n, buf[:max(got, 0)], got, eof, vs, s.content, want, wantEOF)
	}
	s.setRes("ok")
	s.advance()
}

func (s *sim) doSeek(off int, hole bool) {
	s.add(step{Op: "seek", Off: off, S: fmt.Sprintf("hole=%v", hole)})
	rt := filesystem.Data
	if hole {
		rt = filesystem.Hole
	}
	var res *uint64
	var vs virtual.Status
	s.sync("seek", func() { res, vs = s.leaf.VirtualSeek(context.Background(), uint64(off), rt) })
	if off >= len(s.content) {
		if vs != virtual.StatusErrNXIO {
			s.failf("seek(off=%d) at/after the end (size %d) returned status=%d, want ENXIO", off, len(s.content), vs)
		}
	} else {
		want := uint64(off)
		if hole {
			want = uint64(len(s.content))
		}
		if vs != statOK || res == nil || *res != want {
			s.failf("seek(off=%d,hole=%v) returned %v status=%d, want %d (size %d, the fake pool file has no holes)", off, hole, res, vs, want, len(s.content))
		}
	}
	s.advance()
}

func (s *sim) doChmod(exec bool) {
	s.add(step{Op: "chmod", S: fmt.Sprintf("x=%v", exec)})
	var in, out virtual.Attributes
	perm := virtual.PermissionsRead | virtual.PermissionsWrite
	if exec {
		perm |= virtual.PermissionsExecute
	}
	in.SetPermissions(perm)
	var vs virtual.Status
	s.sync("chmod", func() {
		vs = s.leaf.VirtualSetAttributes(context.Background(), &in, virtual.AttributesMaskPermissions|virtual.AttributesMaskSizeBytes, &out)
	})
	if vs != statOK {
		s.failf("chmod returned status=%d", vs)
	}
	if sz, ok := out.GetSizeBytes(); !ok || sz != uint64(len(s.content)) {
		s.failf("chmod reported size %d, model size %d", sz, len(s.content))
	}
	s.noteChange("chmod")
	s.advance()
}

func (s *sim) doStat(fnIdx int, fault bool) {
	st := step{Op: "stat", N: fnIdx}
	if fault {
		st.S = "!read"
		s.pf.arm("read", 0)
	}
	s.add(st)
	fn := s.fns[fnIdx]
	p := &virtual.ApplyGetBazelOutputServiceStat{DigestFunction: &fn}
	s.sync("stat", func() {
		if !s.leaf.VirtualApply(p) {
			panic("VirtualApply(ApplyGetBazelOutputServiceStat) not handled")
		}
	})
	consumed := 0
	if fault {
		consumed = s.pf.disarm()
	}
	switch {
	case s.dead:
		if status.Code(p.Err) != codes.NotFound {
			s.failf("stat of a file without references returned err=%v, want NOT_FOUND", p.Err)
		}
		s.label("dead_probe_stat")
		s.setRes("notfound")
	case consumed > 0:
		if p.Err == nil {
			s.failf("stat succeeded although the pool read failed")
		}
		s.label("fault_read")
		s.setRes("err")
	default:
		if p.Err != nil || p.Stat.GetFile() == nil {
			s.failf("stat of a referenced file failed: %v", p.Err)
		}
		loc := p.Stat.GetFile().GetLocator()
		if s.openW > 0 {
			if loc != nil {
				s.failf("stat reported a digest although %d writable descriptor(s) are open (documented: no digest then)", s.openW)
			}
			s.setRes("nodigest")
		} else {
			if loc == nil {
				s.failf("stat reported no digest although no writable descriptor is open")
			}
			var fl bazeloutputservicerev2.FileArtifactLocator
			if err := loc.UnmarshalTo(&fl); err != nil {
				s.failf("stat locator cannot be unmarshalled: %v", err)
			}
			want := s.digestOf(fnIdx, s.content).GetProto()
			if fl.Digest.GetHash() != want.Hash || fl.Digest.GetSizeBytes() != want.SizeBytes {
				s.failf("stat reported digest %s/%d; content %x has digest %s/%d (stale cached digest?)", fl.Digest.GetHash(), fl.Digest.GetSizeBytes(), s.content, want.Hash, want.SizeBytes)
			}
			s.digestSeen = true
			if s.changedSinceDigest {
				s.label("stat_after_change")
				s.changedSinceDigest = false
			}
			s.noteDigestChecked(fnIdx)
			s.setRes("digest")
		}
	}
	s.advance()
}

func (s *sim) doPersist() {
	s.add(step{Op: "persist"})
	p := &virtual.ApplyAppendOutputPathPersistencyDirectoryNode{Directory: &outputpathpersistency.Directory{}, Name: path.MustNewComponent("f")}
	s.sync("persist", func() {
		if !s.leaf.VirtualApply(p) {
			panic("VirtualApply(ApplyAppendOutputPathPersistencyDirectoryNode) not handled")
		}
	})
	if n := len(p.Directory.Files); n > 1 {
		s.failf("persist appended %d file nodes", n)
	} else if n == 1 {
		d := p.Directory.Files[0].Digest
		ok := false
		for i := range s.fns {
			w := s.digestOf(i, s.content).GetProto()
			if w.Hash == d.GetHash() && w.SizeBytes == d.GetSizeBytes() {
				ok = true
			}
		}
		if !ok {
			s.failf("persist reported cached digest %s/%d, which is not the digest of the current content %x under any digest function in use (cached digest reused after a change)", d.GetHash(), d.GetSizeBytes(), s.content)
		}
		s.label("persist_cached_digest")
		s.setRes("digest")
	}
	s.advance()
}

// ---------------------------------------------------------------------
// Generated wrappers around the actions (soundness conditions live here).
// ---------------------------------------------------------------------

func drawFault(rt *rapid.T) bool { return rapid.IntRange(0, 11).Draw(rt, "fault") == 0 }

func (s *sim) closeOptions() []virtual.ShareMask {
	anyRef, writeBit := s.pendingNeeds()
	var out []virtual.ShareMask
	for _, m := range []virtual.ShareMask{shareRead, shareWrite, shareRW} {
		if m&shareRead != 0 && s.openR == 0 {
			continue
		}
		if m&shareWrite != 0 && s.openW == 0 {
			continue
		}
		if writeBit && m&shareWrite != 0 && s.openW == 1 {
			s.rec.Exclude("close of the only writable descriptor while a write/allocate through it is still blocked (front ends keep the descriptor until the call returned)")
			continue
		}
		if anyRef && s.realRefs()-int(m.Count()) == 0 {
			s.rec.Exclude("dropping the last link/descriptor while a set-size/write is still blocked (not reachable through a front end)")
			continue
		}
		out = append(out, m)
	}
	return out
}

func (s *sim) actions() map[string]func(*rapid.T) {
	shares := []virtual.ShareMask{shareRead, shareWrite, shareRW, shareWrite}
	drawData := rapid.SliceOfN(rapid.ByteRange(1, 255), 1, 6)
	open := func(rt *rapid.T) {
		if s.openR >= maxOpens || s.openW >= maxOpens {
			rt.Skip()
		}
		s.doOpen(rapid.SampledFrom(shares).Draw(rt, "share"))
	}
	write := func(rt *rapid.T) {
		if s.dead || s.openW == 0 || len(s.pending) >= maxPending {
			rt.Skip()
		}
		m := &mutator{kind: "write", off: rapid.IntRange(0, maxSize-6).Draw(rt, "off"), data: drawData.Draw(rt, "data")}
		fault, k := "", 0
		if s.frozen == 0 && drawFault(rt) {
			fault, k = "write", rapid.IntRange(0, len(m.data)).Draw(rt, "k")
		}
		s.issue(m, fault, k)
	}
	upload := func(rt *rapid.T) {
		if s.inFlightHolders() >= holderLimit {
			rt.Skip()
		}
		parks := []string{"none", "before", "mid", "after", "before", "mid"}
		if s.handover {
			parks = append(parks, "preclose")
		}
		plan := casPlan{
			Park: rapid.SampledFrom(parks).Draw(rt, "park"),
			Fail: rapid.IntRange(0, 7).Draw(rt, "casfail") == 0,
		}
		pre := rapid.IntRange(0, 3).Draw(rt, "delayClosed") == 0
		fn := rapid.SampledFrom([]int{0, 0, 0, 1, 2}).Draw(rt, "fn")
		s.doUpload(plan, pre, fn, drawFault(rt))
	}
	closeA := func(rt *rapid.T) {
		if s.dead {
			rt.Skip()
		}
		opts := s.closeOptions()
		if len(opts) == 0 {
			rt.Skip()
		}
		s.doClose(rapid.SampledFrom(opts).Draw(rt, "mask"))
	}
	release := func(rt *rapid.T) {
		var c []*holder
		for _, h := range s.holders {
			if h.state == hFrozenParked || h.state == hConsumedParked {
				c = append(c, h)
			}
		}
		if len(c) == 0 {
			rt.Skip()
		}
		h := c[rapid.IntRange(0, len(c)-1).Draw(rt, "which")]
		s.doRelease(h, h.state == hFrozenParked && drawFault(rt))
	}
	acts := map[string]func(*rapid.T){
		"open":  open,
		"open2": open,
		"opentrunc": func(rt *rapid.T) {
			if s.openR >= maxOpens || s.openW >= maxOpens || len(s.pending) >= maxPending {
				rt.Skip()
			}
			m := &mutator{kind: "opentrunc", share: rapid.SampledFrom(shares).Draw(rt, "share")}
			fault := ""
			if s.frozen == 0 && !s.dead && drawFault(rt) {
				fault = "truncate"
			}
			s.issue(m, fault, 0)
		},
		"close":  closeA,
		"close2": closeA,
		"link": func(rt *rapid.T) {
			if s.links >= maxLinks {
				rt.Skip()
			}
			s.doLink()
		},
		"unlink": func(rt *rapid.T) {
			if s.links == 0 {
				rt.Skip()
			}
			if anyRef, _ := s.pendingNeeds(); anyRef && s.realRefs() == 1 {
				s.rec.Exclude("dropping the last link/descriptor while a set-size/write is still blocked (not reachable through a front end)")
				rt.Skip()
			}
			s.doUnlink()
		},
		"read": func(rt *rapid.T) {
			if s.dead || s.openR == 0 {
				rt.Skip()
			}
			s.doRead(rapid.IntRange(0, len(s.content)+2).Draw(rt, "off"), rapid.IntRange(0, 10).Draw(rt, "len"), drawFault(rt))
		},
		"write":  write,
		"write2": write,
		"setsize": func(rt *rapid.T) {
			if s.dead || s.realRefs() == 0 || len(s.pending) >= maxPending {
				rt.Skip()
			}
			m := &mutator{kind: "setsize", size: rapid.OneOf(rapid.IntRange(0, maxSize), rapid.Just(len(s.content))).Draw(rt, "size")}
			fault := ""
			if s.frozen == 0 && drawFault(rt) {
				fault = "truncate"
			}
			s.issue(m, fault, 0)
		},
		"allocate": func(rt *rapid.T) {
			if s.dead || s.openW == 0 || len(s.pending) >= maxPending {
				rt.Skip()
			}
			off := rapid.IntRange(0, maxSize-4).Draw(rt, "off")
			m := &mutator{kind: "allocate", off: off, size: rapid.IntRange(0, maxSize-off).Draw(rt, "size")}
			fault := ""
			if s.frozen == 0 && drawFault(rt) {
				fault = "truncate"
			}
			s.issue(m, fault, 0)
		},
		// Probe (on unless VERIF_C16_UNREFERENCED_SETSIZE=0), see
		// probeUnreferenced: set-size on a file whose last reference is
		// gone must fail cleanly (virtualTruncate documents ESTALE).
		"setsize_unreferenced": func(rt *rapid.T) {
			if !s.dead || !probeUnreferenced {
				rt.Skip()
			}
			size := rapid.IntRange(0, maxSize).Draw(rt, "size")
			s.add(step{Op: "setsize_unreferenced", N: size})
			var in, out virtual.Attributes
			in.SetSizeBytes(uint64(size))
			var st virtual.Status
			s.sync("set-size on a file without references", func() {
				st = s.leaf.VirtualSetAttributes(context.Background(), &in, virtual.AttributesMaskSizeBytes, &out)
			})
			if st == statOK {
				s.failf("set-size on a file without references returned OK")
			}
		},
		"chmod": func(rt *rapid.T) {
			if s.dead || s.realRefs() == 0 {
				rt.Skip()
			}
			s.doChmod(rapid.Bool().Draw(rt, "x"))
		},
		"seek": func(rt *rapid.T) {
			if s.dead || s.openR+s.openW == 0 {
				rt.Skip()
			}
			s.doSeek(rapid.IntRange(0, len(s.content)+1).Draw(rt, "off"), rapid.Bool().Draw(rt, "hole"))
		},
		"upload":  upload,
		"upload2": upload,
		"openfrozen": func(rt *rapid.T) {
			if s.inFlightHolders() >= holderLimit {
				rt.Skip()
			}
			s.doOpenFrozen(rapid.IntRange(0, 3).Draw(rt, "delayClosed") == 0)
		},
		"closedelay": func(rt *rapid.T) {
			var c []*holder
			for _, h := range s.holders {
				if h.state == hWaiting && !h.delayClosed {
					c = append(c, h)
				}
			}
			if len(c) == 0 {
				rt.Skip()
			}
			s.doCloseDelay(c[rapid.IntRange(0, len(c)-1).Draw(rt, "which")])
		},
		"release":  release,
		"release2": release,
		"frozenread": func(rt *rapid.T) {
			var c []*holder
			for _, h := range s.holders {
				if h.kind == "frozen" && h.state == hOpen {
					c = append(c, h)
				}
			}
			if len(c) == 0 {
				rt.Skip()
			}
			h := c[rapid.IntRange(0, len(c)-1).Draw(rt, "which")]
			off := rapid.IntRange(0, len(h.snapshot)).Draw(rt, "off")
			n := rapid.IntRange(0, len(h.snapshot)-off+2).Draw(rt, "len")
			s.doFrozenRead(h, off, n, n > 0 && off < len(h.snapshot) && drawFault(rt))
		},
		"frozenclose": func(rt *rapid.T) {
			var c []*holder
			for _, h := range s.holders {
				if h.kind == "frozen" && h.state == hOpen {
					c = append(c, h)
				}
			}
			if len(c) == 0 {
				rt.Skip()
			}
			s.doFrozenClose(c[rapid.IntRange(0, len(c)-1).Draw(rt, "which")])
		},
		"stat": func(rt *rapid.T) {
			if !s.dead && s.realRefs() == 0 {
				rt.Skip()
			}
			s.doStat(rapid.SampledFrom([]int{0, 0, 1, 2}).Draw(rt, "fn"), !s.dead && drawFault(rt))
		},
		"persist": func(rt *rapid.T) {
			if s.dead || s.links == 0 {
				rt.Skip()
			}
			s.doPersist()
		},
		"": func(rt *rapid.T) { s.check() },
	}
	acts["redigest"] = s.redigestAction
	if s.handover {
		for _, k := range []string{"handover_unfreeze", "handover_unfreeze2", "handover_unfreeze3"} {
			acts[k] = s.handoverUnfreezeAction
		}
		for _, k := range []string{"handover_writer", "handover_writer2", "handover_writer3"} {
			acts[k] = s.handoverWriterAction
		}
	}
	return acts
}

// drain drops every remaining reference in a drawn order and then probes
// the dead file.
func (s *sim) drain(rt *rapid.T) {
	s.draining = true
	order := rapid.Permutation([]string{"links", "descriptors", "holders"}).Draw(rt, "drainOrder")
	if anyRef, _ := s.pendingNeeds(); anyRef {
		order = []string{"holders", "links", "descriptors"}
	}
	s.add(step{Op: "drain", S: fmt.Sprint(order)})
	phase := func(what string) {
		switch what {
		case "links":
			for s.links > 0 {
				s.doUnlink()
				s.check()
			}
		case "descriptors":
			for s.openR+s.openW > 0 {
				switch {
				case s.openR > 0 && s.openW > 0 && s.openR == s.openW:
					s.doClose(shareRW)
				case s.openW > 0:
					s.doClose(shareWrite)
				default:
					s.doClose(shareRead)
				}
				s.check()
			}
		case "holders":
			for s.inFlightHolders() > 0 {
				progressed := false
				for _, h := range s.holders {
					switch h.state {
					case hWaiting:
						s.doCloseDelay(h)
					case hFrozenParked, hConsumedParked:
						s.doRelease(h, false)
					case hOpen:
						s.doFrozenClose(h)
					default:
						continue
					}
					progressed = true
					s.check()
					break
				}
				if !progressed {
					s.failf("harness bug: drain makes no progress")
				}
			}
		}
	}
	for round := 0; round < 3 && (!s.dead || s.inFlightHolders() > 0 || len(s.pending) > 0); round++ {
		for _, what := range order {
			phase(what)
		}
	}
	if !s.dead || len(s.pending) > 0 || s.inFlightHolders() > 0 {
		s.failf("harness bug: drain left dead=%v pending=%d holders=%d", s.dead, len(s.pending), s.inFlightHolders())
	}
	s.check()

	// Probes of the dead file: every one must fail cleanly and touch nothing.
	s.doLink()
	s.doOpen(rapid.SampledFrom([]virtual.ShareMask{shareRead, shareWrite, shareRW}).Draw(rt, "deadOpenShare"))
	s.issue(&mutator{kind: "opentrunc", share: shareWrite}, "", 0)
	s.doUpload(casPlan{Park: "none"}, rapid.Bool().Draw(rt, "deadDelayClosed"), 0, false)
	s.doOpenFrozen(false)
	s.doStat(0, false)
	s.check()
}

func newShared(rt *rapid.T, rec *simkit.Recorder) *shared {
	return &shared{rt: rt, rec: rec, labels: map[string]bool{}, clock: &atomic.Int64{}, fns: []digest.Function{
		digest.MustNewFunction("main", remoteexecution.DigestFunction_SHA256),
		digest.MustNewFunction("other", remoteexecution.DigestFunction_SHA256),
		digest.MustNewFunction("main", remoteexecution.DigestFunction_MD5),
	}}
}

func newSim(rt *rapid.T, rec *simkit.Recorder) *sim {
	s := &sim{shared: newShared(rt, rec)}
	s.wrap = rapid.SampledFrom([]string{"none", "fuse", "nfs"}).Draw(rt, "wrap")
	size := rapid.OneOf(rapid.Just(0), rapid.IntRange(0, 8)).Draw(rt, "initialSize")
	share := rapid.SampledFrom([]virtual.ShareMask{0, shareRead, shareWrite, shareRW, shareWrite}).Draw(rt, "initialShare")
	exec := rapid.Bool().Draw(rt, "executable")
	fp := &fakePool{clock: s.clock}
	s.na = &fakeNamedAttributes{}
	s.el = &fakeErrorLogger{}
	s.gate = &attrGate{}
	// Same composition as virtualBuildDirectory.InstallHooks: the
	// pool-backed allocator behind NewHandleAllocatingFileAllocator.
	fa := virtual.NewPoolBackedFileAllocator(fp, s.el, s.gate.setter, &fakeNamedAttributesFactory{na: s.na})
	s.metricsBase = readMetrics(false)
	switch s.wrap {
	case "fuse":
		fa = virtual.NewHandleAllocatingFileAllocator(fa, virtual.NewFUSEHandleAllocator(&counterGenerator{}))
	case "nfs":
		s.nfs = virtual.NewNFSHandleAllocator(&counterGenerator{})
		fa = virtual.NewHandleAllocatingFileAllocator(fa, s.nfs)
	}
	leaf, err := fa.NewFile(pool.ZeroHoleSource, exec, uint64(size), share)
	if err != nil {
		s.failf("NewFile: %v", err)
	}
	s.leaf = leaf
	s.pf = fp.files[0]
	s.links = 1
	s.content = make([]byte, size)
	s.acquire(share)
	s.add(step{Op: "new", N: size, S: shareName(share)})
	return s
}

// cleanup unblocks everything the harness itself parked, so that a failed
// case does not leave goroutines behind in the bubble.
func (s *sim) cleanup() {
	if s.gate != nil {
		s.gate.releaseParked()
	}
	for _, h := range append(append([]*holder(nil), s.holders...), s.orphans...) {
		if !h.delayClosed {
			h.delayClosed = true
			close(h.delay)
		}
		if h.cas != nil {
			select {
			case <-h.cas.release:
			default:
				close(h.cas.release)
			}
		}
		if h.kind == "frozen" && h.state == hOpen && h.fr.Reader != nil {
			r := h.fr.Reader
			if s.clock != nil && h.untilSeq.Load() == 0 {
				h.untilSeq.Store(s.clock.Add(1))
			}
			go func() {
				defer func() { recover() }()
				r.Close()
			}()
		}
	}
}

func TestC16PoolFileLifetimeAndUpload(t *testing.T) {
	rec := simkit.NewRecorder(t, "C16", "poolfile", ruleText)
	runLifetime(t, rec, func(s *sim, lastByUpload bool) bool { return s.labels["upload_overlapped_writer"] || lastByUpload })
}

// TestC14PoolFileLocksReleased is the same state machine judged for C14
// (pool_backed_file_allocator.go and nfs_handle_allocator.go are among its
// anchored files): a call that fails - a pool I/O fault inside read, write,
// truncate or the digest computation of an upload, a CAS failure - must
// leave neither the file's mutex nor its "frozen" state behind, so every
// later call still completes.
func TestC14PoolFileLocksReleased(t *testing.T) {
	rec := simkit.NewRecorder(t, "C14", "poolfile_locks_released", ruleText+" JUDGED FOR C14: after every action (quiescence of the synctest bubble) the file's lock is free (TryLock hook) and the hook counters of writers / frozen holders equal the model's, so a failed call (one-shot pool I/O fault in read / write / truncate / the digest computation of an upload; failing CAS Put) that left the mutex or the frozen state behind is seen at once; calls issued afterwards must complete unless the model says a live upload or frozen reader legitimately holds them back, and after the final drain nothing may stay blocked (the bubble must drain). NON-TRIVIAL for C14: a call failed through an injected fault or CAS failure AND a later mutating call on the same file completed.")
	runLifetime(t, rec, func(s *sim, lastByUpload bool) bool {
		failed := s.labels["fault_read"] || s.labels["fault_write"] || s.labels["fault_truncate"] || s.labels["upload_read_fault"] || s.labels["upload_cas_failure"]
		return failed && s.labels["mutation_completed_after_failed_call"]
	})
}

func runLifetime(t *testing.T, rec *simkit.Recorder, nontrivial func(s *sim, lastByUpload bool) bool) {
	rapid.Check(t, func(rt *rapid.T) {
		var s *sim
		var pv, deadlock any
		func() {
			defer func() {
				// synctest.Test itself panics when goroutines stay
				// blocked for ever after the root returned.
				deadlock = recover()
			}()
			synctest.Test(t, func(st *testing.T) {
				defer func() {
					pv = recover()
					if s != nil {
						s.cleanup()
					}
				}()
				s = newSim(rt, rec)
				s.check()
				rt.Repeat(s.actions())
				s.drain(rt)
			})
		}()
		if pv != nil {
			if f, ok := pv.(failure); ok {
				rt.Fatalf("%s", string(f))
			}
			panic(pv)
		}
		if deadlock != nil {
			b, _ := json.Marshal(s.script)
			rt.Fatalf("goroutines stayed blocked for ever after every reference was dropped and every park released: %v; wrap=%s; script=%s", deadlock, s.wrap, b)
		}
		labels := []string{"wrap_" + s.wrap, "last_ref_" + s.lastRef}
		if s.diedInDrain {
			labels = append(labels, "died_in_drain")
		} else {
			labels = append(labels, "died_mid_run")
		}
		keys := make([]string, 0, len(s.labels))
		for k := range s.labels {
			keys = append(keys, k)
		}
		sortStrings(keys)
		labels = append(labels, keys...)
		lastByUpload := s.lastRef == "upload" || s.lastRef == "frozen_reader"
		if lastByUpload {
			labels = append(labels, "last_ref_upload_or_frozen")
		}
		rec.Case(s.script, nontrivial(s, lastByUpload), labels...)
	})
}

func sortStrings(a []string) {
	for i := 1; i < len(a); i++ {
		for j := i; j > 0 && a[j] < a[j-1]; j-- {
			a[j], a[j-1] = a[j-1], a[j]
		}
	}
}

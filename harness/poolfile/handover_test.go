package poolfile

import (
	"bytes"
	"context"
	"encoding/json"
	"fmt"
	"runtime"
	"sync"
	"sync/atomic"
	"testing"
	"testing/synctest"

	"github.com/buildbarn/bb-remote-execution/pkg/filesystem/virtual"
	"github.com/prometheus/client_golang/prometheus"
	dto "github.com/prometheus/client_model/go"
	"pgregory.net/rapid"

	"verif/harness/internal/simkit"
)

// ---------------------------------------------------------------------
// Read access to the two metrics waitAndOpenReadFrozen maintains. They are
// the only place where the code tells WHY an upload / frozen open stopped
// waiting for writers: the "timeouts" counter is incremented iff writable
// descriptors are still present at that moment ("due to the maximum
// permitted delay being reached", says its help text), the "delay seconds"
// histogram gets one sample iff none is left.
//
// The collectors are unexported; registering a collector with the very same
// descriptor makes the default registry hand back the existing one.
// ---------------------------------------------------------------------

type metricsSnapshot struct {
	known    bool
	timeouts float64
	delays   uint64
}

var metricsProbe struct {
	once     sync.Once
	timeouts prometheus.Counter
	delays   prometheus.Histogram
}

func existingCollector(c prometheus.Collector) prometheus.Collector {
	err := prometheus.Register(c)
	if err == nil {
		// Nobody had registered it: not the situation we look for.
		prometheus.Unregister(c)
		return nil
	}
	if are, ok := err.(prometheus.AlreadyRegisteredError); ok {
		return are.ExistingCollector
	}
	return nil
}

// readMetrics must only be called after NewPoolBackedFileAllocator ran at
// least once (it registers the collectors). The histogram is only read when
// withDelays is set (reading it is comparatively expensive).
func readMetrics(withDelays bool) metricsSnapshot {
	metricsProbe.once.Do(func() {
		if c, ok := existingCollector(prometheus.NewCounter(prometheus.CounterOpts{
			Namespace: "buildbarn",
			Subsystem: "virtual",
			Name:      "pool_backed_file_allocator_writable_file_upload_delay_timeouts_total",
			Help:      "Total number times the contents of a pool-backed file were uploaded into the Content Addressable Storage while one or more writable file descriptors were present, due to the maximum permitted delay being reached.",
		})).(prometheus.Counter); ok {
			metricsProbe.timeouts = c
		}
		if h, ok := existingCollector(prometheus.NewHistogram(prometheus.HistogramOpts{
			Namespace: "buildbarn",
			Subsystem: "virtual",
			Name:      "pool_backed_file_allocator_writable_file_upload_delay_seconds",
			Help:      "The amount of time uploading a pool-backed file to the Content Addressable Storage was delayed, waiting for writable file descriptors to be closed.",
			Buckets:   []float64{1},
		})).(prometheus.Histogram); ok {
			metricsProbe.delays = h
		}
	})
	if metricsProbe.timeouts == nil || metricsProbe.delays == nil {
		return metricsSnapshot{}
	}
	var m1, m2 dto.Metric
	if metricsProbe.timeouts.Write(&m1) != nil {
		return metricsSnapshot{}
	}
	out := metricsSnapshot{known: true, timeouts: m1.GetCounter().GetValue()}
	if withDelays {
		if metricsProbe.delays.Write(&m2) != nil {
			return metricsSnapshot{}
		}
		out.delays = m2.GetHistogram().GetSampleCount()
	}
	return out
}

// ---------------------------------------------------------------------
// attrGate is the DefaultAttributesSetter handed to the allocator.
// fileBackedFile calls it from VirtualSetAttributes and VirtualOpenSelf
// WHILE HOLDING the file's lock, so a chmod whose setter call parks is a
// harness-owned way of keeping the file's lock busy: calls started meanwhile
// queue up on the lock in the order the harness started them.
// ---------------------------------------------------------------------

type attrGate struct {
	mu      sync.Mutex
	armed   bool
	release chan struct{}
	parked  bool
}

func (g *attrGate) setter(requested virtual.AttributesMask, attributes *virtual.Attributes) {
	g.mu.Lock()
	armed, rel := g.armed, g.release
	g.armed = false
	if armed {
		g.parked = true
	}
	g.mu.Unlock()
	if armed {
		<-rel
		g.mu.Lock()
		g.parked = false
		g.mu.Unlock()
	}
}

// arm makes the next setter call park until the returned channel is closed.
// Must be called inside the bubble (the channel has to belong to it).
func (g *attrGate) arm() chan struct{} {
	g.mu.Lock()
	defer g.mu.Unlock()
	g.armed = true
	g.release = make(chan struct{})
	return g.release
}

// releaseParked lets a parked setter call go (clean-up after a failure).
func (g *attrGate) releaseParked() {
	g.mu.Lock()
	defer g.mu.Unlock()
	g.armed = false
	if g.parked && g.release != nil {
		select {
		case <-g.release:
		default:
			close(g.release)
		}
	}
}

func (g *attrGate) disarm() (wasParked bool) {
	g.mu.Lock()
	defer g.mu.Unlock()
	g.armed = false
	return g.parked
}

// ---------------------------------------------------------------------
// "redigest" macro action (all sub-checks that use sim.actions): digest
// request, ONE change of a drawn class, digest request with the SAME digest
// function. Every step is one of the ordinary actions with its full oracle;
// the macro only makes sure that every class of change sits between two
// digest requests that could share a cached digest within a few hundred
// cases.
// ---------------------------------------------------------------------

var redigestClasses = []string{"write", "write_partial", "write_partial", "truncate_shrink", "truncate_grow", "setsize_same", "allocate_grow", "allocate_noop", "opentrunc", "chmod"}

func (s *sim) redigestAction(rt *rapid.T) {
	if s.dead || s.frozen > 0 || len(s.pending) > 0 || s.inFlightHolders() > 0 || s.realRefs() == 0 {
		rt.Skip()
	}
	class := rapid.SampledFrom(redigestClasses).Draw(rt, "class")
	switch class {
	case "truncate_shrink":
		if len(s.content) == 0 {
			class = "truncate_grow"
		}
	case "truncate_grow", "allocate_grow":
		if len(s.content) >= maxSize {
			class = "truncate_shrink"
		}
	}
	needW := class == "write" || class == "write_partial" || class == "allocate_grow" || class == "allocate_noop"
	if (needW && s.openW == 0 || class == "opentrunc") && (s.openR >= maxOpens || s.openW >= maxOpens) {
		rt.Skip()
	}
	fn := rapid.SampledFrom([]int{0, 0, 1, 2}).Draw(rt, "fn")
	firstStat := rapid.Bool().Draw(rt, "firstViaStat")
	secondStat := rapid.Bool().Draw(rt, "secondViaStat")
	secondPark := rapid.SampledFrom([]string{"none", "none", "before", "mid"}).Draw(rt, "secondPark")
	var m *mutator
	fault, k := "", 0
	execBit := false
	switch class {
	case "write", "write_partial":
		m = &mutator{kind: "write", off: rapid.IntRange(0, maxSize-6).Draw(rt, "off"), data: rapid.SliceOfN(rapid.ByteRange(1, 255), 2, 6).Draw(rt, "data")}
		if class == "write_partial" {
			fault, k = "write", rapid.IntRange(1, len(m.data)-1).Draw(rt, "k")
		}
	case "truncate_shrink":
		m = &mutator{kind: "setsize", size: rapid.IntRange(0, len(s.content)-1).Draw(rt, "size")}
	case "truncate_grow":
		m = &mutator{kind: "setsize", size: rapid.IntRange(len(s.content)+1, maxSize).Draw(rt, "size")}
	case "setsize_same":
		m = &mutator{kind: "setsize", size: len(s.content)}
	case "allocate_grow":
		off := rapid.IntRange(0, len(s.content)).Draw(rt, "off")
		m = &mutator{kind: "allocate", off: off, size: rapid.IntRange(len(s.content)-off+1, maxSize-off).Draw(rt, "size")}
	case "allocate_noop":
		off := rapid.IntRange(0, len(s.content)).Draw(rt, "off")
		m = &mutator{kind: "allocate", off: off, size: rapid.IntRange(0, len(s.content)-off).Draw(rt, "size")}
	case "opentrunc":
		m = &mutator{kind: "opentrunc", share: rapid.SampledFrom([]virtual.ShareMask{shareWrite, shareRW}).Draw(rt, "share")}
	case "chmod":
		execBit = rapid.Bool().Draw(rt, "x")
	}

	s.add(step{Op: "redigest", N: fn, S: class})
	if needW && s.openW == 0 {
		s.doOpen(shareWrite)
	}
	digestRequest := func(viaStat bool, park string) {
		if viaStat && s.openW == 0 {
			s.doStat(fn, false)
		} else {
			// Delay channel closed: does not wait for writers.
			s.doUpload(casPlan{Park: park}, true, fn, false)
		}
	}
	digestRequest(firstStat, "none")
	if m != nil {
		s.issue(m, fault, k)
	} else {
		s.doChmod(execBit)
	}
	digestRequest(secondStat, secondPark)
	s.label("redigest_macro")
}

// ---------------------------------------------------------------------
// Handover actions (handover sub-check): TWO calls are started before one
// synctest.Wait, so that a waiter woken by the first can find the condition
// it waited for taken away again by the second: the re-checks after the
// wake-up in lockMutatingData (file frozen again) and waitAndOpenReadFrozen
// (a writer again) become reachable. Both orders are legal; the outcome is
// judged with a validity predicate.
// ---------------------------------------------------------------------

func (s *sim) freezingHolders() []*holder {
	var out []*holder
	for _, h := range s.holders {
		if h.state == hFrozenParked || (h.kind == "frozen" && h.state == hOpen) {
			out = append(out, h)
		}
	}
	return out
}

func (s *sim) waitingHolders() []*holder {
	var out []*holder
	for _, h := range s.holders {
		if h.state == hWaiting && !h.delayClosed {
			out = append(out, h)
		}
	}
	return out
}

// yield gives the calls started so far the chance to run until they block
// (on the file's lock, which a parked lock holder keeps busy). It is only a
// scheduling aid: which order results is decided by observation.
func yield(queued bool) {
	if queued {
		for i := 0; i < 4; i++ {
			runtime.Gosched()
		}
	}
}

type lockHolder struct {
	call    *acall
	release chan struct{}
	st      virtual.Status
	out     virtual.Attributes
	size    int
}

// startLockHolder starts a chmod that parks inside the default attributes
// setter, i.e. while holding the file's lock. Returns nil if the call did not
// get there (then nothing is parked).
func (s *sim) startLockHolder(execBit bool) *lockHolder {
	lh := &lockHolder{size: len(s.content)}
	lh.release = s.gate.arm()
	var in virtual.Attributes
	perm := virtual.PermissionsRead | virtual.PermissionsWrite
	if execBit {
		perm |= virtual.PermissionsExecute
	}
	in.SetPermissions(perm)
	lh.call = s.spawn(func() {
		lh.st = s.leaf.VirtualSetAttributes(context.Background(), &in, virtual.AttributesMaskPermissions|virtual.AttributesMaskSizeBytes, &lh.out)
	})
	synctest.Wait()
	if !s.gate.disarm() || lh.call.isDone() {
		s.checkPanic("chmod (lock holder)", lh.call)
		if !lh.call.isDone() {
			s.failf("chmod is blocked although it does not change data")
		}
		s.label("lockholder_ineffective")
		return nil
	}
	if free, known := virtual.VerifLeafLockIsFree(s.leaf); known && free {
		s.label("lockholder_ineffective")
	}
	return lh
}

func (s *sim) finishLockHolder(lh *lockHolder) {
	if lh == nil {
		return
	}
	s.checkPanic("chmod (lock holder)", lh.call)
	if !lh.call.isDone() {
		s.failf("chmod did not return although nothing it may wait for is outstanding")
	}
	if lh.st != statOK {
		s.failf("chmod returned status=%d", lh.st)
	}
	if sz, ok := lh.out.GetSizeBytes(); !ok || sz != uint64(lh.size) {
		s.failf("chmod reported size %d, model size %d", sz, lh.size)
	}
	s.noteChange("chmod")
}

func (s *sim) newHolder(kind string, plan casPlan, preClosed bool, fnIdx int) *holder {
	h := &holder{id: s.nextID, kind: kind, plan: plan, fnIdx: fnIdx, delay: make(chan struct{})}
	s.nextID++
	if preClosed {
		close(h.delay)
		h.delayClosed = true
	}
	if kind == "frozen" {
		h.fr = &virtual.ApplyOpenReadFrozen{WritableFileDelay: h.delay}
	} else {
		h.cas = newFakeCAS(plan)
		h.cas.clock = s.clock
		h.up = &virtual.ApplyUploadFile{
			Context:                   context.Background(),
			ContentAddressableStorage: h.cas,
			DigestFunction:            s.fns[fnIdx],
			WritableFileUploadDelay:   h.delay,
		}
	}
	return h
}

func (s *sim) startHolder(h *holder) {
	if h.kind == "frozen" {
		h.call = s.spawn(func() { s.applyOpenFrozen(h) })
		return
	}
	h.call = s.spawn(func() {
		if !s.leaf.VirtualApply(h.up) {
			panic("VirtualApply(ApplyUploadFile) not handled")
		}
	})
}

func holderFroze(h *holder) bool {
	if h.call.isDone() {
		return true
	}
	if h.cas != nil {
		putCalls, _ := h.cas.state()
		return putCalls > 0
	}
	return false
}

func holderTag(h *holder) string {
	if h.kind == "frozen" {
		return fmt.Sprintf("frozen#%d", h.id)
	}
	return fmt.Sprintf("upload#%d(park=%s fail=%v fn=%d)", h.id, h.plan.Park, h.plan.Fail, h.fnIdx)
}

// handoverUnfreezeAction: the LAST holder that keeps the file frozen lets go
// (frozen reader closed / parked CAS Put released) and a NEW upload or
// frozen open arrives, both before one synctest.Wait, while mutating calls
// are blocked behind the freeze. Legal outcomes: any subset D of the blocked
// calls ran (in any order) before the new holder froze the file, the others
// are still blocked; the new holder's snapshot is the content after D. What
// is never legal: a WriteAt/Truncate on the pool file after the new holder
// is known to have frozen it (checkFrozenIntervals).
func (s *sim) handoverUnfreezeAction(rt *rapid.T) {
	if s.dead || s.realRefs() == 0 || s.frozen > 1 {
		rt.Skip()
	}
	for _, h := range s.holders {
		if h.state == hWaiting {
			rt.Skip()
		}
	}
	needH := s.frozen == 0
	room := holderLimit - s.inFlightHolders()
	if needH {
		room--
	}
	if room < 1 {
		rt.Skip()
	}
	holdingPlans := []string{"frozen", "preclose", "frozen", "preclose", "before", "mid"}
	hKind := rapid.SampledFrom(holdingPlans).Draw(rt, "closingHolder")
	hPre := rapid.Bool().Draw(rt, "closingHolderDelayClosed")
	hFn := rapid.SampledFrom([]int{0, 0, 1, 2}).Draw(rt, "closingHolderFn")
	nMut := rapid.IntRange(1, 2).Draw(rt, "mutators")
	uKind := rapid.SampledFrom([]string{"frozen", "before", "mid", "preclose", "before"}).Draw(rt, "newHolder")
	uPre := rapid.Bool().Draw(rt, "newHolderDelayClosed")
	uFn := rapid.SampledFrom([]int{0, 0, 1, 2}).Draw(rt, "newHolderFn")
	uFail := rapid.IntRange(0, 9).Draw(rt, "newHolderCASFail") == 0
	queued := rapid.IntRange(0, 2).Draw(rt, "queued") != 0
	closeFirst := rapid.IntRange(0, 3).Draw(rt, "closeFirst") != 0
	execBit := rapid.Bool().Draw(rt, "x")

	// Set-up with ordinary actions: one freezing holder, blocked mutators.
	var H *holder
	if needH {
		pre := hPre || s.openW > 0
		if hKind == "frozen" {
			H = s.doOpenFrozen(pre)
		} else {
			H = s.doUpload(casPlan{Park: hKind}, pre, hFn, false)
		}
	} else {
		H = s.freezingHolders()[0]
	}
	if s.frozen != 1 || (H.state != hOpen && H.state != hFrozenParked) {
		s.failf("harness bug: handover set-up left frozen=%d holder state=%d", s.frozen, H.state)
	}
	if len(s.pending) == 0 {
		for i := 0; i < nMut; i++ {
			kinds := []string{"setsize", "setsize"}
			if s.openW > 0 {
				kinds = append(kinds, "write", "write", "allocate")
			}
			if s.openR < maxOpens && s.openW < maxOpens {
				kinds = append(kinds, "opentrunc")
			}
			var m *mutator
			switch rapid.SampledFrom(kinds).Draw(rt, "mutator") {
			case "setsize":
				m = &mutator{kind: "setsize", size: rapid.IntRange(0, maxSize).Draw(rt, "size")}
			case "write":
				m = &mutator{kind: "write", off: rapid.IntRange(0, maxSize-6).Draw(rt, "off"), data: rapid.SliceOfN(rapid.ByteRange(1, 255), 1, 6).Draw(rt, "data")}
			case "allocate":
				off := rapid.IntRange(0, maxSize-4).Draw(rt, "off")
				m = &mutator{kind: "allocate", off: off, size: rapid.IntRange(0, maxSize-off).Draw(rt, "size")}
			case "opentrunc":
				m = &mutator{kind: "opentrunc", share: rapid.SampledFrom([]virtual.ShareMask{shareRead, shareWrite, shareRW}).Draw(rt, "share")}
			}
			s.issue(m, "", 0)
		}
	}
	before := append([]*mutator(nil), s.pending...)
	if len(before) == 0 {
		s.failf("harness bug: handover set-up left no blocked call")
	}
	// The new holder must freeze at once in every order: closed delay
	// channel whenever a writer is or may become open.
	pre := uPre || s.openW > 0
	for _, m := range before {
		if m.kind == "opentrunc" && m.share&shareWrite != 0 {
			pre = true
		}
	}
	uk := "upload"
	if uKind == "frozen" {
		uk = "frozen"
	}
	U := s.newHolder(uk, casPlan{Park: uKind, Fail: uFail && uk == "upload"}, pre, uFn)
	s.orphans = append(s.orphans, U)
	mode, order := "plain", "new_first"
	if queued {
		mode = "queued"
	}
	if closeFirst {
		order = "close_first"
	}
	s.add(step{Op: "handover_unfreeze", ID: U.id, S: fmt.Sprintf("close=%s new=%s delayClosed=%v mode=%s order=%s x=%v", holderTag(H), holderTag(U), pre, mode, order, execBit)})

	var lh *lockHolder
	if queued {
		lh = s.startLockHolder(execBit)
	}
	var aCall *acall
	var aSeq atomic.Int64
	var closeErr error
	startA := func() {
		if H.kind == "frozen" {
			H.untilSeq.Store(s.clock.Add(1))
			r := H.fr.Reader
			aCall = s.spawn(func() {
				closeErr = r.Close()
				aSeq.Store(s.clock.Add(1))
			})
		} else {
			close(H.cas.release)
		}
	}
	if closeFirst {
		startA()
		yield(lh != nil)
		s.startHolder(U)
		yield(lh != nil)
	} else {
		s.startHolder(U)
		yield(lh != nil)
		startA()
		yield(lh != nil)
	}
	if lh != nil {
		s.gate.releaseParked()
	}
	synctest.Wait()

	// Judge.
	s.finishLockHolder(lh)
	if aCall != nil {
		s.checkPanic("frozen Close", aCall)
		if !aCall.isDone() {
			s.failf("frozen#%d Close did not return", H.id)
		}
		if closeErr != nil {
			s.failf("frozen#%d Close returned %v", H.id, closeErr)
		}
	}
	s.frozen--
	H.state = hDone
	if H.kind == "frozen" {
		s.dropped("frozen_reader")
	} else {
		s.dropped("upload")
	}
	var ran, rest []*mutator
	for _, m := range before {
		name := fmt.Sprintf("%s#%d", m.kind, m.id)
		s.checkPanic(name, m.call)
		if !m.call.isDone() {
			rest = append(rest, m)
			continue
		}
		if m.kind == "opentrunc" {
			if m.st != statOK || m.outSize != 0 {
				s.failf("%s returned status=%d size=%d, want OK size=0", name, m.st, m.outSize)
			}
		} else {
			s.checkMutatorResult(m)
		}
		ran = append(ran, m)
	}
	actual, _, _ := s.pf.snapshot()
	matched := false
	for _, perm := range permutations(len(ran)) {
		c := s.content
		for _, i := range perm {
			c = applyMutator(c, ran[i])
		}
		if bytes.Equal(c, actual) {
			matched = true
			break
		}
	}
	if !matched {
		s.failf("handover: %d of %d blocked call(s) returned and the file holds %x; no order of those calls applied to %x explains that (a change was lost, applied twice, or a call that is still blocked changed the file)", len(ran), len(before), actual, s.content)
	}
	for _, m := range ran {
		s.noteChange(changeClass(s.content, m))
	}
	if len(ran) > 0 {
		s.changedSinceDigest = s.digestSeen
	}
	s.content = actual
	for _, m := range ran {
		if m.kind == "opentrunc" {
			s.acquire(m.share)
		}
	}
	s.pending = rest
	s.checkPanic(holderTag(U), U.call)
	if !holderFroze(U) {
		s.failf("%s is still waiting although its delay channel is closed or no writable descriptor is open (writers=%d, delayClosed=%v)", holderTag(U), s.openW, U.delayClosed)
	}
	s.holders = append(s.holders, U)
	s.orphans = nil
	// advance() freezes U in the model: its snapshot is the content after
	// the calls that ran; the calls still blocked must stay blocked.
	s.advance()
	s.setHolderRes(U)
	s.checkFrozenIntervals()

	uFrom, _ := U.knownFrozen()
	aDone := aSeq.Load()
	if H.kind != "frozen" {
		_, aDone = H.cas.stamps()
	}
	s.label("handover_unfreeze")
	s.label("handover_unfreeze_" + mode + "_" + order)
	switch {
	case uFrom != 0 && aDone != 0 && uFrom < aDone:
		s.label("handover_unfreeze_new_before_close")
	case len(ran) == len(before):
		s.label("handover_unfreeze_mutators_first")
	case len(ran) == 0:
		s.label("handover_unfreeze_recheck")
		s.label("handover_unfreeze_new_first")
	default:
		s.label("handover_unfreeze_recheck")
		s.label("handover_unfreeze_new_in_between")
	}
}

// handoverWriterAction: the LAST writable descriptor is closed and a NEW one
// is opened, both before one synctest.Wait, while uploads / frozen opens wait
// for the writers to go away (delay channel not closed). Legal outcomes per
// waiting call: it got the file in the gap (frozen, snapshot = content), or
// it is still waiting because it found the new writer. Never legal: it went
// ahead WITH a writer open although its delay channel is not closed; the
// code's own timeouts counter is the witness for that.
func (s *sim) handoverWriterAction(rt *rapid.T) {
	if s.dead || s.openW > 1 || len(s.pending) > 0 {
		rt.Skip()
	}
	if s.openW == 0 && s.openR >= maxOpens {
		rt.Skip()
	}
	needU := len(s.waitingHolders()) == 0
	if needU && s.inFlightHolders() >= holderLimit {
		rt.Skip()
	}
	share := rapid.SampledFrom([]virtual.ShareMask{shareWrite, shareRW, shareWrite}).Draw(rt, "share")
	uKind := rapid.SampledFrom([]string{"frozen", "none", "before", "mid", "preclose", "after"}).Draw(rt, "waiter")
	uFn := rapid.SampledFrom([]int{0, 0, 1, 2}).Draw(rt, "waiterFn")
	uFail := rapid.IntRange(0, 9).Draw(rt, "waiterCASFail") == 0
	queued := rapid.IntRange(0, 2).Draw(rt, "queued") != 0
	closeFirst := rapid.IntRange(0, 3).Draw(rt, "closeFirst") != 0
	execBit := rapid.Bool().Draw(rt, "x")

	// Set-up with ordinary actions.
	if s.openW == 0 {
		s.doOpen(shareWrite)
	}
	if s.links+s.openR == 0 {
		// The closing descriptor must not be the last reference.
		s.doOpen(shareRead)
	}
	if share&shareRead != 0 && s.openR >= maxOpens {
		share = shareWrite
	}
	if needU {
		if uKind == "frozen" {
			s.doOpenFrozen(false)
		} else {
			s.doUpload(casPlan{Park: uKind, Fail: uFail}, false, uFn, false)
		}
	}
	waiting := s.waitingHolders()
	if len(waiting) == 0 || s.openW != 1 {
		s.failf("harness bug: handover set-up left %d waiting call(s), %d writer(s)", len(waiting), s.openW)
	}
	mode, order := "plain", "new_first"
	if queued {
		mode = "queued"
	}
	if closeFirst {
		order = "close_first"
	}
	s.add(step{Op: "handover_writer", S: fmt.Sprintf("close=W open=%s waiting=%d mode=%s order=%s x=%v", shareName(share), len(waiting), mode, order, execBit)})
	m0 := readMetrics(true)

	var lh *lockHolder
	if queued {
		lh = s.startLockHolder(execBit)
	}
	var aCall, bCall *acall
	var aSeq, bSeq atomic.Int64
	var st virtual.Status
	var attrs virtual.Attributes
	startA := func() {
		aCall = s.spawn(func() {
			s.leaf.VirtualClose(shareWrite)
			aSeq.Store(s.clock.Add(1))
		})
	}
	startB := func() {
		bCall = s.spawn(func() {
			st = s.leaf.VirtualOpenSelf(context.Background(), share, &virtual.OpenExistingOptions{}, virtual.AttributesMaskSizeBytes, &attrs)
			bSeq.Store(s.clock.Add(1))
		})
	}
	if closeFirst {
		startA()
		yield(lh != nil)
		startB()
		yield(lh != nil)
	} else {
		startB()
		yield(lh != nil)
		startA()
		yield(lh != nil)
	}
	if lh != nil {
		s.gate.releaseParked()
	}
	synctest.Wait()

	// Judge.
	s.finishLockHolder(lh)
	s.checkPanic("close", aCall)
	s.checkPanic("open", bCall)
	if !aCall.isDone() || !bCall.isDone() {
		s.failf("handover: close returned=%v, open returned=%v; neither may block", aCall.isDone(), bCall.isDone())
	}
	if st != statOK {
		s.failf("open(%s) of a referenced file returned status=%d", shareName(share), st)
	}
	if sz, ok := attrs.GetSizeBytes(); !ok || sz != uint64(len(s.content)) {
		s.failf("open reported size %d, model size %d", sz, len(s.content))
	}
	s.openW--
	s.acquire(share)
	froze, still := 0, 0
	for _, h := range waiting {
		s.checkPanic(holderTag(h), h.call)
		if holderFroze(h) {
			// Got the file between the close and the open.
			froze++
			s.afterFreeze(h)
		} else {
			still++
		}
	}
	s.advance()
	s.setRes("froze=%d waiting=%d", froze, still)
	if m1 := readMetrics(true); m0.known && m1.known {
		if d := int(m1.timeouts - m0.timeouts); d != 0 {
			s.failf("handover: %d upload(s)/frozen open(s) stopped waiting for writers WITH a writable descriptor open (timeouts counter) although no delay channel was closed: after the wake-up by the closing writer the new writer must make them wait again", d)
		}
		if d := int(m1.delays - m0.delays); d != froze {
			s.failf("handover: %d call(s) got the file after all writers were gone according to the code's delay histogram, the harness saw %d", d, froze)
		}
	}
	s.checkTimeouts()
	s.checkFrozenIntervals()

	s.label("handover_writer")
	s.label("handover_writer_" + mode + "_" + order)
	if froze > 0 {
		s.label("handover_writer_waiter_got_file")
	}
	if still > 0 {
		if aSeq.Load() < bSeq.Load() {
			s.label("handover_writer_recheck")
		} else {
			s.label("handover_writer_open_before_close")
		}
	}
}

const handoverRuleText = "same rig, model and actions as the poolfile sub-check (one pool-backed file per case, raw / FUSE / NFS decorated, testing/synctest) plus HANDOVER actions that start TWO calls before one synctest.Wait: (a) handover_unfreeze: the last holder keeping the file frozen lets go (frozen reader closed, or a CAS Put parked before/in the middle of/after reading is released) together with a new upload / frozen open, while 1-3 mutating calls (write, set-size, allocate, truncating open) are blocked behind the freeze; (b) handover_writer: the last writable descriptor is closed together with a new open-for-write while uploads / frozen opens wait for writers with their delay channel open. The order in which the two calls reach the file's lock is steered by rapid draws: spawn order, and optionally a chmod parked inside the default-attributes setter (i.e. holding the file's lock) behind which both calls queue up; GOMAXPROCS is 1 for five cases out of six so that the order is a function of the draws, otherwise the runtime decides. Oracle = validity predicate over all orders: (a) any subset of the blocked calls may have run before the new holder froze the file, the others must still be blocked; the file content must be explained by the calls that returned; the new holder's snapshot (bytes the fake CAS reads, digest, frozen reads) is the content after exactly those calls; no WriteAt/Truncate may reach the pool file between the instant a holder is known to be frozen and the instant its unfreeze is started (event stamps from one atomic counter); (b) each waiting call either got the file (snapshot = content) or still waits; the code's timeouts counter must not move (no delay channel was closed) and its delay histogram must count exactly the calls that got the file. All other oracles of the poolfile sub-check apply unchanged. NON-TRIVIAL: a woken waiter found its condition taken away again (a blocked mutator stayed blocked behind the NEW holder although the old one had let go before the new one froze, or a waiting upload kept waiting although the closing writer had returned before the new one opened). Distinct by script hash"

func TestC16HandoverWakeups(t *testing.T) {
	rec := simkit.NewRecorder(t, "C16", "handover", handoverRuleText)
	defaultProcs := runtime.GOMAXPROCS(0)
	defer runtime.GOMAXPROCS(defaultProcs)
	rapid.Check(t, func(rt *rapid.T) {
		procs := 1
		if rapid.IntRange(0, 5).Draw(rt, "multiP") == 0 {
			procs = defaultProcs
		}
		if runtime.GOMAXPROCS(0) != procs {
			runtime.GOMAXPROCS(procs)
		}
		var s *sim
		var pv, deadlock any
		func() {
			defer func() { deadlock = recover() }()
			synctest.Test(t, func(st *testing.T) {
				defer func() {
					pv = recover()
					if s != nil {
						s.cleanup()
					}
				}()
				s = newSim(rt, rec)
				s.handover = true
				s.check()
				rt.Repeat(s.actions())
				s.drain(rt)
			})
		}()
		if pv != nil {
			if f, ok := pv.(failure); ok {
				rt.Fatalf("%s", string(f))
			}
			panic(pv)
		}
		if deadlock != nil {
			b, _ := json.Marshal(s.script)
			rt.Fatalf("goroutines stayed blocked for ever after every reference was dropped and every park released: %v; wrap=%s; script=%s", deadlock, s.wrap, b)
		}
		labels := []string{"wrap_" + s.wrap}
		if procs == 1 {
			labels = append(labels, "procs_1")
		} else {
			labels = append(labels, "procs_multi")
		}
		keys := make([]string, 0, len(s.labels))
		for k := range s.labels {
			keys = append(keys, k)
		}
		sortStrings(keys)
		labels = append(labels, keys...)
		if !s.metricsBase.known {
			labels = append(labels, "metrics_probe_unavailable")
		}
		rec.Case(s.script, s.labels["handover_unfreeze_recheck"] || s.labels["handover_writer_recheck"], labels...)
	})
}

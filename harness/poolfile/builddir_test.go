package poolfile

import (
	"context"
	"fmt"
	"sort"
	"testing"
	"testing/synctest"

	"github.com/buildbarn/bb-remote-execution/pkg/builder"
	"github.com/buildbarn/bb-remote-execution/pkg/filesystem/pool"
	"github.com/buildbarn/bb-remote-execution/pkg/filesystem/virtual"
	"github.com/buildbarn/bb-storage/pkg/blobstore/buffer"
	"github.com/buildbarn/bb-storage/pkg/clock"
	"github.com/buildbarn/bb-storage/pkg/digest"
	"github.com/buildbarn/bb-storage/pkg/filesystem/path"
	"pgregory.net/rapid"

	"verif/harness/internal/simkit"
)

// Second sub-check: the same per-file model, but the files are created,
// linked, renamed over, removed and uploaded through the real build
// directory (builder.NewVirtualBuildDirectory over
// virtual.NewInMemoryPrepopulatedDirectory, hooks installed the way
// bb_worker does), so that the link counts come from real directory
// entries and uploads go through virtualBuildDirectory.UploadFile.

const bdRuleText = "rapid state machine over a real virtual build directory (InMemoryPrepopulatedDirectory + NewVirtualBuildDirectory.InstallHooks over an instrumented pool, FUSE or NFS handle allocator drawn per case) with up to 3 names and 3 files inside testing/synctest. Actions: create/open through VirtualOpenChild, VirtualLink, VirtualRemove / BuildDirectory.Remove, VirtualRename (also over an existing file), write/read/set-size/close on the opened leaves, BuildDirectory.UploadFile by name (parking/failing fake CAS, delay channel), release, close-delay, RemoveAllChildren; drain in drawn order. Oracle: per file the C16 reference model (directory entries + opened share bits + uploads; bytes): every pool file closed exactly once, exactly when its model count is 0, untouched afterwards; upload digest == digest of bytes the CAS read == content at freeze; writes block during uploads; uploads wait for writers / the delay channel; upload of a missing name fails without touching the CAS; directory and file locks free at every quiescence. NON-TRIVIAL: an upload overlapped an open writer, or a file's last reference was an upload. Distinct by script hash"

type casKey struct{}

// routerCAS is the single CAS the build directory knows; each upload
// carries its own fake CAS in the context.
type routerCAS struct{ *fakeCAS }

func (routerCAS) Put(ctx context.Context, d digest.Digest, b buffer.Buffer) error {
	c, ok := ctx.Value(casKey{}).(*fakeCAS)
	if !ok {
		b.Discard()
		panic("harness: CAS Put without routing information")
	}
	return c.Put(ctx, d, b)
}

var bdNames = []string{"a", "b", "c"}

type bdSim struct {
	*shared
	fp     *fakePool
	el     *fakeErrorLogger
	nfs    *virtual.NFSStatefulHandleAllocator
	root   virtual.PrepopulatedDirectory
	bd     builder.BuildDirectory
	names  map[string]*sim
	files  []*sim
	misses int
}

func (b *bdSim) failf(format string, a ...any) {
	(&sim{shared: b.shared}).failf(format, a...)
}

func (b *bdSim) add(st step) {
	b.script = append(b.script, st)
}

func (b *bdSim) setRes(format string, a ...any) {
	b.script[len(b.script)-1].Res = fmt.Sprintf(format, a...)
}

// sync runs a directory call that must not block.
func (b *bdSim) sync(what string, fn func()) {
	(&sim{shared: b.shared}).sync(what, fn)
}

func comp(n string) path.Component { return path.MustNewComponent(n) }

func newBdSim(rt *rapid.T, rec *simkit.Recorder) *bdSim {
	b := &bdSim{shared: newShared(rt, rec), fp: &fakePool{}, el: &fakeErrorLogger{}, names: map[string]*sim{}}
	b.fp.clock = b.clock
	b.wrap = rapid.SampledFrom([]string{"fuse", "nfs"}).Draw(rt, "wrap")
	var ha virtual.StatefulHandleAllocator
	if b.wrap == "fuse" {
		ha = virtual.NewFUSEHandleAllocator(&counterGenerator{})
	} else {
		b.nfs = virtual.NewNFSHandleAllocator(&counterGenerator{})
		ha = b.nfs
	}
	setter := func(requested virtual.AttributesMask, attributes *virtual.Attributes) {}
	symlinks := virtual.NewBaseSymlinkFactory(setter)
	b.root = virtual.NewInMemoryPrepopulatedDirectory(
		virtual.NewHandleAllocatingFileAllocator(
			virtual.NewPoolBackedFileAllocator(pool.EmptyFilePool, b.el, setter, virtual.NoNamedAttributesFactory),
			ha),
		symlinks, b.el, ha, sort.Sort, func(string) bool { return false }, clock.SystemClock,
		virtual.CaseSensitiveComponentNormalizer, setter, virtual.NoNamedAttributesFactory)
	b.bd = builder.NewVirtualBuildDirectory(b.root, nil, routerCAS{&fakeCAS{}}, symlinks, nil, ha, setter, clock.SystemClock)
	b.bd.InstallHooks(b.fp, b.el)
	b.metricsBase = readMetrics(false)
	b.add(step{Op: "newdir", S: b.wrap})
	return b
}

func (b *bdSim) linkedFiles() int {
	n := 0
	for _, f := range b.files {
		if f.links > 0 {
			n++
		}
	}
	return n
}

func (b *bdSim) check() {
	if free, known := virtual.VerifLockIsFree(b.root); !known || !free {
		b.failf("build directory lock: free=%v known=%v at quiescence", free, known)
	}
	if got := b.fp.count(); got != len(b.files) {
		b.failf("pool handed out %d files, model knows %d", got, len(b.files))
	}
	for _, f := range b.files {
		f.check()
	}
	if b.nfs != nil {
		if !b.nfs.VerifNFSHandlePoolLockIsFree() {
			b.failf("NFS handle pool lock held at quiescence")
		}
		_, stateful, _ := b.nfs.VerifNFSHandlePoolCounts()
		if stateful != b.linkedFiles() {
			b.failf("NFS handle pool resolves %d stateful leaves, %d files have directory entries", stateful, b.linkedFiles())
		}
	}
	// The directory must list exactly the model's names.
	_, leaves, err := b.root.LookupAllChildren()
	if err != nil {
		b.failf("LookupAllChildren: %v", err)
	}
	if len(leaves) != len(b.names) {
		b.failf("directory lists %d files, model has %d names", len(leaves), len(b.names))
	}
	for _, l := range leaves {
		f, ok := b.names[l.Name.String()]
		if !ok || virtual.Leaf(l.Child) != f.leaf {
			b.failf("directory entry %q does not point at the file the model expects", l.Name.String())
		}
	}
}

func (b *bdSim) newFile(leaf virtual.Leaf, share virtual.ShareMask) *sim {
	f := &sim{shared: b.shared, tag: len(b.files) + 1, leaf: leaf, el: b.el}
	if b.fp.count() != len(b.files)+1 {
		b.failf("creating a file asked the pool for %d files", b.fp.count()-len(b.files))
	}
	f.pf = b.fp.files[len(b.files)]
	f.links = 1
	f.content = []byte{}
	f.acquire(share)
	b.files = append(b.files, f)
	return f
}

func (b *bdSim) doCreate(name string, share virtual.ShareMask) {
	b.add(step{Op: "create", S: name + ":" + shareName(share)})
	var leaf virtual.Leaf
	var st virtual.Status
	var created, out virtual.Attributes
	b.sync("create", func() {
		leaf, _, _, st = b.root.VirtualOpenChild(context.Background(), comp(name), share, &created, nil, virtual.AttributesMaskSizeBytes, &out)
	})
	if _, exists := b.names[name]; exists {
		if st != virtual.StatusErrExist {
			b.failf("exclusive create of existing %q returned status=%d, want EEXIST", name, st)
		}
		b.setRes("exist")
		return
	}
	if st != statOK || leaf == nil {
		b.failf("create %q returned status=%d", name, st)
	}
	f := b.newFile(leaf, share)
	b.names[name] = f
	b.setRes("file %d", f.tag)
}

func (b *bdSim) doOpenExisting(name string, share virtual.ShareMask) {
	b.add(step{Op: "openname", S: name + ":" + shareName(share)})
	var leaf virtual.Leaf
	var st virtual.Status
	var out virtual.Attributes
	b.sync("open by name", func() {
		leaf, _, _, st = b.root.VirtualOpenChild(context.Background(), comp(name), share, nil, &virtual.OpenExistingOptions{}, virtual.AttributesMaskSizeBytes, &out)
	})
	f, exists := b.names[name]
	if !exists {
		if st != virtual.StatusErrNoEnt {
			b.failf("open of missing %q returned status=%d, want ENOENT", name, st)
		}
		b.setRes("noent")
		return
	}
	if st != statOK || leaf != f.leaf {
		b.failf("open of %q returned status=%d leaf-matches=%v", name, st, leaf == f.leaf)
	}
	if sz, ok := out.GetSizeBytes(); !ok || sz != uint64(len(f.content)) {
		b.failf("open of %q reported size %d, model %d", name, sz, len(f.content))
	}
	f.acquire(share)
	b.setRes("file %d", f.tag)
	f.advance()
}

func (b *bdSim) doLink(f *sim, name string) {
	b.add(step{Op: "linkname", F: f.tag, S: name})
	var st virtual.Status
	var out virtual.Attributes
	b.sync("link", func() {
		_, st = b.root.VirtualLink(context.Background(), comp(name), f.leaf, 0, &out)
	})
	switch {
	case b.names[name] != nil:
		if st != virtual.StatusErrExist {
			b.failf("link onto existing %q returned status=%d, want EEXIST", name, st)
		}
		b.setRes("exist")
	case f.links == 0:
		if st != virtual.StatusErrStale {
			b.failf("link of file %d, which has no directory entry left, returned status=%d, want ESTALE", f.tag, st)
		}
		if f.dead {
			b.labels["dead_probe_link"] = true
		}
		b.setRes("stale")
	default:
		if st != statOK {
			b.failf("link of file %d as %q returned status=%d", f.tag, name, st)
		}
		b.names[name] = f
		f.links++
		b.setRes("ok")
	}
	f.advance()
}

func (b *bdSim) unlinked(f *sim) {
	f.links--
	f.dropped("link")
	f.advance()
}

func (b *bdSim) doRemove(name string, viaBuildDirectory bool) {
	b.add(step{Op: "remove", S: fmt.Sprintf("%s bd=%v", name, viaBuildDirectory)})
	var st virtual.Status
	var err error
	b.sync("remove", func() {
		if viaBuildDirectory {
			err = b.bd.Remove(comp(name))
		} else {
			_, st = b.root.VirtualRemove(context.Background(), comp(name), false, true)
		}
	})
	f, exists := b.names[name]
	if !exists {
		if viaBuildDirectory && err == nil || !viaBuildDirectory && st != virtual.StatusErrNoEnt {
			b.failf("remove of missing %q returned status=%d err=%v", name, st, err)
		}
		b.setRes("noent")
		return
	}
	if st != statOK || err != nil {
		b.failf("remove of %q returned status=%d err=%v", name, st, err)
	}
	delete(b.names, name)
	b.unlinked(f)
}

func (b *bdSim) doRename(oldName, newName string) {
	b.add(step{Op: "rename", S: oldName + ">" + newName})
	var st virtual.Status
	b.sync("rename", func() {
		_, _, st = b.root.VirtualRename(context.Background(), comp(oldName), b.root, comp(newName))
	})
	f, exists := b.names[oldName]
	if !exists {
		if st != virtual.StatusErrNoEnt {
			b.failf("rename of missing %q returned status=%d, want ENOENT", oldName, st)
		}
		b.setRes("noent")
		return
	}
	if st != statOK {
		b.failf("rename %q -> %q returned status=%d", oldName, newName, st)
	}
	target := b.names[newName]
	if target == f {
		// POSIX: renaming a file onto another link to itself has no effect.
		b.setRes("same")
		f.advance()
		return
	}
	delete(b.names, oldName)
	b.names[newName] = f
	if target != nil {
		b.labels["rename_over_file"] = true
		b.unlinked(target)
	}
	f.advance()
}

func (b *bdSim) doRemoveAll() {
	b.add(step{Op: "removeall"})
	var err error
	b.sync("RemoveAllChildren", func() { err = b.root.RemoveAllChildren(false) })
	if err != nil {
		b.failf("RemoveAllChildren: %v", err)
	}
	var gone []*sim
	for _, n := range bdNames {
		if f, ok := b.names[n]; ok {
			gone = append(gone, f)
			delete(b.names, n)
		}
	}
	for _, f := range gone {
		b.unlinked(f)
	}
}

func (b *bdSim) doUpload(name string, plan casPlan, preClosed bool, fnIdx int) {
	f, exists := b.names[name]
	if !exists {
		b.add(step{Op: "uploadname", S: name})
		cas := newFakeCAS(plan)
		var err error
		var d digest.Digest
		b.sync("upload of a missing name", func() {
			d, err = b.bd.UploadFile(context.WithValue(context.Background(), casKey{}, cas), comp(name), b.fns[fnIdx], nil)
		})
		if putCalls, _ := cas.state(); err == nil || putCalls != 0 || d != digest.BadDigest {
			b.failf("upload of missing %q: digest=%s err=%v CAS Put calls=%d; want an error and nothing stored", name, d, err, putCalls)
		}
		b.setRes("noent")
		b.misses++
		return
	}
	at := len(b.script)
	f.doUploadVia(plan, preClosed, fnIdx, false, func(h *holder) {
		h.up.Digest, h.up.Err = b.bd.UploadFile(context.WithValue(context.Background(), casKey{}, h.cas), comp(name), b.fns[fnIdx], h.delay)
	})
	b.script[at].S = "name=" + name + " " + b.script[at].S
}

func (b *bdSim) pick(rt *rapid.T, pred func(f *sim) bool) *sim {
	var c []*sim
	for _, f := range b.files {
		if pred(f) {
			c = append(c, f)
		}
	}
	if len(c) == 0 {
		rt.Skip()
	}
	return c[rapid.IntRange(0, len(c)-1).Draw(rt, "file")]
}

func (b *bdSim) actions() map[string]func(*rapid.T) {
	name := rapid.SampledFrom(bdNames)
	shares := []virtual.ShareMask{shareWrite, shareRW, shareRead, shareWrite}
	drawData := rapid.SliceOfN(rapid.ByteRange(1, 255), 1, 5)
	create := func(rt *rapid.T) {
		if len(b.files) >= 3 {
			rt.Skip()
		}
		b.doCreate(name.Draw(rt, "name"), rapid.SampledFrom(shares).Draw(rt, "share"))
	}
	upload := func(rt *rapid.T) {
		n := name.Draw(rt, "name")
		if f := b.names[n]; f != nil && f.inFlightHolders() >= 2 {
			rt.Skip()
		}
		plan := casPlan{
			Park: rapid.SampledFrom([]string{"none", "before", "mid", "after", "before", "mid"}).Draw(rt, "park"),
			Fail: rapid.IntRange(0, 9).Draw(rt, "casfail") == 0,
		}
		b.doUpload(n, plan, rapid.IntRange(0, 3).Draw(rt, "delayClosed") == 0, rapid.SampledFrom([]int{0, 0, 1, 2}).Draw(rt, "fn"))
	}
	write := func(rt *rapid.T) {
		f := b.pick(rt, func(f *sim) bool { return !f.dead && f.openW > 0 && len(f.pending) < 2 })
		f.issue(&mutator{kind: "write", off: rapid.IntRange(0, 12).Draw(rt, "off"), data: drawData.Draw(rt, "data")}, "", 0)
	}
	return map[string]func(*rapid.T){
		"create":  create,
		"create2": create,
		"openname": func(rt *rapid.T) {
			n := name.Draw(rt, "name")
			if f := b.names[n]; f != nil && (f.openR >= 3 || f.openW >= 3) {
				rt.Skip()
			}
			b.doOpenExisting(n, rapid.SampledFrom(shares).Draw(rt, "share"))
		},
		"linkname": func(rt *rapid.T) {
			f := b.pick(rt, func(f *sim) bool { return true })
			b.doLink(f, name.Draw(rt, "name"))
		},
		"remove": func(rt *rapid.T) {
			b.doRemove(name.Draw(rt, "name"), rapid.Bool().Draw(rt, "viaBuildDirectory"))
		},
		"rename": func(rt *rapid.T) {
			b.doRename(name.Draw(rt, "old"), name.Draw(rt, "new"))
		},
		"removeall": func(rt *rapid.T) {
			if len(b.names) == 0 || rapid.IntRange(0, 3).Draw(rt, "rare") != 0 {
				rt.Skip()
			}
			b.doRemoveAll()
		},
		"write":  write,
		"write2": write,
		"setsize": func(rt *rapid.T) {
			// Only while nothing holds the file frozen: a blocked
			// path-based set-size whose file loses its last entry
			// meanwhile is outside what the generator may issue (see
			// the assumptions of C16).
			f := b.pick(rt, func(f *sim) bool { return !f.dead && f.realRefs() > 0 && f.frozen == 0 })
			f.issue(&mutator{kind: "setsize", size: rapid.IntRange(0, 12).Draw(rt, "size")}, "", 0)
		},
		"read": func(rt *rapid.T) {
			f := b.pick(rt, func(f *sim) bool { return !f.dead && f.openR > 0 })
			f.doRead(rapid.IntRange(0, len(f.content)+1).Draw(rt, "off"), rapid.IntRange(0, 8).Draw(rt, "len"), false)
		},
		"close": func(rt *rapid.T) {
			f := b.pick(rt, func(f *sim) bool { return !f.dead && len(f.closeOptions()) > 0 })
			f.doClose(rapid.SampledFrom(f.closeOptions()).Draw(rt, "mask"))
		},
		"upload":  upload,
		"upload2": upload,
		"closedelay": func(rt *rapid.T) {
			f := b.pick(rt, func(f *sim) bool {
				for _, h := range f.holders {
					if h.state == hWaiting && !h.delayClosed {
						return true
					}
				}
				return false
			})
			for _, h := range f.holders {
				if h.state == hWaiting && !h.delayClosed {
					f.doCloseDelay(h)
					return
				}
			}
		},
		"release": func(rt *rapid.T) {
			f := b.pick(rt, func(f *sim) bool {
				for _, h := range f.holders {
					if h.state == hFrozenParked || h.state == hConsumedParked {
						return true
					}
				}
				return false
			})
			var c []*holder
			for _, h := range f.holders {
				if h.state == hFrozenParked || h.state == hConsumedParked {
					c = append(c, h)
				}
			}
			f.doRelease(c[rapid.IntRange(0, len(c)-1).Draw(rt, "which")], false)
		},
		"": func(rt *rapid.T) { b.check() },
	}
}

func (b *bdSim) drain(rt *rapid.T) {
	for _, f := range b.files {
		f.draining = true
	}
	order := rapid.Permutation([]string{"names", "descriptors", "holders"}).Draw(rt, "drainOrder")
	for _, f := range b.files {
		if anyRef, _ := f.pendingNeeds(); anyRef {
			order = []string{"holders", "names", "descriptors"}
		}
	}
	viaAll := rapid.Bool().Draw(rt, "drainRemoveAll")
	b.add(step{Op: "drain", S: fmt.Sprint(order, " removeall=", viaAll)})
	alive := func() bool {
		for _, f := range b.files {
			if !f.dead || f.inFlightHolders() > 0 || len(f.pending) > 0 {
				return true
			}
		}
		return false
	}
	for round := 0; round < 3 && alive(); round++ {
		for _, what := range order {
			switch what {
			case "names":
				if viaAll && len(b.names) > 0 {
					b.doRemoveAll()
					b.check()
				}
				for _, n := range bdNames {
					if _, ok := b.names[n]; ok {
						b.doRemove(n, false)
						b.check()
					}
				}
			case "descriptors":
				for _, f := range b.files {
					for f.openR+f.openW > 0 {
						if f.openW > 0 {
							f.doClose(shareWrite)
						} else {
							f.doClose(shareRead)
						}
						b.check()
					}
				}
			case "holders":
				for _, f := range b.files {
					for f.inFlightHolders() > 0 {
						for _, h := range f.holders {
							if h.state == hWaiting {
								f.doCloseDelay(h)
								break
							}
							if h.state == hFrozenParked || h.state == hConsumedParked {
								f.doRelease(h, false)
								break
							}
						}
						b.check()
					}
				}
			}
		}
	}
	if alive() {
		b.failf("harness bug: drain left files alive")
	}
	for _, f := range b.files {
		b.doLink(f, "a")
		f.doOpen(shareRW)
	}
	b.doUpload("a", casPlan{Park: "none"}, false, 0)
	b.check()
}

func (b *bdSim) cleanup() {
	for _, f := range b.files {
		f.cleanup()
	}
}

func TestC16BuildDirectoryUpload(t *testing.T) {
	rec := simkit.NewRecorder(t, "C16", "builddir", bdRuleText)
	rapid.Check(t, func(rt *rapid.T) {
		var b *bdSim
		var pv, deadlock any
		func() {
			defer func() { deadlock = recover() }()
			synctest.Test(t, func(st *testing.T) {
				defer func() {
					pv = recover()
					if b != nil {
						b.cleanup()
					}
				}()
				b = newBdSim(rt, rec)
				b.check()
				rt.Repeat(b.actions())
				b.drain(rt)
			})
		}()
		if pv != nil {
			if f, ok := pv.(failure); ok {
				rt.Fatalf("%s", string(f))
			}
			panic(pv)
		}
		if deadlock != nil {
			rt.Fatalf("goroutines stayed blocked for ever after every reference was dropped and every park released: %v; wrap=%s; script=%+v", deadlock, b.wrap, b.script)
		}
		labels := []string{"wrap_" + b.wrap, fmt.Sprintf("files_%d", len(b.files))}
		lastByUpload := false
		for _, f := range b.files {
			labels = append(labels, "last_ref_"+f.lastRef)
			if f.lastRef == "upload" {
				lastByUpload = true
			}
		}
		if b.misses > 0 {
			labels = append(labels, "upload_missing_name")
		}
		keys := make([]string, 0, len(b.labels))
		for k := range b.labels {
			keys = append(keys, k)
		}
		sortStrings(keys)
		labels = append(labels, keys...)
		rec.Case(b.script, b.labels["upload_overlapped_writer"] || lastByUpload, dedup(labels)...)
	})
}

func dedup(a []string) []string {
	seen := map[string]bool{}
	var out []string
	for _, x := range a {
		if !seen[x] {
			seen[x] = true
			out = append(out, x)
		}
	}
	return out
}

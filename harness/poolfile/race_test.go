package poolfile

import (
	"bytes"
	"context"
	"encoding/hex"
	"encoding/json"
	"fmt"
	"runtime/debug"
	"sync"
	"testing"
	"testing/synctest"

	"github.com/buildbarn/bb-remote-execution/pkg/filesystem/pool"
	"github.com/buildbarn/bb-remote-execution/pkg/filesystem/virtual"
	"pgregory.net/rapid"

	"verif/harness/internal/simkit"
)

// Third sub-check: calls on the SAME inode that overlap the removal of its
// last directory entry. The FUSE and NFS stateful handle allocators keep the
// link count in front of the pool-backed file and forward Unlink() to it
// only when the count reaches zero; FUSE and NFS hold per-directory locks
// only, so link(2)/open(2) on the inode may run while that forwarded
// Unlink() is in progress. A forwarding leaf ("gate") between the decorator
// and the real fileBackedFile parks inside the forwarded Unlink(), before
// and/or after the real file processed it; while it is parked the harness
// issues Link / open / read / write / close / getattr / Unlink on the
// decorated leaf from other goroutines of the bubble.

const raceRuleText = "rapid state machine over ONE pool-backed file behind the FUSE or NFS stateful handle allocator (drawn per case) with a forwarding gate leaf between decorator and fileBackedFile that PARKS inside the forwarded Unlink() (before and/or after the real file released its link reference; drawn per unlink), inside testing/synctest. Actions: link, unlink(park plan), open(R/W/RW), close(mask), read, write, getattr, release-park; all of them also WHILE an unlink is parked. Oracle (linearizability against the C16 reference model, results drive the model): Link()==OK only if some order of the overlapping calls has link count > 0 and the storage was not released before; Link()==ESTALE only if some order has link count 0; open likewise against the reference count; link count attribute within [links - unlinks in flight, links]; at every quiescence the pool file is closed at most once, closed only if some order has reference count 0, open only if some order has it > 0, and never touched after Close; once released, every later link/open must fail with ESTALE; with no call in flight: closed iff links + descriptors == 0 and fileBackedFile counters == model; no call may panic or block. NON-TRIVIAL: a Link or open ran while the Unlink removing the last directory entry was parked. Distinct by script hash"

// gateLeaf forwards everything to the real leaf; Unlink can park.
type gateLeaf struct {
	virtual.LinkableLeaf

	mu       sync.Mutex
	nextPlan *gatePlan
	parks    []*gatePark
	forwards int
}

type gatePlan struct{ before, after bool }

type gatePark struct {
	stage   string // "before" or "after" the real Unlink()
	release chan struct{}
	active  bool
}

func (g *gateLeaf) park(stage string) {
	p := &gatePark{stage: stage, release: make(chan struct{}), active: true}
	g.mu.Lock()
	g.parks = append(g.parks, p)
	g.mu.Unlock()
	<-p.release
	g.mu.Lock()
	p.active = false
	g.mu.Unlock()
}

func (g *gateLeaf) Unlink() {
	g.mu.Lock()
	plan := g.nextPlan
	g.nextPlan = nil
	g.forwards++
	g.mu.Unlock()
	if plan != nil && plan.before {
		g.park("before")
	}
	g.LinkableLeaf.Unlink()
	if plan != nil && plan.after {
		g.park("after")
	}
}

func (g *gateLeaf) activeParks() []*gatePark {
	g.mu.Lock()
	defer g.mu.Unlock()
	var out []*gatePark
	for _, p := range g.parks {
		if p.active {
			out = append(out, p)
		}
	}
	return out
}

type gateAllocator struct {
	base virtual.FileAllocator
	gate *gateLeaf
}

func (a *gateAllocator) NewFile(holeSource pool.HoleSource, isExecutable bool, size uint64, shareAccess virtual.ShareMask) (virtual.LinkableLeaf, error) {
	leaf, err := a.base.NewFile(holeSource, isExecutable, size, shareAccess)
	if err != nil {
		return nil, err
	}
	a.gate = &gateLeaf{LinkableLeaf: leaf}
	return a.gate, nil
}

type raceUnlink struct {
	id   int
	call *acall
}

type raceSim struct {
	script []step
	wrap   string
	rec    *simkit.Recorder

	pf   *poolFile
	na   *fakeNamedAttributes
	gate *gateLeaf
	raw  virtual.Leaf // the real fileBackedFile
	leaf virtual.LinkableLeaf
	nfs  *virtual.NFSStatefulHandleAllocator

	// Model. links counts completed calls only; every unlink in flight
	// will take one more away at a moment the harness cannot see.
	links, openR, openW int
	inFlight            []*raceUnlink
	content             []byte
	released            bool // storage release observed (absorbing)
	linkZero            bool // link count 0 observed through ESTALE from Link (absorbing)
	nextID              int
	labels              map[string]bool
}

func (s *raceSim) failf(format string, a ...any) {
	b, _ := json.Marshal(s.script)
	panic(failure(fmt.Sprintf(format, a...) + fmt.Sprintf("; model: links=%d unlinksInFlight=%d R=%d W=%d released=%v; wrap=%s; script=%s", s.links, len(s.inFlight), s.openR, s.openW, s.released, s.wrap, b)))
}

func (s *raceSim) add(st step) { s.script = append(s.script, st) }
func (s *raceSim) setRes(format string, a ...any) {
	s.script[len(s.script)-1].Res = fmt.Sprintf(format, a...)
}

func spawnCall(fn func()) *acall {
	c := &acall{done: make(chan struct{})}
	go func() {
		defer close(c.done)
		defer func() {
			if r := recover(); r != nil {
				c.panicVal = r
				c.stack = string(debug.Stack())
			}
		}()
		fn()
	}()
	return c
}

// call runs something that must return without waiting for anything.
func (s *raceSim) call(what string, fn func()) {
	c := spawnCall(fn)
	synctest.Wait()
	if c.isDone() && c.panicVal != nil {
		s.failf("%s panicked: %v\n%s", what, c.panicVal, c.stack)
	}
	if !c.isDone() {
		s.failf("%s did not return (a parked Unlink() must not hold any lock other calls need)", what)
	}
}

func (s *raceSim) others() int   { return s.openR + s.openW }
func (s *raceSim) minLinks() int { return max(0, s.links-len(s.inFlight)) }
func (s *raceSim) minCount() int { return s.minLinks() + s.others() }
func (s *raceSim) maxCount() int { return s.links + s.others() }
func (s *raceSim) racing() bool  { return len(s.inFlight) > 0 && s.minLinks() == 0 }

// settle: completed unlinks are applied to the model, then the
// invariants that hold at every quiescent point are checked.
func (s *raceSim) settle() {
	var still []*raceUnlink
	for _, u := range s.inFlight {
		if u.call.isDone() {
			if u.call.panicVal != nil {
				s.failf("unlink#%d panicked: %v\n%s", u.id, u.call.panicVal, u.call.stack)
			}
			s.links--
			if s.links < 0 {
				s.failf("harness bug: negative link count")
			}
		} else {
			still = append(still, u)
		}
	}
	s.inFlight = still
	if len(still) != len(s.gate.activeParks()) {
		s.failf("%d unlink call(s) have not returned but %d are parked in the gate: an Unlink() is blocked somewhere else", len(still), len(s.gate.activeParks()))
	}

	data, closed, uac := s.pf.snapshot()
	if len(uac) > 0 {
		s.failf("pool file used after Close: %v", uac)
	}
	if closed > 1 {
		s.failf("pool file closed %d times", closed)
	}
	if rel := int(s.na.released.Load()); rel != closed {
		s.failf("named attributes released %d times, pool file closed %d times", rel, closed)
	}
	if closed == 1 {
		if s.minCount() > 0 {
			s.failf("backing storage was released although in every order of the overlapping calls the file still has %d reference(s) (directory entries=%d..%d, descriptors=%d)", s.minCount(), s.minLinks(), s.links, s.others())
		}
		s.released = true
	} else {
		if s.released {
			s.failf("harness bug: release observed earlier but Close count is 0")
		}
		if s.maxCount() == 0 {
			s.failf("backing storage was NOT released although no directory entry and no descriptor is left")
		}
		if !bytes.Equal(data, s.content) {
			s.failf("pool file holds %x, model content is %x", data, s.content)
		}
	}
	if len(s.inFlight) == 0 {
		// Nothing in flight: exact comparison.
		if (closed == 1) != (s.maxCount() == 0) {
			s.failf("no call in flight: pool file Close() count is %d, model reference count is %d", closed, s.maxCount())
		}
		if free, known := virtual.VerifLeafLockIsFree(s.raw); !known || !free {
			s.failf("file lock: free=%v known=%v with no call in flight", free, known)
		}
		refs, writers, frozen, known := virtual.VerifFileBackedFileState(s.raw)
		wantRefs := min(s.links, 1) + s.others()
		if !known || int(refs) != wantRefs || int(writers) != s.openW || frozen != 0 {
			s.failf("file counters refs=%d writers=%d frozen=%d (known=%v); model says refs=%d writers=%d", refs, writers, frozen, known, wantRefs, s.openW)
		}
		if s.nfs != nil {
			_, stateful, _ := s.nfs.VerifNFSHandlePoolCounts()
			if want := min(s.links, 1); stateful != want {
				s.failf("NFS handle pool resolves %d stateful leaves, want %d", stateful, want)
			}
		}
	}
	if s.nfs != nil && !s.nfs.VerifNFSHandlePoolLockIsFree() {
		s.failf("NFS handle pool lock held at quiescence")
	}
}

func (s *raceSim) doLink() {
	s.add(step{Op: "link"})
	racing := s.racing()
	var st virtual.Status
	s.call("link", func() { st = s.leaf.Link() })
	switch st {
	case statOK:
		if s.released {
			s.failf("Link() returned OK although the backing storage had already been released: a directory entry without storage")
		}
		if s.linkZero || s.links == 0 {
			s.failf("Link() returned OK although the link count had already reached 0")
		}
		s.links++
		s.setRes("ok")
		if racing {
			s.labels["race_link_ok"] = true
		}
	case virtual.StatusErrStale:
		if s.minLinks() > 0 {
			s.failf("Link() returned ESTALE although the file has at least %d directory entries in every order of the overlapping calls", s.minLinks())
		}
		s.linkZero = true
		s.setRes("stale")
		if racing {
			s.labels["race_link_estale"] = true
		}
	default:
		s.failf("Link() returned status=%d", st)
	}
	// A new entry must be backed by storage right now.
	s.settle()
}

func (s *raceSim) doUnlink(before, after bool) {
	u := &raceUnlink{id: s.nextID}
	s.nextID++
	s.add(step{Op: "unlink", ID: u.id, S: fmt.Sprintf("parkBefore=%v parkAfter=%v", before, after)})
	s.gate.mu.Lock()
	s.gate.nextPlan = &gatePlan{before: before, after: after}
	s.gate.mu.Unlock()
	u.call = spawnCall(func() { s.leaf.Unlink() })
	s.inFlight = append(s.inFlight, u)
	synctest.Wait()
	s.gate.mu.Lock()
	s.gate.nextPlan = nil // not forwarded: plan unused
	s.gate.mu.Unlock()
	s.settle()
	if u.call.isDone() {
		s.setRes("done")
	} else {
		s.setRes("parked")
		s.labels["unlink_parked"] = true
	}
}

func (s *raceSim) doRelease(p *gatePark) {
	s.add(step{Op: "release", S: p.stage})
	close(p.release)
	synctest.Wait()
	s.settle()
}

func (s *raceSim) doOpen(share virtual.ShareMask) {
	s.add(step{Op: "open", S: shareName(share)})
	racing := s.racing() && s.others() == 0
	var st virtual.Status
	var a virtual.Attributes
	s.call("open", func() {
		st = s.leaf.VirtualOpenSelf(context.Background(), share, &virtual.OpenExistingOptions{}, virtual.AttributesMaskSizeBytes, &a)
	})
	switch st {
	case statOK:
		if s.released {
			s.failf("open returned OK although the backing storage had already been released")
		}
		if s.maxCount() == 0 {
			s.failf("open returned OK on a file without references")
		}
		if sz, ok := a.GetSizeBytes(); !ok || sz != uint64(len(s.content)) {
			s.failf("open reported size %d, model size %d", sz, len(s.content))
		}
		if share&shareRead != 0 {
			s.openR++
		}
		if share&shareWrite != 0 {
			s.openW++
		}
		s.setRes("ok")
		if racing {
			s.labels["race_open_ok"] = true
		}
	case virtual.StatusErrStale:
		if s.minCount() > 0 {
			s.failf("open returned ESTALE although the file has at least %d reference(s) in every order of the overlapping calls", s.minCount())
		}
		if _, closed, _ := s.pf.snapshot(); closed != 1 {
			s.failf("open returned ESTALE but the backing storage has not been released")
		}
		s.released = true
		s.setRes("stale")
		if racing {
			s.labels["race_open_estale"] = true
		}
	default:
		s.failf("open returned status=%d", st)
	}
	s.settle()
}

func (s *raceSim) doClose(mask virtual.ShareMask) {
	s.add(step{Op: "close", S: shareName(mask)})
	if mask&shareRead != 0 {
		s.openR--
	}
	if mask&shareWrite != 0 {
		s.openW--
	}
	s.call("close", func() { s.leaf.VirtualClose(mask) })
	s.settle()
}

func (s *raceSim) doRead(off, n int) {
	s.add(step{Op: "read", Off: off, N: n})
	buf := make([]byte, n)
	var got int
	var vs virtual.Status
	s.call("read", func() { got, _, vs = s.leaf.VirtualRead(context.Background(), buf, uint64(off)) })
	var want []byte
	if off < len(s.content) {
		want = s.content[off:min(len(s.content), off+n)]
	}
	if vs != statOK || !bytes.Equal(buf[:max(got, 0)], want) {
		s.failf("read(off=%d,len=%d) through an open descriptor returned %x status=%d, model gives %x", off, n, buf[:max(got, 0)], vs, want)
	}
	s.settle()
}

func (s *raceSim) doWrite(off int, data []byte) {
	s.add(step{Op: "write", Off: off, S: hex.EncodeToString(data)})
	m := &mutator{kind: "write", off: off, data: data}
	s.content = applyMutator(s.content, m)
	var n int
	var vs virtual.Status
	s.call("write", func() { n, vs = s.leaf.VirtualWrite(context.Background(), data, uint64(off)) })
	if vs != statOK || n != len(data) {
		s.failf("write through an open descriptor returned n=%d status=%d", n, vs)
	}
	s.settle()
}

func (s *raceSim) doGetAttr() {
	s.add(step{Op: "getattr"})
	var a virtual.Attributes
	s.call("getattr", func() {
		s.leaf.VirtualGetAttributes(context.Background(), virtual.AttributesMaskLinkCount|virtual.AttributesMaskSizeBytes, &a)
	})
	lc := int(a.GetLinkCount())
	if lc < s.minLinks() || lc > s.links {
		s.failf("link count attribute is %d, model allows %d..%d", lc, s.minLinks(), s.links)
	}
	if sz, ok := a.GetSizeBytes(); !ok || sz != uint64(len(s.content)) {
		s.failf("size attribute %d, model %d", sz, len(s.content))
	}
	s.setRes("nlink=%d", lc)
	s.settle()
}

func (s *raceSim) actions() map[string]func(*rapid.T) {
	shares := []virtual.ShareMask{shareRead, shareWrite, shareRW}
	link := func(rt *rapid.T) {
		if s.links >= 3 {
			rt.Skip()
		}
		s.doLink()
	}
	unlink := func(rt *rapid.T) {
		// Never more unlinks than directory entries exist.
		if s.links-len(s.inFlight) <= 0 {
			rt.Skip()
		}
		plan := rapid.SampledFrom([][2]bool{{true, false}, {false, true}, {true, true}, {false, false}}).Draw(rt, "park")
		s.doUnlink(plan[0], plan[1])
	}
	release := func(rt *rapid.T) {
		ps := s.gate.activeParks()
		if len(ps) == 0 {
			rt.Skip()
		}
		s.doRelease(ps[rapid.IntRange(0, len(ps)-1).Draw(rt, "which")])
	}
	open := func(rt *rapid.T) {
		if s.openR >= 2 || s.openW >= 2 {
			rt.Skip()
		}
		s.doOpen(rapid.SampledFrom(shares).Draw(rt, "share"))
	}
	return map[string]func(*rapid.T){
		"link": link, "link2": link,
		"unlink": unlink, "unlink2": unlink,
		"release": release,
		"open":    open,
		"close": func(rt *rapid.T) {
			var opts []virtual.ShareMask
			for _, m := range shares {
				if (m&shareRead == 0 || s.openR > 0) && (m&shareWrite == 0 || s.openW > 0) {
					opts = append(opts, m)
				}
			}
			if len(opts) == 0 {
				rt.Skip()
			}
			s.doClose(rapid.SampledFrom(opts).Draw(rt, "mask"))
		},
		"read": func(rt *rapid.T) {
			if s.openR == 0 {
				rt.Skip()
			}
			s.doRead(rapid.IntRange(0, len(s.content)).Draw(rt, "off"), rapid.IntRange(0, 6).Draw(rt, "len"))
		},
		"write": func(rt *rapid.T) {
			if s.openW == 0 {
				rt.Skip()
			}
			s.doWrite(rapid.IntRange(0, 8).Draw(rt, "off"), rapid.SliceOfN(rapid.ByteRange(1, 255), 1, 4).Draw(rt, "data"))
		},
		"getattr": func(rt *rapid.T) {
			if s.maxCount() == 0 || s.released {
				rt.Skip()
			}
			s.doGetAttr()
		},
	}
}

func (s *raceSim) drain() {
	s.add(step{Op: "drain"})
	for guard := 0; guard < 60; guard++ {
		if ps := s.gate.activeParks(); len(ps) > 0 {
			s.doRelease(ps[0])
			continue
		}
		if s.openR+s.openW > 0 {
			if s.openW > 0 {
				s.doClose(shareWrite)
			} else {
				s.doClose(shareRead)
			}
			continue
		}
		if s.links > 0 {
			s.doUnlink(false, false)
			continue
		}
		break
	}
	if len(s.inFlight) > 0 || s.maxCount() != 0 {
		s.failf("harness bug: drain left references")
	}
	// The file is gone for good.
	s.doLink()
	s.doOpen(shareRW)
}

func (s *raceSim) cleanup() {
	if s.gate == nil {
		return
	}
	for _, p := range s.gate.activeParks() {
		close(p.release)
	}
}

func newRaceSim(rt *rapid.T, rec *simkit.Recorder) *raceSim {
	s := &raceSim{rec: rec, labels: map[string]bool{}}
	s.wrap = rapid.SampledFrom([]string{"fuse", "nfs"}).Draw(rt, "wrap")
	share := rapid.SampledFrom([]virtual.ShareMask{0, 0, shareRead, shareWrite, shareRW}).Draw(rt, "initialShare")
	fp := &fakePool{}
	s.na = &fakeNamedAttributes{}
	ga := &gateAllocator{base: virtual.NewPoolBackedFileAllocator(fp, &fakeErrorLogger{}, func(requested virtual.AttributesMask, attributes *virtual.Attributes) {}, &fakeNamedAttributesFactory{na: s.na})}
	var ha virtual.StatefulHandleAllocator
	if s.wrap == "fuse" {
		ha = virtual.NewFUSEHandleAllocator(&counterGenerator{})
	} else {
		s.nfs = virtual.NewNFSHandleAllocator(&counterGenerator{})
		ha = s.nfs
	}
	leaf, err := virtual.NewHandleAllocatingFileAllocator(ga, ha).NewFile(pool.ZeroHoleSource, false, 0, share)
	if err != nil {
		s.failf("NewFile: %v", err)
	}
	s.leaf = leaf
	s.gate = ga.gate
	s.raw = ga.gate.LinkableLeaf
	s.pf = fp.files[0]
	s.links = 1
	s.content = []byte{}
	if share&shareRead != 0 {
		s.openR++
	}
	if share&shareWrite != 0 {
		s.openW++
	}
	s.add(step{Op: "new", S: shareName(share)})
	return s
}

func TestC16LinkRacesLastUnlink(t *testing.T) {
	rec := simkit.NewRecorder(t, "C16", "linkrace", raceRuleText)
	rapid.Check(t, func(rt *rapid.T) {
		var s *raceSim
		var pv, deadlock any
		func() {
			defer func() { deadlock = recover() }()
			synctest.Test(t, func(st *testing.T) {
				defer func() {
					pv = recover()
					if s != nil {
						s.cleanup()
					}
				}()
				s = newRaceSim(rt, rec)
				s.settle()
				rt.Repeat(s.actions())
				s.drain()
			})
		}()
		if pv != nil {
			if f, ok := pv.(failure); ok {
				rt.Fatalf("%s", string(f))
			}
			panic(pv)
		}
		if deadlock != nil {
			b, _ := json.Marshal(s.script)
			rt.Fatalf("goroutines stayed blocked for ever: %v; wrap=%s; script=%s", deadlock, s.wrap, b)
		}
		labels := []string{"wrap_" + s.wrap}
		keys := make([]string, 0, len(s.labels))
		for k := range s.labels {
			keys = append(keys, k)
		}
		sortStrings(keys)
		labels = append(labels, keys...)
		nontrivial := s.labels["race_link_ok"] || s.labels["race_link_estale"] || s.labels["race_open_ok"] || s.labels["race_open_estale"]
		rec.Case(s.script, nontrivial, labels...)
	})
}

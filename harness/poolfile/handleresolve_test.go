package poolfile

// C14, nfs_handle_allocator.go: resolving file handles. ResolveHandle() looks
// the handle up under the handle pool's lock and, for handles that belong to
// a resolvable allocator, calls the registered HandleResolver. The resolvers
// in this repository re-create the object through the factory that made it
// (resolvableHandleAllocatingCASFileFactory.resolve() -> LookupFile() ->
// AsResolvableAllocator(), which takes the pool's lock exclusively;
// handleAllocatingCharacterDeviceFactory.resolve()), so the call only
// terminates if the pool's lock has been released before the resolver runs,
// on every path.

import (
	"bytes"
	"context"
	"encoding/json"
	"fmt"
	"os"
	"runtime"
	"strings"
	"sync/atomic"
	"testing"

	remoteexecution "github.com/bazelbuild/remote-apis/build/bazel/remote/execution/v2"
	"github.com/buildbarn/bb-remote-execution/pkg/filesystem/virtual"
	"github.com/buildbarn/bb-storage/pkg/digest"
	"github.com/buildbarn/bb-storage/pkg/filesystem"
	"github.com/buildbarn/bb-storage/pkg/random"
	"pgregory.net/rapid"

	"verif/harness/internal/simkit"
)

type hrStep struct {
	Op     string `json:"op"`
	Arg    string `json:"arg,omitempty"`
	Handle int    `json:"handle,omitempty"`
	Mangle string `json:"mangle,omitempty"`
	Out    string `json:"out,omitempty"`
}

const handleResolveRule = "rapid state machine over ONE real NFSStatefulHandleAllocator with the real factories on top of it: NewResolvableHandleAllocatingCASFileFactory (over NewBlobAccessCASFileFactory), NewHandleAllocatingCharacterDeviceFactory, and stateless linkable leaves (NewStatelessHandleAllocatingCASFileFactory's allocator shape). Actions: look up a CAS file (8 digests x executable bit) through the resolvable factory, a character device (major/minor from small ranges), a stateless leaf; take the NFS file handle of any object made so far (VirtualGetAttributes); ResolveHandle() of a recorded handle, intact, truncated, extended or with one byte flipped; Unlink() of a stateless leaf (its handle becomes stale). ORACLE (C14): every call returns, and after it the handle pool's lock is free - the next allocation that needs the lock exclusively (AsStatelessAllocator / AsResolvableAllocator) returns as well; an intact handle of a CAS file or character device resolves with StatusOK to a leaf that reports the same handle. A call that does not return is judged by a stall watchdog (no step completed during 20 one-second ticks that arrived on time) whose goroutine dump must show the step blocked in sync.RWMutex inside nfs_handle_allocator.go - otherwise the run is inconclusive, not a violation. NON-TRIVIAL: a handle routed to a resolver was resolved. Distinct by script hash."

func hrFileHandle(l virtual.Leaf) []byte {
	var a virtual.Attributes
	l.VirtualGetAttributes(context.Background(), virtual.AttributesMaskFileHandle, &a)
	return append([]byte(nil), a.GetFileHandle()...)
}

func TestC14NFSHandleResolveTerminates(t *testing.T) {
	rec := simkit.NewRecorder(t, "C14", "nfs_handle_resolve", handleResolveRule)
	var progress atomic.Uint64
	var current atomic.Value // description of the step in flight
	current.Store("")
	stop := simkit.StallWatchdog(&progress, 20, func() {
		buf := make([]byte, 1<<20)
		buf = buf[:runtime.Stack(buf, true)]
		dump := string(buf)
		blocked := false
		for _, g := range strings.Split(dump, "\n\n") {
			if strings.Contains(g, "sync.(*RWMutex)") && strings.Contains(g, "nfs_handle_allocator.go") && strings.Contains(g, "handleresolve_test.go") {
				blocked = true
			}
		}
		if blocked {
			fmt.Printf("VERIF-VIOLATION property=C14 the call %s did not return: it waits for the handle pool's lock, which this call or the step before it took and never released (no step completed during 20 s in which this process had the CPU)\n%s\n", current.Load(), dump)
			os.Exit(1)
		}
		fmt.Printf("VERIF-INCONCLUSIVE: no progress during step %s, but no goroutine is blocked on the handle pool's lock\n%s\n", current.Load(), dump)
		os.Exit(3)
	})
	defer stop()

	rapid.Check(t, func(rt *rapid.T) {
		alloc := virtual.NewNFSHandleAllocator(random.NewFastSingleThreadedGenerator())
		base := virtual.NewBlobAccessCASFileFactory(context.Background(), nil, nil)
		resolvable := virtual.NewResolvableHandleAllocatingCASFileFactory(base, alloc.New())
		devices := virtual.NewHandleAllocatingCharacterDeviceFactory(virtual.BaseCharacterDeviceFactory, alloc.New())
		stateless := alloc.New().AsStatelessAllocator()

		type object struct {
			kind   string
			leaf   virtual.LinkableLeaf
			handle []byte
			stale  bool
		}
		var objects []*object
		var script []hrStep
		resolvedViaResolver := false
		var labels []string

		step := func(s hrStep, f func() string) {
			b, _ := json.Marshal(s)
			current.Store(string(b))
			s.Out = f()
			script = append(script, s)
			progress.Add(1)
			// The pool's lock must be free again.
			current.Store(string(b) + " / lock probe after it")
			alloc.New().AsStatelessAllocator()
			progress.Add(1)
		}

		n := rapid.IntRange(2, 14).Draw(rt, "steps")
		for i := 0; i < n; i++ {
			switch op := rapid.SampledFrom([]string{"casfile", "casfile", "chardev", "statelessleaf", "resolve", "resolve", "resolve", "unlink"}).Draw(rt, "op"); op {
			case "casfile":
				k := rapid.IntRange(0, 7).Draw(rt, "digest")
				exec := rapid.Bool().Draw(rt, "executable")
				d := digest.MustNewDigest("main", remoteexecution.DigestFunction_SHA256, fmt.Sprintf("%064x", k+1), int64(k))
				step(hrStep{Op: op, Arg: fmt.Sprintf("%d/%v", k, exec)}, func() string {
					l := resolvable.LookupFile(d, exec, nil)
					objects = append(objects, &object{kind: "casfile", leaf: l, handle: hrFileHandle(l)})
					return "ok"
				})
			case "chardev":
				major := uint32(rapid.SampledFrom([]int{0, 1, 5, 255, 1 << 20}).Draw(rt, "major"))
				minor := uint32(rapid.SampledFrom([]int{0, 3, 200, 1 << 20}).Draw(rt, "minor"))
				step(hrStep{Op: op, Arg: fmt.Sprintf("%d:%d", major, minor)}, func() string {
					l := devices.LookupCharacterDevice(filesystem.NewDeviceNumberFromMajorMinor(major, minor))
					objects = append(objects, &object{kind: "chardev", leaf: l, handle: hrFileHandle(l)})
					return "ok"
				})
			case "statelessleaf":
				k := rapid.IntRange(0, 3).Draw(rt, "id")
				d := digest.MustNewDigest("main", remoteexecution.DigestFunction_SHA256, fmt.Sprintf("%064x", 100+k), int64(k))
				step(hrStep{Op: op, Arg: fmt.Sprint(k)}, func() string {
					l := stateless.New(bytes.NewBuffer([]byte{byte(k)})).AsLinkableLeaf(base.LookupFile(d, false, nil))
					objects = append(objects, &object{kind: "statelessleaf", leaf: l, handle: hrFileHandle(l)})
					return "ok"
				})
			case "unlink":
				var cands []int
				for j, o := range objects {
					if o.kind == "statelessleaf" && !o.stale {
						cands = append(cands, j)
					}
				}
				if len(cands) == 0 {
					continue
				}
				j := cands[rapid.IntRange(0, len(cands)-1).Draw(rt, "object")]
				step(hrStep{Op: op, Handle: j}, func() string {
					objects[j].leaf.Unlink()
					// Other objects made from the same identifier share the leaf.
					for _, o := range objects {
						if o.kind == "statelessleaf" && bytes.Equal(o.handle, objects[j].handle) {
							o.stale = true
						}
					}
					return "ok"
				})
			case "resolve":
				if len(objects) == 0 {
					continue
				}
				j := rapid.IntRange(0, len(objects)-1).Draw(rt, "object")
				o := objects[j]
				mangle := rapid.SampledFrom([]string{"", "", "", "truncate", "extend", "flip"}).Draw(rt, "mangle")
				h := append([]byte(nil), o.handle...)
				switch mangle {
				case "truncate":
					h = h[:rapid.IntRange(0, len(h)).Draw(rt, "keep")]
				case "extend":
					h = append(h, byte(rapid.IntRange(0, 255).Draw(rt, "extra")))
				case "flip":
					if len(h) > 0 {
						h[rapid.IntRange(0, len(h)-1).Draw(rt, "at")] ^= byte(1 << rapid.IntRange(0, 7).Draw(rt, "bit"))
					}
				}
				step(hrStep{Op: op, Handle: j, Mangle: mangle}, func() string {
					child, st := alloc.ResolveHandle(bytes.NewBuffer(h))
					if mangle == "" && (o.kind == "casfile" || o.kind == "chardev") {
						resolvedViaResolver = true
						if st != virtual.StatusOK {
							rt.Fatalf("C14/handle resolution: intact handle of %s #%d resolved with status %v; script=%s", o.kind, j, st, mustJSON(script))
						}
						_, leaf := child.GetPair()
						if leaf == nil || !bytes.Equal(hrFileHandle(leaf), o.handle) {
							rt.Fatalf("C14/handle resolution: intact handle of %s #%d resolved to another object; script=%s", o.kind, j, mustJSON(script))
						}
					}
					return fmt.Sprint(st)
				})
				labels = append(labels, "resolve_"+o.kind+"_"+mangle)
			}
		}
		rec.Case(script, resolvedViaResolver, labels...)
	})
}

func mustJSON(v any) string {
	b, _ := json.Marshal(v)
	return string(b)
}
